//! Wallets behind the repository's own lifecycle provider (`DefaultLCProvider` +
//! `DefaultWalletImpl`) over the harness `DirectClient`: what the owner listener (C13) and
//! `api::Owner` (C14) run on in production. Seeds are deterministic mnemonics.

use crate::impls::{DefaultLCProvider, DefaultWalletImpl};
use crate::keychain::ExtKeychain;
use crate::libwallet::{Error, WalletInst};
use crate::node::{DirectClient, Node};
use crate::util::secp::key::SecretKey;
use crate::util::{Mutex, ZeroingString};
use crate::world::{
	mnemonic_for, project_context, project_output, project_tx, Backend, ProjOpts, Snapshot,
};
use serde_json::{json, Value};
use std::path::Path;
use std::sync::Arc;

pub type DLC = DefaultLCProvider<'static, DirectClient, ExtKeychain>;
pub type DInst = Arc<Mutex<Box<dyn WalletInst<'static, DLC, DirectClient, ExtKeychain>>>>;

pub const PASSWORD: &str = "gwv-password";

/// a closed wallet instance whose top-level directory is `top_dir`
pub fn new_inst(top_dir: &str, node: &Arc<Node>) -> DInst {
	let client = DirectClient::new(node.clone());
	let mut wallet = Box::new(DefaultWalletImpl::<'static, DirectClient>::new(client).unwrap())
		as Box<dyn WalletInst<'static, DLC, DirectClient, ExtKeychain>>;
	wallet
		.lc_provider()
		.unwrap()
		.set_top_level_directory(top_dir)
		.unwrap();
	Arc::new(Mutex::new(wallet))
}

/// write seed file + empty store for the deterministic seed `seed_name`
pub fn create(inst: &DInst, seed_name: &str) {
	let mut l = inst.lock();
	let lc = l.lc_provider().unwrap();
	lc.create_wallet(
		None,
		Some(ZeroingString::from(mnemonic_for(seed_name))),
		32,
		ZeroingString::from(PASSWORD),
		false,
	)
	.unwrap();
}

pub fn open(inst: &DInst, mask: bool) -> Result<Option<SecretKey>, Error> {
	let mut l = inst.lock();
	let lc = l.lc_provider()?;
	lc.open_wallet(None, ZeroingString::from(PASSWORD), mask, false)
}

pub fn close(inst: &DInst) -> Result<(), Error> {
	let mut l = inst.lock();
	let lc = l.lc_provider()?;
	lc.close_wallet(None)
}

pub fn is_open(inst: &DInst) -> bool {
	let mut l = inst.lock();
	let lc = l.lc_provider().unwrap();
	lc.wallet_inst().is_ok()
}

/// run f on the open backend under the wallet lock; None when the wallet is closed
pub fn with<R>(inst: &DInst, f: impl FnOnce(&mut Backend) -> R) -> Option<R> {
	let mut l = inst.lock();
	let lc = l.lc_provider().unwrap();
	match lc.wallet_inst() {
		Ok(w) => Some(f(&mut **w)),
		Err(_) => None,
	}
}

/// Canonical, random-free projection of the stored state behind an open backend
/// (same fields as `world::project_wallet`). `mask` is only used to read stored contexts.
pub fn project_backend(
	b: &mut Backend,
	data_dir: &str,
	mask: Option<&SecretKey>,
	opts: &ProjOpts,
) -> Value {
	let mut outs: Vec<_> = b.iter().collect();
	outs.sort_by_key(|o| (o.key_id.to_bip_32_string(), o.mmr_index));
	let mut txs: Vec<_> = b.tx_log_iter().collect();
	txs.sort_by_key(|t| (t.parent_key_id.to_bip_32_string(), t.id));
	let mut accts: Vec<_> = b.acct_path_iter().map(|m| (m.label, m.path)).collect();
	accts.sort_by_key(|a| a.1.to_bip_32_string());
	let mut acct_v = vec![];
	let saved = b.parent_key_id();
	for (label, path) in accts.iter() {
		let idx = b.current_child_index(path).unwrap();
		b.set_parent_key_id(path.clone());
		let lch = b.last_confirmed_height().unwrap();
		let logid = {
			let mut batch = b.batch_no_mask().unwrap();
			batch.next_tx_log_id(path).unwrap()
			// dropped without commit
		};
		let mut a = json!({"label": label, "path": path.to_bip_32_string(), "child_index": idx, "next_log_id": logid});
		if opts.heights {
			a["last_confirmed_height"] = json!(lch);
		}
		acct_v.push(a);
	}
	b.set_parent_key_id(saved);
	let mut ctxs = vec![];
	for (i, id) in opts.slots.iter().enumerate() {
		if let Ok(c) = b.get_private_context(mask, id.as_bytes()) {
			ctxs.push(json!({"slot": i, "ctx": project_context(&c)}));
		}
	}
	let tx_v: Vec<Value> = txs
		.iter()
		.map(|t| {
			let stored = t
				.stored_tx
				.as_ref()
				.map(|f| Path::new(data_dir).join("saved_txs").join(f).exists());
			project_tx(t, opts, stored)
		})
		.collect();
	let init = format!("{:?}", b.init_status().unwrap());
	let scanned = b.last_scanned_block().unwrap().height;
	let mut v = json!({
		"outputs": outs.iter().map(|o| project_output(o, opts)).collect::<Vec<_>>(),
		"txs": tx_v,
		"accounts": acct_v,
		"contexts": ctxs,
		"init": init,
	});
	if opts.heights {
		v["scanned"] = json!(scanned);
	}
	v
}

/// hash of every file (name + bytes) under a directory, LMDB lock files excluded.
/// Byte-exact: any committed LMDB transaction changes it.
pub fn dir_hash(dir: &str) -> u64 {
	use std::hash::{Hash, Hasher};
	let s = Snapshot::capture(dir);
	let mut h = std::collections::hash_map::DefaultHasher::new();
	for (p, d) in s.files.iter() {
		p.hash(&mut h);
		d.hash(&mut h);
	}
	h.finish()
}

/// Mine one block on the node whose reward goes to the (open) wallet `inst`,
/// including the valid part of the mempool (same calls as `World::mine`).
pub fn mine_to(inst: &DInst, node: &Arc<Node>, mask: Option<&SecretKey>) -> Result<(), Error> {
	let txs = node.take_mempool();
	let prev = node.head_header();
	let fees = txs.iter().map(|t| t.fee()).sum();
	let bf = crate::libwallet::BlockFees {
		fees,
		key_id: None,
		height: prev.height + 1,
	};
	let cb = match with(inst, |b| {
		crate::libwallet::api_impl::foreign::build_coinbase(b, mask, &bf, false)
	}) {
		Some(r) => r?,
		None => return Err(Error::Lifecycle("wallet closed".into())),
	};
	let block = node.build_block(&prev, &txs, (cb.output, cb.kernel));
	node.process(block)
		.map_err(|e| Error::GenericError(format!("process_block: {}", e)))?;
	Ok(())
}
