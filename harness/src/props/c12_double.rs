//! C12 part (e): one initiation answered twice. A wallet that initiated an exchange (send or invoice)
//! receives two DIFFERENT valid replies (from two counterparties) and is asked to finalize both, in
//! every order, with and without a restart in between. Its signing nonce is single-use: either the
//! second finalization is refused, or — if both succeed — the two transactions must not carry the
//! same public nonce from it.

use crate::libwallet::{IssueInvoiceTxArgs, Slate};
use crate::world::*;
use serde_json::{json, Value};

const G: u64 = 1_000_000_000;

fn base(dir: &str) {
	let w = World::create(dir, &[("A", "A"), ("B", "B"), ("M", "M")]);
	w.mine_n("A", 3);
	w.mine_n("B", 2);
	w.mine_n("M", 5);
	for n in ["A", "B", "M"].iter() {
		w.w(n).refresh().unwrap();
	}
	w.close();
}

#[derive(Clone, Debug, Serialize, Deserialize)]
pub struct Case {
	pub invoice: bool,
	pub late_lock: bool,
	pub swap: bool,
	pub restart: bool,
}

fn nonce_of(s: &Slate, first: &Slate) -> Option<String> {
	// the initiator's participant entry is the one already present in what it sent out
	let mine = first.participant_data.get(0)?;
	s.participant_data
		.iter()
		.find(|p| p.public_blind_excess == mine.public_blind_excess)
		.map(|p| format!("{:?}", p.public_nonce))
}

pub fn run_case(dir: &str, snap: &Snapshot, c: &Case) -> Result<String, (String, String)> {
	snap.restore(dir);
	let mut w = World::open(dir);
	let r = (|| -> Result<String, (String, String)> {
		let e = |x: crate::libwallet::Error| ("setup".to_owned(), format!("{}", x));
		let (first, r1, r2): (Slate, Slate, Slate) = {
			let a = w.w("A");
			let b = w.w("B");
			let m = w.w("M");
			if c.invoice {
				let i1 = a.issue_invoice(IssueInvoiceTxArgs { amount: 2 * G, ..Default::default() }).map_err(e)?;
				let x = b.process_invoice(&i1, default_args(0)).map_err(e)?;
				b.lock(&x).map_err(e)?;
				let y = m.process_invoice(&i1, default_args(0)).map_err(e)?;
				m.lock(&y).map_err(e)?;
				(i1, x, y)
			} else {
				let mut args = default_args(2 * G);
				args.late_lock = Some(c.late_lock);
				let s1 = a.init_send(args).map_err(e)?;
				if !c.late_lock {
					a.lock(&s1).map_err(e)?;
				}
				let x = b.receive(&s1, None).map_err(e)?;
				let y = m.receive(&s1, None).map_err(e)?;
				(s1, x, y)
			}
		};
		let (r1, r2) = if c.swap { (r2, r1) } else { (r1, r2) };
		let fin = |w: &World, s: &Slate| {
			let a = w.w("A");
			catch(|| if c.invoice { a.foreign_finalize(s, false) } else { a.finalize(s) })
		};
		let f1 = match fin(&w, &r1) {
			Ok(Ok(s)) => s,
			Ok(Err(x)) => return Err(("setup".into(), format!("first finalize refused: {}", x))),
			Err(p) => return Err(("C12/panic/double-answer".into(), p)),
		};
		if c.restart {
			w.reopen_wallet("A");
		}
		match fin(&w, &r2) {
			Ok(Err(_)) => Ok("second-refused".into()),
			Err(p) => Err(("C12/panic/double-answer".into(), p)),
			Ok(Ok(f2)) => {
				let n1 = nonce_of(&f1, &first);
				let n2 = nonce_of(&f2, &first);
				let k1 = f1.tx.as_ref().map(|t| format!("{:?}", t.kernels()[0].excess_sig));
				let k2 = f2.tx.as_ref().map(|t| format!("{:?}", t.kernels()[0].excess_sig));
				if n1.is_some() && n1 == n2 && k1 != k2 {
					Err((
						format!("C12/nonce-reuse/two-replies-finalized/{}", if c.invoice { "invoice" } else if c.late_lock { "late-locked-send" } else { "send" }),
						format!("the initiator finalized two different replies to one initiation: both transactions carry its public nonce {} under different signatures (its secret excess and nonce can be solved from them)", n1.unwrap()),
					))
				} else {
					Ok("second-accepted-fresh-nonce".into())
				}
			}
		}
	})();
	w.close();
	r
}

pub fn cases() -> Vec<Case> {
	let mut v = vec![];
	for (invoice, late) in [(false, false), (false, true), (true, false)].iter() {
		for swap in [false, true].iter() {
			for restart in [false, true].iter() {
				v.push(Case { invoice: *invoice, late_lock: *late, swap: *swap, restart: *restart });
			}
		}
	}
	v
}

/// returns (cases run, outcome histogram, problems)
pub fn run_all(root: &str) -> (u64, std::collections::BTreeMap<String, u64>, Vec<(String, String, Value)>, Option<String>) {
	let based = format!("{}/c12e-base", root);
	base(&based);
	let snap = Snapshot::capture(&based);
	let cs = cases();
	let res = crate::common::par_map(&cs, crate::common::workers(), |i, c| {
		let dir = format!("{}/c12e-{}", root, i);
		let r = run_case(&dir, &snap, c);
		let r = match r {
			Err((k, w)) if k != "setup" => {
				// replay twice
				let mut same = true;
				for _ in 0..2 {
					match run_case(&dir, &snap, c) {
						Err((k2, _)) if k2 == k => {}
						_ => same = false,
					}
				}
				if same { Err((k, w)) } else { Err(("nondeterministic".into(), format!("{} did not reproduce", k))) }
			}
			x => x,
		};
		let _ = std::fs::remove_dir_all(&dir);
		r
	});
	let mut hist = std::collections::BTreeMap::new();
	let mut problems = vec![];
	let mut mach = None;
	for (c, r) in cs.iter().zip(res.into_iter()) {
		match r {
			Ok(l) => *hist.entry(l).or_insert(0) += 1,
			Err((k, w)) if k == "setup" || k == "nondeterministic" => mach = Some(format!("double-answer case {:?}: {} {}", c, k, w)),
			Err((k, w)) => {
				*hist.entry("violation".into()).or_insert(0) += 1;
				problems.push((k, format!("{} — case {:?}", w, c), json!({"kind": "double-answer", "case": c})));
			}
		}
	}
	(cs.len() as u64, hist, problems, mach)
}
