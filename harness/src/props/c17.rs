//! C17 — expired slates are refused and expired pending transactions are released.
//! Exhaustive parameter sweep: cutoff ∈ {0, 1, h−1, h, h+1, u64::MAX} × protocol step ×
//! {fresh, stale} observed height × other pending txs; and refresh sweep: pending
//! sent/received transactions with cutoffs around the tip × tip ∈ {c−1, c, c+1}.

use crate::common::*;
use crate::libwallet::{IssueInvoiceTxArgs, OutputStatus, Slate, TxLogEntryType};
use crate::world::*;
use serde_json::{json, Value};
use std::collections::BTreeMap;

const G: u64 = 1_000_000_000;

#[derive(Clone, Copy, Debug, PartialEq, Serialize, Deserialize)]
enum Step {
	ReceiveTx,
	ProcessInvoice,
	FinalizeOwner,
	FinalizeForeign,
}

#[derive(Clone, Copy, Debug, PartialEq, Serialize, Deserialize)]
enum Cut {
	Zero,
	One,
	HMinus1,
	H,
	HPlus1,
	Max,
}

#[derive(Clone, Debug, Serialize, Deserialize)]
struct Case {
	step: Step,
	cut: Cut,
	/// blocks mined after the wallet under test last refreshed (not observed by it)
	stale: u64,
	others: u32,
	/// the step's own arguments ask for a fresh TTL (ttl_blocks = 5) on top of the incoming cutoff
	#[serde(default)]
	own_ttl: bool,
	/// the blocks mined since the last full refresh have been observed through an output refresh
	/// only (a fee estimate), which advances the height the wallet reports but scans nothing
	#[serde(default)]
	observed_by_estimate: bool,
	/// after the wallet has observed its height, the node it talks to reports a tip below the
	/// cutoff (re-syncing / lagging node) and the wallet looks at it once: what it has already
	/// observed must not be forgotten
	#[serde(default)]
	node_fell_back: bool,
}

#[derive(Clone, Debug, Serialize, Deserialize)]
struct RCase {
	/// ttl_blocks given at init (None = no cutoff)
	ttl_blocks: Option<u64>,
	/// blocks mined before the refresh
	mined: u64,
	/// role of the wallet that refreshes
	sender_side: bool,
	others: u32,
	/// an OLDER pending transaction with a far later cutoff exists (cutoffs not monotone in creation order)
	#[serde(default)]
	older_far: bool,
	/// the target is a late-locked send finalized this many blocks after its initiation
	/// (the log entry, with its cutoff, is only written at finalization)
	#[serde(default)]
	late_lock_gap: Option<u64>,
	/// the target is finalized and posted before the blocks are mined (1: with change, 2: exact amount,
	/// no change output): it is on chain, not yet seen confirmed, when the refresh runs at or past its cutoff
	#[serde(default)]
	posted: u8,
	/// a second account holds a pending send without a cutoff whose log id equals the target's
	/// (log ids are counted per account; the base world gives both accounts the same number of entries)
	#[serde(default)]
	other_acct: bool,
	/// the target is finalized (not posted) with a reply whose cutoff field the counterparty changed:
	/// 1 = removed (0), 2 = far later, 3 = one block earlier than agreed. The field is covered by no signature;
	/// the sender's own cutoff, fixed at initiation, is what a later refresh must go by
	#[serde(default)]
	reply_ttl: u8,
}

fn base_world(dir: &str) {
	let w = World::create(dir, &[("A", "A"), ("B", "B"), ("M", "M")]);
	w.mine_n("A", 4);
	// a second account with as many log entries as the default one
	w.w("A").create_account("acct1").unwrap();
	w.w("A").set_account("acct1").unwrap();
	w.mine_n("A", 4);
	w.w("A").refresh().unwrap();
	w.w("A").set_account("default").unwrap();
	w.mine_n("B", 3);
	w.mine_n("M", 3);
	w.w("A").refresh().unwrap();
	w.w("B").refresh().unwrap();
	w.close();
}

fn view(w: &WalletH, slots: &[uuid::Uuid]) -> Value {
	project_wallet(w, &ProjOpts { slots: slots.to_vec(), heights: false, canon_ids: false })
}

fn make_others(w: &World, n: u32) {
	let a = w.w("A");
	let b = w.w("B");
	if n >= 1 {
		let s = a.init_send(default_args(2 * G)).unwrap();
		a.lock(&s).unwrap();
		let _ = b.receive(&s, None).unwrap();
	}
	if n >= 2 {
		let s = b.init_send(default_args(G)).unwrap();
		b.lock(&s).unwrap();
		let _ = a.receive(&s, None).unwrap();
	}
}

fn run_case(dir: &str, base: &Snapshot, c: &Case) -> Result<String, (String, String)> {
	base.restore(dir);
	let w = World::open(dir);
	let r = run_case_inner(&w, c);
	w.close();
	r
}

fn run_case_inner(w: &World, c: &Case) -> Result<String, (String, String)> {
	let a = w.w("A");
	let b = w.w("B");
	make_others(w, c.others);
	let (tname, prep): (&str, Slate) = match c.step {
		Step::ReceiveTx => {
			let s1 = a.init_send(default_args(5 * G)).unwrap();
			a.lock(&s1).unwrap();
			("B", s1)
		}
		Step::ProcessInvoice => {
			let i1 = b.issue_invoice(IssueInvoiceTxArgs { amount: 5 * G, ..Default::default() }).unwrap();
			("A", i1)
		}
		Step::FinalizeOwner => {
			let s1 = a.init_send(default_args(5 * G)).unwrap();
			a.lock(&s1).unwrap();
			let s2 = b.receive(&s1, None).unwrap();
			("A", s2)
		}
		Step::FinalizeForeign => {
			let i1 = b.issue_invoice(IssueInvoiceTxArgs { amount: 5 * G, ..Default::default() }).unwrap();
			let i2 = a.process_invoice(&i1, default_args(0)).unwrap();
			a.lock(&i2).unwrap();
			("B", i2)
		}
	};
	let t = w.w(tname);
	t.refresh().unwrap();
	for _ in 0..c.stale {
		w.mine("M").unwrap();
	}
	if c.observed_by_estimate {
		let mut ea = default_args(1 * G);
		ea.estimate_only = Some(true);
		let _ = t.init_send(ea);
	}
	let h = t.with(|x| x.last_confirmed_height().unwrap());
	let cutoff = match c.cut {
		Cut::Zero => 0,
		Cut::One => 1,
		Cut::HMinus1 => h - 1,
		Cut::H => h,
		Cut::HPlus1 => h + 1,
		Cut::Max => u64::MAX,
	};
	if c.node_fell_back && cutoff >= 2 && cutoff <= h {
		let mut m = std::collections::HashMap::new();
		for o in t.outputs() {
			if o.status == OutputStatus::Unspent || o.status == OutputStatus::Locked {
				m.insert(t.commit_of(&o), (o.height, 1 + o.n_child as u64));
			}
		}
		*w.node.stub.lock().unwrap() = Some(crate::node::Stub { height: cutoff - 1, unspent: Some(m) });
		let mut ea = default_args(1 * G);
		ea.estimate_only = Some(true);
		let _ = t.init_send(ea);
		*w.node.stub.lock().unwrap() = None;
	}
	let mut slate = prep;
	slate.ttl_cutoff_height = cutoff;
	let slots = vec![slate.id];
	let before = view(t, &slots);
	let sname = format!("{:?}", c.step);
	let res = catch(|| match c.step {
		Step::ReceiveTx => t.receive(&slate, None).map(|_| ()),
		Step::ProcessInvoice => {
			let mut pa = default_args(0);
			if c.own_ttl {
				pa.ttl_blocks = Some(5);
			}
			t.process_invoice(&slate, pa).map(|_| ())
		}
		Step::FinalizeOwner => t.finalize(&slate).map(|_| ()),
		Step::FinalizeForeign => t.foreign_finalize(&slate, false).map(|_| ()),
	});
	let res = match res {
		Err(p) => {
			let site = take_last_panic().map(|x| panic_site(&x.1)).unwrap_or_default();
			return Err((format!("C17/panic/{}/{}", site, sname), format!("{} panicked: {}", sname, p)));
		}
		Ok(r) => r,
	};
	let after = view(t, &slots);
	let expired = cutoff != 0 && h >= cutoff;
	match (expired, res) {
		(true, Ok(())) => Err((
			format!("C17/expired-slate-accepted/{}/{:?}", sname, c.cut),
			format!("{} accepted a slate with cutoff {} although the wallet has observed height {}", sname, cutoff, h),
		)),
		(true, Err(_)) => {
			if after != before {
				Err((format!("C17/refusal-changed-state/{}", sname), format!("{} refused the expired slate but changed the wallet state", sname)))
			} else {
				Ok("refused-expired".into())
			}
		}
		(false, Ok(())) => Ok("accepted".into()),
		(false, Err(e)) => Err((
			format!("C17/unexpired-slate-refused/{}/{:?}", sname, c.cut),
			format!("{} refused a slate with cutoff {} at observed height {}: {}", sname, cutoff, h, e),
		)),
	}
}

fn run_rcase(dir: &str, base: &Snapshot, c: &RCase) -> Result<String, (String, String)> {
	base.restore(dir);
	let w = World::open(dir);
	let r = run_rcase_inner(&w, c);
	w.close();
	r
}

fn run_rcase_inner(w: &World, c: &RCase) -> Result<String, (String, String)> {
	let a = w.w("A");
	let b = w.w("B");
	make_others(w, c.others);
	let h0 = w.node.height();
	let before_create_a = a.outputs();
	let mut older: Option<uuid::Uuid> = None;
	if c.older_far {
		let mut fa = default_args(2 * G);
		fa.ttl_blocks = Some(40);
		let f1 = a.init_send(fa).unwrap();
		a.lock(&f1).unwrap();
		let _ = b.receive(&f1, None).unwrap();
		older = Some(f1.id);
	}
	if c.other_acct {
		a.set_account("acct1").unwrap();
		let o1 = a.init_send(default_args(4 * G)).unwrap();
		a.lock(&o1).unwrap();
		let _ = b.receive(&o1, None).unwrap();
		a.set_account("default").unwrap();
	}
	let acct1_outputs = |w: &WalletH| -> Vec<(String, String, Option<u32>)> {
		let mut v: Vec<_> = w.outputs().into_iter().filter(|o| o.root_key_id.to_bip_32_string() == "m/1/0").map(|o| (o.key_id.to_bip_32_string(), format!("{:?}", o.status), o.tx_log_entry)).collect();
		v.sort();
		v
	};
	let mut args = default_args(if c.posted == 2 { 60 * G - grin_core::libtx::tx_fee(1, 1, 1) } else { 5 * G });
	args.ttl_blocks = c.ttl_blocks;
	let s1 = if let Some(gap) = c.late_lock_gap {
		args.late_lock = Some(true);
		let s1 = a.init_send(args).unwrap();
		let s2 = b.receive(&s1, None).unwrap();
		for _ in 0..gap {
			w.mine("M").unwrap();
		}
		if a.finalize(&s2).is_err() {
			// finalization itself refused (expired by then): nothing pending to sweep
			return Ok("late-finalize-refused".into());
		}
		s1
	} else {
		let s1 = a.init_send(args).unwrap();
		a.lock(&s1).unwrap();
		let mut s2 = b.receive(&s1, None).unwrap();
		if c.posted > 0 {
			let s3 = a.finalize(&s2).unwrap();
			a.post(s3.tx_or_err().unwrap()).unwrap();
		}
		if c.reply_ttl > 0 {
			s2.ttl_cutoff_height = match c.reply_ttl {
				1 => 0,
				2 => 1_000_000,
				_ => s2.ttl_cutoff_height.saturating_sub(1),
			};
			if a.finalize(&s2).is_err() {
				// the altered reply is refused (e.g. its cutoff has been reached): nothing finalized
				return Ok("altered-reply-refused".into());
			}
		}
		s1
	};
	// control transaction without a cutoff, created alongside
	let ctl = a.init_send(default_args(3 * G)).unwrap();
	a.lock(&ctl).unwrap();
	let _ = b.receive(&ctl, None).unwrap();
	for _ in 0..c.mined {
		w.mine("M").unwrap();
	}
	let tip = w.node.height();
	let t = if c.sender_side { a } else { b };
	let mut slots = vec![s1.id, ctl.id];
	if let Some(o) = older {
		slots.push(o);
	}
	let before = view(t, &slots);
	let acct1_before = acct1_outputs(a);
	let res = catch(|| t.refresh());
	match res {
		Err(p) => return Err(("C17/panic/refresh".into(), format!("refresh panicked: {}", p))),
		Ok(Err(e)) => return Err(("C17/refresh-error".into(), format!("refresh failed: {}", e))),
		Ok(Ok(_)) => {}
	}
	let after = view(t, &slots);
	if c.other_acct && c.sender_side {
		let now = acct1_outputs(a);
		if now != acct1_before {
			return Err((
				"C17/refresh/other-account-changed".into(),
				format!("the refresh of the default account changed the outputs of the other account, whose pending transaction has no cutoff: before {:?}, after {:?}", acct1_before, now),
			));
		}
	}
	let cutoff = c.ttl_blocks.map(|b| h0 + b);
	let expect_cancel = cutoff.map(|c| tip >= c).unwrap_or(false);
	let entries = t.txs();
	let target = entries.iter().find(|e| e.tx_slate_id == Some(s1.id)).unwrap();
	let control = entries.iter().find(|e| e.tx_slate_id == Some(ctl.id)).unwrap();
	let side = if c.sender_side { "sender" } else { "recipient" };
	let is_cancelled = matches!(target.tx_type, TxLogEntryType::TxSentCancelled | TxLogEntryType::TxReceivedCancelled);
	if c.posted > 0 && c.mined > 0 {
		// the transaction is on chain: whatever its cutoff, the refresh must record it as confirmed
		if is_cancelled || !target.confirmed {
			return Err((
				format!("C17/refresh/confirmed-on-chain-not-recorded/{}", side),
				format!("the transaction was mined before the refresh (tip {}, cutoff {:?}) but the {}'s entry is {:?}, confirmed = {}", tip, cutoff, side, target.tx_type, target.confirmed),
			));
		}
		return Ok("confirmed-on-chain".into());
	}
	if let Some(oid) = older {
		let o = entries.iter().find(|e| e.tx_slate_id == Some(oid)).unwrap();
		if matches!(o.tx_type, TxLogEntryType::TxSentCancelled | TxLogEntryType::TxReceivedCancelled) {
			return Err((format!("C17/refresh/unexpired-cancelled/older/{}", side), "an older pending transaction whose cutoff lies far ahead was cancelled by refresh".to_owned()));
		}
	}
	if matches!(control.tx_type, TxLogEntryType::TxSentCancelled | TxLogEntryType::TxReceivedCancelled) {
		return Err((format!("C17/refresh/no-cutoff-tx-cancelled/{}", side), "a pending transaction without a cutoff was cancelled by refresh".to_owned()));
	}
	if expect_cancel && !is_cancelled {
		return Err((
			format!("C17/refresh/expired-not-cancelled/{}", side),
			format!("tip {} >= cutoff {:?} but the {}'s pending transaction is still {:?}", tip, cutoff, side, target.tx_type),
		));
	}
	if !expect_cancel && is_cancelled {
		return Err((
			format!("C17/refresh/unexpired-cancelled/{}", side),
			format!("tip {} < cutoff {:?} but the {}'s pending transaction was cancelled", tip, cutoff, side),
		));
	}
	if expect_cancel {
		let outs = t.outputs();
		if c.sender_side {
			// inputs released, change gone
			for o in before_create_a.iter().filter(|o| o.root_key_id == target.parent_key_id) {
				let now = outs.iter().find(|x| x.key_id == o.key_id);
				match now {
					Some(n) if n.status == o.status => {}
					other => {
						// outputs locked by the control/other transactions are legitimately still locked
						let locked_by_other = other.map(|n| n.status == OutputStatus::Locked && n.tx_log_entry != Some(target.id)).unwrap_or(false);
						if !locked_by_other {
							return Err((
								format!("C17/refresh/inputs-not-released/{}", side),
								format!("output {} was {:?} before the expired transaction and is {:?} after its cancellation", o.key_id.to_bip_32_string(), o.status, other.map(|n| n.status.clone())),
							));
						}
					}
				}
			}
		}
		if outs.iter().any(|o| o.tx_log_entry == Some(target.id) && (o.status == OutputStatus::Locked || o.status == OutputStatus::Unconfirmed) && o.root_key_id == target.parent_key_id) {
			return Err((format!("C17/refresh/outputs-left/{}", side), "the cancelled expired transaction still has locked or unconfirmed outputs".to_owned()));
		}
		Ok("cancelled-expired".into())
	} else {
		// untouched: only heights / confirmations may move
		let strip = |v: &Value| json!({"outputs": v["outputs"], "txs": v["txs"], "contexts": v["contexts"]});
		if strip(&after) != strip(&before) {
			return Err((format!("C17/refresh/unexpired-changed/{}", side), "refresh changed a pending transaction whose cutoff lies ahead".to_owned()));
		}
		Ok("kept".into())
	}
}

pub fn replay(payload: &Value) -> i32 {
	std::env::set_var("GWV_SHOW_PANICS", "1");
	let dir = format!("{}/c17-replay", scratch_root());
	let based = format!("{}/c17-replay-base", scratch_root());
	base_world(&based);
	let base = Snapshot::capture(&based);
	let r = if payload["kind"] == "refresh" {
		run_rcase(&dir, &base, &serde_json::from_value(payload["case"].clone()).unwrap())
	} else {
		run_case(&dir, &base, &serde_json::from_value(payload["case"].clone()).unwrap())
	};
	println!("verdict: {:?}", r);
	if r.is_err() { 1 } else { 0 }
}

pub fn run(_args: &[String]) -> i32 {
	let mut rep = Report::new("C17", "model_checking");
	let thorough = tier() == Tier::Thorough;
	let root = scratch_root();
	let based = format!("{}/c17-base", root);
	base_world(&based);
	let base = Snapshot::capture(&based);
	let mut cases = vec![];
	for step in [Step::ReceiveTx, Step::ProcessInvoice, Step::FinalizeOwner, Step::FinalizeForeign].iter() {
		for cut in [Cut::Zero, Cut::One, Cut::HMinus1, Cut::H, Cut::HPlus1, Cut::Max].iter() {
			for stale in (if thorough { vec![0u64, 1, 2] } else { vec![0u64, 2] }).iter() {
				for others in (if thorough { vec![0u32, 1, 2] } else { vec![0u32, 2] }).iter() {
					cases.push(Case { step: *step, cut: *cut, stale: *stale, others: *others, own_ttl: false, observed_by_estimate: false, node_fell_back: false });
					if *stale == 0 && matches!(cut, Cut::HMinus1 | Cut::H) {
						cases.push(Case { step: *step, cut: *cut, stale: *stale, others: *others, own_ttl: false, observed_by_estimate: false, node_fell_back: true });
					}
					if *stale > 0 {
						cases.push(Case { step: *step, cut: *cut, stale: *stale, others: *others, own_ttl: false, observed_by_estimate: true, node_fell_back: false });
					}
					if *step == Step::ProcessInvoice {
						cases.push(Case { step: *step, cut: *cut, stale: *stale, others: *others, own_ttl: true, observed_by_estimate: false, node_fell_back: false });
					}
				}
			}
		}
	}
	let mut rcases = vec![];
	for ttl in [None, Some(1u64), Some(2), Some(3), Some(50)].iter() {
		for mined in 0u64..=4 {
			for sender_side in [true, false].iter() {
				for others in (if thorough { vec![0u32, 1, 2] } else { vec![0u32, 2] }).iter() {
					for older_far in [false, true].iter() {
						rcases.push(RCase { ttl_blocks: *ttl, mined, sender_side: *sender_side, others: *others, older_far: *older_far, late_lock_gap: None, posted: 0, other_acct: false, reply_ttl: 0 });
						if *sender_side && !*older_far && *others == 0 && ttl.map(|t| t >= 2).unwrap_or(false) {
							for gap in [1u64, 2].iter() {
								rcases.push(RCase { ttl_blocks: *ttl, mined, sender_side: true, others: 0, older_far: false, late_lock_gap: Some(*gap), posted: 0, other_acct: false, reply_ttl: 0 });
							}
						}
					}
				}
			}
		}
	}
	for ttl in [None, Some(1u64), Some(2), Some(3), Some(50)].iter() {
		for mined in 0u64..=4 {
			for sender_side in [true, false].iter() {
				for posted in [1u8, 2].iter() {
					rcases.push(RCase { ttl_blocks: *ttl, mined, sender_side: *sender_side, others: 0, older_far: false, late_lock_gap: None, posted: *posted, other_acct: false, reply_ttl: 0 });
				}
			}
		}
	}
	for ttl in [None, Some(1u64), Some(2), Some(50)].iter() {
		for mined in 0u64..=3 {
			rcases.push(RCase { ttl_blocks: *ttl, mined, sender_side: true, others: 0, older_far: false, late_lock_gap: None, posted: 0, other_acct: true, reply_ttl: 0 });
		}
	}
	for ttl in [Some(2u64), Some(3)].iter() {
		for mined in 0u64..=4 {
			for reply_ttl in [1u8, 2, 3].iter() {
				rcases.push(RCase { ttl_blocks: *ttl, mined, sender_side: true, others: 0, older_far: false, late_lock_gap: None, posted: 0, other_acct: false, reply_ttl: *reply_ttl });
			}
		}
	}
	let twice = |first: Result<String, (String, String)>, again: &dyn Fn() -> Result<String, (String, String)>| match first {
		Err((k, w)) => {
			let mut same = true;
			for _ in 0..2 {
				match again() {
					Err((k2, _)) if k2 == k => {}
					_ => same = false,
				}
			}
			if same { Err((k, w)) } else { Err((format!("__nondeterministic__{}", k), w)) }
		}
		ok => ok,
	};
	let res = par_map(&cases, workers(), |i, c| {
		let dir = format!("{}/c17-{}", root, i);
		let r = twice(run_case(&dir, &base, c), &|| run_case(&dir, &base, c));
		let _ = std::fs::remove_dir_all(&dir);
		r
	});
	let rres = par_map(&rcases, workers(), |i, c| {
		let dir = format!("{}/c17-r{}", root, i);
		let r = twice(run_rcase(&dir, &base, c), &|| run_rcase(&dir, &base, c));
		let _ = std::fs::remove_dir_all(&dir);
		r
	});
	let mut hist: BTreeMap<String, u64> = BTreeMap::new();
	let mut handle = |rep: &Report, r: &Result<String, (String, String)>, payload: Value, desc: String| -> Option<String> {
		match r {
			Ok(l) => {
				*hist.entry(l.clone()).or_insert(0) += 1;
				None
			}
			Err((k, w)) => {
				if k.starts_with("__nondeterministic__") {
					return Some(format!("verdict not reproducible: {} {}", k, w));
				}
				*hist.entry("violation".into()).or_insert(0) += 1;
				rep.add_finding(Finding { key: k.clone(), what: format!("{} — {}", w, desc), replay: payload });
				None
			}
		}
	};
	for (c, r) in cases.iter().zip(res.iter()) {
		if let Some(e) = handle(&rep, r, json!({"kind": "step", "case": c}), format!("{:?}", c)) {
			return rep.finish(Some(e));
		}
	}
	for (c, r) in rcases.iter().zip(rres.iter()) {
		if let Some(e) = handle(&rep, r, json!({"kind": "refresh", "case": c}), format!("{:?}", c)) {
			return rep.finish(Some(e));
		}
	}
	let n = (cases.len() + rcases.len()) as u64;
	let nontrivial = hist.get("refused-expired").copied().unwrap_or(0) + hist.get("cancelled-expired").copied().unwrap_or(0);
	rep.cov("states", json!(n * 2));
	rep.cov("transitions", json!(n));
	rep.cov("traces_validated_against_impl", json!(n));
	rep.cov("evaluations", json!(n));
	rep.cov("distinct_nontrivial", json!(nontrivial));
	rep.cov("rule", json!("every (step, cutoff class, staleness, others) and every (ttl_blocks, blocks mined, side, others) combination; non-trivial = the cutoff was reached so the refusal / release clause was exercised"));
	rep.cov("exhaustive", json!(true));
	rep.cov("dimensions", json!({"steps": 4, "cutoffs": ["0","1","h-1","h","h+1","u64::MAX"], "step_cases": cases.len(), "refresh_cases": rcases.len()}));
	rep.cov("outcomes", json!(hist));
	rep.cov("samples", json!([cases[9], cases[20], rcases[7]]));
	rep.assume("observed height = the wallet's last confirmed height after its last refresh");
	let ok = hist.get("accepted").copied().unwrap_or(0);
	let vac = if nontrivial < 20 || ok < 20 { Some(format!("vacuity guard: outcomes {:?}", hist)) } else { None };
	rep.finish(vac)
}
