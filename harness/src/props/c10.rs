//! C10 — encrypted slatepacks are readable only by their recipients and tamper-evident.
//!
//! E1 (small-scope input enumeration of the real packer / armor code):
//!  1. key matrix: real slates × sender {none, some} × every recipient set of size 1..3 of 4 wallets
//!     × every key of a 20-key universe (4 wallets × {default account index 0..3, second account index 0}):
//!     decrypts to the original slate and sender iff the key is a recipient's, error otherwise.
//!     The same matrix is cross-checked through owner::{slate_from,decode}_slatepack_message.
//!  2. cleartext scan of every encrypted message (binary form after un-armoring, and the text).
//!  3. every single-byte edit (3 values per position) of the binary slatepack: payload edits must be
//!     rejected; header edits may be rejected or ignored, never yield a different slate/sender.
//!  4. every single-character edit (61-character alphabet substitution/insertion, deletion, adjacent
//!     transposition) of the armored text: error or identical result; a different result is a
//!     violation unless the 4 check bytes genuinely collide (recomputed by a reference decoder).
//! Panics are C09's business: counted as "rejected", listed in the evidence, never reported here.

use crate::common::*;
use crate::keychain::{ExtKeychain, Keychain};
use crate::libwallet::api_impl::owner;
use crate::libwallet::{
	address, Error, IssueInvoiceTxArgs, Slate, SlatepackAddress, SlatepackArmor, Slatepacker,
	SlatepackerArgs,
};
use crate::util::{static_secp_instance, ToHex};
use crate::world::*;
use ed25519_dalek::SecretKey as DalekSecretKey;
use serde_json::{json, Value};
use sha2::{Digest, Sha256};
use std::collections::{BTreeMap, HashSet};
use std::convert::TryFrom;
use std::time::Instant;

const WALLETS: [&str; 4] = ["A", "B", "C", "D"];
const B58: &[u8] = b"123456789ABCDEFGHJKLMNPQRSTUVWXYZabcdefghijkmnopqrstuvwxyz";
const ARMOR_WS: [u8; 5] = [b'>', b'\n', b'\r', b'\t', b' '];

type Canon = Vec<(String, String)>;

// ------------------------------------------------------------------------------------------
// keys

#[derive(Clone, Copy, Debug, PartialEq)]
struct KeySpec {
	wallet: usize,
	acct: u32,
	idx: u32,
}

impl KeySpec {
	fn label(&self) -> String {
		format!("{}/acct{}/idx{}", WALLETS[self.wallet], self.acct, self.idx)
	}
}

/// 4 wallets × {default account index 0..3, second account index 0}
fn key_universe() -> Vec<KeySpec> {
	let mut v = vec![];
	for wallet in 0..WALLETS.len() {
		for idx in 0..4 {
			v.push(KeySpec { wallet, acct: 0, idx });
		}
		v.push(KeySpec { wallet, acct: 1, idx: 0 });
	}
	v
}

/// the wallet's own derivation (libwallet::address), on the wallet's own seed
fn derive_key(ks: &KeySpec) -> [u8; 32] {
	let kc = keychain_for(WALLETS[ks.wallet]);
	let parent = ExtKeychain::derive_key_id(2, ks.acct, 0, 0, 0);
	let sec = address::address_from_derivation_path(&kc, &parent, ks.idx).unwrap();
	let mut b = [0u8; 32];
	b.copy_from_slice(&sec.0[..]);
	b
}

fn address_of(key: &[u8; 32]) -> SlatepackAddress {
	let sk = DalekSecretKey::from_bytes(key).unwrap();
	let pk: ed25519_dalek::PublicKey = (&sk).into();
	SlatepackAddress::new(&pk)
}

fn is_recipient(ks: &KeySpec, m: &Msg) -> bool {
	ks.acct == 0 && ks.idx == m.ridx && m.rset.contains(&ks.wallet)
}

fn key_class(ks: &KeySpec, m: &Msg) -> &'static str {
	if !m.rset.contains(&ks.wallet) {
		if ks.acct == 0 && ks.idx == m.ridx {
			"other-wallet"
		} else {
			"other-wallet-other-path"
		}
	} else if ks.acct != 0 {
		"recipient-wallet-other-account"
	} else {
		"recipient-wallet-other-index"
	}
}

/// every subset of size 1..3 of the 4 wallets, smallest first
fn recipient_sets() -> Vec<Vec<usize>> {
	let mut v = vec![];
	for size in 1..=3 {
		for mask in 1u32..16 {
			if mask.count_ones() == size {
				v.push((0..4).filter(|i| mask & (1 << i) != 0).collect());
			}
		}
	}
	v
}

// ------------------------------------------------------------------------------------------
// canonical, nonce-free field list of a slate (the derived kernel of `tx` is not transported by a
// V4 slate and is therefore not compared; inputs and outputs are)

fn canon(s: &Slate) -> Canon {
	let secp_inst = static_secp_instance();
	let secp = secp_inst.lock();
	let mut v: Canon = vec![];
	{
		let mut p = |k: &str, val: String| v.push((k.to_owned(), val));
		p(
			"version_info",
			format!("{}:{}", s.version_info.version, s.version_info.block_header_version),
		);
		p("num_participants", s.num_participants.to_string());
		p("id", s.id.to_string());
		p("state", format!("{}", s.state));
		p("amount", s.amount.to_string());
		p("fee_fields", format!("{:?}", s.fee_fields));
		p("ttl_cutoff_height", s.ttl_cutoff_height.to_string());
		p("kernel_features", s.kernel_features.to_string());
		p(
			"kernel_features_args",
			format!("{:?}", s.kernel_features_args.as_ref().map(|a| a.lock_height)),
		);
		p("offset", s.offset.as_ref().to_vec().to_hex());
		p("participants.len", s.participant_data.len().to_string());
		for (i, d) in s.participant_data.iter().enumerate() {
			p(
				&format!("participant[{}].public_blind_excess", i),
				d.public_blind_excess.serialize_vec(&secp, true).to_vec().to_hex(),
			);
			p(
				&format!("participant[{}].public_nonce", i),
				d.public_nonce.serialize_vec(&secp, true).to_vec().to_hex(),
			);
			p(
				&format!("participant[{}].part_sig", i),
				match &d.part_sig {
					Some(sig) => sig.to_raw_data().to_vec().to_hex(),
					None => "none".to_owned(),
				},
			);
		}
		match &s.payment_proof {
			None => p("payment_proof", "none".to_owned()),
			Some(pp) => {
				p("payment_proof.sender_address", pp.sender_address.as_bytes().to_vec().to_hex());
				p(
					"payment_proof.receiver_address",
					pp.receiver_address.as_bytes().to_vec().to_hex(),
				);
				p(
					"payment_proof.receiver_signature",
					match &pp.receiver_signature {
						Some(sig) => sig.to_bytes().to_vec().to_hex(),
						None => "none".to_owned(),
					},
				);
			}
		}
		let (mut ins, mut outs) = (vec![], vec![]);
		if let Some(tx) = &s.tx {
			match tx.inputs() {
				crate::core::core::Inputs::CommitOnly(c) => {
					for i in c {
						ins.push(format!("?:{}", i.commitment().0.to_vec().to_hex()));
					}
				}
				crate::core::core::Inputs::FeaturesAndCommit(c) => {
					for i in c {
						ins.push(format!("{:?}:{}", i.features, i.commit.0.to_vec().to_hex()));
					}
				}
			}
			for o in tx.outputs() {
				outs.push(format!(
					"{:?}:{}:{}",
					o.features(),
					o.commitment().0.to_vec().to_hex(),
					o.proof.proof[..o.proof.plen].to_vec().to_hex()
				));
			}
		}
		ins.sort();
		outs.sort();
		p("tx.inputs", ins.join(","));
		p("tx.outputs", outs.join(","));
	}
	v
}

fn first_diff(a: &Canon, b: &Canon) -> Option<String> {
	if a.len() != b.len() {
		return Some("field-count".to_owned());
	}
	for (x, y) in a.iter().zip(b.iter()) {
		if x != y {
			// strip indices so that keys stay stable
			let name: String = x.0.chars().filter(|c| !c.is_ascii_digit()).collect();
			return Some(name);
		}
	}
	None
}

// ------------------------------------------------------------------------------------------
// needles for the cleartext scan

#[derive(Clone)]
struct Needle {
	what: String,
	bytes: Vec<u8>,
}

fn distinct_bytes(b: &[u8]) -> usize {
	b.iter().collect::<HashSet<_>>().len()
}

/// raw + lower-case hex text; low-entropy values (e.g. a zero offset) are not searched for
fn push_needle(v: &mut Vec<Needle>, skipped: &mut usize, what: &str, bytes: &[u8]) {
	if bytes.len() < 16 || distinct_bytes(bytes) < 8 {
		*skipped += 1;
		return;
	}
	v.push(Needle { what: format!("{}/raw", what), bytes: bytes.to_vec() });
	v.push(Needle {
		what: format!("{}/hex", what),
		bytes: bytes.to_vec().to_hex().into_bytes(),
	});
}

fn slate_needles(s: &Slate) -> (Vec<Needle>, usize) {
	let secp_inst = static_secp_instance();
	let secp = secp_inst.lock();
	let mut v = vec![];
	let mut skipped = 0;
	push_needle(&mut v, &mut skipped, "id", s.id.as_bytes());
	v.push(Needle { what: "id/text".into(), bytes: s.id.to_string().into_bytes() });
	v.push(Needle {
		what: "id/text-simple".into(),
		bytes: s.id.to_simple().to_string().into_bytes(),
	});
	push_needle(&mut v, &mut skipped, "offset", s.offset.as_ref());
	for d in s.participant_data.iter() {
		push_needle(
			&mut v,
			&mut skipped,
			"participant.public_blind_excess",
			&d.public_blind_excess.serialize_vec(&secp, true)[..],
		);
		push_needle(
			&mut v,
			&mut skipped,
			"participant.public_nonce",
			&d.public_nonce.serialize_vec(&secp, true)[..],
		);
		if let Some(sig) = &d.part_sig {
			push_needle(&mut v, &mut skipped, "participant.part_sig(raw)", &sig.to_raw_data()[..]);
			push_needle(
				&mut v,
				&mut skipped,
				"participant.part_sig(compact)",
				&sig.serialize_compact(&secp)[..],
			);
		}
	}
	if let Some(pp) = &s.payment_proof {
		push_needle(&mut v, &mut skipped, "proof.sender_address", pp.sender_address.as_bytes());
		push_needle(&mut v, &mut skipped, "proof.receiver_address", pp.receiver_address.as_bytes());
		if let Some(sig) = &pp.receiver_signature {
			push_needle(&mut v, &mut skipped, "proof.receiver_signature", &sig.to_bytes()[..]);
		}
	}
	if let Some(tx) = &s.tx {
		if let crate::core::core::Inputs::FeaturesAndCommit(c) = tx.inputs() {
			for i in c {
				push_needle(&mut v, &mut skipped, "tx.input.commit", &i.commit.0[..]);
			}
		}
		for o in tx.outputs() {
			push_needle(&mut v, &mut skipped, "tx.output.commit", &o.commitment().0[..]);
			let pr = &o.proof.proof[..o.proof.plen];
			push_needle(&mut v, &mut skipped, "tx.output.proof", pr);
			if pr.len() >= 64 {
				push_needle(&mut v, &mut skipped, "tx.output.proof[..32]", &pr[..32]);
				push_needle(&mut v, &mut skipped, "tx.output.proof[-32..]", &pr[pr.len() - 32..]);
			}
		}
		for k in tx.kernels() {
			push_needle(&mut v, &mut skipped, "tx.kernel.excess", &k.excess.0[..]);
			push_needle(&mut v, &mut skipped, "tx.kernel.excess_sig", &k.excess_sig.to_raw_data()[..]);
		}
	}
	(v, skipped)
}

/// every form of an address: bech32 text, raw key bytes, hex text (both cases), onion v3 text,
/// the x25519 conversion of the key
fn address_needles(addr: &SlatepackAddress) -> Vec<Needle> {
	let mut v = vec![];
	let text = String::try_from(addr).unwrap();
	let raw = addr.pub_key.as_bytes().to_vec();
	v.push(Needle { what: "sender/bech32".into(), bytes: text.clone().into_bytes() });
	// the data part alone (without the human-readable prefix and separator)
	let data = text.rsplitn(2, '1').next().unwrap().to_owned();
	v.push(Needle { what: "sender/bech32-data".into(), bytes: data.into_bytes() });
	v.push(Needle { what: "sender/raw-key".into(), bytes: raw.clone() });
	v.push(Needle { what: "sender/hex".into(), bytes: raw.to_hex().into_bytes() });
	v.push(Needle {
		what: "sender/HEX".into(),
		bytes: raw.to_hex().to_uppercase().into_bytes(),
	});
	let onion = grin_wallet_util::OnionV3Address::from(addr);
	v.push(Needle { what: "sender/onion-v3".into(), bytes: onion.to_ov3_str().into_bytes() });
	if let Ok(x) = x25519_dalek::PublicKey::try_from(addr) {
		v.push(Needle { what: "sender/x25519".into(), bytes: x.as_bytes().to_vec() });
	}
	v
}

fn find_sub(hay: &[u8], needle: &[u8]) -> Option<usize> {
	if needle.is_empty() || hay.len() < needle.len() {
		return None;
	}
	hay.windows(needle.len()).position(|w| w == needle)
}

const WINDOW: usize = 12;

/// every WINDOW-byte window of the plaintext with >= 8 distinct byte values
fn plaintext_windows(plain: &[u8]) -> Vec<(usize, Vec<u8>)> {
	if plain.len() < WINDOW {
		return vec![];
	}
	plain
		.windows(WINDOW)
		.enumerate()
		.filter(|(_, w)| distinct_bytes(w) >= 8)
		.map(|(i, w)| (i, w.to_vec()))
		.collect()
}

// ------------------------------------------------------------------------------------------
// corpus

struct SlateCase {
	name: String,
	slate: Slate,
	creator: usize,
}

/// the Sync part of a slate case, shared with workers
#[derive(Clone)]
struct CaseData {
	name: String,
	json: String,
	canon: Canon,
	creator: usize,
}

#[derive(Clone)]
struct Msg {
	si: usize,
	sender: bool,
	rset: Vec<usize>,
	/// derivation index of the recipients' addresses (default account)
	ridx: u32,
	armored: String,
	bin: Vec<u8>,
}

impl Msg {
	fn label(&self, cases: &[CaseData]) -> String {
		format!(
			"slate {} sender={} recipients={{{}}}{}",
			cases[self.si].name,
			if self.sender { "some" } else { "none" },
			self.rset.iter().map(|r| WALLETS[*r]).collect::<Vec<_>>().join(","),
			if self.ridx != 0 { format!(" (addresses of derivation index {})", self.ridx) } else { String::new() }
		)
	}
}

fn build_corpus(w: &World, addr0: &[SlatepackAddress]) -> Result<Vec<SlateCase>, Error> {
	let a = w.w("A");
	let b = w.w("B");
	let mut out = vec![];
	let settle = |s3: &Slate| -> Result<(), Error> {
		a.post(s3.tx_or_err()?)?;
		w.mine("A")?;
		a.refresh()?;
		b.refresh()?;
		Ok(())
	};
	// standard flow, with and without payment proof, and a late-locking variant with ttl and two change outputs
	for variant in ["", "p", "L"].iter() {
		let mut args = default_args(1_000_000_000);
		match *variant {
			"p" => args.payment_proof_recipient_address = Some(addr0[1].clone()),
			"L" => {
				args.late_lock = Some(true);
				args.ttl_blocks = Some(10);
				args.num_change_outputs = 2;
			}
			_ => {}
		}
		let s1 = a.init_send(args)?;
		if *variant != "L" {
			a.lock(&s1)?;
		}
		let s2 = b.receive(&s1, None)?;
		let s3 = a.finalize(&s2)?;
		settle(&s3)?;
		out.push(SlateCase { name: format!("S1{}", variant), slate: s1, creator: 0 });
		out.push(SlateCase { name: format!("S2{}", variant), slate: s2, creator: 1 });
		out.push(SlateCase { name: format!("S3{}", variant), slate: s3, creator: 0 });
	}
	// invoice flow: B invoices, A pays
	let i1 = b.issue_invoice(IssueInvoiceTxArgs { amount: 2_000_000_000, ..Default::default() })?;
	let i2 = a.process_invoice(&i1, default_args(i1.amount))?;
	a.lock(&i2)?;
	let i3 = b.foreign_finalize(&i2, false)?;
	settle(&i3)?;
	out.push(SlateCase { name: "I1".into(), slate: i1, creator: 1 });
	out.push(SlateCase { name: "I2".into(), slate: i2, creator: 0 });
	out.push(SlateCase { name: "I3".into(), slate: i3, creator: 1 });
	// simplest first
	let order = ["S1", "S2", "S3", "I1", "I2", "I3", "S1p", "S2p", "S3p", "S1L", "S2L", "S3L"];
	out.sort_by_key(|c| order.iter().position(|o| *o == c.name).unwrap());
	Ok(out)
}

// ------------------------------------------------------------------------------------------
// the decoding primitive: the packer path of owner::slate_from_slatepack_message for one key

#[derive(Clone, Debug, PartialEq)]
enum Dec {
	Ok { sender: Option<String>, canon: Canon },
	Err(String),
	Panic(String),
}

impl Dec {
	fn class(&self) -> String {
		match self {
			Dec::Ok { .. } => "Ok".to_owned(),
			Dec::Err(e) => format!("Err:{}", e),
			Dec::Panic(site) => format!("Panic:{}", site),
		}
	}
	fn rejected(&self) -> bool {
		!matches!(self, Dec::Ok { .. })
	}
}

fn err_class(e: &Error) -> String {
	let s = format!("{:?}", e);
	s.split(|c: char| c == '(' || c == ' ' || c == '{').next().unwrap_or("").to_owned()
}

fn decode(data: &[u8], key: Option<&[u8; 32]>) -> Dec {
	let dk = key.map(|k| DalekSecretKey::from_bytes(k).unwrap());
	let _ = take_last_panic();
	let r = catch(|| -> Result<(Option<String>, Canon), Error> {
		let packer = Slatepacker::new(SlatepackerArgs {
			sender: None,
			recipients: vec![],
			dec_key: dk.as_ref(),
		});
		let sp = packer.deser_slatepack(data, true)?;
		let slate = packer.get_slate(&sp)?;
		Ok((sp.sender.as_ref().map(|a| a.to_string()), canon(&slate)))
	});
	match r {
		Ok(Ok((sender, canon))) => Dec::Ok { sender, canon },
		Ok(Err(e)) => Dec::Err(err_class(&e)),
		Err(msg) => {
			let site = take_last_panic().map(|p| panic_site(&p.1)).unwrap_or_default();
			let m: String = msg.chars().take(40).collect();
			Dec::Panic(format!("{} [{}]", site, m))
		}
	}
}

/// Some(field) when `d` is not exactly (sender, canon)
fn differs(d: &Dec, sender: &Option<String>, canon: &Canon) -> Option<String> {
	match d {
		Dec::Ok { sender: s, canon: c } => {
			if s != sender {
				Some("sender".to_owned())
			} else {
				first_diff(c, canon)
			}
		}
		_ => Some("not-decoded".to_owned()),
	}
}

// ------------------------------------------------------------------------------------------
// reference armor decoder (framing, base58, double SHA-256 check) used only to classify an accepted
// edit of the text as a genuine 32-bit check collision

fn sha256d4(b: &[u8]) -> [u8; 4] {
	let h1 = Sha256::digest(b);
	let h2 = Sha256::digest(&h1);
	let mut r = [0u8; 4];
	r.copy_from_slice(&h2[..4]);
	r
}

/// (binary slatepack, check bytes valid)
fn ref_armor(text: &[u8]) -> Option<(Vec<u8>, bool)> {
	let parts: Vec<&[u8]> = text.split(|b| *b == b'.').collect();
	if parts.len() < 3 {
		return None;
	}
	let strip = |p: &[u8]| -> Vec<u8> { p.iter().filter(|b| !ARMOR_WS.contains(b)).cloned().collect() };
	if strip(parts[0]) != b"BEGINSLATEPACK".to_vec() || strip(parts[2]) != b"ENDSLATEPACK".to_vec() {
		return None;
	}
	let dec = bs58::decode(strip(parts[1])).into_vec().ok()?;
	if dec.len() < 4 {
		return None;
	}
	let ok = sha256d4(&dec[4..]) == dec[..4];
	Some((dec[4..].to_vec(), ok))
}

/// region of a position of the armored text
fn armor_region(text: &[u8], pos: usize) -> &'static str {
	let periods: Vec<usize> = text
		.iter()
		.enumerate()
		.filter(|(_, b)| **b == b'.')
		.map(|(i, _)| i)
		.collect();
	if periods.len() < 3 {
		return "unframed";
	}
	if pos <= periods[0] {
		"header-framing"
	} else if pos < periods[1] {
		"payload"
	} else if pos <= periods[2] {
		"footer-framing"
	} else {
		"trailing"
	}
}

// ------------------------------------------------------------------------------------------
// binary layout (own parser of the documented header)

struct Layout {
	payload_off: usize,
	payload_len: usize,
	/// absolute offsets inside the binary slatepack (encrypted payloads only)
	age_mac_line: usize,
	age_header_end: usize,
}

fn layout(bin: &[u8]) -> Option<Layout> {
	if bin.len() < 17 {
		return None;
	}
	let opt = u32::from_be_bytes([bin[5], bin[6], bin[7], bin[8]]) as usize;
	let lp = 9 + opt;
	if bin.len() < lp + 8 {
		return None;
	}
	let mut l8 = [0u8; 8];
	l8.copy_from_slice(&bin[lp..lp + 8]);
	let plen = u64::from_be_bytes(l8) as usize;
	let off = lp + 8;
	if off + plen != bin.len() {
		return None;
	}
	let payload = &bin[off..];
	let (mac, end) = match find_sub(payload, b"\n--- ") {
		Some(m) => {
			let e = payload[m + 1..].iter().position(|b| *b == b'\n').map(|e| m + 1 + e + 1)?;
			(off + m + 1, off + e)
		}
		None => (off, off),
	};
	Some(Layout { payload_off: off, payload_len: plen, age_mac_line: mac, age_header_end: end })
}

fn bin_region(l: &Layout, bin: &[u8], pos: usize) -> &'static str {
	let opt_end = l.payload_off - 8;
	if pos < l.payload_off {
		return match pos {
			0 => "header.version.major",
			1 => "header.version.minor",
			2 => "header.mode",
			3 | 4 => "header.opt_flags",
			5..=8 => "header.opt_fields_len",
			p if p < opt_end => "header.opt_fields",
			_ => "header.payload_len",
		};
	}
	let _ = bin;
	if pos < l.age_mac_line {
		"payload.age-header-stanzas"
	} else if pos < l.age_header_end {
		"payload.age-header-mac"
	} else if pos < l.age_header_end + 16 {
		"payload.age-nonce"
	} else {
		"payload.age-stream"
	}
}

// ------------------------------------------------------------------------------------------
// edits

fn bin_edits(b: u8) -> Vec<u8> {
	let mut v = vec![b ^ 0x01, b ^ 0x80];
	if b != 0 {
		v.push(0);
	}
	v
}

fn text_alphabet() -> Vec<u8> {
	let mut a = B58.to_vec();
	a.extend_from_slice(b" .\n");
	a
}

/// reduced alphabet used for the largest messages: first and last base58 digit, space, period, and
/// the base58 successor of the character at the position (the smallest arithmetic change)
fn reduced_alphabet(text: &[u8], pos: usize) -> Vec<u8> {
	let mut a = b"1z .".to_vec();
	if let Some(c) = text.get(pos) {
		if let Some(i) = B58.iter().position(|b| b == c) {
			let succ = B58[(i + 1) % B58.len()];
			if !a.contains(&succ) {
				a.push(succ);
			}
		}
	}
	a
}

/// all single-character edits touching position `pos` (pos == len: insertions at the end only)
fn text_edits_at(text: &[u8], pos: usize, alpha: &[u8]) -> Vec<(&'static str, Vec<u8>)> {
	let mut v = vec![];
	if pos < text.len() {
		for c in alpha {
			if *c != text[pos] {
				let mut t = text.to_vec();
				t[pos] = *c;
				v.push(("subst", t));
			}
		}
		let mut t = text.to_vec();
		t.remove(pos);
		v.push(("delete", t));
		if pos + 1 < text.len() && text[pos] != text[pos + 1] {
			let mut t = text.to_vec();
			t.swap(pos, pos + 1);
			v.push(("transpose", t));
		}
	}
	for c in alpha {
		let mut t = text.to_vec();
		t.insert(pos, *c);
		v.push(("insert", t));
	}
	v
}

fn h64(b: &[u8]) -> u64 {
	use std::hash::{Hash, Hasher};
	let mut h = std::collections::hash_map::DefaultHasher::new();
	b.hash(&mut h);
	h.finish()
}

// ------------------------------------------------------------------------------------------
// violation candidates (self-contained: message bytes, key, expected result)

#[derive(Clone)]
struct Cand {
	key: String,
	what: String,
	/// input to decode
	data: Vec<u8>,
	dec_key: Option<[u8; 32]>,
	/// the verdict is re-derived from these on replay
	kind: String,
	exp_sender: Option<String>,
	exp_json: String,
	orig: Vec<u8>,
}

fn cand_payload(c: &Cand) -> Value {
	json!({
		"kind": c.kind,
		"data_hex": c.data.to_hex(),
		"data_text": String::from_utf8_lossy(&c.data),
		"dec_key_hex": c.dec_key.map(|k| k.to_vec().to_hex()),
		"expected_sender": c.exp_sender,
		"expected_slate_json": c.exp_json,
		"original_hex": c.orig.to_hex(),
	})
}

/// verdict of one case: None = the statement holds, Some(clause) = it does not
fn verdict(kind: &str, data: &[u8], key: Option<&[u8; 32]>, exp_sender: &Option<String>, exp: &Canon, orig: &[u8]) -> (Option<String>, Dec) {
	let d = decode(data, key);
	let v = match kind {
		// a key that is no recipient's must not decode
		"wrong-key" => {
			if d.rejected() {
				None
			} else {
				Some("decrypts".to_owned())
			}
		}
		// a recipient's key must give the original slate and sender
		"right-key" => differs(&d, exp_sender, exp),
		// payload edit: must be rejected
		"payload-edit" => {
			if d.rejected() {
				None
			} else {
				Some(match differs(&d, exp_sender, exp) {
					None => "accepted-identical".to_owned(),
					Some(f) => format!("accepted-different:{}", f),
				})
			}
		}
		// header edit / text edit: rejected or identical
		"header-edit" => {
			if d.rejected() {
				None
			} else {
				differs(&d, exp_sender, exp).map(|f| format!("different:{}", f))
			}
		}
		"text-edit" => {
			if d.rejected() {
				None
			} else {
				match differs(&d, exp_sender, exp) {
					None => None,
					Some(f) => match ref_armor(data) {
						// genuine collision of the 4 check bytes over different bytes: inherent
						Some((bin, true)) if bin != orig => Some(format!("inherent-collision:{}", f)),
						_ => Some(format!("different:{}", f)),
					},
				}
			}
		}
		_ => Some("unknown-kind".to_owned()),
	};
	(v, d)
}

/// replay-twice rule, then record
fn confirm(rep: &Report, c: &Cand, exp: &Canon) -> Result<(), String> {
	let clause = c.key.clone();
	let mut seen = vec![];
	for _ in 0..2 {
		let (v, d) = verdict(&c.kind, &c.data, c.dec_key.as_ref(), &c.exp_sender, exp, &c.orig);
		seen.push((v.is_some(), d.class()));
	}
	if !seen.iter().all(|s| s.0) {
		return Err(format!("non-deterministic verdict for {}: {:?}", clause, seen));
	}
	rep.add_finding(Finding { key: c.key.clone(), what: c.what.clone(), replay: cand_payload(c) });
	Ok(())
}

/// one wallet-level case: (finding key, description) when the statement does not hold, plus the histogram label
fn api_case(wh: &WalletH, right: bool, armored: &str, exp_sender: &Option<String>, exp: &Canon) -> (Option<(String, String)>, String) {
	let _ = take_last_panic();
	let r = catch(|| owner::slate_from_slatepack_message(wh.inst.clone(), wh.mask(), armored.to_owned(), vec![0, 1, 2, 3]));
	let r2 = catch(|| owner::decode_slatepack_message(wh.inst.clone(), wh.mask(), armored.to_owned(), vec![0, 1, 2, 3]));
	let got_slate = match &r {
		Ok(Ok(s)) => Some(canon(s)),
		_ => None,
	};
	let (got_mode, got_sender, got_payload_is_cipher) = match &r2 {
		Ok(Ok(sp)) => (
			Some(sp.mode),
			sp.sender.as_ref().map(|a| a.to_string()),
			sp.payload.starts_with(b"age-encryption.org/"),
		),
		_ => (None, None, false),
	};
	let label = format!(
		"{}:slate_from={} decode_mode={:?}",
		if right { "recipient-wallet" } else { "other-wallet-or-account" },
		got_slate.is_some(),
		got_mode
	);
	let problem: Option<(String, String)> = if right {
		if got_slate.as_ref() != Some(exp) {
			Some((
				"C10/recipient-key/api/slate_from_slatepack_message".to_owned(),
				"recipient wallet does not obtain the original slate".to_owned(),
			))
		} else if got_mode != Some(0) || &got_sender != exp_sender {
			Some((
				"C10/recipient-key/api/decode_slatepack_message".to_owned(),
				format!("recipient wallet sees mode {:?} sender {:?}, expected sender {:?}", got_mode, got_sender, exp_sender),
			))
		} else {
			None
		}
	} else if got_slate.is_some() {
		Some((
			"C10/confidentiality/api/slate_from_slatepack_message".to_owned(),
			"a wallet/account that is no recipient obtains a slate".to_owned(),
		))
	} else if got_mode == Some(0) || got_sender.is_some() || (got_mode == Some(1) && !got_payload_is_cipher) {
		Some((
			"C10/confidentiality/api/decode_slatepack_message".to_owned(),
			format!("a wallet/account that is no recipient sees mode {:?} sender {:?}", got_mode, got_sender),
		))
	} else {
		None
	};
	(problem, label)
}

fn acct_name(acct: u32) -> &'static str {
	if acct == 0 {
		"default"
	} else {
		"acct1"
	}
}

/// units = (wallet, account, message range); every worker thread restores and opens its own world
fn api_phase(
	snap: &Snapshot,
	units: &[(usize, u32, usize, usize)],
	enc: &[Msg],
	cases: &[CaseData],
	exp_senders: &[Option<String>],
	nw: usize,
) -> (u64, BTreeMap<String, u64>, Vec<Finding>, Option<String>) {
	use std::sync::atomic::{AtomicUsize, Ordering};
	let next = AtomicUsize::new(0);
	let out: std::sync::Mutex<(u64, BTreeMap<String, u64>, Vec<(usize, Finding)>, Option<String>)> =
		std::sync::Mutex::new((0, BTreeMap::new(), vec![], None));
	let root = scratch_root();
	std::thread::scope(|s| {
		for t in 0..nw.max(1).min(units.len()) {
			let (next, out, root) = (&next, &out, &root);
			s.spawn(move || {
				crate::node::thread_init();
				let d = format!("{}/c10-api-{}", root, t);
				snap.restore(&d);
				let w = World::open(&d);
				loop {
					let u = next.fetch_add(1, Ordering::SeqCst);
					if u >= units.len() {
						break;
					}
					let (wi, acct, from, to) = units[u];
					let wh = w.w(WALLETS[wi]);
					wh.set_account(acct_name(acct)).unwrap();
					let mut calls = 0u64;
					let mut hist: BTreeMap<String, u64> = BTreeMap::new();
					let mut finds = vec![];
					let mut err = None;
					for mi in from..to {
						let m = &enc[mi];
						let right = acct == 0 && m.rset.contains(&wi);
						let (problem, label) = api_case(wh, right, &m.armored, &exp_senders[mi], &cases[m.si].canon);
						calls += 2;
						*hist.entry(label).or_insert(0) += 1;
						if let Some((key, what)) = problem {
							// replay-twice rule
							for _ in 0..2 {
								let again = api_case(wh, right, &m.armored, &exp_senders[mi], &cases[m.si].canon).0;
								if again.as_ref().map(|a| &a.0) != Some(&key) {
									err = Some(format!("non-deterministic API verdict for {}", m.label(cases)));
								}
							}
							finds.push((
								u * 100_000 + mi,
								Finding {
									key,
									what: format!("{}; wallet {} account {}: {}", m.label(cases), WALLETS[wi], acct_name(acct), what),
									replay: json!({"kind": "api", "message": m.armored, "wallet": WALLETS[wi], "account": acct, "recipient": right,
										"expected_sender": exp_senders[mi], "expected_slate_json": cases[m.si].json}),
								},
							));
						}
					}
					wh.set_account("default").unwrap();
					let mut o = out.lock().unwrap();
					o.0 += calls;
					for (k, v) in hist {
						*o.1.entry(k).or_insert(0) += v;
					}
					o.2.extend(finds);
					if err.is_some() {
						o.3 = err;
					}
				}
				w.close();
			});
		}
	});
	let (calls, hist, mut finds, err) = out.into_inner().unwrap();
	finds.sort_by_key(|f| f.0);
	(calls, hist, finds.into_iter().map(|f| f.1).collect(), err)
}

pub fn replay(payload: &Value) -> i32 {
	let kind = payload["kind"].as_str().unwrap_or("").to_owned();
	if kind == "identical-keys" {
		let universe = key_universe();
		let keys: Vec<[u8; 32]> = universe.iter().map(derive_key).collect();
		let find = |l: &str| universe.iter().position(|k| k.label() == l);
		match (find(payload["a"].as_str().unwrap_or("")), find(payload["b"].as_str().unwrap_or(""))) {
			(Some(i), Some(j)) => {
				println!("{} and {}: keys identical = {}", universe[i].label(), universe[j].label(), keys[i] == keys[j]);
				return if keys[i] == keys[j] { 1 } else { 0 };
			}
			_ => return 2,
		}
	}
	if kind == "foreign-prefix" || kind == "not-encrypted" {
		// the case is a fixed element of the check's own enumeration: re-run the check
		let code = run(&[]);
		return if code == 0 { 0 } else { 1 };
	}
	if kind == "api" {
		// wallet keys are a function of the seeds only: a fresh world suffices
		let dir = format!("{}/c10-replay", scratch_root());
		let w = World::create(&dir, &[("A", "A"), ("B", "B"), ("C", "C"), ("D", "D")]);
		let wh = w.w(payload["wallet"].as_str().unwrap_or("A"));
		wh.create_account("acct1").unwrap();
		wh.set_account(acct_name(payload["account"].as_u64().unwrap_or(0) as u32)).unwrap();
		let exp = canon(&slate_from_json(payload["expected_slate_json"].as_str().unwrap()));
		let es = payload["expected_sender"].as_str().map(|s| s.to_owned());
		let (problem, label) = api_case(wh, payload["recipient"].as_bool().unwrap_or(false), payload["message"].as_str().unwrap_or(""), &es, &exp);
		println!("{} verdict: {:?}", label, problem);
		return if problem.is_some() { 1 } else { 0 };
	}
	let data = crate::util::from_hex(payload["data_hex"].as_str().unwrap_or("")).unwrap_or_default();
	let orig = crate::util::from_hex(payload["original_hex"].as_str().unwrap_or("")).unwrap_or_default();
	let key: Option<[u8; 32]> = payload["dec_key_hex"].as_str().map(|h| {
		let b = crate::util::from_hex(h).unwrap();
		let mut k = [0u8; 32];
		k.copy_from_slice(&b);
		k
	});
	if kind == "scan-json-form" {
		// data = the JSON form as produced in the run, original = the needle
		let hit = find_sub(&data, &orig);
		println!("needle ({} bytes) found in the JSON form: {:?}", orig.len(), hit);
		return if hit.is_some() { 1 } else { 0 };
	}
	if kind == "scan" {
		// data = armored message, original = the needle
		let bin = SlatepackArmor::decode(&data).unwrap_or_default();
		let hit = find_sub(&bin, &orig).map(|p| ("binary", p)).or_else(|| find_sub(&data, &orig).map(|p| ("armored-text", p)));
		let undec = Slatepacker::new(SlatepackerArgs { sender: None, recipients: vec![], dec_key: None }).deser_slatepack(&data, false);
		let clear_sender = undec.as_ref().ok().and_then(|sp| sp.sender.as_ref().map(|a| a.to_string()));
		println!("needle ({} bytes) found: {:?}; sender readable without key: {:?}", orig.len(), hit, clear_sender);
		return if hit.is_some() || clear_sender.is_some() { 1 } else { 0 };
	}
	let exp_sender = payload["expected_sender"].as_str().map(|s| s.to_owned());
	let exp = canon(&slate_from_json(payload["expected_slate_json"].as_str().unwrap()));
	let (v, d) = verdict(&kind, &data, key.as_ref(), &exp_sender, &exp, &orig);
	match &d {
		Dec::Ok { sender, canon } => {
			println!("decode -> Ok sender={:?} first differing field={:?}", sender, first_diff(canon, &exp))
		}
		other => println!("decode -> {}", other.class()),
	}
	println!("kind {} verdict: {:?}", kind, v);
	match v {
		Some(c) if !c.starts_with("inherent-collision") => 1,
		_ => 0,
	}
}

// ------------------------------------------------------------------------------------------

#[derive(Default)]
struct Tally {
	cases: u64,
	hist: BTreeMap<String, u64>,
	panics: BTreeMap<String, u64>,
	cands: Vec<Cand>,
	inherent: Vec<Value>,
}

impl Tally {
	fn note(&mut self, label: &str, d: &Dec) {
		self.cases += 1;
		*self.hist.entry(format!("{}/{}", label, d.class().split(" [").next().unwrap())).or_insert(0) += 1;
		if let Dec::Panic(site) = d {
			*self.panics.entry(site.clone()).or_insert(0) += 1;
		}
	}
	fn merge(&mut self, o: Tally) {
		self.cases += o.cases;
		for (k, v) in o.hist {
			*self.hist.entry(k).or_insert(0) += v;
		}
		for (k, v) in o.panics {
			*self.panics.entry(k).or_insert(0) += v;
		}
		self.cands.extend(o.cands);
		self.inherent.extend(o.inherent);
	}
}

pub fn run(_args: &[String]) -> i32 {
	let mut rep = Report::new("C10", "model_checking");
	let thorough = tier() == Tier::Thorough;
	let nw = workers();
	let t0 = Instant::now();

	// ---- world and corpus -----------------------------------------------------------------
	let dir = format!("{}/c10", scratch_root());
	let world = World::create(&dir, &[("A", "A"), ("B", "B"), ("C", "C"), ("D", "D")]);
	world.mine_n("A", 8);
	world.w("A").refresh().unwrap();
	let universe = key_universe();
	let keys: Vec<[u8; 32]> = universe.iter().map(derive_key).collect();
	let key_of = |wallet: usize, acct: u32, idx: u32| -> [u8; 32] {
		keys[universe.iter().position(|k| *k == KeySpec { wallet, acct, idx }).unwrap()]
	};
	let addr0: Vec<SlatepackAddress> = (0..4).map(|wi| address_of(&key_of(wi, 0, 0))).collect();
	// the harness derivation must be the wallet's own (default and second account)
	for (wi, name) in WALLETS.iter().enumerate() {
		let wh = world.w(name);
		wh.create_account("acct1").unwrap();
		for ks in universe.iter().filter(|k| k.wallet == wi) {
			wh.set_account(if ks.acct == 0 { "default" } else { "acct1" }).unwrap();
			let a = owner::get_slatepack_address(wh.inst.clone(), wh.mask(), ks.idx).unwrap();
			let k = owner::get_slatepack_secret_key(wh.inst.clone(), wh.mask(), ks.idx).unwrap();
			let mine = key_of(ks.wallet, ks.acct, ks.idx);
			if a != address_of(&mine) || k.as_bytes() != &mine {
				return rep.finish(Some(format!("harness key derivation differs from the wallet's for {}", ks.label())));
			}
		}
		wh.set_account("default").unwrap();
	}
	let distinct_keys: HashSet<[u8; 32]> = keys.iter().cloned().collect();
	if distinct_keys.len() != keys.len() {
		// two different (wallet, account, derivation index) triples yield the same secret key: a message
		// encrypted to one of the addresses is opened with the "wrong" key — a violation, not a harness problem
		for i in 0..keys.len() {
			for j in i + 1..keys.len() {
				if keys[i] == keys[j] {
					let class = if universe[i].wallet != universe[j].wallet {
						"other-wallet"
					} else if universe[i].acct != universe[j].acct {
						"other-account"
					} else {
						"other-derivation-index"
					};
					rep.add_finding(Finding {
						key: format!("C10/wrong-key-decrypts/identical-keys/{}", class),
						what: format!(
							"the slatepack secret keys of {} and {} are identical (as returned by owner::get_slatepack_secret_key): a slatepack encrypted to the address of one is decrypted with the key of the other",
							universe[i].label(),
							universe[j].label()
						),
						replay: json!({"kind": "identical-keys", "a": universe[i].label(), "b": universe[j].label()}),
					});
				}
			}
		}
		rep.cov("evaluations", json!(keys.len()));
		rep.cov("distinct_nontrivial", json!(distinct_keys.len()));
		rep.cov("states", json!(keys.len()));
		rep.cov("transitions", json!(keys.len()));
		rep.cov("traces_validated_against_impl", json!(keys.len()));
		rep.cov("samples", json!(universe.iter().take(3).map(|k| k.label()).collect::<Vec<_>>()));
		return rep.finish(None);
	}
	let corpus = match build_corpus(&world, &addr0) {
		Ok(c) => c,
		Err(e) => return rep.finish(Some(format!("corpus construction failed: {:?}", e))),
	};
	// quick tier: one slate per shape class (first round, final round with range proofs, invoice reply, payment proof)
	let quick_slates = ["S1", "S3", "I2", "S2p"];
	let sel: Vec<usize> = corpus
		.iter()
		.enumerate()
		.filter(|(_, c)| thorough || quick_slates.contains(&c.name.as_str()))
		.map(|(i, _)| i)
		.collect();
	let cases: Vec<CaseData> = corpus
		.iter()
		.map(|c| CaseData {
			name: c.name.clone(),
			json: slate_to_json(&c.slate),
			canon: canon(&c.slate),
			creator: c.creator,
		})
		.collect();
	let rsets = recipient_sets();

	// ---- messages through owner::create_slatepack_message -----------------------------------
	let mut enc: Vec<Msg> = vec![];
	let mut plain: Vec<Msg> = vec![];
	for &si in sel.iter() {
		let c = &corpus[si];
		let wh = world.w(WALLETS[c.creator]);
		for sender in [false, true].iter() {
			let sidx = if *sender { Some(0u32) } else { None };
			let mk = |rset: &Vec<usize>, ridx: u32| -> Result<Msg, String> {
				let rec: Vec<SlatepackAddress> = rset.iter().map(|r| address_of(&key_of(*r, 0, ridx))).collect();
				let armored = owner::create_slatepack_message(wh.inst.clone(), wh.mask(), &c.slate, sidx, rec)
					.map_err(|e| format!("create_slatepack_message({}): {:?}", c.name, e))?;
				let bin = SlatepackArmor::decode(armored.as_bytes())
					.map_err(|e| format!("un-armoring a fresh message failed: {:?}", e))?;
				Ok(Msg { si, sender: *sender, rset: rset.clone(), ridx, armored, bin })
			};
			match mk(&vec![], 0) {
				Ok(m) => plain.push(m),
				Err(e) => return rep.finish(Some(e)),
			}
			for rset in rsets.iter() {
				match mk(rset, 0) {
					Ok(m) => enc.push(m),
					Err(e) => return rep.finish(Some(e)),
				}
			}
		}
	}
	// recipients addressed at a non-zero derivation index (first slate, sender = some): the wallet tries
	// indices 0..3, the packer succeeds with exactly that index
	const ALT_INDEX: u32 = 2;
	{
		let si = sel[0];
		let c = &corpus[si];
		let wh = world.w(WALLETS[c.creator]);
		for rset in rsets.iter() {
			let rec: Vec<SlatepackAddress> = rset.iter().map(|r| address_of(&key_of(*r, 0, ALT_INDEX))).collect();
			let armored = match owner::create_slatepack_message(wh.inst.clone(), wh.mask(), &c.slate, Some(0), rec) {
				Ok(a) => a,
				Err(e) => return rep.finish(Some(format!("create_slatepack_message: {:?}", e))),
			};
			let bin = match SlatepackArmor::decode(armored.as_bytes()) {
				Ok(b) => b,
				Err(e) => return rep.finish(Some(format!("un-armoring a fresh message failed: {:?}", e))),
			};
			enc.push(Msg { si, sender: true, rset: rset.clone(), ridx: ALT_INDEX, armored, bin });
		}
	}
	let expected_sender = |m: &Msg| -> Option<String> {
		if m.sender {
			Some(addr0[cases[m.si].creator].to_string())
		} else {
			None
		}
	};
	// ---- recipients whose address carries the other network's prefix (the age key depends on the
	// ed25519 key only): alone, and mixed with a local-prefix recipient in either order. The call may
	// refuse; if it answers, the message must be encrypted and open with every listed recipient's key.
	let mut foreign_prefix_cases = 0u64;
	{
		let si = sel[0];
		let c = &corpus[si];
		let wh = world.w(WALLETS[c.creator]);
		let local = |r: usize| address_of(&key_of(r, 0, 0));
		let foreign = |r: usize| {
			let mut a = address_of(&key_of(r, 0, 0));
			a.hrp = if a.hrp == "grin" { "tgrin".to_owned() } else { "grin".to_owned() };
			a
		};
		let sets: Vec<(&str, Vec<SlatepackAddress>, Vec<usize>)> = vec![
			("foreign-only", vec![foreign(0)], vec![0]),
			("foreign+local", vec![foreign(0), local(1)], vec![0, 1]),
			("local+foreign", vec![local(0), foreign(1)], vec![0, 1]),
		];
		for sender in [false, true].iter() {
			let sidx = if *sender { Some(0u32) } else { None };
			let es = if *sender { Some(addr0[cases[si].creator].to_string()) } else { None };
			for (label, rec, rset) in sets.iter() {
				let mut verdicts: Vec<Option<(String, String)>> = vec![];
				for _ in 0..2 {
					foreign_prefix_cases += 1;
					let mut v: Option<(String, String)> = None;
					match owner::create_slatepack_message(wh.inst.clone(), wh.mask(), &c.slate, sidx, rec.clone()) {
						Err(_) => {}
						Ok(armored) => match SlatepackArmor::decode(armored.as_bytes()) {
							Err(e) => v = Some(("undecodable".into(), format!("the message cannot be un-armored: {:?}", e))),
							Ok(bin) => {
								if bin.len() > 2 && bin[2] != 1 {
									v = Some(("not-encrypted".into(), "recipients were given but the message is not encrypted (mode 0: slate and sender readable without any key)".into()));
								} else {
									for r in rset.iter() {
										let d = decode(&bin, Some(&key_of(*r, 0, 0)));
										if let Some(f) = differs(&d, &es, &cases[si].canon) {
											v = Some((format!("listed-recipient-cannot-open:{}", f), format!("the listed recipient {} does not get the original slate and sender with its key ({})", WALLETS[*r], d.class())));
											break;
										}
									}
								}
							}
						},
					}
					verdicts.push(v);
				}
				if verdicts[0].as_ref().map(|x| &x.0) != verdicts[1].as_ref().map(|x| &x.0) {
					return rep.finish(Some(format!("non-deterministic verdict for foreign-prefix recipients {}", label)));
				}
				if let Some((k, what)) = verdicts[0].clone() {
					rep.add_finding(Finding {
						key: format!("C10/foreign-prefix-recipient/{}/{}", label, k),
						what: format!("slate {} sender={} recipients {} (an address with the other network's prefix): {}", cases[si].name, if *sender { "some" } else { "none" }, label, what),
						replay: json!({"kind": "foreign-prefix", "set": label, "sender": sender}),
					});
				}
			}
		}
	}
	rep.cov("foreign_prefix_recipient_cases", json!(foreign_prefix_cases));
	let mut injected: Option<Cand> = None;
	// ---- oracle self-check: each clause of the oracle fires on a case built to break it ---------
	{
		let x = enc.iter().find(|m| m.si == sel[0] && m.sender && m.rset == vec![0]).unwrap();
		let y = enc.iter().find(|m| m.si == sel[1] && m.sender && m.rset == vec![0]).unwrap();
		let py = plain.iter().find(|m| m.si == sel[1] && m.sender).unwrap();
		let kx = key_of(0, 0, 0);
		let esx = expected_sender(x);
		let cx = &cases[x.si].canon;
		let checks: Vec<(&str, Option<String>)> = vec![
			("wrong-key", verdict("wrong-key", x.armored.as_bytes(), Some(&kx), &esx, cx, &x.bin).0),
			("payload-edit", verdict("payload-edit", &x.bin, Some(&kx), &esx, cx, &x.bin).0),
			("header-edit", verdict("header-edit", &y.bin, Some(&kx), &esx, cx, &x.bin).0),
			("right-key", verdict("right-key", y.armored.as_bytes(), Some(&kx), &esx, cx, &x.bin).0),
			// a validly armored different message = what a genuine check collision looks like
			("text-edit", verdict("text-edit", py.armored.as_bytes(), None, &esx, cx, &x.bin).0),
		];
		let want = ["decrypts", "accepted-identical", "different:", "", "inherent-collision:"];
		for ((name, got), w) in checks.iter().zip(want.iter()) {
			let ok = match got {
				Some(g) => g.starts_with(w),
				None => false,
			};
			if !ok {
				return rep.finish(Some(format!("oracle self-check failed for clause {}: {:?}", name, got)));
			}
		}
		if std::env::var("GWV_C10_INJECT_SELFTEST_FINDING").is_ok() {
			// exercises the finding -> replay file -> `gwv replay` path with a case built to fail
			// (a recipient's key presented to the oracle as a wrong key); never set by the check driver
			injected = Some(Cand {
				key: "C10/selftest/injected-wrong-key-verdict".to_owned(),
				what: format!("{}: injected self-test case", x.label(&cases)),
				data: x.armored.as_bytes().to_vec(),
				dec_key: Some(kx),
				kind: "wrong-key".to_owned(),
				exp_sender: esx.clone(),
				exp_json: cases[x.si].json.clone(),
				orig: x.bin.clone(),
			});
		}
		rep.cov("oracle_selfcheck", json!(checks.iter().map(|(n, g)| json!({"clause": n, "fires_with": g})).collect::<Vec<_>>()));
	}
	let setup_s = t0.elapsed().as_secs_f64();

	let mut total = Tally::default();
	let mut machinery: Option<String> = None;
	if let Some(c) = injected {
		total.cands.push(c);
	}

	// ---- 1. key matrix ----------------------------------------------------------------------
	let t1 = Instant::now();
	let items: Vec<(usize, usize)> = (0..enc.len())
		.flat_map(|mi| (0..universe.len()).map(move |ki| (mi, ki)))
		.collect();
	let res = par_map(&items, nw, |_, (mi, ki)| {
		let m = &enc[*mi];
		let ks = &universe[*ki];
		let right = is_recipient(ks, m);
		let es = expected_sender(m);
		let kind = if right { "right-key" } else { "wrong-key" };
		let (v, d) = verdict(kind, m.armored.as_bytes(), Some(&keys[*ki]), &es, &cases[m.si].canon, &m.bin);
		let mut t = Tally::default();
		t.note(if right { "matrix/recipient-key" } else { "matrix/other-key" }, &d);
		if let Some(clause) = v {
			let key = if right {
				format!("C10/recipient-key/{}/{}", if d.rejected() { "cannot-decrypt" } else { "wrong-result" }, if d.rejected() { d.class() } else { clause.clone() })
			} else {
				format!("C10/confidentiality/non-recipient-key-decrypts/{}", key_class(ks, m))
			};
			t.cands.push(Cand {
				key,
				what: format!("{}; key {} ({}): {}", m.label(&cases), ks.label(), if right { "recipient" } else { "not a recipient" }, match &d { Dec::Ok { .. } => format!("decoded, {}", clause), o => o.class() }),
				data: m.armored.as_bytes().to_vec(),
				dec_key: Some(keys[*ki]),
				kind: kind.to_owned(),
				exp_sender: es,
				exp_json: cases[m.si].json.clone(),
				orig: m.bin.clone(),
			});
		}
		t
	});
	let mut matrix_ok = 0u64;
	let mut matrix_rej = 0u64;
	for (t, (mi, ki)) in res.into_iter().zip(items.iter()) {
		if is_recipient(&universe[*ki], &enc[*mi]) {
			matrix_ok += t.cands.is_empty() as u64;
		} else {
			matrix_rej += t.cands.is_empty() as u64;
		}
		total.merge(t);
	}
	let matrix_cases = items.len();
	// unencrypted control: a plain message decodes without any key (and with any key)
	let mut plain_ok = 0;
	for m in plain.iter() {
		for k in [None, Some(&keys[0])].iter() {
			let (v, d) = verdict("right-key", m.armored.as_bytes(), *k, &expected_sender(m), &cases[m.si].canon, &m.bin);
			total.note("plain", &d);
			if v.is_none() {
				plain_ok += 1;
			} else if machinery.is_none() {
				// an unencrypted round-trip that loses a field is C08's subject; here it only
				// means the baseline for the edit sweeps is unusable
				machinery = Some(format!("plain message of {} does not decode to the original slate: {:?} / {}", cases[m.si].name, v, d.class()));
			}
		}
	}
	let matrix_packer_s = t1.elapsed().as_secs_f64();
	// the same matrix at wallet level: owner::slate_from_slatepack_message / decode_slatepack_message
	// (each worker opens its own copy of the world: wallet handles are not shared between threads)
	world.close();
	let snap = Snapshot::capture(&dir);
	let exp_senders: Vec<Option<String>> = enc.iter().map(|m| expected_sender(m)).collect();
	let mut units: Vec<(usize, u32, usize, usize)> = vec![];
	let chunk = (enc.len() + 3) / 4;
	for wi in 0..WALLETS.len() {
		for acct in 0..2u32 {
			let mut from = 0;
			while from < enc.len() {
				let to = std::cmp::min(from + chunk, enc.len());
				units.push((wi, acct, from, to));
				from = to;
			}
		}
	}
	let (api_calls, api_hist, api_findings, api_err) = api_phase(&snap, &units, &enc, &cases, &exp_senders, nw);
	for f in api_findings {
		rep.add_finding(f);
	}
	if api_err.is_some() {
		machinery = api_err;
	}
	let matrix_s = t1.elapsed().as_secs_f64();

	// ---- 2. cleartext scan ------------------------------------------------------------------
	let t2 = Instant::now();
	let mut scan_needles = 0u64;
	let mut scan_windows = 0u64;
	let mut scan_skipped_low_entropy = 0usize;
	let mut control_found = 0u64;
	let mut control_total = 0u64;
	let mut scan_samples = vec![];
	let mut json_forms = 0u64;
	let plain_of = |si: usize, sender: bool| plain.iter().find(|p| p.si == si && p.sender == sender).unwrap();
	for m in enc.iter() {
		let c = &corpus[m.si];
		let (mut needles, skipped) = slate_needles(&c.slate);
		scan_skipped_low_entropy += skipped;
		if m.sender {
			needles.extend(address_needles(&addr0[c.creator]));
		}
		let pm = plain_of(m.si, m.sender);
		let pl = match layout(&pm.bin) {
			Some(l) => l,
			None => return rep.finish(Some("cannot parse the layout of a plain slatepack".to_owned())),
		};
		let plain_payload = &pm.bin[pl.payload_off..];
		// semantic form of the same clause: nothing readable without a key
		let undec = Slatepacker::new(SlatepackerArgs { sender: None, recipients: vec![], dec_key: None }).deser_slatepack(m.armored.as_bytes(), false);
		match undec {
			Ok(sp) => {
				if sp.mode != 1 || sp.sender.is_some() {
					total.cands.push(Cand {
						key: format!("C10/cleartext/header/{}", if sp.sender.is_some() { "sender-in-clear-header" } else { "mode-not-encrypted" }),
						what: format!("{}: undecrypted slatepack has mode {} sender {:?}", m.label(&cases), sp.mode, sp.sender.as_ref().map(|a| a.to_string())),
						data: m.armored.as_bytes().to_vec(),
						dec_key: None,
						kind: "scan".to_owned(),
						exp_sender: expected_sender(m),
						exp_json: cases[m.si].json.clone(),
						orig: m.bin.clone(),
					});
				}
			}
			Err(e) => return rep.finish(Some(format!("fresh encrypted message does not parse: {:?}", e))),
		}
		for n in needles.iter() {
			scan_needles += 1;
			let hit = find_sub(&m.bin, &n.bytes).map(|p| ("binary", p)).or_else(|| find_sub(m.armored.as_bytes(), &n.bytes).map(|p| ("armored-text", p)));
			if let Some((form, pos)) = hit {
				total.cands.push(Cand {
					key: format!("C10/cleartext/{}/{}", if n.what.starts_with("sender/") { "sender-address" } else { "slate-field" }, n.what),
					what: format!("{}: {} occurs in clear at offset {} of the {} form", m.label(&cases), n.what, pos, form),
					data: m.armored.as_bytes().to_vec(),
					dec_key: None,
					kind: "scan".to_owned(),
					exp_sender: expected_sender(m),
					exp_json: cases[m.si].json.clone(),
					orig: n.bytes.clone(),
				});
			}
			// control: the scan can find the needle in the unencrypted message of the same slate
			control_total += 1;
			if find_sub(&pm.bin, &n.bytes).is_some() {
				control_found += 1;
			}
		}
		// third encoded form: the JSON form of the slatepack (what PathToSlatepack::put_tx writes when it is
		// not asked for the binary form), built by the packer for the same sender and recipients
		{
			let rec: Vec<SlatepackAddress> = m.rset.iter().map(|r| address_of(&key_of(*r, 0, m.ridx))).collect();
			let packer = Slatepacker::new(SlatepackerArgs { sender: if m.sender { Some(addr0[c.creator].clone()) } else { None }, recipients: rec, dec_key: None });
			let js = match packer.create_slatepack(&c.slate).map_err(|e| format!("{:?}", e)).and_then(|sp| serde_json::to_string_pretty(&sp).map_err(|e| format!("{:?}", e))) {
				Ok(js) => js,
				Err(e) => return rep.finish(Some(format!("JSON form of an encrypted slatepack cannot be built: {}", e))),
			};
			json_forms += 1;
			for n in needles.iter() {
				if let Some(pos) = find_sub(js.as_bytes(), &n.bytes) {
					total.cands.push(Cand {
						key: format!("C10/cleartext-json-form/{}/{}", if n.what.starts_with("sender/") { "sender-address" } else { "slate-field" }, n.what),
						what: format!("{}: {} occurs in clear at offset {} of the JSON form of the encrypted slatepack", m.label(&cases), n.what, pos),
						data: js.as_bytes().to_vec(),
						dec_key: None,
						kind: "scan-json-form".to_owned(),
						exp_sender: expected_sender(m),
						exp_json: cases[m.si].json.clone(),
						orig: n.bytes.clone(),
					});
				}
			}
		}
		let hay: HashSet<&[u8]> = m.bin.windows(WINDOW).collect();
		for (off, w) in plaintext_windows(plain_payload) {
			scan_windows += 1;
			if hay.contains(&w[..]) {
				total.cands.push(Cand {
					key: "C10/cleartext/slate-bytes/plaintext-window".to_owned(),
					what: format!("{}: {} consecutive bytes of the serialized slate (offset {}) occur in the encrypted message", m.label(&cases), WINDOW, off),
					data: m.armored.as_bytes().to_vec(),
					dec_key: None,
					kind: "scan".to_owned(),
					exp_sender: expected_sender(m),
					exp_json: cases[m.si].json.clone(),
					orig: w.clone(),
				});
			}
		}
		if scan_samples.len() < 2 && m.sender && m.rset.len() == 2 {
			scan_samples.push(json!({"case": m.label(&cases), "needles": needles.len(), "message_bytes": m.bin.len(), "needles_found_in_unencrypted_control": needles.iter().filter(|n| find_sub(&pm.bin, &n.bytes).is_some()).map(|n| n.what.clone()).collect::<Vec<_>>()}));
		}
	}
	let scan_s = t2.elapsed().as_secs_f64();

	// ---- 3. binary edits of encrypted messages -----------------------------------------------
	let t3 = Instant::now();
	// quick: per slate the first one-recipient and the first three-recipient message (sender=some), first
	// recipient's key; thorough: every encrypted message, every recipient key
	let bin_msgs: Vec<usize> = if thorough {
		(0..enc.len()).collect()
	} else {
		let mut v = vec![];
		for &si in sel.iter() {
			for n in [1usize, 3].iter() {
				if let Some(i) = enc.iter().position(|m| m.si == si && m.sender && m.rset.len() == *n) {
					v.push(i);
				}
			}
		}
		v
	};
	let mut bin_items: Vec<(usize, usize, usize, usize)> = vec![]; // msg, wallet key, from, to
	let mut bin_positions = 0u64;
	let mut bin_payload_positions = 0u64;
	for &mi in bin_msgs.iter() {
		let m = &enc[mi];
		// a message that was asked to be encrypted but is not (mode byte 0) is a verdict, not an engine failure
		if m.bin.len() > 2 && m.bin[2] != 1 {
			rep.add_finding(Finding {
				key: "C10/confidentiality/message-not-encrypted".to_owned(),
				what: format!("slate {}: recipients were given but the message produced is not encrypted (mode byte {}): slate and sender are readable without any key", corpus[m.si].name, m.bin[2]),
				replay: json!({"kind": "not-encrypted", "slate": corpus[m.si].name}),
			});
			continue;
		}
		let l = match layout(&m.bin) {
			Some(l) => l,
			None => return rep.finish(Some("cannot parse the layout of an encrypted slatepack".to_owned())),
		};
		if !m.bin[l.payload_off..].starts_with(b"age-encryption.org/v1\n") || l.age_header_end <= l.payload_off || l.payload_off != 17 {
			return rep.finish(Some("encrypted slatepack does not have the expected layout (17 header bytes + age file)".to_owned()));
		}
		let rk: Vec<usize> = if thorough { m.rset.clone() } else { vec![m.rset[0]] };
		for r in rk {
			bin_positions += m.bin.len() as u64;
			bin_payload_positions += l.payload_len as u64;
			let mut from = 0;
			while from < m.bin.len() {
				let to = std::cmp::min(from + 48, m.bin.len());
				bin_items.push((mi, r, from, to));
				from = to;
			}
		}
	}
	let res = par_map(&bin_items, nw, |_, (mi, r, from, to)| {
		let m = &enc[*mi];
		let l = layout(&m.bin).unwrap();
		let k = key_of(*r, 0, m.ridx);
		let es = expected_sender(m);
		let mut t = Tally::default();
		for pos in *from..*to {
			let in_payload = pos >= l.payload_off;
			let region = bin_region(&l, &m.bin, pos);
			for e in bin_edits(m.bin[pos]) {
				let mut data = m.bin.clone();
				data[pos] = e;
				let kind = if in_payload { "payload-edit" } else { "header-edit" };
				let (v, d) = verdict(kind, &data, Some(&k), &es, &cases[m.si].canon, &m.bin);
				let d_label = match (&d, &v) {
					(Dec::Ok { .. }, None) => "Ok-identical".to_owned(),
					(Dec::Ok { .. }, Some(_)) => "Ok-VIOLATION".to_owned(),
					_ => d.class(),
				};
				t.cases += 1;
				*t.hist.entry(format!("bin/{}/{}", region, d_label.split(" [").next().unwrap())).or_insert(0) += 1;
				if let Dec::Panic(site) = &d {
					*t.panics.entry(site.clone()).or_insert(0) += 1;
				}
				if let Some(clause) = v {
					t.cands.push(Cand {
						key: format!("C10/tamper-binary/{}/{}", region, clause),
						what: format!("{}; byte {} ({}) {:#04x} -> {:#04x}, decrypting with the key of {}: decoded instead of rejected ({})", m.label(&cases), pos, region, m.bin[pos], e, WALLETS[*r], clause),
						data,
						dec_key: Some(k),
						kind: kind.to_owned(),
						exp_sender: es.clone(),
						exp_json: cases[m.si].json.clone(),
						orig: m.bin.clone(),
					});
				}
			}
		}
		t
	});
	let mut bin_cases = 0u64;
	for t in res {
		bin_cases += t.cases;
		total.merge(t);
	}
	// ---- 3b. structured edits of the clear header: a sender written into the header of an
	// encrypted message (the header is outside the age payload and only covered by the unkeyed
	// armor checksum). Every encrypted message × {an outsider's address, a recipient's address}.
	let mut forged_cases = 0u64;
	{
		let forged: Vec<(usize, usize)> = (0..enc.len()).flat_map(|mi| vec![(mi, 0usize), (mi, 1usize)]).collect();
		let res = par_map(&forged, nw, |_, (mi, which)| {
			let m = &enc[*mi];
			let mut t = Tally::default();
			let l = match layout(&m.bin) {
				Some(l) => l,
				None => return t,
			};
			if l.payload_off != 17 {
				return t; // header already carries optional fields: not this shape
			}
			let k = key_of(m.rset[0], 0, m.ridx);
			let es = expected_sender(m);
			let forged_addr = if *which == 0 { address_of(&derive_key(&key_universe()[key_universe().len() - 1])) } else { address_of(&k) };
			let text = forged_addr.to_string();
			let mut data = m.bin[0..3].to_vec();
			let flags = u16::from_be_bytes([m.bin[3], m.bin[4]]) | 0x01;
			data.extend_from_slice(&flags.to_be_bytes());
			data.extend_from_slice(&((1 + text.len()) as u32).to_be_bytes());
			data.push(text.len() as u8);
			data.extend_from_slice(text.as_bytes());
			data.extend_from_slice(&m.bin[9..]);
			let (v, d) = verdict("header-edit", &data, Some(&k), &es, &cases[m.si].canon, &m.bin);
			t.cases += 1;
			let d_label = match (&d, &v) {
				(Dec::Ok { .. }, None) => "Ok-identical".to_owned(),
				(Dec::Ok { .. }, Some(_)) => "Ok-VIOLATION".to_owned(),
				_ => d.class(),
			};
			*t.hist.entry(format!("bin/header.forged-sender/{}", d_label.split(" [").next().unwrap())).or_insert(0) += 1;
			if let Some(clause) = v {
				t.cands.push(Cand {
					key: format!("C10/tamper-binary/header.forged-sender/{}", clause),
					what: format!("{}; sender {} written into the clear header, decrypting with the key of {}: decoded instead of rejected ({})", m.label(&cases), if *which == 0 { "of an outsider" } else { "of the recipient" }, WALLETS[m.rset[0]], clause),
					data,
					dec_key: Some(k),
					kind: "header-edit".to_owned(),
					exp_sender: es.clone(),
					exp_json: cases[m.si].json.clone(),
					orig: m.bin.clone(),
				});
			}
			t
		});
		for t in res {
			forged_cases += t.cases;
			bin_cases += t.cases;
			total.merge(t);
		}
	}
	let bin_s = t3.elapsed().as_secs_f64();

	// ---- 4. edits of the armored text -------------------------------------------------------
	let t4 = Instant::now();
	// (message, key wallet); plain messages have no key
	let mut text_msgs: Vec<(&Msg, Option<usize>, bool)> = vec![]; // message, key wallet, full alphabet
	if thorough {
		// every slate: unencrypted with sender, encrypted to one recipient with sender.
		// Decoding costs O(chars^2) and there are 124*chars edits: messages above FULL_LIMIT characters
		// (the S3/I3-class slates, which carry range proofs) get the reduced alphabet, except the first
		// unencrypted one (S3), which gets the full one.
		const FULL_LIMIT: usize = 2400;
		let first_big = sel.iter().cloned().find(|si| plain_of(*si, true).armored.len() > FULL_LIMIT);
		for &si in sel.iter() {
			let p = plain_of(si, true);
			let e = enc.iter().find(|m| m.si == si && m.sender && m.rset.len() == 1).unwrap();
			text_msgs.push((p, None, p.armored.len() <= FULL_LIMIT || Some(si) == first_big));
			text_msgs.push((e, Some(e.rset[0]), e.armored.len() <= FULL_LIMIT));
		}
		// and, for the first slate, the remaining shapes
		let first = sel[0];
		text_msgs.push((plain_of(first, false), None, true));
		for n in [2usize, 3].iter() {
			let e = enc.iter().find(|m| m.si == first && m.sender && m.rset.len() == *n).unwrap();
			text_msgs.push((e, Some(*e.rset.last().unwrap()), true));
		}
	} else {
		let first = sel[0];
		text_msgs.push((plain_of(first, true), None, true));
		let e = enc.iter().find(|m| m.si == first && m.sender && m.rset.len() == 1).unwrap();
		text_msgs.push((e, Some(e.rset[0]), true));
	}
	let alpha = text_alphabet();
	let mut text_cases = 0u64;
	let mut text_distinct = 0u64;
	let mut text_chars = 0u64;
	let mut text_identical = 0u64;
	let mut text_msg_info = vec![];
	for (m, kw, full) in text_msgs.iter() {
		let text = m.armored.as_bytes();
		let k = kw.map(|r| key_of(r, 0, m.ridx));
		let es = expected_sender(m);
		// baseline
		let (v0, d0) = verdict("right-key", text, k.as_ref(), &es, &cases[m.si].canon, &m.bin);
		if v0.is_some() {
			machinery = Some(format!("baseline decode of {} failed: {}", m.label(&cases), d0.class()));
			continue;
		}
		let positions: Vec<usize> = (0..=text.len()).collect();
		let res = par_map(&positions, nw, |_, pos| {
			let mut t = Tally::default();
			let mut hashes = Vec::with_capacity(130);
			let region = armor_region(text, std::cmp::min(*pos, text.len() - 1));
			let red;
			let a: &[u8] = if *full {
				&alpha
			} else {
				red = reduced_alphabet(text, *pos);
				&red
			};
			for (class, data) in text_edits_at(text, *pos, a) {
				hashes.push(h64(&data));
				let (v, d) = verdict("text-edit", &data, k.as_ref(), &es, &cases[m.si].canon, &m.bin);
				let d_label = match (&d, &v) {
					(Dec::Ok { .. }, None) => "Ok-identical".to_owned(),
					(Dec::Ok { .. }, Some(c)) if c.starts_with("inherent") => "Ok-inherent-collision".to_owned(),
					(Dec::Ok { .. }, Some(_)) => "Ok-VIOLATION".to_owned(),
					_ => d.class(),
				};
				t.cases += 1;
				*t.hist.entry(format!("text/{}/{}/{}", region, class, d_label.split(" [").next().unwrap())).or_insert(0) += 1;
				if let Dec::Panic(site) = &d {
					*t.panics.entry(site.clone()).or_insert(0) += 1;
				}
				match v {
					Some(c) if c.starts_with("inherent") => t.inherent.push(json!({"case": m.label(&cases), "edit": class, "position": pos, "text": String::from_utf8_lossy(&data)})),
					Some(c) => t.cands.push(Cand {
						key: format!("C10/tamper-armor/{}/{}/{}/{}", if k.is_some() { "encrypted" } else { "plain" }, region, class, c.split(':').next().unwrap()),
						what: format!("{}; {} at character {} ({}) of the armored text decodes to a different result ({}) although the check bytes do not match", m.label(&cases), class, pos, region, c),
						data,
						dec_key: k,
						kind: "text-edit".to_owned(),
						exp_sender: es.clone(),
						exp_json: cases[m.si].json.clone(),
						orig: m.bin.clone(),
					}),
					None => {}
				}
			}
			(t, hashes)
		});
		let mut seen: HashSet<u64> = HashSet::new();
		let mut n = 0u64;
		for (t, hs) in res {
			n += t.cases;
			text_identical += t.hist.iter().filter(|(k, _)| k.ends_with("Ok-identical")).map(|(_, v)| *v).sum::<u64>();
			seen.extend(hs);
			total.merge(t);
		}
		text_cases += n;
		text_distinct += seen.len() as u64;
		text_chars += text.len() as u64;
		text_msg_info.push(json!({"case": m.label(&cases), "chars": text.len(), "edits": n, "distinct_inputs": seen.len(), "decrypt_key": kw.map(|r| WALLETS[r]), "alphabet": if *full { "full (61)" } else { "reduced ('1','z',' ','.', base58 successor)" }}));
	}
	let text_s = t4.elapsed().as_secs_f64();

	// ---- findings ---------------------------------------------------------------------------
	// simplest first: candidates were produced in enumeration order
	let mut seen_keys = HashSet::new();
	let cands = std::mem::take(&mut total.cands);
	for c in cands.iter() {
		if !seen_keys.insert(c.key.clone()) {
			continue;
		}
		if c.kind == "scan" || c.kind == "scan-json-form" {
			// deterministic by construction (a substring search over recorded bytes)
			rep.add_finding(Finding { key: c.key.clone(), what: c.what.clone(), replay: cand_payload(c) });
			continue;
		}
		let exp = canon(&slate_from_json(&c.exp_json));
		if let Err(e) = confirm(&rep, c, &exp) {
			machinery = Some(e);
		}
	}

	// ---- evidence ---------------------------------------------------------------------------
	let evaluations = total.cases + api_calls + scan_needles + scan_windows;
	let n_panics: u64 = total.panics.values().sum();
	rep.cov("states", json!(total.cases));
	rep.cov("transitions", json!(total.cases + api_calls));
	rep.cov("traces_validated_against_impl", json!(total.cases + api_calls));
	rep.cov("evaluations", json!(evaluations));
	rep.cov("distinct_nontrivial", json!(matrix_cases as u64 + bin_cases + text_distinct));
	rep.cov("rule", json!("every case is one execution of Slatepacker::deser_slatepack(+decrypt)+get_slate on a message produced by owner::create_slatepack_message; a case is counted as distinct when its (input bytes, key) pair is new: matrix pairs and binary edits are distinct by construction (edits that do not change the byte are not generated), text edits are counted by a measured hash set of the mutated texts per message (an insertion next to an equal character repeats an input)"));
	rep.cov("exhaustive", json!(true));
	rep.cov("dimensions", json!({
		"slates": sel.iter().map(|i| cases[*i].name.clone()).collect::<Vec<_>>(),
		"sender": ["none", "some(index 0 of the creating wallet)"],
		"recipient_sets": rsets.len(),
		"recipient_address_index": "0 for every slate x sender x set; additionally 2 for the first slate x sender=some x every set",
		"recipient_set_sizes": [1, 2, 3],
		"encrypted_messages": enc.len(),
		"unencrypted_messages": plain.len(),
		"key_universe": universe.iter().map(|k| k.label()).collect::<Vec<_>>(),
		"matrix_cases": matrix_cases,
		"api_level_calls(4 wallets x 2 accounts x messages x 2 entry points)": api_calls,
		"binary_edit_values_per_byte": "b^0x01, b^0x80, 0x00 if b != 0",
		"binary_edit_messages_x_keys": bin_items.iter().map(|i| (i.0, i.1)).collect::<HashSet<_>>().len(),
		"binary_edit_positions": bin_positions,
		"binary_edit_payload_positions": bin_payload_positions,
		"binary_edit_cases": bin_cases,
		"text_alphabet": String::from_utf8_lossy(&alpha),
		"text_edit_classes": ["subst (61)", "delete", "insert (61, also at the end)", "transpose"],
		"text_messages": text_msg_info,
		"text_chars": text_chars,
		"text_edit_cases": text_cases,
		"text_edit_distinct_inputs": text_distinct,
	}));
	rep.cov("cleartext_scan", json!({
		"messages": enc.len(),
		"needle_searches": scan_needles,
		"json_forms_scanned": json_forms,
		"plaintext_windows_searched": scan_windows,
		"window_bytes": WINDOW,
		"low_entropy_values_not_searched": scan_skipped_low_entropy,
		"control_needles_found_in_unencrypted_message": control_found,
		"control_needles_total": control_total,
		"samples": scan_samples,
	}));
	rep.cov("outcome_histogram", json!(total.hist));
	rep.cov("api_outcome_histogram", json!(api_hist));
	rep.cov("matrix", json!({"recipient_key_decrypts_to_original": matrix_ok, "other_key_rejected": matrix_rej, "plain_control_ok": plain_ok}));
	rep.cov("panics_counted_as_rejected(C09 subject)", json!({"total": n_panics, "by_site": total.panics}));
	rep.cov("inherent_check_collisions", json!(total.inherent));
	rep.cov("phase_wall_s", json!({"setup": setup_s, "matrix": matrix_s, "matrix_packer_part": matrix_packer_s, "scan": scan_s, "binary_edits": bin_s, "text_edits": text_s}));
	let mut samples = vec![];
	if let Some(m) = enc.iter().find(|m| m.rset.len() == 2 && m.sender) {
		samples.push(json!({"case": m.label(&cases), "armored_chars": m.armored.len(), "binary_bytes": m.bin.len(), "keys_that_decrypt": universe.iter().filter(|k| is_recipient(k, m)).map(|k| k.label()).collect::<Vec<_>>(), "keys_rejected": universe.iter().filter(|k| !is_recipient(k, m)).count()}));
		samples.push(json!({"case": m.label(&cases), "armored_head": m.armored.chars().take(80).collect::<String>()}));
	}
	if let Some(&mi) = bin_msgs.first() {
		let m = &enc[mi];
		let l = layout(&m.bin).unwrap();
		samples.push(json!({"binary_edit_case": m.label(&cases), "bytes": m.bin.len(), "header_bytes": l.payload_off, "age_header_bytes": l.age_header_end - l.payload_off, "age_body_bytes": m.bin.len() - l.age_header_end}));
	}
	rep.cov("samples", json!(samples));
	rep.assume("recipient addresses are derivation index 0 of the default account (what the wallet publishes), plus index 2 for one slate; every other index/account/wallet of the 20-key universe is the wrong-key set");
	rep.assume("small-scope hypothesis over slates: 12 real slates (every state, with/without payment proof, late-lock/ttl variant) stand for all slates; over edits: single edits only");
	rep.assume("the derived kernel of slate.tx is not transported by a V4 slate and is not compared; all other fields are");
	rep.assume("thorough text edits cover one unencrypted and one single-recipient message per slate plus the remaining shapes of the first slate; the armor layer (framing, base58, 4 check bytes) does not depend on the recipient set or on the content");
	rep.assume("messages above 2400 characters get the reduced substitution/insertion alphabet (stated per message in dimensions.text_messages), except the unencrypted S3 message: cost is cubic in the message length");

	// ---- vacuity ----------------------------------------------------------------------------
	let exp_right: usize = enc.iter().map(|m| m.rset.len()).sum();
	let rejected_classes = total.hist.keys().filter(|k| k.contains("Err:")).map(|k| k.rsplit('/').next().unwrap().to_owned()).collect::<HashSet<_>>().len();
	let vac = if machinery.is_some() {
		machinery
	} else if total.hist.get("matrix/recipient-key/Ok").cloned().unwrap_or(0) == 0 || exp_right == 0 {
		Some("vacuity guard: no recipient key decrypted anything".to_owned())
	} else if matrix_rej == 0 {
		Some("vacuity guard: no wrong key was rejected".to_owned())
	} else if api_calls == 0 || api_hist.len() < 2 {
		Some("vacuity guard: the wallet-level matrix produced a single outcome".to_owned())
	} else if control_found < enc.len() as u64 {
		Some(format!("vacuity guard: the cleartext scan found only {} control needles in the unencrypted messages", control_found))
	} else if bin_cases < 1000 || bin_payload_positions == 0 || text_cases < 10_000 || text_identical == 0 {
		Some(format!("vacuity guard: edit sweeps too small (binary {}, text {}, identical text results {})", bin_cases, text_cases, text_identical))
	} else if rejected_classes < 2 {
		Some("vacuity guard: a single rejection class".to_owned())
	} else {
		None
	};
	rep.finish(vac)
}
