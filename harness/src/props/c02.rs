//! C02 — finalized transactions are valid, exact, and safe against an altered reply.
//! Exhaustive sweep: every honest exchange shape (flow × change outputs × selection strategy ×
//! payment proof × amount class) on a funded two-wallet world is run up to the counterparty's
//! reply; the world is snapshotted there and the reply is finalised unaltered and under every
//! single mutation (quick: on one exchange per flow; thorough: on every exchange, plus every
//! pair of mutations on one exchange per flow) of an explicit mutation alphabet. Oracle: an
//! independent recomputation of what the transaction must be (from the payer's stored context,
//! the keychains and the recipient's own record), the stored copy, and the real chain.

use crate::common::*;
use crate::core::core::{Committed, FeeFields, KernelFeatures, Transaction, Weighting};
use crate::core::libtx::tx_fee;
use crate::keychain::{BlindSum, BlindingFactor, Keychain, SwitchCommitmentType};
use crate::libwallet::api_impl::owner;
use crate::libwallet::slate_versions::v4::{CommitsV4, KernelFeaturesArgsV4, OutputFeaturesV4, ParticipantDataV4, PaymentInfoV4, SlateStateV4, SlateV4};
use crate::libwallet::{Context, IssueInvoiceTxArgs, OutputData, OutputStatus, Slate, SlatepackAddress, TxLogEntry, TxLogEntryType};
use crate::props::c11::{addr_pk, addr_sk, apply_palt, err_class, excess_of, head_coinbase_excess, pp_sign, PAlt, PEnv};
use crate::util::secp::key::SecretKey;
use crate::util::secp::pedersen::Commitment;
use crate::util::secp::Signature;
use crate::util::{self, static_secp_instance, ToHex};
use crate::world::*;
use serde_json::{json, Value};
use std::collections::{BTreeMap, BTreeSet};
use std::time::{Duration, Instant};
use uuid::Uuid;

const G: u64 = 1_000_000_000;

#[derive(Clone, Copy, Debug, PartialEq, Serialize, Deserialize)]
enum Flow {
	Send,
	Late,
	SelfSend,
	Invoice,
}

/// one honest exchange shape
#[derive(Clone, Copy, Debug, PartialEq, Serialize, Deserialize)]
struct Ex {
	flow: Flow,
	change_n: u32,
	/// selection strategy "use all"
	all: bool,
	proof: bool,
	/// amount class: false = small, true = everything but the fee
	big: bool,
	/// (sends) before replying, the counterparty reflects the payer's first slate to the payer's own
	/// foreign receive_tx: the payer then also holds a receive entry under the slate id, as in a self-send
	#[serde(default)]
	reflected: bool,
}

fn exchanges() -> (Vec<Ex>, Vec<String>) {
	let mut v = vec![];
	let mut skipped = BTreeSet::new();
	for flow in [Flow::Send, Flow::Late, Flow::SelfSend, Flow::Invoice].iter() {
		for proof in [false, true].iter() {
			for change_n in [1u32, 0, 2].iter() {
				for all in [false, true].iter() {
					for big in [false, true].iter() {
						if *flow == Flow::Invoice && *proof {
							skipped.insert("invoice × payment proof: the invoice flow has no payment proof (process_invoice_tx ignores the request)".to_owned());
							continue;
						}
						if *change_n == 0 && *all && !*big {
							skipped.insert("0 change outputs × strategy all × small amount: spending every output for a small amount always leaves change".to_owned());
							continue;
						}
						v.push(Ex { flow: *flow, change_n: *change_n, all: *all, proof: *proof, big: *big, reflected: false });
					}
				}
			}
		}
	}
	for proof in [false, true].iter() {
		v.push(Ex { flow: Flow::Send, change_n: 1, all: false, proof: *proof, big: false, reflected: true });
	}
	(v, skipped.into_iter().collect())
}

/// the exchanges that receive the full mutation sweep in the quick tier / the pair sweep in the thorough tier
fn swept() -> Vec<Ex> {
	vec![
		Ex { flow: Flow::Send, change_n: 1, all: false, proof: true, big: false, reflected: false },
		Ex { flow: Flow::Late, change_n: 2, all: true, proof: true, big: false, reflected: false },
		// a late-locked send that leaves spendable outputs over (a second selection is possible)
		Ex { flow: Flow::Late, change_n: 1, all: false, proof: false, big: false, reflected: false },
		Ex { flow: Flow::SelfSend, change_n: 0, all: false, proof: false, big: false, reflected: false },
		Ex { flow: Flow::Invoice, change_n: 1, all: false, proof: false, big: false, reflected: false },
		Ex { flow: Flow::Send, change_n: 1, all: false, proof: false, big: false, reflected: true },
		Ex { flow: Flow::Send, change_n: 1, all: false, proof: true, big: false, reflected: true },
	]
}

// ---------------------------------------------------------------------------------------------
// mutation alphabet

#[derive(Clone, Copy, Debug, PartialEq, Serialize, Deserialize)]
enum AmtV {
	One,
	True,
	TruePlus1,
	TrueMinus1,
	Max,
}
#[derive(Clone, Copy, Debug, PartialEq, Serialize, Deserialize)]
enum FeeV {
	Zero,
	True,
	TruePlus1,
	TrueMinus1,
	TrueShift1,
	One,
}
#[derive(Clone, Copy, Debug, PartialEq, Serialize, Deserialize)]
enum OffV {
	Zero,
	Plus1,
	Other,
}
#[derive(Clone, Copy, Debug, PartialEq, Serialize, Deserialize)]
enum IdV {
	OtherKnown,
	Unknown,
}
#[derive(Clone, Copy, Debug, PartialEq, Serialize, Deserialize)]
enum TtlV {
	Expired,
	Far,
}
#[derive(Clone, Copy, Debug, PartialEq, Serialize, Deserialize)]
enum PartV {
	DropAll,
	FinalizerOnly,
	Full,
	FullSwapped,
	DupReplier,
	XsReplaced,
	NonceReplaced,
	XsNonceExchanged,
	FromOther,
	ExtraForeign,
}
#[derive(Clone, Copy, Debug, PartialEq, Serialize, Deserialize)]
enum SigV {
	Absent,
	FlipS,
	FlipR,
	Zero,
	FromOther,
}
#[derive(Clone, Copy, Debug, PartialEq, Serialize, Deserialize)]
enum ComV {
	RemoveOutput,
	RemoveInput,
	DropAll,
	AddForeignOutput,
	ReplaceCommit,
	ReplaceProof,
	CoinbaseFeature,
	AddInput,
	DupOutput,
	InputFeatureFlip,
	/// the recipient itself deviates: a fully re-signed reply that pays the amount into TWO outputs
	SplitRecipientOutput,
}

/// a deviating recipient: complete replies whose signatures are all valid for the ALTERED value, which the
/// reply also states in its own fee / amount field (two cooperating alterations)
#[derive(Clone, Copy, Debug, PartialEq, Serialize, Deserialize)]
enum DisV {
	/// signs for the agreed fee with a fee shift, reply states that fee
	FeeShift,
	/// signs for a higher fee taken out of its own output, reply states that fee
	FeeRaised,
	/// signs the payment proof over another amount, reply states that amount
	AmountClaimed,
}

#[derive(Clone, Copy, Debug, PartialEq, Serialize, Deserialize)]
enum Mu {
	Amount(AmtV),
	Fee(FeeV),
	Offset(OffV),
	State(u8),
	Id(IdV),
	NumParts(u8),
	Ttl(TtlV),
	Feat(u8, bool),
	Part(PartV),
	Sig(SigV),
	Com(ComV),
	Proof(PAlt),
	ProofAddUnrequested,
	Dishonest(DisV),
	/// the reply relabelled as the reply to an invoice (state Invoice2) with the fee field, which a
	/// Standard2 reply carries as zero, set to the given value
	Dressed(FeeV),
	/// a consistent dishonest reply (see Dishonest) relabelled as the reply to an invoice
	DressedDishonest(DisV),
	/// (invoice flow) a consistent reply of a dishonest payer: same inputs, the change adjusted, the partial
	/// signature made over the stated fee fields, which are below the minimum for the transaction:
	/// false = plain fee field, true = the same fee with a non-zero fee shift
	PayerLowFee(bool),
}

fn alphabet() -> Vec<Mu> {
	let mut v = vec![];
	for a in [AmtV::One, AmtV::True, AmtV::TruePlus1, AmtV::TrueMinus1, AmtV::Max].iter() {
		v.push(Mu::Amount(*a));
	}
	for a in [FeeV::Zero, FeeV::True, FeeV::TruePlus1, FeeV::TrueMinus1, FeeV::TrueShift1, FeeV::One].iter() {
		v.push(Mu::Fee(*a));
	}
	for a in [OffV::Zero, OffV::Plus1, OffV::Other].iter() {
		v.push(Mu::Offset(*a));
	}
	for s in 0..7u8 {
		v.push(Mu::State(s));
	}
	v.push(Mu::Id(IdV::OtherKnown));
	v.push(Mu::Id(IdV::Unknown));
	for n in [0u8, 1, 3].iter() {
		v.push(Mu::NumParts(*n));
	}
	v.push(Mu::Ttl(TtlV::Expired));
	v.push(Mu::Ttl(TtlV::Far));
	for (f, a) in [(0u8, true), (1, false), (1, true), (2, false), (2, true), (3, false), (3, true), (4, false)].iter() {
		v.push(Mu::Feat(*f, *a));
	}
	for p in [
		PartV::DropAll,
		PartV::FinalizerOnly,
		PartV::Full,
		PartV::FullSwapped,
		PartV::DupReplier,
		PartV::XsReplaced,
		PartV::NonceReplaced,
		PartV::XsNonceExchanged,
		PartV::FromOther,
		PartV::ExtraForeign,
	]
	.iter()
	{
		v.push(Mu::Part(*p));
	}
	for s in [SigV::Absent, SigV::FlipS, SigV::FlipR, SigV::Zero, SigV::FromOther].iter() {
		v.push(Mu::Sig(*s));
	}
	for c in [
		ComV::RemoveOutput,
		ComV::RemoveInput,
		ComV::DropAll,
		ComV::AddForeignOutput,
		ComV::ReplaceCommit,
		ComV::ReplaceProof,
		ComV::CoinbaseFeature,
		ComV::AddInput,
		ComV::DupOutput,
		ComV::InputFeatureFlip,
		ComV::SplitRecipientOutput,
	]
	.iter()
	{
		v.push(Mu::Com(*c));
	}
	for p in crate::props::c11::palts() {
		v.push(Mu::Proof(p));
	}
	v.push(Mu::ProofAddUnrequested);
	for d in [DisV::FeeShift, DisV::FeeRaised, DisV::AmountClaimed].iter() {
		v.push(Mu::Dishonest(*d));
	}
	for f in [FeeV::True, FeeV::TruePlus1, FeeV::TrueMinus1, FeeV::TrueShift1].iter() {
		v.push(Mu::Dressed(*f));
	}
	for d in [DisV::FeeShift, DisV::FeeRaised].iter() {
		v.push(Mu::DressedDishonest(*d));
	}
	v.push(Mu::PayerLowFee(false));
	v.push(Mu::PayerLowFee(true));
	v
}

/// two mutations of the same scalar field: the second simply overrides the first (= a single mutation)
fn same_scalar(a: &Mu, b: &Mu) -> bool {
	use Mu::*;
	matches!(
		(a, b),
		(Amount(_), Amount(_)) | (Fee(_), Fee(_)) | (Offset(_), Offset(_)) | (State(_), State(_)) | (Id(_), Id(_)) | (NumParts(_), NumParts(_)) | (Ttl(_), Ttl(_)) | (Feat(_, _), Feat(_, _)) | (Proof(_), Proof(_))
	)
}

fn state_v4(n: u8) -> SlateStateV4 {
	match n {
		0 => SlateStateV4::Unknown,
		1 => SlateStateV4::Standard1,
		2 => SlateStateV4::Standard2,
		3 => SlateStateV4::Standard3,
		4 => SlateStateV4::Invoice1,
		5 => SlateStateV4::Invoice2,
		_ => SlateStateV4::Invoice3,
	}
}

fn state_no(s: &SlateStateV4) -> u8 {
	match s {
		SlateStateV4::Unknown => 0,
		SlateStateV4::Standard1 => 1,
		SlateStateV4::Standard2 => 2,
		SlateStateV4::Standard3 => 3,
		SlateStateV4::Invoice1 => 4,
		SlateStateV4::Invoice2 => 5,
		SlateStateV4::Invoice3 => 6,
	}
}

struct Env {
	/// what the finalizing wallet sent out (S1 / I1): carries its public participant entry
	first: Slate,
	/// the reply of another pending exchange of the same flow type with the same finalizer
	other: Slate,
	/// reply of the other pending send (source of a foreign valid output)
	y2: Slate,
	amount: u64,
	fee: FeeFields,
	/// commitment of a mature unspent coinbase output of wallet M
	m_commit: Commitment,
	penv: Option<PEnv>,
	flow: Flow,
	/// (invoice flow) the payer's inputs: key id and value
	payer_inputs: Vec<(crate::keychain::Identifier, u64)>,
}

fn flip_sig(s: &Signature, byte: usize) -> Signature {
	let mut raw = [0u8; 64];
	raw.copy_from_slice(&s.as_ref()[..64]);
	raw[byte] ^= 1;
	Signature::from_raw_data(&raw).unwrap()
}

/// A reply made by a deviating recipient: same amount, paid into two outputs of its own, with a fresh
/// excess, offset, nonce and a valid partial signature (and a valid proof signature when requested).
/// Every signature in it verifies; the transaction it leads to weighs more than the agreed fee covers.
fn split_reply(v: &SlateV4, first: &SlateV4, pe: &PEnv, amount: u64, fee: FeeFields) -> Option<SlateV4> {
	let v1 = amount / 2;
	resigned_reply(v, first, pe, &[v1, amount - v1], fee, amount)
}

/// A complete, internally consistent reply built by a deviating recipient: it pays `outs` into outputs of
/// its own, signs the kernel message for `sig_fee`, and (when a proof was requested) signs the payment
/// proof over `proof_amount`. Every signature in it verifies under those values.
fn resigned_reply(v: &SlateV4, first: &SlateV4, pe: &PEnv, outs: &[u64], sig_fee: FeeFields, proof_amount: u64) -> Option<SlateV4> {
	use crate::core::libtx::{aggsig, build, ProofBuilder};
	use crate::util::secp::key::PublicKey;
	let kc = keychain_for(&pe.recipient.0);
	let secp = kc.secp();
	let builder = ProofBuilder::new(&kc);
	let elems: Vec<_> = outs
		.iter()
		.enumerate()
		.map(|(i, val)| build::output(*val, crate::keychain::ExtKeychain::derive_key_id(3, pe.recipient.1, 0, 900 + i as u32, 0)))
		.collect();
	let (tx, bf) = build::partial_transaction(Slate::empty_transaction(), &elems, &kc, &builder).ok()?;
	let xr = SecretKey::new(secp, &mut rand::thread_rng());
	let kr = aggsig::create_secnonce(secp).ok()?;
	let off = kc.blind_sum(&BlindSum::new().add_blinding_factor(bf).sub_blinding_factor(BlindingFactor::from_secret_key(xr.clone()))).ok()?;
	let mine = first.sigs.get(0)?;
	let xs = PublicKey::from_secret_key(secp, &xr).ok()?;
	let nonce = PublicKey::from_secret_key(secp, &kr).ok()?;
	let nonce_sum = PublicKey::from_combination(secp, vec![&mine.nonce, &nonce]).ok()?;
	let blind_sum = PublicKey::from_combination(secp, vec![&mine.xs, &xs]).ok()?;
	let msg = KernelFeatures::Plain { fee: sig_fee }.kernel_sig_msg().ok()?;
	let part = aggsig::calculate_partial_sig(secp, &xr, &kr, &nonce_sum, Some(&blind_sum), &msg).ok()?;
	let mut nv = v.clone();
	nv.off = off;
	nv.sigs = vec![ParticipantDataV4 { xs, nonce, part: Some(part) }];
	nv.coms = Some(tx.outputs().iter().map(CommitsV4::from).collect());
	if let Some(p) = nv.proof.as_mut() {
		let excess = Commitment::from_pubkey(secp, &blind_sum).ok()?;
		p.rsig = Some(pp_sign(proof_amount, &excess, p.saddr, addr_sk(&pe.recipient.0, pe.recipient.1)));
	}
	Some(nv)
}

/// A consistent reply of a dishonest invoice payer: the same inputs, one change output worth
/// total - amount - fee, fresh excess and nonce, the partial signature over the kernel message for `fee`.
fn payer_reply(v: &SlateV4, first: &SlateV4, inputs: &[(crate::keychain::Identifier, u64)], amount: u64, fee: FeeFields) -> Option<SlateV4> {
	use crate::core::libtx::{aggsig, build, ProofBuilder};
	use crate::util::secp::key::PublicKey;
	let kc = keychain_for("A");
	let secp = kc.secp();
	let builder = ProofBuilder::new(&kc);
	let total: u64 = inputs.iter().map(|i| i.1).sum();
	let change = total.checked_sub(amount)?.checked_sub(fee.fee())?;
	let mut elems: Vec<_> = inputs.iter().map(|(id, val)| build::coinbase_input(*val, id.clone())).collect();
	elems.push(build::output(change, crate::keychain::ExtKeychain::derive_key_id(3, 0, 0, 950, 0)));
	let (tx, bf) = build::partial_transaction(Slate::empty_transaction(), &elems, &kc, &builder).ok()?;
	let xr = SecretKey::new(secp, &mut rand::thread_rng());
	let kr = aggsig::create_secnonce(secp).ok()?;
	let off = kc.blind_sum(&BlindSum::new().add_blinding_factor(bf).sub_blinding_factor(BlindingFactor::from_secret_key(xr.clone()))).ok()?;
	let issuer = first.sigs.get(0)?;
	let xs = PublicKey::from_secret_key(secp, &xr).ok()?;
	let nonce = PublicKey::from_secret_key(secp, &kr).ok()?;
	let nonce_sum = PublicKey::from_combination(secp, vec![&issuer.nonce, &nonce]).ok()?;
	let blind_sum = PublicKey::from_combination(secp, vec![&issuer.xs, &xs]).ok()?;
	let msg = KernelFeatures::Plain { fee }.kernel_sig_msg().ok()?;
	let part = aggsig::calculate_partial_sig(secp, &xr, &kr, &nonce_sum, Some(&blind_sum), &msg).ok()?;
	let mut nv = v.clone();
	nv.off = off;
	nv.fee = fee;
	nv.sigs = vec![ParticipantDataV4 { xs, nonce, part: Some(part) }];
	let mut coms: Vec<CommitsV4> = tx.inputs_committed().iter().map(|c| CommitsV4 { f: crate::libwallet::slate_versions::v4::OutputFeaturesV4(1), c: *c, p: None }).collect();
	coms.extend(tx.outputs().iter().map(CommitsV4::from));
	nv.coms = Some(coms);
	Some(nv)
}

/// returns false when the mutation does not apply to this reply
fn apply(mu: &Mu, v: &mut SlateV4, e: &Env) -> bool {
	let other = SlateV4::from(&e.other);
	let y2 = SlateV4::from(&e.y2);
	let first = SlateV4::from(&e.first);
	let first_out = |v: &SlateV4| v.coms.as_ref().and_then(|c| c.iter().position(|x| x.p.is_some()));
	let first_in = |v: &SlateV4| v.coms.as_ref().and_then(|c| c.iter().position(|x| x.p.is_none()));
	let foreign_out: CommitsV4 = match y2.coms.as_ref().and_then(|c| c.iter().find(|x| x.p.is_some())) {
		Some(c) => *c,
		None => return false,
	};
	match mu {
		Mu::Amount(a) => {
			v.amt = match a {
				AmtV::One => 1,
				AmtV::True => e.amount,
				AmtV::TruePlus1 => e.amount + 1,
				AmtV::TrueMinus1 => e.amount - 1,
				AmtV::Max => u64::MAX,
			}
		}
		Mu::Fee(f) => {
			let t = e.fee;
			v.fee = match f {
				FeeV::Zero => FeeFields::zero(),
				FeeV::True => t,
				FeeV::TruePlus1 => FeeFields::new(t.fee_shift() as u64, t.fee() + 1).unwrap(),
				FeeV::TrueMinus1 => FeeFields::new(t.fee_shift() as u64, t.fee() - 1).unwrap(),
				FeeV::TrueShift1 => FeeFields::new(1, t.fee()).unwrap(),
				FeeV::One => FeeFields::new(0, 1).unwrap(),
			}
		}
		Mu::Offset(o) => {
			v.off = match o {
				OffV::Zero => BlindingFactor::zero(),
				OffV::Plus1 => {
					let mut one = [0u8; 32];
					one[31] = 1;
					let secp = static_secp_instance();
					let secp = secp.lock();
					let k1 = SecretKey::from_slice(&secp, &one).unwrap();
					let kc = keychain_for("M");
					kc.blind_sum(&BlindSum::new().add_blinding_factor(v.off.clone()).add_blinding_factor(BlindingFactor::from_secret_key(k1))).unwrap()
				}
				OffV::Other => other.off.clone(),
			}
		}
		Mu::State(n) => {
			if state_no(&v.sta) == *n {
				return false;
			}
			v.sta = state_v4(*n);
		}
		Mu::Id(i) => {
			v.id = match i {
				IdV::OtherKnown => other.id,
				IdV::Unknown => Uuid::from_bytes([7u8; 16]),
			}
		}
		Mu::NumParts(n) => v.num_parts = *n,
		Mu::Ttl(t) => {
			v.ttl = match t {
				TtlV::Expired => 1,
				TtlV::Far => 1_000_000,
			}
		}
		Mu::Feat(f, a) => {
			v.feat = *f;
			v.feat_args = if *a { Some(KernelFeaturesArgsV4 { lock_hgt: 3 }) } else { None };
		}
		Mu::Part(p) => {
			let r: ParticipantDataV4 = match v.sigs.get(0) {
				Some(x) => x.clone(),
				None => return false,
			};
			let mine: ParticipantDataV4 = match first.sigs.get(0) {
				Some(x) => x.clone(),
				None => return false,
			};
			let o: ParticipantDataV4 = match other.sigs.get(0) {
				Some(x) => x.clone(),
				None => return false,
			};
			v.sigs = match p {
				PartV::DropAll => vec![],
				PartV::FinalizerOnly => vec![mine],
				PartV::Full => vec![mine, r],
				PartV::FullSwapped => vec![r, mine],
				PartV::DupReplier => vec![r.clone(), r],
				PartV::XsReplaced => vec![ParticipantDataV4 { xs: o.xs, ..r }],
				PartV::NonceReplaced => vec![ParticipantDataV4 { nonce: o.nonce, ..r }],
				PartV::XsNonceExchanged => vec![ParticipantDataV4 { xs: r.nonce, nonce: r.xs, part: r.part }],
				PartV::FromOther => vec![o],
				PartV::ExtraForeign => vec![r, o],
			}
		}
		Mu::Sig(s) => {
			let o = other.sigs.get(0).and_then(|x| x.part);
			let r = match v.sigs.get_mut(0) {
				Some(x) => x,
				None => return false,
			};
			let cur = match r.part {
				Some(x) => x,
				None => return false,
			};
			r.part = match s {
				SigV::Absent => None,
				SigV::FlipS => Some(flip_sig(&cur, 40)),
				SigV::FlipR => Some(flip_sig(&cur, 3)),
				SigV::Zero => Some(Signature::from_raw_data(&[0u8; 64]).unwrap()),
				SigV::FromOther => match o {
					Some(x) => Some(x),
					None => return false,
				},
			}
		}
		Mu::PayerLowFee(shift) => {
			if e.flow != Flow::Invoice || e.payer_inputs.is_empty() {
				return false;
			}
			let low = FeeFields::new(if *shift { 1 } else { 0 }, std::cmp::max(1, e.fee.fee() / 1000)).unwrap();
			match payer_reply(v, &first, &e.payer_inputs, e.amount, low) {
				Some(nv) => *v = nv,
				None => return false,
			}
		}
		Mu::Dressed(f) => {
			if e.flow == Flow::Invoice {
				return false;
			}
			if !apply(&Mu::Fee(*f), v, e) {
				return false;
			}
			v.sta = SlateStateV4::Invoice2;
		}
		Mu::DressedDishonest(d) => {
			if e.flow == Flow::Invoice {
				return false;
			}
			if !apply(&Mu::Dishonest(*d), v, e) {
				return false;
			}
			v.sta = SlateStateV4::Invoice2;
		}
		Mu::Dishonest(d) => {
			if e.flow == Flow::Invoice {
				return false;
			}
			let pe = match e.penv.as_ref() {
				Some(p) => p,
				None => return false,
			};
			let t = e.fee;
			let nv = match d {
				DisV::FeeShift => {
					let f = FeeFields::new(1, t.fee()).unwrap();
					resigned_reply(v, &first, pe, &[e.amount], f, e.amount).map(|mut nv| {
						nv.fee = f;
						nv
					})
				}
				DisV::FeeRaised => {
					let d = 7_000_000u64;
					if e.amount <= d {
						return false;
					}
					let f = FeeFields::new(t.fee_shift() as u64, t.fee() + d).unwrap();
					resigned_reply(v, &first, pe, &[e.amount - d], f, e.amount).map(|mut nv| {
						nv.fee = f;
						nv
					})
				}
				DisV::AmountClaimed => resigned_reply(v, &first, pe, &[e.amount], t, e.amount + 1).map(|mut nv| {
					nv.amt = e.amount + 1;
					nv
				}),
			};
			match nv {
				Some(nv) => *v = nv,
				None => return false,
			}
		}
		Mu::Com(ComV::SplitRecipientOutput) => {
			if e.flow == Flow::Invoice {
				return false;
			}
			let pe = match e.penv.as_ref() {
				Some(p) => p,
				None => return false,
			};
			match split_reply(v, &first, pe, e.amount, e.fee) {
				Some(nv) => *v = nv,
				None => return false,
			}
		}
		Mu::Com(c) => {
			let oi = first_out(v);
			let ii = first_in(v);
			let coms = match v.coms.as_mut() {
				Some(c) => c,
				None => return false,
			};
			match c {
				ComV::RemoveOutput => match oi {
					Some(i) => {
						coms.remove(i);
					}
					None => return false,
				},
				ComV::RemoveInput => match ii {
					Some(i) => {
						coms.remove(i);
					}
					None => return false,
				},
				ComV::DropAll => v.coms = None,
				ComV::AddForeignOutput => coms.push(foreign_out),
				ComV::ReplaceCommit => match oi {
					Some(i) => coms[i].c = foreign_out.c,
					None => return false,
				},
				ComV::ReplaceProof => match oi {
					Some(i) => coms[i].p = foreign_out.p,
					None => return false,
				},
				ComV::CoinbaseFeature => match oi {
					Some(i) => coms[i].f = OutputFeaturesV4(1),
					None => return false,
				},
				ComV::AddInput => coms.push(CommitsV4 { f: OutputFeaturesV4(1), c: e.m_commit, p: None }),
				ComV::DupOutput => match oi {
					Some(i) => {
						let x = coms[i];
						coms.push(x);
					}
					None => return false,
				},
				ComV::InputFeatureFlip => match ii {
					Some(i) => coms[i].f = OutputFeaturesV4(1 - coms[i].f.0.min(1)),
					None => return false,
				},
				ComV::SplitRecipientOutput => unreachable!(),
			}
		}
		Mu::Proof(a) => match e.penv.as_ref() {
			Some(pe) => {
				if !apply_palt(a, v, pe) {
					return false;
				}
			}
			None => return false,
		},
		Mu::ProofAddUnrequested => {
			if v.proof.is_some() {
				return false;
			}
			let pe = match e.penv.as_ref() {
				Some(p) => p,
				None => return false,
			};
			let saddr = addr_pk(&pe.sender.0, pe.sender.1);
			v.proof = Some(PaymentInfoV4 {
				saddr,
				raddr: addr_pk(&pe.recipient.0, pe.recipient.1),
				rsig: Some(pp_sign(pe.amount, &pe.excess, saddr, addr_sk(&pe.recipient.0, pe.recipient.1))),
			});
		}
	}
	true
}

// ---------------------------------------------------------------------------------------------
// worlds

#[derive(Clone, Debug, Serialize, Deserialize)]
struct BaseArt {
	y_s2: String,
	yi_2: String,
	m_commit: String,
}

fn base_world(dir: &str) {
	let mut w = World::create(dir, &[("A", "A"), ("B", "B"), ("M", "M")]);
	w.w("A").create_account("acct1").unwrap();
	w.mine_n("A", 6);
	w.mine_n("B", 3);
	w.mine_n("M", 4);
	w.w("A").refresh().unwrap();
	w.w("B").refresh().unwrap();
	w.w("M").refresh().unwrap();
	let art = {
		let a = w.w("A");
		let b = w.w("B");
		// Y: another pending send A -> B, answered by B
		let s1 = a.init_send(default_args(5 * G)).unwrap();
		a.lock(&s1).unwrap();
		let y_s2 = b.receive(&s1, None).unwrap();
		// YI: another pending invoice issued by B, paid by A
		let i1 = b.issue_invoice(IssueInvoiceTxArgs { amount: 4 * G, ..Default::default() }).unwrap();
		let yi_2 = a.process_invoice(&i1, default_args(0)).unwrap();
		a.lock(&yi_2).unwrap();
		let m = w.w("M");
		let mo = m.outputs().into_iter().find(|o| o.status == OutputStatus::Unspent && o.is_coinbase).unwrap();
		BaseArt { y_s2: slate_to_json(&y_s2), yi_2: slate_to_json(&yi_2), m_commit: m.commit_of(&mo).0.to_vec().to_hex() }
	};
	w.meta.extra["c02base"] = serde_json::to_value(&art).unwrap();
	w.close();
}

#[derive(Clone, Debug, Serialize, Deserialize)]
struct Prep {
	first: String,
	reply: String,
	amount: u64,
	/// spendable (min_conf 1) of A's default account, of B, before the exchange was initiated
	pre_a: u64,
	pre_b: u64,
	/// fee agreed at initiation (payer context), recorded for building mutations
	fee: u64,
	fee_shift: u8,
	/// excess of the head block's coinbase kernel (an on-chain kernel that is not this transaction's)
	cb_excess: String,
	/// (invoice flow) the payer's inputs as recorded in its context: key id (hex) and value
	#[serde(default)]
	payer_inputs: Vec<(String, u64)>,
}

fn e2s(x: crate::libwallet::Error) -> String {
	format!("{}", x)
}

fn spendable(w: &WalletH) -> u64 {
	w.info(false, 1).unwrap().1.amount_currently_spendable
}

fn prepare(dir: &str, base: &Snapshot, ex: &Ex) -> Result<Snapshot, String> {
	base.restore(dir);
	let mut w = World::open(dir);
	let r = (|| -> Result<Prep, String> {
		let a = w.w("A");
		let b = w.w("B");
		let pre_a = spendable(a);
		let pre_b = spendable(b);
		let n_all = (pre_a / (60 * G)) as usize;
		if n_all < 3 || pre_a % (60 * G) != 0 {
			return Err(format!("unexpected funding of A: {}", pre_a));
		}
		let c = ex.change_n as usize;
		let amount = match (ex.change_n, ex.big) {
			(0, false) => 60 * G - tx_fee(1, 1, 1),
			(0, true) => 60 * G * n_all as u64 - tx_fee(n_all, 1, 1),
			(_, false) => 20 * G,
			(_, true) => 60 * G * n_all as u64 - tx_fee(n_all, 1 + c, 1) - 5,
		};
		let mut args = default_args(amount);
		args.num_change_outputs = ex.change_n.max(1);
		args.selection_strategy_is_use_all = ex.all;
		if ex.proof {
			let r = if ex.flow == Flow::SelfSend { addr_pk("A", 1) } else { addr_pk("B", 0) };
			args.payment_proof_recipient_address = Some(SlatepackAddress::new(&r));
		}
		let (first, reply) = match ex.flow {
			Flow::Send => {
				let s1 = a.init_send(args).map_err(e2s)?;
				a.lock(&s1).map_err(e2s)?;
				if ex.reflected {
					let _ = catch(|| a.receive(&s1, None));
					let _ = take_last_panic();
				}
				let s2 = b.receive(&s1, None).map_err(e2s)?;
				(s1, s2)
			}
			Flow::Late => {
				args.late_lock = Some(true);
				let s1 = a.init_send(args).map_err(e2s)?;
				let s2 = b.receive(&s1, None).map_err(e2s)?;
				(s1, s2)
			}
			Flow::SelfSend => {
				let s1 = a.init_send(args).map_err(e2s)?;
				a.lock(&s1).map_err(e2s)?;
				let s2 = a.receive(&s1, Some("acct1")).map_err(e2s)?;
				(s1, s2)
			}
			Flow::Invoice => {
				let i1 = b.issue_invoice(IssueInvoiceTxArgs { amount, ..Default::default() }).map_err(e2s)?;
				args.amount = 0;
				let i2 = a.process_invoice(&i1, args).map_err(e2s)?;
				a.lock(&i2).map_err(e2s)?;
				(i1, i2)
			}
		};
		// the exchange has the requested shape
		let ctx = a.get_context(&first.id).map_err(e2s)?;
		if ex.flow != Flow::Late {
			if ctx.output_ids.len() != c {
				return Err(format!("exchange has {} change outputs, wanted {}", ctx.output_ids.len(), c));
			}
			let want_inputs = if ex.all || ex.big { n_all } else { 1 };
			if ctx.input_ids.len() != want_inputs {
				return Err(format!("exchange has {} inputs, wanted {}", ctx.input_ids.len(), want_inputs));
			}
		}
		let f = ctx.fee.ok_or("payer context has no fee")?;
		let payer_inputs = ctx.input_ids.iter().map(|(id, _, v)| (id.to_hex(), *v)).collect();
		Ok(Prep { first: slate_to_json(&first), reply: slate_to_json(&reply), amount, pre_a, pre_b, fee: f.fee(), fee_shift: f.fee_shift(), cb_excess: head_coinbase_excess(&w).0.to_vec().to_hex(), payer_inputs })
	})();
	match r {
		Ok(p) => {
			w.meta.extra["c02"] = serde_json::to_value(&p).unwrap();
			w.close();
			Ok(Snapshot::capture(dir))
		}
		Err(e) => {
			w.close();
			Err(e)
		}
	}
}

// ---------------------------------------------------------------------------------------------
// one case

#[derive(Clone, Debug)]
struct CaseOut {
	/// "n/a", "ok", "ok(identity)", "err:<class>"
	label: String,
	/// the mutation changed the serialised reply
	changed: bool,
	problem: Option<(String, String)>,
	machinery: Option<String>,
	detail: Value,
}

fn entry_name(flow: Flow) -> &'static str {
	if flow == Flow::Invoice {
		"foreign::finalize_tx"
	} else {
		"owner::finalize_tx"
	}
}

fn mu_class(mus: &[Mu]) -> String {
	if mus.is_empty() {
		"honest".to_owned()
	} else {
		mus.iter().map(|m| format!("{:?}", m)).collect::<Vec<_>>().join("+")
	}
}

/// mutation class used in finding keys: the mutated field(s), without the value
fn mu_group(mus: &[Mu]) -> String {
	if mus.is_empty() {
		"honest".to_owned()
	} else {
		mus.iter().map(|m| format!("{:?}", m).split('(').next().unwrap().to_owned()).collect::<Vec<_>>().join("+")
	}
}

fn tx_bytes(tx: &Transaction) -> String {
	tx_to_hex(tx)
}

fn commit_for(w: &WalletH, value: u64, id: &crate::keychain::Identifier) -> Commitment {
	w.keychain().commit(value, id, SwitchCommitmentType::Regular).unwrap()
}

fn sorted(mut v: Vec<Commitment>) -> Vec<String> {
	v.sort_by_key(|c| c.0.to_vec());
	v.iter().map(|c| c.0.to_vec().to_hex()).collect()
}

/// unconfirmed outputs the wallet created for receiving slate `id`
fn received_records(w: &WalletH, id: Uuid) -> Vec<OutputData> {
	let entries: Vec<TxLogEntry> = w.txs().into_iter().filter(|t| t.tx_slate_id == Some(id) && t.tx_type == TxLogEntryType::TxReceived).collect();
	w.outputs()
		.into_iter()
		.filter(|o| o.status == OutputStatus::Unconfirmed && entries.iter().any(|e| o.tx_log_entry == Some(e.id) && o.root_key_id == e.parent_key_id))
		.collect()
}

fn sent_entry(w: &WalletH, id: Uuid) -> Option<TxLogEntry> {
	w.txs().into_iter().find(|t| t.tx_slate_id == Some(id) && t.tx_type == TxLogEntryType::TxSent)
}

fn received_entry(w: &WalletH, id: Uuid) -> Option<TxLogEntry> {
	w.txs().into_iter().find(|t| t.tx_slate_id == Some(id) && t.tx_type == TxLogEntryType::TxReceived)
}

fn snapshot_meta(snap: &Snapshot) -> Meta {
	let f = snap.files.iter().find(|f| f.0 == "meta.json").expect("meta.json in snapshot");
	serde_json::from_slice(&f.1).unwrap()
}

fn run_case(dir: &str, snap: &Snapshot, ex: &Ex, mus: &[Mu]) -> CaseOut {
	let meta = snapshot_meta(snap);
	let p: Prep = serde_json::from_value(meta.extra["c02"].clone()).unwrap();
	let art: BaseArt = serde_json::from_value(meta.extra["c02base"].clone()).unwrap();
	let mclass = mu_class(mus);
	let fl = format!("{:?}", ex.flow);
	// --- build the (mutated) reply; nothing is touched on disk when the mutation does not apply
	let built = catch(|| build_mutated(ex, mus, &p, &art));
	let (mutated, changed) = match built {
		Err(pm) => {
			let site = take_last_panic().map(|x| panic_site(&x.1)).unwrap_or_default();
			return CaseOut {
				label: "panic".into(),
				changed: true,
				problem: Some((format!("C02/panic/{}/slate-decoding/{}/{}", site, fl, mu_group(mus)), format!("converting the altered V4 reply ({}) to a Slate panicked: {}", mclass, pm))),
				machinery: None,
				detail: Value::Null,
			};
		}
		Ok(None) => return CaseOut { label: "n/a".into(), changed: false, problem: None, machinery: None, detail: Value::Null },
		Ok(Some(x)) => x,
	};
	snap.restore(dir);
	let w = World::open(dir);
	let r = catch(|| run_case_inner(&w, ex, mus, &p, &mutated, changed));
	w.close();
	match r {
		Ok(o) => o,
		Err(p) => CaseOut { label: "harness-panic".into(), changed: false, problem: None, machinery: Some(format!("harness panicked outside the subject: {} at {:?}", p, take_last_panic())), detail: Value::Null },
	}
}

fn build_mutated(ex: &Ex, mus: &[Mu], p: &Prep, art: &BaseArt) -> Option<(Slate, bool)> {
	let first = slate_from_json(&p.first);
	let reply = slate_from_json(&p.reply);
	let y2 = slate_from_json(&art.y_s2);
	let other = if ex.flow == Flow::Invoice { slate_from_json(&art.yi_2) } else { y2.clone() };
	let fee = FeeFields::new(p.fee_shift as u64, p.fee).unwrap();
	let penv = if ex.flow == Flow::Invoice {
		None
	} else {
		let recipient = if ex.flow == Flow::SelfSend { ("A".to_owned(), 1) } else { ("B".to_owned(), 0) };
		excess_of(&first, &reply).map(|excess| PEnv { amount: p.amount, excess, other_excess: Commitment::from_vec(util::from_hex(&p.cb_excess).unwrap()), sender: ("A".to_owned(), 0), recipient, fee: first.fee_fields.clone() })
	};
	let env = Env { first, other, y2, amount: p.amount, fee, m_commit: Commitment::from_vec(util::from_hex(&art.m_commit).unwrap()), penv, flow: ex.flow, payer_inputs: p.payer_inputs.iter().map(|(h, v)| (crate::keychain::Identifier::from_hex(h).unwrap(), *v)).collect() };
	let mut v4 = SlateV4::from(&reply);
	let honest_json = serde_json::to_string(&v4).unwrap();
	for m in mus {
		if !apply(m, &mut v4, &env) {
			return None;
		}
	}
	let changed = serde_json::to_string(&v4).unwrap() != honest_json;
	Some((Slate::from(v4), changed))
}

fn run_case_inner(w: &World, ex: &Ex, mus: &[Mu], p: &Prep, mutated: &Slate, changed: bool) -> CaseOut {
	let mach = |e: String| CaseOut { label: "machinery".into(), changed: false, problem: None, machinery: Some(e), detail: Value::Null };
	let a = w.w("A");
	let b = w.w("B");
	let id = slate_from_json(&p.first).id;
	let ctx: Context = match a.get_context(&id) {
		Ok(c) => c,
		Err(e) => return mach(format!("payer context missing: {}", e)),
	};
	let fee = match ctx.fee {
		Some(f) => f,
		None => return mach("payer context has no fee".into()),
	};
	// outputs reserved by anything but this exchange (other pending artefacts of the world)
	let locked_elsewhere = {
		let mine: Vec<u32> = a.txs().into_iter().filter(|t| t.tx_slate_id == Some(id)).map(|t| t.id).collect();
		a.outputs().iter().filter(|o| o.status == OutputStatus::Locked && !o.tx_log_entry.map(|e| mine.contains(&e)).unwrap_or(false)).count()
	};
	let mclass = mu_class(mus);
	let entry = entry_name(ex.flow);
	let fl = format!("{:?}", ex.flow);
	let finalizer = if ex.flow == Flow::Invoice { b } else { a };
	// --- the subject
	let res = catch(|| if ex.flow == Flow::Invoice { b.foreign_finalize(mutated, false) } else { a.finalize(mutated) });
	let problem = |clause: &str, detail: String| -> Option<(String, String)> {
		Some((format!("C02/{}/{}/{}/{}", clause, entry, fl, mu_group(mus)), format!("{} — exchange {:?}, reply alteration [{}]", detail, ex, mclass)))
	};
	match res {
		Err(pm) => {
			let site = take_last_panic().map(|x| panic_site(&x.1)).unwrap_or_default();
			CaseOut {
				label: "panic".into(),
				changed,
				problem: Some((format!("C02/panic/{}/{}/{}/{}", site, entry, fl, mu_group(mus)), format!("{} panicked: {} — exchange {:?}, reply alteration [{}]", entry, pm, ex, mclass))),
				machinery: None,
				detail: Value::Null,
			}
		}
		Ok(Ok(fin)) => {
			let label = if mus.is_empty() { "ok(honest)" } else if changed { "ok" } else { "ok(identity)" };
			let mut out = CaseOut { label: label.into(), changed, problem: None, machinery: None, detail: Value::Null };
			let tx = match fin.tx.as_ref() {
				Some(t) => t.clone(),
				None => {
					out.problem = problem("no-transaction", "finalization returned Ok without a transaction".into());
					return out;
				}
			};
			if let Err(e) = tx.validate(Weighting::AsTransaction) {
				out.problem = problem("tx-invalid", format!("returned transaction fails Transaction::validate: {}", e));
				return out;
			}
			if tx.kernels().len() != 1 {
				out.problem = problem("kernel-count", format!("returned transaction has {} kernels", tx.kernels().len()));
				return out;
			}
			let k = tx.kernels()[0];
			let kfee = match k.features {
				KernelFeatures::Plain { fee } => Some(fee),
				KernelFeatures::HeightLocked { fee, .. } => Some(fee),
				KernelFeatures::NoRecentDuplicate { fee, .. } => Some(fee),
				KernelFeatures::Coinbase => None,
			};
			if kfee != Some(fee) {
				out.problem = problem("fee-mismatch", format!("kernel fee {:?} differs from the fee {:?} agreed at initiation (payer context)", kfee, fee));
				return out;
			}
			let min_fee = tx_fee(tx.inputs().len(), tx.outputs().len(), 1);
			if fee.fee() < min_fee {
				out.problem = problem("fee-below-minimum", format!("fee {} below the minimum {} for {} inputs / {} outputs", fee.fee(), min_fee, tx.inputs().len(), tx.outputs().len()));
				return out;
			}
			// inputs and change from the payer's side
			let a_entry = match sent_entry(a, id) {
				Some(e) => e,
				None => {
					out.problem = problem("no-log-entry", "the payer has no TxSent entry for the finalized transaction".into());
					return out;
				}
			};
			let of_entry = |st: OutputStatus| -> Vec<OutputData> { a.outputs().into_iter().filter(|o| o.tx_log_entry == Some(a_entry.id) && o.root_key_id == a_entry.parent_key_id && o.status == st).collect() };
			let (exp_inputs, exp_change): (Vec<Commitment>, Vec<Commitment>) = if ex.flow == Flow::Late {
				(of_entry(OutputStatus::Locked).iter().map(|o| commit_for(a, o.value, &o.key_id)).collect(), of_entry(OutputStatus::Unconfirmed).iter().map(|o| commit_for(a, o.value, &o.key_id)).collect())
			} else {
				(ctx.input_ids.iter().map(|(i, _, v)| commit_for(a, *v, i)).collect(), ctx.output_ids.iter().map(|(i, _, v)| commit_for(a, *v, i)).collect())
			};
			if exp_inputs.is_empty() {
				out.problem = problem("inputs-mismatch", "no reserved inputs found for the finalized transaction".into());
				return out;
			}
			if sorted(tx.inputs_committed()) != sorted(exp_inputs.clone()) {
				out.problem = problem("inputs-mismatch", format!("transaction spends {:?}, the wallet reserved {:?}", sorted(tx.inputs_committed()), sorted(exp_inputs)));
				return out;
			}
			if ex.flow != Flow::Late {
				for (kid, _, _) in ctx.input_ids.iter() {
					let rec = a.outputs().into_iter().find(|o| o.key_id == *kid);
					let ok = rec.as_ref().map(|o| o.status == OutputStatus::Locked && o.tx_log_entry == Some(a_entry.id)).unwrap_or(false);
					if !ok {
						out.problem = problem("input-not-locked", format!("input {} is {:?} instead of Locked under log entry {}", kid.to_bip_32_string(), rec.map(|o| (status_str(&o.status), o.tx_log_entry)), a_entry.id));
						return out;
					}
				}
			}
			let rw = if ex.flow == Flow::SelfSend { a } else { b };
			let recs = received_records(rw, id);
			if recs.len() != 1 {
				out.problem = problem("recipient-record", format!("the recipient wallet holds {} unconfirmed outputs for this slate", recs.len()));
				return out;
			}
			if recs[0].value != ctx.amount || ctx.amount != p.amount {
				out.problem = problem("recipient-value", format!("recipient output is worth {}, the amount agreed at initiation is {} (context {})", recs[0].value, p.amount, ctx.amount));
				return out;
			}
			let mut exp_outputs = exp_change.clone();
			let deviating = mus.iter().any(|m| matches!(m, Mu::Dishonest(_) | Mu::DressedDishonest(_) | Mu::PayerLowFee(_) | Mu::Com(ComV::SplitRecipientOutput)));
			if deviating {
				// a deviating recipient chose its own output(s): they are whatever its reply carried, and (rewound
				// with the recipient's keychain) must still be worth exactly the agreed amount
				let rv4 = SlateV4::from(mutated);
				let routs: Vec<Commitment> = rv4.coms.as_ref().map(|c| c.iter().filter(|x| x.p.is_some()).map(|x| x.c).collect()).unwrap_or_default();
				let kc = rw.keychain();
				let builder = crate::core::libtx::proof::ProofBuilder::new(&kc);
				let mut total = 0u64;
				for o in tx.outputs().iter().filter(|o| routs.contains(&o.commitment())) {
					if let Ok(Some((val, _, _))) = crate::core::libtx::proof::rewind(kc.secp(), &builder, o.commitment(), None, o.proof) {
						total += val;
					}
				}
				if total != ctx.amount {
					out.problem = problem("recipient-value", format!("the recipient's outputs in the transaction are worth {}, the amount agreed at initiation is {}", total, ctx.amount));
					return out;
				}
				exp_outputs.extend(routs);
			} else {
				exp_outputs.push(rw.commit_of(&recs[0]));
			}
			if sorted(tx.outputs_committed()) != sorted(exp_outputs.clone()) {
				out.problem = problem("outputs-mismatch", format!("transaction creates {:?}, expected change + recipient output {:?}", sorted(tx.outputs_committed()), sorted(exp_outputs)));
				return out;
			}
			// value balance, recomputed independently
			let in_sum: u64 = if ex.flow == Flow::Late { of_entry(OutputStatus::Locked).iter().map(|o| o.value).sum() } else { ctx.input_ids.iter().map(|x| x.2).sum() };
			let ch_sum: u64 = if ex.flow == Flow::Late { of_entry(OutputStatus::Unconfirmed).iter().map(|o| o.value).sum() } else { ctx.output_ids.iter().map(|x| x.2).sum() };
			if in_sum != p.amount + fee.fee() + ch_sum {
				out.problem = problem("value-balance", format!("inputs {} != amount {} + fee {} + change {}", in_sum, p.amount, fee.fee(), ch_sum));
				return out;
			}
			// stored copy
			let want = tx_bytes(&tx);
			match finalizer.stored_tx(&id) {
				Ok(Some(st)) if tx_bytes(&st) == want => {}
				other => {
					out.problem = problem("stored-tx-differs", format!("the stored transaction is {} , not the returned one", match other {
						Ok(Some(_)) => "a different transaction".to_owned(),
						Ok(None) => "absent".to_owned(),
						Err(e) => format!("unreadable ({})", e),
					}));
					return out;
				}
			}
			match finalizer.with(|x| owner::get_stored_tx(&*x, None, Some(&id))) {
				Ok(Some(sl)) if sl.tx.as_ref().map(tx_bytes) == Some(want.clone()) => {}
				_ => {
					out.problem = problem("stored-tx-differs", "owner::get_stored_tx does not return the transaction finalization returned".into());
					return out;
				}
			}
			// the real chain
			if let Err(e) = finalizer.post(&tx) {
				if ex.flow == Flow::Invoice && mus.iter().any(|m| *m == Mu::Com(ComV::InputFeatureFlip)) {
					// not asserted: the feature flag of the PAYER's input is covered by no signature or sum the
					// issuer could check offline; acceptance depends on chain context, like the input's existence
					out.label = "ok(unpostable:foreign-input-feature)".into();
					out.detail = json!({"chain": format!("{}", e)});
					return out;
				}
				out.problem = problem("chain-rejects", format!("the chain refuses the returned transaction: {}", e));
				return out;
			}
			if let Err(e) = w.mine("M") {
				return mach(format!("mining failed: {}", e));
			}
			if w.node.kernel_on_chain(&k.excess).is_none() {
				out.problem = problem("not-mined", "the returned transaction was not included in the next block".into());
				return out;
			}
			out.detail = json!({"inputs": tx.inputs().len(), "outputs": tx.outputs().len(), "fee": fee.fee(), "amount": p.amount, "kernel_excess": k.excess.0.to_vec().to_hex()});
			out
		}
		Ok(Err(e)) => {
			let mut out = CaseOut { label: format!("err:{}", err_class(&e).chars().take(40).collect::<String>()), changed, problem: None, machinery: None, detail: json!({"error": format!("{}", e)}) };
			if mus.is_empty() {
				out.problem = problem("honest-reply-refused", format!("finalization refused the unaltered reply: {}", e));
				return out;
			}
			// the pending transaction can still be cancelled, and the funds come back
			if ex.flow == Flow::Invoice {
				match received_entry(b, id) {
					None => {
						out.problem = problem("not-cancellable", "the issuer's log entry disappeared".into());
						return out;
					}
					Some(en) => {
						if let Err(ce) = b.cancel(Some(en.id), None) {
							out.problem = problem("not-cancellable", format!("after the refused finalization ({}) the issuer's pending entry cannot be cancelled: {}", e, ce));
							return out;
						}
					}
				}
				if spendable(b) != p.pre_b {
					out.problem = problem("spendable-not-restored", format!("issuer spendable {} after cancel, {} before the exchange", spendable(b), p.pre_b));
					return out;
				}
			}
			// the genuine reply arrives after the altered one was refused: if the wallet now returns a
			// transaction, the same facts hold for it (in particular it spends exactly what the wallet
			// holds reserved for this slate, under one log entry)
			if ex.flow != Flow::Invoice {
				let honest = slate_from_json(&p.reply);
				if let Ok(Ok(s3)) = catch(|| a.finalize(&honest)) {
					if let Ok(tx) = s3.tx_or_err() {
						let outs = a.outputs();
						let entries: Vec<TxLogEntry> = a.txs().into_iter().filter(|t| t.tx_slate_id == Some(id) && t.tx_type == TxLogEntryType::TxSent).collect();
						if entries.len() != 1 {
							out.problem = problem("retry-after-refusal/log-entries", format!("after a refused altered reply ({}) and the genuine reply the slate has {} live sent entries", e, entries.len()));
							return out;
						}
						let reserved: BTreeSet<Vec<u8>> = outs
							.iter()
							.filter(|o| o.status == OutputStatus::Locked && entries.iter().any(|t| o.tx_log_entry == Some(t.id) && o.root_key_id == t.parent_key_id))
							.map(|o| a.commit_of(o).0.to_vec())
							.collect();
						let spent: BTreeSet<Vec<u8>> = tx.inputs_committed().iter().map(|c| c.0.to_vec()).collect();
						let all_locked = outs.iter().filter(|o| o.status == OutputStatus::Locked).count();
						if reserved != spent || all_locked != locked_elsewhere + spent.len() {
							out.problem = problem(
								"retry-after-refusal/inputs-differ-from-reservation",
								format!("after a refused altered reply ({}) the genuine reply was finalized: the transaction spends {} inputs, {} outputs are reserved under its entry, {} outputs are Locked in the wallet ({} of them by other pending transactions)", e, spent.len(), reserved.len(), all_locked, locked_elsewhere),
							);
							return out;
						}
						match a.stored_tx(&id) {
							Ok(Some(st)) if tx_to_hex(&st) == tx_to_hex(tx) => {}
							_ => {
								out.problem = problem("retry-after-refusal/stored-tx-differs", "the transaction returned for the genuine reply is not the stored one".into());
								return out;
							}
						}
						out.label = format!("{}+retry-ok", out.label);
					}
				}
			}
			match sent_entry(a, id) {
				Some(en) => {
					if let Err(ce) = a.cancel(Some(en.id), None) {
						out.problem = problem("not-cancellable", format!("after the refused finalization ({}) the pending transaction cannot be cancelled: {}", e, ce));
						return out;
					}
				}
				None => {
					if ex.flow != Flow::Late {
						out.problem = problem("not-cancellable", "the payer's log entry disappeared".into());
						return out;
					}
				}
			}
			let sp = spendable(a);
			if sp != p.pre_a {
				out.problem = problem("spendable-not-restored", format!("after the refused finalization ({}) and cancel the payer's spendable amount is {}, it was {} before the send", e, sp, p.pre_a));
			}
			out
		}
	}
}

// ---------------------------------------------------------------------------------------------

pub fn replay(payload: &Value) -> i32 {
	std::env::set_var("GWV_SHOW_PANICS", "1");
	let root = scratch_root();
	let based = format!("{}/c02-replay-base", root);
	let dir = format!("{}/c02-replay", root);
	base_world(&based);
	let base = Snapshot::capture(&based);
	let ex: Ex = serde_json::from_value(payload["exchange"].clone()).unwrap();
	let mus: Vec<Mu> = serde_json::from_value(payload["mutations"].clone()).unwrap();
	let snap = match prepare(&dir, &base, &ex) {
		Ok(s) => s,
		Err(e) => {
			println!("preparation failed: {}", e);
			return 2;
		}
	};
	let o = run_case(&dir, &snap, &ex, &mus);
	println!("exchange {:?}\nreply alteration {:?}\noutcome {} {}\nproblem {:?}", ex, mus, o.label, o.detail, o.problem);
	if o.machinery.is_some() {
		println!("machinery: {:?}", o.machinery);
		2
	} else if o.problem.is_some() {
		1
	} else {
		0
	}
}

pub fn run(_args: &[String]) -> i32 {
	let mut rep = Report::new("C02", "model_checking");
	let thorough = tier() == Tier::Thorough;
	let root = scratch_root();
	let based = format!("{}/c02-base", root);
	base_world(&based);
	let base = Snapshot::capture(&based);
	let (exs, skipped) = exchanges();
	let alpha = alphabet();
	let sw = swept();
	let budget = Duration::from_secs(std::env::var("GWV_C02_BUDGET_S").ok().and_then(|s| s.parse().ok()).unwrap_or(if thorough { 540 } else { 40 }));
	let start = Instant::now();
	// phase 1: run every exchange up to the reply
	let preps = par_map(&exs, workers(), |i, ex| {
		let dir = format!("{}/c02-p{}", root, i);
		let r = prepare(&dir, &base, ex);
		let _ = std::fs::remove_dir_all(&dir);
		r
	});
	for (ex, p) in exs.iter().zip(preps.iter()) {
		if let Err(e) = p {
			return rep.finish(Some(format!("preparation of {:?} failed: {}", ex, e)));
		}
	}
	let snaps: Vec<Snapshot> = preps.into_iter().map(|p| p.unwrap()).collect();
	// phase 2: cases, simplest first: honest, singles, pairs
	let mut cases: Vec<(usize, Vec<Mu>)> = vec![];
	for i in 0..exs.len() {
		cases.push((i, vec![]));
	}
	let n_honest = cases.len();
	for (i, ex) in exs.iter().enumerate() {
		if thorough || sw.contains(ex) {
			for m in alpha.iter() {
				cases.push((i, vec![*m]));
			}
		}
	}
	let n_single = cases.len() - n_honest;
	if thorough {
		// pair level, interleaved over the swept exchanges so that a time cap cuts them evenly
		let sw_idx: Vec<usize> = exs.iter().enumerate().filter(|(_, ex)| sw.contains(ex)).map(|(i, _)| i).collect();
		for x in 0..alpha.len() {
			for y in (x + 1)..alpha.len() {
				if !same_scalar(&alpha[x], &alpha[y]) {
					for i in sw_idx.iter() {
						cases.push((*i, vec![alpha[x], alpha[y]]));
					}
				}
			}
		}
	}
	let n_pair = cases.len() - n_honest - n_single;
	let results: Vec<Option<CaseOut>> = par_map(&cases, workers(), |ci, (i, mus)| {
		// the cap only ever cuts the pair level
		if mus.len() == 2 && start.elapsed() > budget {
			return None;
		}
		let dir = format!("{}/c02-c{}", root, ci);
		let o = run_case(&dir, &snaps[*i], &exs[*i], mus);
		let _ = std::fs::remove_dir_all(&dir);
		Some(o)
	});
	// --- candidate findings: the first (simplest) case per key; a clause that already fails for the
	// unaltered reply through the same entry point is not attributed to the mutations as well
	let strip = |k: &str| k.rsplitn(2, '/').last().unwrap_or("").to_owned();
	let mut honest_fail: BTreeSet<String> = BTreeSet::new();
	let mut cand: Vec<(usize, String)> = vec![];
	let mut subsumed = 0u64;
	for (ci, ((_, mus), r)) in cases.iter().zip(results.iter()).enumerate() {
		if let Some(Some((k, _))) = r.as_ref().map(|o| o.problem.clone()) {
			if mus.is_empty() {
				honest_fail.insert(strip(&k));
			} else if honest_fail.contains(&strip(&k)) {
				subsumed += 1;
				continue;
			}
			if !cand.iter().any(|c| c.1 == k) {
				cand.push((ci, k));
			}
		}
	}
	// replay-twice rule: each candidate is re-executed twice from a freshly run exchange
	let confirmed: Vec<Result<(), String>> = par_map(&cand, workers(), |n, (ci, k)| {
		let (i, mus) = &cases[*ci];
		let dir = format!("{}/c02-r{}", root, n);
		let mut res = Ok(());
		for _ in 0..2 {
			let again = prepare(&dir, &base, &exs[*i]).map(|sn| run_case(&dir, &sn, &exs[*i], mus));
			match again {
				Ok(o2) if o2.problem.as_ref().map(|p| p.0.clone()) == Some(k.clone()) => {}
				other => res = Err(format!("verdict {} not reproducible: {:?}", k, other.map(|x| (x.label, x.problem)))),
			}
		}
		let _ = std::fs::remove_dir_all(&dir);
		res
	});
	// --- evidence
	let mut hist: BTreeMap<String, u64> = BTreeMap::new();
	let mut per_mu: BTreeMap<String, BTreeMap<String, u64>> = BTreeMap::new();
	let mut mach = None;
	let (mut honest_ok, mut ok_changed, mut refused, mut na, mut identity, mut executed, mut nontrivial) = (0u64, 0u64, 0u64, 0u64, 0u64, 0u64, 0u64);
	let mut pairs_done = 0u64;
	let mut samples = vec![];
	let mut accepted_classes: BTreeSet<String> = BTreeSet::new();
	let mut sample_flows: BTreeSet<String> = BTreeSet::new();
	for ((i, mus), r) in cases.iter().zip(results.iter()) {
		let o = match r {
			Some(o) => o,
			None => continue,
		};
		if let Some(m) = o.machinery.as_ref() {
			mach = Some(format!("{} ({:?} [{}])", m, exs[*i], mu_class(mus)));
		}
		if mus.len() == 2 {
			pairs_done += 1;
		}
		*hist.entry(format!("{:?}:{}", exs[*i].flow, o.label)).or_insert(0) += 1;
		if o.label == "n/a" {
			na += 1;
			continue;
		}
		executed += 1;
		if mus.len() == 1 {
			*per_mu.entry(mu_class(mus)).or_default().entry(format!("{:?}:{}", exs[*i].flow, o.label)).or_insert(0) += 1;
		}
		if mus.is_empty() {
			if o.label.starts_with("ok") {
				honest_ok += 1;
			}
		} else if !o.changed {
			identity += 1;
		} else {
			nontrivial += 1;
			if o.label == "ok" {
				ok_changed += 1;
				accepted_classes.insert(format!("{:?}:{}", exs[*i].flow, mu_class(mus)));
			} else if o.label.starts_with("err") {
				refused += 1;
			}
		}
		if o.problem.is_some() {
			*hist.entry("violation".into()).or_insert(0) += 1;
		}
		let want_sample = (samples.len() == 0 && mus.is_empty()) || (samples.len() == 1 && o.label == "ok" && o.changed) || (samples.len() >= 2 && samples.len() < 5 && o.label.starts_with("err") && mus.len() == 1 && sample_flows.insert(format!("{:?}", exs[*i].flow)));
		if want_sample {
			samples.push(json!({"exchange": exs[*i], "reply_alteration": mus, "outcome": o.label, "detail": o.detail}));
		}
	}
	for ((ci, k), c) in cand.iter().zip(confirmed.iter()) {
		match c {
			Err(e) => mach = Some(e.clone()),
			Ok(()) => {
				let (i, mus) = &cases[*ci];
				let wh = results[*ci].as_ref().unwrap().problem.as_ref().unwrap().1.clone();
				rep.add_finding(Finding { key: k.clone(), what: wh, replay: json!({"exchange": exs[*i], "mutations": mus}) });
			}
		}
	}
	rep.cov("violations_same_clause_as_unaltered_reply", json!(subsumed));
	let pairs_complete = pairs_done as usize == n_pair;
	rep.cov("states", json!(exs.len() as u64 + executed));
	rep.cov("transitions", json!(executed));
	rep.cov("traces_validated_against_impl", json!(executed));
	rep.cov("evaluations", json!(executed));
	rep.cov("distinct_nontrivial", json!(nontrivial + honest_ok));
	rep.cov("rule", json!("one case = (exchange shape, set of ≤2 mutations of the reply); all distinct by construction; non-trivial = the honest finalisations plus the cases whose mutation applies to the reply and changes its serialised V4 form (mutations that do not apply are counted as n/a, those that leave the reply unchanged as identity)"));
	rep.cov("exhaustive", json!(pairs_complete));
	rep.cov("completed_bound", json!(if !thorough { "every single mutation on one exchange per flow; honest finalisation of every exchange" } else if pairs_complete { "every single mutation on every exchange; every pair of mutations on one exchange per flow" } else { "every single mutation on every exchange; pair level cut by the time budget" }));
	rep.cov("cap_hit", json!(if pairs_complete { Value::Null } else { json!(format!("time budget {} s: {} of {} pair cases executed", budget.as_secs(), pairs_done, n_pair)) }));
	rep.cov("dimensions", json!({
		"flows": ["Send", "Late", "SelfSend", "Invoice"], "change_outputs": [1, 0, 2], "strategy": ["smallest", "all"], "payment_proof": [false, true], "amount_class": ["small", "all-but-fee"],
		"exchanges": exs.len(), "impossible_combinations_skipped": skipped,
		"mutation_alphabet": alpha.len(), "honest_cases": n_honest, "single_mutation_cases": n_single, "pair_mutation_cases": n_pair, "pair_cases_executed": pairs_done,
		"swept_exchanges": sw,
	}));
	rep.cov("outcomes", json!(hist));
	rep.cov("outcomes_per_single_mutation", json!(per_mu));
	rep.cov("honest_finalized", json!(honest_ok));
	rep.cov("altered_accepted_and_checked", json!(ok_changed));
	rep.cov("altered_accepted_classes", json!(accepted_classes));
	rep.cov("altered_refused_and_cancelled", json!(refused));
	rep.cov("not_applicable", json!(na));
	rep.cov("identity_mutations", json!(identity));
	rep.cov("samples", json!(samples));
	rep.assume("the counterparty is a real second wallet (for self-sends the same wallet's other account); altered replies are mutations of its honest reply; 'another exchange' is a second pending exchange of the same kind between the same wallets");
	rep.assume("in the invoice flow the finalizing wallet is the issuer; inputs, change and fee are recomputed from the payer's stored context and keychain, the recipient output from the issuer's own record");
	rep.assume("for late-locked sends inputs and change do not exist before finalization; they are read from the payer's Locked / Unconfirmed records of the new log entry afterwards and must balance with the agreed amount and fee");
	rep.assume("finalization refusing the UNALTERED reply is reported as a violation (honest-reply-refused): the statement presupposes that an honest exchange yields a transaction");
	rep.assume("a refused finalization is followed by cancelling the pending log entries by log id (issuer and payer for invoices); for a late-locked send refused before anything was reserved there is no entry to cancel and only the spendable amount is compared");
	rep.assume("invoice flow, feature flag of the payer's input flipped in the reply: no signature, sum or proof covers that flag, the issuer cannot check it without the node, and the statement's list of consensus facts (kernel sums, aggregate signature, range proofs, minimum fee) does not include it; the outcome (finalised, refused by the chain as 'input mismatch', cancellable) is reported as ok(unpostable:foreign-input-feature), not asserted");
	rep.assume("payment-proof soundness of accepted replies is C11's oracle, not this one: here a reply whose proof fields were altered only has to yield a correct transaction or a cancellable refusal");
	let has_findings = !rep.findings.lock().unwrap().is_empty();
	if mach.is_none() && !has_findings {
		if honest_ok != n_honest as u64 {
			mach = Some(format!("vacuity guard: {} of {} honest exchanges finalised", honest_ok, n_honest));
		} else if refused < 100 || ok_changed < 5 || hist.len() < 6 {
			mach = Some(format!("vacuity guard: refused {} accepted {} outcome classes {}", refused, ok_changed, hist.len()));
		}
	}
	rep.finish(mach)
}
