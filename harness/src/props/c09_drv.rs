//! C09 — driver: work items, worker subprocesses (DESIGN §2.4), merge, replay.
//! The sweep runs in worker *processes*: an abort (allocation failure, stack overflow) kills
//! only a worker and is recorded as a finding for that input; and the wallet's process-global
//! secp context lock does not serialise the workers.

use super::c09::*;
use super::c09_corpus::*;
use super::c09_mut::*;
use crate::common::*;
use crate::libwallet::SlatepackAddress;
use crate::util::ToHex;
use crate::world::*;
use serde_json::{json, Value};
use std::collections::{BTreeMap, HashSet};
use std::io::{BufRead, BufReader, Write};
use std::sync::atomic::{AtomicU64, AtomicUsize, Ordering};
use std::sync::{Arc, Mutex};
use std::time::{Duration, Instant};

#[derive(Clone, Copy, Debug, PartialEq)]
enum Layer {
	/// the artefact bytes themselves are edited
	Outer,
	/// the decrypted plaintext is edited, validly re-encrypted to wallet B and wrapped
	Plain,
}

#[derive(Clone, Debug)]
struct Item {
	art: usize,
	ep: Ep,
	layer: Layer,
	class: MClass,
	lo: usize,
	hi: usize,
}

/// pre-computed per-artefact tables
struct Tables {
	json: Option<(Value, Vec<Vec<Seg>>)>,
	fields: Vec<(Field, Vec<u64>)>,
	plain_fields: Vec<(Field, Vec<u64>)>,
	frames: Vec<Vec<u8>>,
	singles: Vec<Sm>,
	specials: Vec<(String, Vec<u8>)>,
}

fn flat_fields(fs: Vec<Field>, b: &[u8], extra: &[u64]) -> Vec<(Field, Vec<u64>)> {
	fs.into_iter()
		.map(|f| {
			let ex: Vec<u64> = if f.name == "encmeta.len" {
				extra.to_vec()
			} else {
				vec![]
			};
			let v = field_values(&f, b, &ex);
			(f, v)
		})
		.collect()
}

fn n_field_mutants(t: &[(Field, Vec<u64>)]) -> usize {
	t.iter().map(|x| x.1.len()).sum()
}

fn field_mutant(t: &[(Field, Vec<u64>)], b: &[u8], mut i: usize) -> (String, Vec<u8>) {
	for (f, vals) in t {
		if i < vals.len() {
			return (format!("{} := {}", f.name, vals[i]), set_field(b, f, vals[i]));
		}
		i -= vals.len();
	}
	unreachable!()
}

fn tables(a: &Artefact) -> Result<Tables, String> {
	let text = a.kind.text();
	let json = match a.kind {
		Kind::SpJson | Kind::SlateJson | Kind::ProofJson | Kind::RpcForeign | Kind::RpcOwner => {
			let v: Value = serde_json::from_slice(&a.bytes).map_err(|e| e.to_string())?;
			let p = json_paths(&v);
			Some((v, p))
		}
		_ => None,
	};
	let fields = match a.kind {
		Kind::SpBin => flat_fields(fields_slatepack_bin(&a.bytes)?, &a.bytes, &[]),
		Kind::SlateBin => flat_fields(fields_slate_bin(&a.bytes)?, &a.bytes, &[]),
		_ => vec![],
	};
	let mut specials = vec![];
	let plain_fields = match &a.plain {
		Some(p) => {
			let mut fs = fields_enc_meta(p)?;
			let mlen = (p[0] as usize) << 24 | (p[1] as usize) << 16 | (p[2] as usize) << 8 | p[3] as usize;
			// the slate that follows the metadata
			let mut sf = fields_slate_bin(&p[mlen + 4..])?;
			for f in sf.iter_mut() {
				f.off += mlen + 4;
			}
			fs.extend(sf);
			let total = p.len() as u64;
			let extra = [2, 3, total - 5, total - 4, total - 3, total];
			specials.push((
				"age file with a passphrase (scrypt) recipient instead of an x25519 one".to_owned(),
				vec![],
			));
			for n in 0..=4usize {
				specials.push((format!("decrypted payload of {} bytes", n), p[..n].to_vec()));
			}
			flat_fields(fs, p, &extra)
		}
		None => vec![],
	};
	let frames = if a.kind == Kind::Armor {
		frame_strings()
	} else {
		vec![]
	};
	Ok(Tables {
		json,
		fields,
		plain_fields,
		frames,
		singles: singles_prefix(&a.bytes, text, PAIR_WINDOW),
		specials,
	})
}

fn class_len(a: &Artefact, t: &Tables, layer: Layer, c: MClass) -> usize {
	let (b, text): (&[u8], bool) = match layer {
		Layer::Outer => (&a.bytes, a.kind.text()),
		Layer::Plain => (a.plain.as_ref().unwrap(), false),
	};
	match c {
		MClass::Trunc | MClass::Subst | MClass::Del | MClass::Ins | MClass::Transp | MClass::Utf8Char | MClass::CaseRun => {
			byte_class_len(c, b.len(), text)
		}
		MClass::Bech32Len => bech32_spans(b).len() * BECH32_LENS.len(),
		MClass::JsonNode => t
			.json
			.as_ref()
			.map(|j| j.1.len() * JSON_REPL.len())
			.unwrap_or(0),
		MClass::BinField => match layer {
			Layer::Outer => n_field_mutants(&t.fields),
			Layer::Plain => n_field_mutants(&t.plain_fields),
		},
		MClass::Frame => t.frames.len() * FRAME_TEMPLATES,
		MClass::Pairs => t.singles.len(),
		MClass::Special => t.specials.len(),
	}
}

/// wrap an edited plaintext: encrypt to B, put into the container the entry point accepts
fn wrap_plain(addr_b: &SlatepackAddress, ep: Ep, plain: &[u8]) -> Vec<u8> {
	let enc = age_encrypt(plain, &[addr_b.clone()]);
	match ep {
		Ep::SlateFromMsg | Ep::DecodeMsg => wrap_json(enc),
		_ => wrap_bin(enc),
	}
}

/// enumerate the mutants of one item in order; f(ordinal, description, bytes) -> continue?
fn enumerate(
	addr_b: &SlatepackAddress,
	a: &Artefact,
	t: &Tables,
	it: &Item,
	f: &mut dyn FnMut(u64, &dyn Fn() -> String, Vec<u8>) -> bool,
) {
	let (b, text): (&[u8], bool) = match it.layer {
		Layer::Outer => (&a.bytes, a.kind.text()),
		Layer::Plain => (a.plain.as_ref().unwrap(), false),
	};
	let lname = if it.layer == Layer::Plain {
		"plaintext (then age-encrypted to the wallet's key): "
	} else {
		""
	};
	let fin = |x: Vec<u8>| -> Vec<u8> {
		match it.layer {
			Layer::Outer => x,
			Layer::Plain => wrap_plain(addr_b, it.ep, &x),
		}
	};
	let mut ord = 0u64;
	for i in it.lo..it.hi {
		match it.class {
			MClass::Trunc | MClass::Subst | MClass::Del | MClass::Ins | MClass::Transp | MClass::Utf8Char | MClass::CaseRun | MClass::Bech32Len => {
				let m = byte_class_get(it.class, b, text, i);
				if let Some(x) = m.apply(b) {
					if !f(ord, &|| format!("{}{}", lname, m.describe()), fin(x)) {
						return;
					}
				}
				ord += 1;
			}
			MClass::JsonNode => {
				let (doc, paths) = t.json.as_ref().unwrap();
				let p = &paths[i / JSON_REPL.len()];
				let r = i % JSON_REPL.len();
				if let Some(s) = json_mutant(doc, p, r) {
					if !f(
						ord,
						&|| format!("JSON node {} := {}", path_str(p), JSON_REPL[r]),
						s.into_bytes(),
					) {
						return;
					}
				}
				ord += 1;
			}
			MClass::BinField => {
				let tab = if it.layer == Layer::Outer {
					&t.fields
				} else {
					&t.plain_fields
				};
				let (d, x) = field_mutant(tab, b, i);
				if !f(ord, &|| format!("{}{}", lname, d), fin(x)) {
					return;
				}
				ord += 1;
			}
			MClass::Frame => {
				let s = &t.frames[i / FRAME_TEMPLATES];
				let tm = i % FRAME_TEMPLATES;
				let x = frame_mutant(&a.bytes, tm, s);
				if !f(
					ord,
					&|| {
						format!(
							"armor framing template {} with {:?}",
							tm,
							String::from_utf8_lossy(s)
						)
					},
					x,
				) {
					return;
				}
				ord += 1;
			}
			MClass::Special => {
				let (d, p) = &t.specials[i];
				let x = if i == 0 {
					let enc = age_encrypt_passphrase(a.plain.as_ref().unwrap());
					match it.ep {
						Ep::SlateFromMsg | Ep::DecodeMsg => wrap_json(enc),
						_ => wrap_bin(enc),
					}
				} else {
					wrap_plain(addr_b, it.ep, p)
				};
				if !f(ord, &|| d.clone(), x) {
					return;
				}
				ord += 1;
			}
			MClass::Pairs => {
				let m1 = t.singles[i];
				if let Some(x) = m1.apply(b) {
					let seconds = pair_second(&x, text, PAIR_WINDOW);
					for m2 in seconds.iter() {
						if let Some(y) = m2.apply(&x) {
							if !f(
								ord,
								&|| format!("{}, then {}", m1.describe(), m2.describe()),
								y,
							) {
								return;
							}
						}
						ord += 1;
					}
				}
			}
		}
	}
}

#[derive(Clone, Debug)]
struct Cand {
	key: String,
	what: String,
	ep: Ep,
	art: usize,
	class: MClass,
	plain: bool,
	desc: String,
	input: Vec<u8>,
	order: (usize, u64),
}

#[derive(Default)]
struct ItemResult {
	n: u64,
	hist: BTreeMap<(&'static str, String), u64>,
	sigs: HashSet<u64>,
	cands: Vec<Cand>,
	max_dt_us: u64,
	max_peak: usize,
	samples: Vec<Value>,
	restores: u64,
	busy_us: u64,
	wall_us: u64,
}

fn class_from_name(s: &str) -> MClass {
	for c in [
		MClass::Trunc,
		MClass::Subst,
		MClass::Del,
		MClass::Ins,
		MClass::Transp,
		MClass::Utf8Char,
		MClass::CaseRun,
		MClass::Bech32Len,
		MClass::JsonNode,
		MClass::BinField,
		MClass::Frame,
		MClass::Pairs,
		MClass::Special,
	]
	.iter()
	{
		if c.name() == s {
			return *c;
		}
	}
	MClass::Special
}

impl ItemResult {
	fn to_json(&self) -> Value {
		json!({
			"n": self.n,
			"hist": self.hist.iter().map(|((e, c), k)| json!([e, c, k])).collect::<Vec<_>>(),
			"sigs": self.sigs.iter().collect::<Vec<_>>(),
			"cands": self.cands.iter().map(|c| json!({
				"key": c.key, "what": c.what, "ep": c.ep.name(), "art": c.art, "class": c.class.name(),
				"plain": c.plain, "desc": c.desc, "input": c.input.to_hex(), "item": c.order.0, "ord": c.order.1,
			})).collect::<Vec<_>>(),
			"max_dt_us": self.max_dt_us, "max_peak": self.max_peak, "samples": self.samples,
			"restores": self.restores, "busy_us": self.busy_us, "wall_us": self.wall_us,
		})
	}
	fn from_json(v: &Value) -> Option<ItemResult> {
		let mut r = ItemResult::default();
		r.n = v["n"].as_u64()?;
		for h in v["hist"].as_array()? {
			let ep = Ep::from_name(h[0].as_str()?)?;
			r.hist
				.insert((ep.name(), h[1].as_str()?.to_owned()), h[2].as_u64()?);
		}
		for s in v["sigs"].as_array()? {
			r.sigs.insert(s.as_u64()?);
		}
		for c in v["cands"].as_array()? {
			r.cands.push(Cand {
				key: c["key"].as_str()?.to_owned(),
				what: c["what"].as_str()?.to_owned(),
				ep: Ep::from_name(c["ep"].as_str()?)?,
				art: c["art"].as_u64()? as usize,
				class: class_from_name(c["class"].as_str()?),
				plain: c["plain"].as_bool()?,
				desc: c["desc"].as_str()?.to_owned(),
				input: crate::util::from_hex(c["input"].as_str()?).ok()?,
				order: (c["item"].as_u64()? as usize, c["ord"].as_u64()?),
			});
		}
		r.max_dt_us = v["max_dt_us"].as_u64()?;
		r.max_peak = v["max_peak"].as_u64()? as usize;
		r.samples = v["samples"].as_array()?.clone();
		r.restores = v["restores"].as_u64()?;
		r.busy_us = v["busy_us"].as_u64()?;
		r.wall_us = v["wall_us"].as_u64()?;
		Some(r)
	}
}

fn hash_str(s: &str) -> u64 {
	use std::hash::{Hash, Hasher};
	let mut h = std::collections::hash_map::DefaultHasher::new();
	s.hash(&mut h);
	h.finish()
}

/// position of the worker inside the current item (read by the watchdog thread)
struct Progress {
	start_ms: AtomicU64,
	ord: AtomicU64,
	t0: Instant,
}

fn run_item(
	arts: &[Artefact],
	tabs: &[Tables],
	items: &[Item],
	ctx: &mut Ctx,
	idx: usize,
	prog: &Progress,
	trace: &mut Option<std::fs::File>,
) -> ItemResult {
	let it = &items[idx];
	let a = &arts[it.art];
	let t = &tabs[it.art];
	let mut r = ItemResult::default();
	let t_item = Instant::now();
	let lazy_desc = it.class != MClass::Pairs;
	let addr_b = ctx.addr_b.clone();
	let restores0 = ctx.restores;
	enumerate(&addr_b, a, t, it, &mut |ord, d, x| {
		if let Some(f) = trace.as_mut() {
			use std::os::unix::fs::FileExt;
			let _ = f.write_all_at(&ord.to_le_bytes(), 0);
		}
		prog.ord.store(ord, Ordering::Relaxed);
		prog.start_ms
			.store(prog.t0.elapsed().as_millis() as u64 + 1, Ordering::Relaxed);
		let o = run_ep(ctx, it.ep, a, &x);
		prog.start_ms.store(0, Ordering::Relaxed);
		r.n += 1;
		r.busy_us += o.dt.as_micros() as u64;
		let cls = match &o.out {
			Out::Ok => "ok",
			Out::Err => "err",
			Out::NotApplicable => "not-applicable",
			Out::Panic { .. } => "panic",
		};
		*r.hist.entry((it.ep.name(), cls.to_owned())).or_insert(0) += 1;
		r.sigs
			.insert(hash_str(&format!("{}|{}|{}", it.ep.name(), a.name, o.sig)));
		r.max_dt_us = std::cmp::max(r.max_dt_us, o.dt.as_micros() as u64);
		r.max_peak = std::cmp::max(r.max_peak, o.peak);
		if r.samples.is_empty() && o.out == Out::Err && ord > 3 {
			r.samples.push(json!({"entry": it.ep.name(), "artefact": a.name, "mutation": d(), "outcome": o.sig}));
		}
		for (key, what) in keys_of(it.ep, a, it.class, it.layer == Layer::Plain, &o) {
			let better = match r.cands.iter().position(|c| c.key == key) {
				None => true,
				Some(p) => {
					if x.len() < r.cands[p].input.len() {
						r.cands.remove(p);
						true
					} else {
						false
					}
				}
			};
			if better {
				let _ = lazy_desc;
				r.cands.push(Cand {
					key,
					what,
					ep: it.ep,
					art: it.art,
					class: it.class,
					plain: it.layer == Layer::Plain,
					desc: d(),
					input: x.clone(),
					order: (idx, ord),
				});
			}
		}
		true
	});
	r.restores = ctx.restores - restores0;
	r.wall_us = t_item.elapsed().as_micros() as u64;
	r
}

fn build_items(c: &Corpus, tabs: &[Tables], thorough: bool) -> (Vec<Item>, Value) {
	let mut items = vec![];
	let mut dims: BTreeMap<String, u64> = BTreeMap::new();
	let singles = [
		MClass::Trunc,
		MClass::Frame,
		MClass::BinField,
		MClass::JsonNode,
		MClass::Subst,
		MClass::Del,
		MClass::Transp,
		MClass::Ins,
		MClass::Utf8Char,
		MClass::CaseRun,
		MClass::Bech32Len,
	];
	let push = |items: &mut Vec<Item>, art: usize, ep: Ep, layer: Layer, class: MClass, n: usize, chunk: usize| {
		let mut lo = 0;
		while lo < n {
			let hi = std::cmp::min(n, lo + chunk);
			items.push(Item {
				art,
				ep,
				layer,
				class,
				lo,
				hi,
			});
			lo = hi;
		}
	};
	for (ai, a) in c.arts.iter().enumerate() {
		if !thorough && !a.quick {
			continue;
		}
		let t = &tabs[ai];
		for ep in eps_for(a.kind) {
			// entry points that derive the wallet's slatepack key first (3.8 ms per call)
			let slow_ep = matches!(ep, Ep::SlateFromMsg | Ep::DecodeMsg);
			let chunk = if ep.is_rpc() {
				RPC_CHUNK
			} else if slow_ep {
				500
			} else {
				CHUNK
			};
			for class in singles.iter() {
				// quick: RPC bodies and the two api_impl message functions get truncations,
				// armor framing and JSON-node replacement only
				if !thorough
					&& (ep.is_rpc() || slow_ep)
					&& !matches!(class, MClass::Trunc | MClass::JsonNode | MClass::Frame | MClass::Bech32Len)
				{
					continue;
				}
				let n = class_len(a, t, Layer::Outer, *class);
				if n == 0 {
					continue;
				}
				*dims.entry(format!("outer/{}", class.name())).or_insert(0) += n as u64;
				push(&mut items, ai, ep, Layer::Outer, *class, n, chunk);
			}
			if a.plain.is_some() && matches!(ep, Ep::DeserKey | Ep::SlateFromMsg | Ep::DecodeMsg) {
				// quick: plaintext edits go to deser_slatepack(decrypt) only
				if !thorough && ep != Ep::DeserKey {
					continue;
				}
				for class in [
					MClass::Special,
					MClass::Trunc,
					MClass::BinField,
					MClass::Subst,
					MClass::Del,
					MClass::Transp,
					MClass::Ins,
				]
				.iter()
				{
					let n = class_len(a, t, Layer::Plain, *class);
					if n == 0 {
						continue;
					}
					*dims
						.entry(format!("plaintext/{}", class.name()))
						.or_insert(0) += n as u64;
					push(&mut items, ai, ep, Layer::Plain, *class, n, 500);
				}
			}
			// pairs: one entry point per decoding path (the others are prefixes of it or
			// wrappers around it and get every single edit above)
			let pairs_ep = !matches!(
				ep,
				Ep::GetSlate | Ep::SlateBinSer | Ep::VersionedSlateJson | Ep::Deser
			);
			if thorough && !ep.is_rpc() && !slow_ep && pairs_ep {
				let n = class_len(a, t, Layer::Outer, MClass::Pairs);
				*dims
					.entry("outer/pairs-first-64 (first edits)".to_owned())
					.or_insert(0) += n as u64;
				push(&mut items, ai, ep, Layer::Outer, MClass::Pairs, n, 16);
			}
		}
	}
	(items, json!(dims))
}

// ---------------------------------------------------------------------------------------------
// corpus file shared with the workers

fn corpus_to_json(c: &Corpus) -> Value {
	json!({
		"arts": c.arts.iter().map(|a| json!({
			"name": a.name, "kind": a.kind.name(), "bytes": a.bytes.to_hex(),
			"plain": a.plain.as_ref().map(|p| p.to_hex()), "snap": a.snap, "wallet": a.wallet, "quick": a.quick,
		})).collect::<Vec<_>>(),
		"snaps": c.snaps.iter().map(snapshot_to_json).collect::<Vec<_>>(),
		"slots": c.slots.iter().map(|u| u.to_string()).collect::<Vec<_>>(),
	})
}

fn corpus_from_json(v: &Value) -> Corpus {
	let arts = v["arts"]
		.as_array()
		.unwrap()
		.iter()
		.map(|a| Artefact {
			name: a["name"].as_str().unwrap().to_owned(),
			kind: Kind::from_name(a["kind"].as_str().unwrap()).unwrap(),
			bytes: crate::util::from_hex(a["bytes"].as_str().unwrap()).unwrap(),
			plain: a["plain"]
				.as_str()
				.map(|p| crate::util::from_hex(p).unwrap()),
			snap: a["snap"].as_u64().unwrap() as usize,
			wallet: if a["wallet"] == "A" { "A" } else { "B" },
			quick: a["quick"].as_bool().unwrap(),
		})
		.collect();
	Corpus {
		arts,
		snaps: v["snaps"]
			.as_array()
			.unwrap()
			.iter()
			.map(snapshot_from_json)
			.collect(),
		slots: v["slots"]
			.as_array()
			.unwrap()
			.iter()
			.map(|s| uuid::Uuid::parse_str(s.as_str().unwrap()).unwrap())
			.collect(),
	}
}

struct Plan {
	corpus: Corpus,
	tabs: Vec<Tables>,
	items: Vec<Item>,
	dims: Value,
	snaps: Arc<Vec<Snapshot>>,
}

fn plan(corpus: Corpus, thorough: bool) -> Result<Plan, String> {
	let mut tabs = vec![];
	for a in corpus.arts.iter() {
		tabs.push(tables(a).map_err(|e| format!("format walker failed on {}: {}", a.name, e))?);
	}
	let (items, dims) = build_items(&corpus, &tabs, thorough);
	let snaps = Arc::new(corpus.snaps.clone());
	Ok(Plan {
		corpus,
		tabs,
		items,
		dims,
		snaps,
	})
}

// ---------------------------------------------------------------------------------------------
// worker process: `gwv c09 --worker <corpus file> <tag> [trace file]`
// protocol: one item index per stdin line -> one JSON result per stdout line; "q" quits.

fn worker_main(args: &[String]) -> i32 {
	let thorough = tier() == Tier::Thorough;
	let v: Value = serde_json::from_slice(&std::fs::read(&args[1]).expect("corpus file")).expect("corpus json");
	let p = match plan(corpus_from_json(&v), thorough) {
		Ok(p) => p,
		Err(e) => {
			eprintln!("{}", e);
			return 2;
		}
	};
	let mut trace = args.get(3).map(|f| {
		std::fs::OpenOptions::new()
			.create(true)
			.write(true)
			.open(f)
			.unwrap()
	});
	let mut ctx = Ctx::new(&args[2], p.snaps.clone(), p.corpus.slots.clone());
	let prog = Arc::new(Progress {
		start_ms: AtomicU64::new(0),
		ord: AtomicU64::new(0),
		t0: Instant::now(),
	});
	let cur_item = Arc::new(AtomicUsize::new(0));
	{
		// watchdog: one input beyond the hard limit => report the hang and leave
		let (prog, cur_item) = (prog.clone(), cur_item.clone());
		std::thread::spawn(move || loop {
			std::thread::sleep(Duration::from_millis(100));
			let st = prog.start_ms.load(Ordering::Relaxed);
			let now = prog.t0.elapsed().as_millis() as u64;
			if st != 0 && now > st + HARD_LIMIT_MS {
				println!(
					"{}",
					json!({"hang": {"item": cur_item.load(Ordering::Relaxed), "ord": prog.ord.load(Ordering::Relaxed)}})
				);
				let _ = std::io::stdout().flush();
				cleanup_scratch();
				std::process::exit(3);
			}
		});
	}
	let stdin = std::io::stdin();
	for line in stdin.lock().lines() {
		let line = match line {
			Ok(l) => l,
			Err(_) => break,
		};
		let line = line.trim();
		if line == "q" || line.is_empty() {
			break;
		}
		let idx: usize = match line.parse() {
			Ok(i) if i < p.items.len() => i,
			_ => return 2,
		};
		cur_item.store(idx, Ordering::Relaxed);
		let r = run_item(&p.corpus.arts, &p.tabs, &p.items, &mut ctx, idx, &prog, &mut trace);
		println!("{}", r.to_json());
		let _ = std::io::stdout().flush();
	}
	drop(ctx);
	0
}

struct Child {
	proc: std::process::Child,
	stdin: std::process::ChildStdin,
	stdout: BufReader<std::process::ChildStdout>,
}

fn spawn_worker(corpus_file: &str, tag: &str, trace: Option<&str>) -> Child {
	let exe = std::env::current_exe().unwrap();
	let mut cmd = std::process::Command::new(exe);
	cmd.arg("c09").arg("--worker").arg(corpus_file).arg(tag);
	if let Some(t) = trace {
		cmd.arg(t);
	}
	let mut proc = cmd
		.stdin(std::process::Stdio::piped())
		.stdout(std::process::Stdio::piped())
		.stderr(std::process::Stdio::null())
		.spawn()
		.expect("spawn worker");
	let stdin = proc.stdin.take().unwrap();
	let stdout = BufReader::new(proc.stdout.take().unwrap());
	Child {
		proc,
		stdin,
		stdout,
	}
}

enum Reply {
	Done(ItemResult),
	Hang(u64),
	Died(String),
}

fn ask(c: &mut Child, idx: usize) -> Reply {
	if writeln!(c.stdin, "{}", idx).is_err() || c.stdin.flush().is_err() {
		let st = c.proc.wait().map(|s| format!("{}", s)).unwrap_or_default();
		return Reply::Died(st);
	}
	let mut line = String::new();
	match c.stdout.read_line(&mut line) {
		Ok(n) if n > 0 => {
			let v: Value = match serde_json::from_str(&line) {
				Ok(v) => v,
				Err(_) => return Reply::Died("unparseable worker reply".into()),
			};
			if v.get("hang").is_some() {
				let _ = c.proc.wait();
				return Reply::Hang(v["hang"]["ord"].as_u64().unwrap_or(0));
			}
			match ItemResult::from_json(&v) {
				Some(r) => Reply::Done(r),
				None => Reply::Died("malformed worker reply".into()),
			}
		}
		_ => {
			let st = c.proc.wait().map(|s| format!("{}", s)).unwrap_or_default();
			Reply::Died(st)
		}
	}
}

fn candidate_replay(p: &Plan, c: &Cand) -> Value {
	let a = &p.corpus.arts[c.art];
	let mut v = json!({
		"entry": c.ep.name(),
		"artefact": a.name,
		"kind": a.kind.name(),
		"mutation_class": c.class.name(),
		"edit_in_decrypted_plaintext": c.plain,
		"mutation": c.desc,
		"input_hex": c.input.to_hex(),
		"input_text": String::from_utf8_lossy(&c.input).chars().take(400).collect::<String>(),
		"wallet": a.wallet,
	});
	if c.ep.is_rpc() {
		v["snapshot"] = snapshot_to_json(&p.snaps[a.snap]);
		v["slots"] = json!(p.corpus.slots.iter().map(|u| u.to_string()).collect::<Vec<_>>());
	}
	v
}

/// re-run one candidate on a fresh state; returns the finding keys observed
fn rerun(ctx: &mut Ctx, ep: Ep, a: &Artefact, class: MClass, plain: bool, input: &[u8]) -> (Vec<String>, Obs) {
	ctx.invalidate_rpc();
	let o = run_ep(ctx, ep, a, input);
	(
		keys_of(ep, a, class, plain, &o).into_iter().map(|k| k.0).collect(),
		o,
	)
}

pub fn replay(payload: &Value) -> i32 {
	let ep = match Ep::from_name(payload["entry"].as_str().unwrap_or("")) {
		Some(e) => e,
		None => {
			eprintln!("unknown entry point");
			return 2;
		}
	};
	let kind = Kind::from_name(payload["kind"].as_str().unwrap_or("")).unwrap_or(Kind::Armor);
	let input = crate::util::from_hex(payload["input_hex"].as_str().unwrap_or("")).unwrap_or_default();
	let (snaps, slots) = if ep.is_rpc() {
		(
			vec![snapshot_from_json(&payload["snapshot"])],
			payload["slots"]
				.as_array()
				.map(|a| {
					a.iter()
						.filter_map(|s| uuid::Uuid::parse_str(s.as_str().unwrap_or("")).ok())
						.collect()
				})
				.unwrap_or_default(),
		)
	} else {
		(vec![], vec![])
	};
	let a = Artefact {
		name: payload["artefact"].as_str().unwrap_or("").to_owned(),
		kind,
		bytes: vec![],
		plain: None,
		snap: 0,
		wallet: if payload["wallet"] == "A" { "A" } else { "B" },
		quick: true,
	};
	let class = class_from_name(payload["mutation_class"].as_str().unwrap_or(""));
	let mut ctx = Ctx::new("replay", Arc::new(snaps), slots);
	let plain = payload["edit_in_decrypted_plaintext"].as_bool().unwrap_or(false);
	let (keys, o) = rerun(&mut ctx, ep, &a, class, plain, &input);
	println!("entry point : {}", ep.name());
	println!(
		"input ({} bytes): {}",
		input.len(),
		String::from_utf8_lossy(&input).chars().take(300).collect::<String>()
	);
	println!("outcome     : {:?}", o.out);
	println!("signature   : {}", o.sig);
	println!("time {:?}, peak alloc {} bytes", o.dt, o.peak);
	if let Some(s) = &o.state_changed_on_reject {
		println!("store changed although the request was rejected ({})", s);
	}
	println!("finding keys: {:?}", keys);
	if keys.is_empty() {
		0
	} else {
		1
	}
}

/// find the ordinal at which a worker dies on item idx (trace mode), or the hang ordinal
enum Probe {
	Done(ItemResult),
	Hang(u64),
	Died(Option<u64>),
}

impl Probe {
	fn tag(&self) -> String {
		match self {
			Probe::Done(_) => "completed".to_owned(),
			Probe::Hang(o) => format!("hang at {}", o),
			Probe::Died(o) => format!("died at {:?}", o),
		}
	}
}

fn probe_item(corpus_file: &str, idx: usize, k: usize) -> Probe {
	let trace = format!("{}.trace{}", corpus_file, k);
	let _ = std::fs::remove_file(&trace);
	let mut c = spawn_worker(corpus_file, &format!("probe{}", k), Some(&trace));
	let r = ask(&mut c, idx);
	let out = match r {
		Reply::Done(r) => Probe::Done(r),
		Reply::Hang(ord) => Probe::Hang(ord),
		Reply::Died(_) => Probe::Died(std::fs::read(&trace).ok().and_then(|b| {
			if b.len() >= 8 {
				let mut x = [0u8; 8];
				x.copy_from_slice(&b[..8]);
				Some(u64::from_le_bytes(x))
			} else {
				None
			}
		})),
	};
	let _ = writeln!(c.stdin, "q");
	let _ = c.proc.kill();
	let _ = c.proc.wait();
	out
}

pub fn run(args: &[String]) -> i32 {
	if args.get(0).map(|s| s.as_str()) == Some("--worker") {
		return worker_main(args);
	}
	let mut rep = Report::new("C09", "model_checking");
	let thorough = tier() == Tier::Thorough;
	let root = scratch_root();
	let t_build = Instant::now();
	let corpus = match catch(|| build(&format!("{}/c09-corpus", root))) {
		Ok(c) => c,
		Err(e) => return rep.finish(Some(format!("corpus construction failed: {}", e))),
	};
	let corpus_file = format!("{}/c09-corpus.json", root);
	std::fs::write(&corpus_file, serde_json::to_vec(&corpus_to_json(&corpus)).unwrap()).unwrap();
	let build_s = t_build.elapsed().as_secs_f64();
	let p = match plan(corpus, thorough) {
		Ok(p) => Arc::new(p),
		Err(e) => return rep.finish(Some(e)),
	};
	let nworkers = workers();
	let mut main_ctx = Ctx::new("main", p.snaps.clone(), p.corpus.slots.clone());
	// corpus sanity: every artefact must be accepted by every entry point it is fed to
	for a in p.corpus.arts.iter() {
		for ep in eps_for(a.kind) {
			let o = run_ep(&mut main_ctx, ep, a, &a.bytes);
			if std::env::var("GWV_C09_PROBE").is_ok() && !ep.is_rpc() {
				let t = Instant::now();
				for _ in 0..20 {
					let _ = run_ep(&mut main_ctx, ep, a, &a.bytes);
				}
				println!("probe {:32} {:55} first {:?} avg {:?}", a.name, ep.name(), o.dt, t.elapsed() / 20);
			}
			let expect_err = ep == Ep::Deser && a.plain.is_some();
			// a valid artefact that panics is a finding of the sweep (identity mutant), not a corpus defect
			let bad = match o.out {
				Out::Ok => expect_err,
				Out::Panic { .. } => false,
				_ => !expect_err,
			};
			if bad {
				return rep.finish(Some(format!(
					"corpus artefact {} is not accepted by {}: {:?} {}",
					a.name,
					ep.name(),
					o.out,
					o.sig
				)));
			}
		}
	}
	if std::env::var("GWV_C09_PROBE").is_ok() {
		return 0;
	}
	let t_sweep = Instant::now();
	let next = Arc::new(AtomicUsize::new(0));
	let results: Arc<Mutex<Vec<Option<ItemResult>>>> =
		Arc::new(Mutex::new((0..p.items.len()).map(|_| None).collect()));
	// (item, Some(ord) for a hang | None for a dead worker, exit status)
	let incidents: Arc<Mutex<Vec<(usize, Option<u64>, String)>>> = Arc::new(Mutex::new(vec![]));
	let mut handles = vec![];
	for wi in 0..nworkers {
		let (p, next, results, incidents, corpus_file) = (
			p.clone(),
			next.clone(),
			results.clone(),
			incidents.clone(),
			corpus_file.clone(),
		);
		handles.push(std::thread::spawn(move || {
			let mut c = spawn_worker(&corpus_file, &format!("w{}", wi), None);
			let mut respawns = 0;
			loop {
				let i = next.fetch_add(1, Ordering::SeqCst);
				if i >= p.items.len() {
					break;
				}
				match ask(&mut c, i) {
					Reply::Done(r) => results.lock().unwrap()[i] = Some(r),
					Reply::Hang(ord) => {
						incidents.lock().unwrap().push((i, Some(ord), "hang".into()));
						respawns += 1;
						c = spawn_worker(&corpus_file, &format!("w{}r{}", wi, respawns), None);
					}
					Reply::Died(st) => {
						incidents.lock().unwrap().push((i, None, st));
						respawns += 1;
						c = spawn_worker(&corpus_file, &format!("w{}r{}", wi, respawns), None);
					}
				}
				if respawns > 20 {
					break;
				}
			}
			let _ = writeln!(c.stdin, "q");
			let _ = c.stdin.flush();
			let _ = c.proc.wait();
		}));
	}
	for h in handles {
		let _ = h.join();
	}
	let sweep_s = t_sweep.elapsed().as_secs_f64();

	// merge
	let mut n = 0u64;
	let mut hist: BTreeMap<String, BTreeMap<String, u64>> = BTreeMap::new();
	let mut sigs: HashSet<u64> = HashSet::new();
	let mut best: BTreeMap<String, Cand> = BTreeMap::new();
	let mut max_dt_us = 0u64;
	let mut max_peak = 0usize;
	let mut samples = vec![];
	let mut per_class: BTreeMap<String, u64> = BTreeMap::new();
	let mut restores = 0;
	let mut ep_time: BTreeMap<String, (f64, f64, u64)> = BTreeMap::new();
	let mut exhaustive = true;
	// hangs and dead workers: re-run the item twice in a traced worker. Identical outcome twice =>
	// confirmed (finding below). A reported hang whose item completes twice was machine load:
	// the item's result is taken from the re-run and the incident is counted as transient.
	let inc_all = incidents.lock().unwrap().clone();
	let mut confirmed: Vec<(usize, bool, u64, String)> = vec![];
	let mut transient = 0u64;
	for (k, (idx, ord, status)) in inc_all.iter().enumerate() {
		let it = &p.items[*idx];
		let a = &p.corpus.arts[it.art];
		let p1 = probe_item(&corpus_file, *idx, 2 * k);
		let p2 = probe_item(&corpus_file, *idx, 2 * k + 1);
		let tags = (p1.tag(), p2.tag());
		match (p1, p2) {
			(Probe::Done(r), Probe::Done(_)) if ord.is_some() => {
				results.lock().unwrap()[*idx] = Some(r);
				transient += 1;
			}
			(Probe::Hang(o1), Probe::Hang(o2)) if o1 == o2 && *ord == Some(o1) => {
				confirmed.push((*idx, true, o1, status.clone()))
			}
			(Probe::Died(Some(o1)), Probe::Died(Some(o2))) if o1 == o2 && ord.is_none() => {
				confirmed.push((*idx, false, o1, status.clone()))
			}
			_ => {
				return rep.finish(Some(format!(
					"worker incident on item {} ({} / {} / {}; {}) does not reproduce: {} vs {}",
					idx,
					a.name,
					it.ep.name(),
					it.class.name(),
					status,
					tags.0,
					tags.1
				)));
			}
		}
	}
	let incident_items: Vec<usize> = confirmed.iter().map(|x| x.0).collect();
	{
		let mut res = results.lock().unwrap();
		for (i, r) in res.iter_mut().enumerate() {
			let r = match r.take() {
				Some(r) => r,
				None => {
					if incident_items.contains(&i) {
						exhaustive = false;
						continue;
					}
					return rep.finish(Some(format!("work item {} has no result", i)));
				}
			};
			n += r.n;
			restores += r.restores;
			let it = &p.items[i];
			let lname = if it.layer == Layer::Plain { "plaintext/" } else { "" };
			{
				let e = ep_time
					.entry(format!("{}{}", it.ep.name(), if it.layer == Layer::Plain { " [plaintext edits]" } else { "" }))
					.or_insert((0.0, 0.0, 0));
				e.0 += r.busy_us as f64 / 1e6;
				e.1 += r.wall_us as f64 / 1e6;
				e.2 += r.n;
			}
			*per_class
				.entry(format!("{}{}", lname, it.class.name()))
				.or_insert(0) += r.n;
			for ((ep, cls), k) in r.hist {
				*hist.entry(ep.to_owned()).or_default().entry(cls).or_insert(0) += k;
			}
			sigs.extend(r.sigs);
			max_dt_us = std::cmp::max(max_dt_us, r.max_dt_us);
			max_peak = std::cmp::max(max_peak, r.max_peak);
			if samples.len() < 6 && i % 23 == 0 {
				samples.extend(r.samples);
			}
			for c in r.cands {
				let better = match best.get(&c.key) {
					None => true,
					Some(b) => (c.input.len(), c.order) < (b.input.len(), b.order),
				};
				if better {
					best.insert(c.key.clone(), c);
				}
			}
		}
	}
	for (idx, is_hang, ord, status) in confirmed.iter() {
		let (is_hang, ord) = (*is_hang, *ord);
		let it = p.items[*idx].clone();
		let a = &p.corpus.arts[it.art];
		let mut input = vec![];
		let mut desc = String::new();
		enumerate(&main_ctx.addr_b.clone(), a, &p.tabs[it.art], &it, &mut |o, d, x| {
			if o == ord {
				input = x;
				desc = d();
				false
			} else {
				true
			}
		});
		let (clause, what) = if is_hang {
			("hang", format!("no return within {} ms", HARD_LIMIT_MS))
		} else {
			("abort", format!("the process died ({})", status))
		};
		let c = Cand {
			key: format!("C09/{}/{}/{}/{}", clause, it.ep.name(), a.kind.name(), it.class.name()),
			what,
			ep: it.ep,
			art: it.art,
			class: it.class,
			plain: it.layer == Layer::Plain,
			desc,
			input,
			order: (*idx, ord),
		};
		rep.add_finding(Finding {
			key: c.key.clone(),
			what: format!("{} — input: {} of {} ({} bytes)", c.what, c.desc, a.name, c.input.len()),
			replay: candidate_replay(&p, &c),
		});
	}
	// replay-twice rule
	let mut unconfirmed_slow = 0;
	for (key, c) in best.iter() {
		let a = &p.corpus.arts[c.art];
		let mut same = 0;
		for _ in 0..2 {
			let (keys, _) = rerun(&mut main_ctx, c.ep, a, c.class, c.plain, &c.input);
			if keys.contains(key) {
				same += 1;
			}
		}
		if same != 2 {
			if key.starts_with("C09/slow/") {
				// wall-clock dependent: a slow run that does not reproduce is load, not a verdict
				unconfirmed_slow += 1;
				continue;
			}
			return rep.finish(Some(format!(
				"non-deterministic verdict for {} ({} of {})",
				key, c.desc, a.name
			)));
		}
		rep.add_finding(Finding {
			key: key.clone(),
			what: format!("{} — input: {} of {} ({} bytes)", c.what, c.desc, a.name, c.input.len()),
			replay: candidate_replay(&p, c),
		});
	}
	let tot = |cls: &str| -> u64 { hist.values().map(|h| h.get(cls).copied().unwrap_or(0)).sum() };
	let (total_ok, total_err, total_panic) = (tot("ok"), tot("err"), tot("panic"));
	let used = |a: &&Artefact| thorough || a.quick;
	let arts_used: Vec<Value> = p
		.corpus
		.arts
		.iter()
		.filter(used)
		.map(|a| json!({"name": a.name, "kind": a.kind.name(), "bytes": a.bytes.len(), "plaintext_bytes": a.plain.as_ref().map(|p| p.len())}))
		.collect();
	rep.cov("states", json!(n));
	rep.cov("transitions", json!(n));
	rep.cov("traces_validated_against_impl", json!(n));
	rep.cov("evaluations", json!(n));
	rep.cov("distinct_nontrivial", json!(sigs.len()));
	rep.cov("rule", json!("every mutant is one call of the real entry point; distinct_nontrivial = number of distinct (entry point, artefact, normalised outcome text) triples observed (digits stripped from messages)"));
	rep.cov("exhaustive", json!(exhaustive));
	rep.cov("corpus", json!(arts_used));
	rep.cov("corpus_size_all_tiers", json!(p.corpus.arts.len()));
	rep.cov("dimensions_mutants_per_class_summed_over_artefact_x_entry_point", p.dims.clone());
	rep.cov("evaluations_per_class", json!(per_class));
	rep.cov("outcomes_per_entry_point", json!(hist));
	rep.cov("outcome_totals", json!({"ok": total_ok, "err": total_err, "panic": total_panic, "not_applicable": tot("not-applicable")}));
	rep.cov("entry_points", json!(hist.len()));
	rep.cov("work_items", json!(p.items.len()));
	rep.cov("worker_processes", json!(nworkers));
	rep.cov("worker_incidents", json!(inc_all.iter().map(|x| json!([x.0, x.1, x.2])).collect::<Vec<_>>()));
	rep.cov("worker_incidents_transient_load", json!(transient));
	rep.cov("rpc_world_restores", json!(restores));
	rep.cov(
		"seconds_per_entry_point(in_call,incl_mutant_generation,calls)",
		json!(ep_time
			.iter()
			.map(|(k, v)| (k.clone(), json!([(v.0 * 100.0).round() / 100.0, (v.1 * 100.0).round() / 100.0, v.2])))
			.collect::<BTreeMap<_, _>>()),
	);
	rep.cov("max_time_one_input_ms", json!(max_dt_us / 1000));
	rep.cov("max_alloc_one_input_bytes", json!(max_peak));
	rep.cov("limits", json!({"soft_time_s": SOFT_LIMIT.as_secs(), "hard_time_ms": HARD_LIMIT_MS, "alloc_cap_bytes": ALLOC_CAP}));
	rep.cov("slow_inputs_not_reproduced", json!(unconfirmed_slow));
	rep.cov("corpus_build_s", json!(build_s));
	rep.cov("sweep_s", json!(sweep_s));
	rep.cov("decodes_per_s", json!((n as f64 / sweep_s.max(0.001)) as u64));
	rep.cov("samples", json!(samples));
	rep.assume("inputs outside the enumerated edit neighbourhood of the corpus behave like some enumerated input (small-scope hypothesis)");
	rep.assume("all durable wallet effects pass the WalletBackend seam (DESIGN §2.5); a request with no effect at that seam left the store untouched");
	rep.assume("byte strings that are not UTF-8 cannot reach the &str/String entry points (JSON and CLI layers validate UTF-8 first); they are counted as not-applicable there");
	println!(
		"C09: {} calls over {} artefacts, {} work items, {} worker processes, sweep {:.1}s ({} calls/s), ok {} err {} panic {}, distinct outcomes {}",
		n,
		p.corpus.arts.iter().filter(used).count(),
		p.items.len(),
		nworkers,
		sweep_s,
		(n as f64 / sweep_s.max(0.001)) as u64,
		total_ok,
		total_err,
		total_panic,
		sigs.len()
	);
	let floor = if thorough { 1_000_000 } else { 200_000 };
	let vac = if n < floor || total_ok < 1000 || total_err < 1000 || hist.len() < 15 || sigs.len() < 50 {
		Some(format!(
			"vacuity guard: {} calls, {} ok, {} err, {} entry points, {} distinct outcomes",
			n,
			total_ok,
			total_err,
			hist.len(),
			sigs.len()
		))
	} else {
		None
	};
	drop(main_ctx);
	rep.finish(vac)
}
