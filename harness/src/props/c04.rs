//! C04 — after refresh the wallet's books equal the chain's truth.
//! E2: BFS over histories of {mine to A.default / A.acct1 / B / miner, sends in both
//! directions and from the second account, invoice, self-send, account switch, refresh,
//! restart} on a real chain, from two base states; after every successful refresh the
//! refreshed account is compared with the chain (truth found by rewinding the UTXO set
//! with the seed). Plus node-fault enumeration: every failing node call of a refresh in
//! every reachable state up to a depth, followed by a clean refresh.

use crate::common::*;
use crate::explore::*;
use crate::keychain::Identifier;
use crate::libwallet::{IssueInvoiceTxArgs, OutputData, OutputStatus, TxLogEntry};
use crate::node::FaultPlan;
use crate::world::*;
use serde_json::{json, Value};
use std::collections::{BTreeMap, BTreeSet};
use std::time::Duration;

const G: u64 = 1_000_000_000;
const MATURITY: u64 = 3; // AutomatedTesting coinbase maturity

#[derive(Clone, Debug, Serialize, Deserialize, PartialEq)]
pub enum Op {
	MineA0,
	MineA1,
	MineB,
	MineM,
	SendA0B { use_all: bool, change: u32 },
	SendBA0,
	SendA1B,
	InvoiceBA0,
	/// A issues an invoice into acct1 (dest_acct_name) while another account may be active; B pays
	InvoiceIntoA1,
	SelfSendA0A1,
	/// A's default account pays B with minimum_confirmations = 0 and use_all: spends whatever it
	/// holds, including still-unconfirmed received or change outputs
	SendA0BZeroConf,
	/// acct1 (named as source) reserves outputs for a send that is never posted
	PendingA1,
	/// the default account reserves outputs for a send and cancels it before it is ever posted
	/// (allowed by the premise: only cancelling after broadcast is excluded)
	PendingCancelA0,
	/// 51 blocks mined by the miner wallet (nobody refreshes)
	MineM51,
	/// B pays A.default; A receives, B finalizes, the transaction is held back (not posted yet)
	RecvBA0Hold,
	/// the held transaction is posted
	PostHeld,
	/// A.default reserves everything it holds (minimum_confirmations = 0, use_all) for a send that is never posted
	PendZeroConfA0,
	/// that reservation is cancelled (it was never broadcast)
	CancelPendZeroConfA0,
	SwitchA,
	RefreshA,
	RefreshB,
	RestartA,
}

pub struct M {
	pub base: usize,
	pub reduced: bool,
}

fn active_label(w: &World) -> String {
	w.meta.extra["a_active"].as_str().unwrap_or("default").to_owned()
}

fn acct_path(label: &str) -> &'static str {
	if label == "acct1" {
		"m/1/0"
	} else {
		"m/0/0"
	}
}

fn err_label(e: &crate::libwallet::Error) -> String {
	let s = format!("{:?}", e);
	format!("err:{}", s.chars().take_while(|c| c.is_alphanumeric()).collect::<String>())
}

/// records of one account keyed by key path + mmr index: (status, value)
fn acct_records(outs: &[OutputData], path: &str) -> BTreeMap<String, (String, u64)> {
	outs.iter()
		.filter(|o| o.root_key_id.to_bip_32_string() != path)
		.map(|o| (format!("{}#{:?}", o.key_id.to_bip_32_string(), o.mmr_index), (status_str(&o.status).to_owned(), o.value)))
		.collect()
}

/// the C04 oracle for one wallet's active account, right after a successful refresh
pub fn check_books(w: &World, wname: &str, seed: &str, problems: &mut Vec<(String, String)>) {
	check_books_opt(w, wname, seed, true, problems)
}

/// `ledger`: also require confirmed credits - debits == total + locked (a refresh-only claim)
pub fn check_books_opt(w: &World, wname: &str, seed: &str, ledger: bool, problems: &mut Vec<(String, String)>) {
	let wal = w.w(wname);
	let parent: Identifier = wal.with(|b| b.parent_key_id());
	let ppath = parent.to_bip_32_string();
	let outs = wal.outputs();
	let mine: Vec<&OutputData> = outs.iter().filter(|o| o.root_key_id == parent).collect();
	let owned = chain_owned(&w.node, seed);
	let tip = w.node.height();
	// (1) Unspent/Locked records of the account == the account's commitments that are in the UTXO set
	let recorded_live: BTreeSet<Vec<u8>> = mine
		.iter()
		.filter(|o| o.status == OutputStatus::Unspent || o.status == OutputStatus::Locked)
		.map(|o| wal.commit_of(o).0.to_vec())
		.collect();
	let ever: BTreeMap<Vec<u8>, &OutputData> = mine.iter().map(|o| (wal.commit_of(o).0.to_vec(), *o)).collect();
	let truth: BTreeSet<Vec<u8>> = ever.keys().filter(|c| owned.iter().any(|x| x.commit.0.to_vec() == **c)).cloned().collect();
	for c in recorded_live.difference(&truth) {
		let o = ever[c];
		problems.push((
			format!("books/recorded-{}-but-not-in-utxo-set", status_str(&o.status).to_lowercase()),
			format!("{} account {}: output {} (value {}) is recorded {} but is not in the node's unspent set", wname, ppath, o.key_id.to_bip_32_string(), o.value, status_str(&o.status)),
		));
	}
	for c in truth.difference(&recorded_live) {
		let o = ever[c];
		problems.push((
			format!("books/in-utxo-set-but-recorded-{}", status_str(&o.status).to_lowercase()),
			format!("{} account {}: output {} (value {}) is in the node's unspent set but recorded {}", wname, ppath, o.key_id.to_bip_32_string(), o.value, status_str(&o.status)),
		));
	}
	// every UTXO of the seed whose key lies under this account's path is known to the wallet
	for x in owned.iter() {
		if x.key_id.parent_path() == parent {
			let known = outs.iter().any(|o| wal.commit_of(o) == x.commit && (o.status == OutputStatus::Unspent || o.status == OutputStatus::Locked));
			if !known {
				problems.push((
					"books/utxo-unknown-to-wallet".to_owned(),
					format!("{}: unspent output {} (value {}, height {}) belongs to the seed but no Unspent/Locked record exists", wname, x.key_id.to_bip_32_string(), x.value, x.height),
				));
			}
		}
	}
	// (2) partition of the figures
	for mc in [1u64, 3, 10].iter() {
		let info = match wal.info(false, *mc) {
			Ok(i) => i.1,
			Err(e) => {
				problems.push(("books/info-error".to_owned(), format!("retrieve_summary_info failed: {}", e)));
				return;
			}
		};
		let (mut spendable, mut immature, mut awaiting, mut locked) = (0u64, 0u64, 0u64, 0u64);
		for c in truth.iter() {
			let o = ever[c];
			let x = owned.iter().find(|x| x.commit.0.to_vec() == *c).unwrap();
			if o.status == OutputStatus::Locked {
				locked += x.value;
			} else if x.is_coinbase && x.height + MATURITY > tip {
				immature += x.value;
			} else if 1 + tip - x.height < *mc {
				awaiting += x.value;
			} else {
				spendable += x.value;
			}
		}
		let got = (info.amount_currently_spendable, info.amount_immature, info.amount_awaiting_confirmation, info.amount_locked, info.total);
		let exp = (spendable, immature, awaiting, locked, spendable + immature + awaiting);
		if got != exp && recorded_live == truth {
			problems.push((
				format!("figures/min_conf={}", mc),
				format!("{} account {}: (spendable, immature, awaiting confirmation, locked, total) reported {:?}, chain truth {:?} at tip {}", wname, ppath, got, exp, tip),
			));
		}
		// (3) ledger equality
		if ledger && *mc == 1 && recorded_live == truth {
			let txs: Vec<TxLogEntry> = wal.txs().into_iter().filter(|t| t.parent_key_id == parent && t.confirmed).collect();
			let credited: u128 = txs.iter().map(|t| t.amount_credited as u128).sum();
			let debited: u128 = txs.iter().map(|t| t.amount_debited as u128).sum();
			let books = (info.total + info.amount_locked) as u128;
			if credited < debited || credited - debited != books {
				problems.push((
					"ledger/confirmed-credits-minus-debits".to_owned(),
					format!("{} account {}: confirmed credited {} - debited {} != total {} + locked {}", wname, ppath, credited, debited, info.total, info.amount_locked),
				));
			}
		}
	}
}

impl M {
	fn send(&self, w: &World, from: &str, from_acct: Option<&str>, to: &str, amount: u64, use_all: bool, change: u32) -> String {
		let f = w.w(from);
		let t = w.w(to);
		let mut args = default_args(amount);
		args.src_acct_name = from_acct.map(|s| s.to_owned());
		args.selection_strategy_is_use_all = use_all;
		args.num_change_outputs = change;
		let s1 = match f.init_send(args) {
			Ok(s) => s,
			Err(e) => return err_label(&e),
		};
		if let Err(e) = f.lock(&s1) {
			return format!("lock-{}", err_label(&e));
		}
		let s2 = match t.receive(&s1, None) {
			Ok(s) => s,
			Err(e) => return format!("recv-{}", err_label(&e)),
		};
		let s3 = match f.finalize(&s2) {
			Ok(s) => s,
			Err(e) => return format!("fin-{}", err_label(&e)),
		};
		match f.post(s3.tx_or_err().unwrap()) {
			Ok(()) => "ok".into(),
			Err(_) => "post-refused".into(),
		}
	}
}

impl Model for M {
	type Op = Op;

	fn init(&self, dir: &str) {
		let mut w = World::create(dir, &[("A", "A"), ("B", "B"), ("M", "M")]);
		w.w("A").create_account("acct1").unwrap();
		w.mine_n("A", 2);
		w.w("A").set_account("acct1").unwrap();
		w.mine_n("A", 2);
		w.w("A").set_account("default").unwrap();
		w.mine_n("B", 2);
		w.mine_n("M", 3);
		w.w("A").refresh().unwrap();
		w.w("B").refresh().unwrap();
		w.meta.extra["a_active"] = json!("default");
		if self.base == 1 {
			// a history in progress: a posted-but-unmined payment, a pending unposted one,
			// and blocks the wallets have not seen yet
			let _ = self.send(&w, "A", None, "B", 5 * G, false, 1);
			let a = w.w("A");
			let s = a.init_send(default_args(2 * G)).unwrap();
			a.lock(&s).unwrap();
			let _ = w.w("B").receive(&s, None).unwrap();
			w.mine("M").unwrap();
			w.mine("B").unwrap();
		}
		w.close();
	}

	fn ops(&self, _w: &World) -> Vec<Op> {
		if self.reduced {
			vec![
				Op::MineA0,
				Op::MineM,
				Op::SendA0B { use_all: false, change: 1 },
				Op::SendBA0,
				Op::SelfSendA0A1,
				Op::SwitchA,
				Op::RefreshA,
				Op::RefreshB,
			]
		} else {
			vec![
				Op::MineA0,
				Op::MineA1,
				Op::MineB,
				Op::MineM,
				Op::SendA0B { use_all: false, change: 1 },
				Op::SendA0B { use_all: true, change: 2 },
				Op::SendBA0,
				Op::SendA1B,
				Op::InvoiceBA0,
				Op::InvoiceIntoA1,
				Op::SelfSendA0A1,
				// Op::SendA0BZeroConf is used by the directed histories only (see run): reserving a
				// never-confirmed output is the root of a recorded finding (C05), and the BFS would
				// re-derive its consequences in every branch
				Op::SwitchA,
				Op::RefreshA,
				Op::RefreshB,
				Op::RestartA,
			]
		}
	}

	fn step(&self, w: &mut World, op: &Op, out: &mut StepOut) {
		// wallet handles are rebuilt on every World::open: re-apply A's active account
		let active = active_label(w);
		w.w("A").set_account(&active).unwrap();
		let a_before = w.w("A").outputs();
		let b_before = w.w("B").outputs();
		let mut touched_a: Option<&str> = None; // account path of A the operation works on
		match op {
			Op::MineA0 | Op::MineA1 => {
				let acct = if *op == Op::MineA0 { "default" } else { "acct1" };
				w.w("A").set_account(acct).unwrap();
				let r = w.mine("A");
				w.w("A").set_account(&active).unwrap();
				out.label = if r.is_ok() { "ok".into() } else { "err".into() };
				touched_a = Some(acct_path(acct));
			}
			Op::MineB => {
				w.mine("B").unwrap();
				out.label = "ok".into();
			}
			Op::MineM => {
				w.mine("M").unwrap();
				out.label = "ok".into();
			}
			Op::SendA0B { use_all, change } => {
				w.w("A").set_account("default").unwrap();
				out.label = self.send(w, "A", None, "B", 7 * G, *use_all, *change);
				w.w("A").set_account(&active).unwrap();
				touched_a = Some("m/0/0");
			}
			Op::SendA0BZeroConf => {
				w.w("A").set_account("default").unwrap();
				let a = w.w("A");
				let b = w.w("B");
				let r = (|| -> Result<String, crate::libwallet::Error> {
					let mut args = default_args(9 * G);
					args.minimum_confirmations = 0;
					args.selection_strategy_is_use_all = true;
					let s1 = a.init_send(args)?;
					a.lock(&s1)?;
					let s2 = b.receive(&s1, None)?;
					let s3 = a.finalize(&s2)?;
					Ok(match a.post(s3.tx_or_err()?) {
						Ok(()) => "ok".into(),
						Err(_) => "post-refused".into(),
					})
				})();
				out.label = match r {
					Ok(l) => l,
					Err(e) => err_label(&e),
				};
				w.w("A").set_account(&active).unwrap();
				touched_a = Some("m/0/0");
			}
			Op::MineM51 => {
				for _ in 0..51 {
					w.mine("M").unwrap();
				}
				out.label = "ok".into();
			}
			Op::RecvBA0Hold => {
				w.w("A").set_account("default").unwrap();
				let a = w.w("A");
				let b = w.w("B");
				let r = (|| -> Result<String, crate::libwallet::Error> {
					let s1 = b.init_send(default_args(4 * G))?;
					b.lock(&s1)?;
					let s2 = a.receive(&s1, None)?;
					let s3 = b.finalize(&s2)?;
					Ok(tx_to_hex(s3.tx_or_err()?))
				})();
				match r {
					Ok(h) => {
						w.meta.extra["held_tx"] = json!(h);
						out.label = "ok".into();
					}
					Err(e) => out.label = err_label(&e),
				}
				w.w("A").set_account(&active).unwrap();
				touched_a = Some("m/0/0");
			}
			Op::PendZeroConfA0 => {
				w.w("A").set_account("default").unwrap();
				let a = w.w("A");
				let mut args = default_args(9 * G);
				args.minimum_confirmations = 0;
				args.selection_strategy_is_use_all = true;
				match a.init_send(args).and_then(|s| a.lock(&s).map(|_| s)) {
					Ok(s) => {
						w.meta.extra["pend_zero"] = json!(s.id.to_string());
						out.label = "ok".into();
					}
					Err(e) => out.label = err_label(&e),
				}
				w.w("A").set_account(&active).unwrap();
				touched_a = Some("m/0/0");
			}
			Op::CancelPendZeroConfA0 => {
				w.w("A").set_account("default").unwrap();
				out.label = match w.meta.extra["pend_zero"].as_str().and_then(|x| uuid::Uuid::parse_str(x).ok()) {
					Some(id) => match w.w("A").cancel(None, Some(id)) {
						Ok(()) => "ok".into(),
						Err(e) => err_label(&e),
					},
					None => "nothing-pending".into(),
				};
				w.w("A").set_account(&active).unwrap();
				touched_a = Some("m/0/0");
			}
			Op::PostHeld => {
				out.label = match w.meta.extra["held_tx"].as_str() {
					Some(h) => match w.w("B").post(&tx_from_hex(h)) {
						Ok(()) => "ok".into(),
						Err(_) => "post-refused".into(),
					},
					None => "nothing-held".into(),
				};
			}
			Op::PendingA1 => {
				let a = w.w("A");
				let mut args = default_args(6 * G);
				args.src_acct_name = Some("acct1".to_owned());
				out.label = match a.init_send(args).and_then(|s| a.lock(&s)) {
					Ok(()) => "ok".into(),
					Err(e) => err_label(&e),
				};
				touched_a = Some("m/1/0");
			}
			Op::PendingCancelA0 => {
				w.w("A").set_account("default").unwrap();
				let a = w.w("A");
				out.label = match a.init_send(default_args(7 * G)).and_then(|s| a.lock(&s).map(|_| s)).and_then(|s| a.cancel(None, Some(s.id))) {
					Ok(()) => "ok".into(),
					Err(e) => err_label(&e),
				};
				w.w("A").set_account(&active).unwrap();
				touched_a = Some("m/0/0");
			}
			Op::SendA1B => {
				// source account named explicitly while whatever account is active stays active
				out.label = self.send(w, "A", Some("acct1"), "B", 6 * G, false, 1);
				touched_a = Some("m/1/0");
			}
			Op::SendBA0 => {
				w.w("A").set_account("default").unwrap();
				out.label = self.send(w, "B", None, "A", 4 * G, false, 1);
				w.w("A").set_account(&active).unwrap();
				touched_a = Some("m/0/0");
			}
			Op::InvoiceBA0 => {
				// B invoices A (default account pays)
				w.w("A").set_account("default").unwrap();
				let a = w.w("A");
				let b = w.w("B");
				let r = (|| -> Result<String, crate::libwallet::Error> {
					let i1 = b.issue_invoice(IssueInvoiceTxArgs { amount: 3 * G, ..Default::default() })?;
					let i2 = a.process_invoice(&i1, default_args(0))?;
					a.lock(&i2)?;
					let i3 = b.foreign_finalize(&i2, false)?;
					Ok(match b.post(i3.tx_or_err()?) {
						Ok(()) => "ok".into(),
						Err(_) => "post-refused".into(),
					})
				})();
				out.label = match r {
					Ok(l) => l,
					Err(e) => err_label(&e),
				};
				w.w("A").set_account(&active).unwrap();
				touched_a = Some("m/0/0");
			}
			Op::InvoiceIntoA1 => {
				let a = w.w("A");
				let b = w.w("B");
				let r = (|| -> Result<String, crate::libwallet::Error> {
					let i1 = a.issue_invoice(IssueInvoiceTxArgs { amount: 2 * G, dest_acct_name: Some("acct1".to_owned()), ..Default::default() })?;
					let i2 = b.process_invoice(&i1, default_args(0))?;
					b.lock(&i2)?;
					let i3 = a.foreign_finalize(&i2, false)?;
					Ok(match a.post(i3.tx_or_err()?) {
						Ok(()) => "ok".into(),
						Err(_) => "post-refused".into(),
					})
				})();
				out.label = match r {
					Ok(l) => l,
					Err(e) => err_label(&e),
				};
				// works on acct1 by name: no other account of A may change
				touched_a = Some("m/1/0");
			}
			Op::SelfSendA0A1 => {
				w.w("A").set_account("default").unwrap();
				let a = w.w("A");
				let r = (|| -> Result<String, crate::libwallet::Error> {
					let s1 = a.init_send(default_args(8 * G))?;
					a.lock(&s1)?;
					let s2 = a.receive(&s1, Some("acct1"))?;
					let s3 = a.finalize(&s2)?;
					Ok(match a.post(s3.tx_or_err()?) {
						Ok(()) => "ok".into(),
						Err(_) => "post-refused".into(),
					})
				})();
				out.label = match r {
					Ok(l) => l,
					Err(e) => err_label(&e),
				};
				w.w("A").set_account(&active).unwrap();
				touched_a = None; // touches both accounts by design
			}
			Op::SwitchA => {
				let next = if active == "default" { "acct1" } else { "default" };
				w.meta.extra["a_active"] = json!(next);
				w.w("A").set_account(next).unwrap();
				out.label = "ok".into();
			}
			Op::RefreshA | Op::RefreshB => {
				let (name, seed) = if *op == Op::RefreshA { ("A", "A") } else { ("B", "B") };
				match w.w(name).refresh() {
					Ok(true) => {
						out.label = "ok".into();
						let mut p = vec![];
						check_books(w, name, seed, &mut p);
						for (k, v) in p {
							out.problem(k, v);
						}
						if name == "A" {
							touched_a = Some(acct_path(&active));
						}
					}
					Ok(false) => out.label = "node-unreachable".into(),
					Err(e) => out.label = err_label(&e),
				}
				if name == "B" {
					touched_a = Some("-");
				}
			}
			Op::RestartA => {
				w.reopen_wallet("A");
				w.w("A").set_account(&active).unwrap();
				out.label = "ok".into();
				touched_a = Some("-");
			}
		}
		// one account's operations never change another account's outputs
		if let Some(path) = touched_a {
			let a_after = w.w("A").outputs();
			let before = acct_records(&a_before, path);
			let after = acct_records(&a_after, path);
			// (receiving into the other account is not in this alphabet except self-send, excluded)
			if before != after && *op != Op::SelfSendA0A1 {
				let diff: Vec<String> = before.iter().filter(|(k, v)| after.get(*k) != Some(*v)).map(|(k, v)| format!("{} {:?} -> {:?}", k, v, after.get(k))).chain(after.iter().filter(|(k, _)| !before.contains_key(*k)).map(|(k, v)| format!("{} new {:?}", k, v))).collect();
				out.problem(
					format!("other-account-touched/{}", format!("{:?}", op).split(|c: char| !c.is_alphanumeric()).next().unwrap_or("")),
					format!("{:?} on account {} changed outputs of another account of wallet A: {:?}", op, path, diff),
				);
			}
		}
		let _ = b_before;
	}

	fn check(&self, _w: &World, _out: &mut StepOut) {}

	fn project(&self, w: &World) -> Value {
		let opts = ProjOpts { slots: vec![], heights: true, canon_ids: true };
		json!({
			"A": project_wallet(w.w("A"), &opts),
			"B": project_wallet(w.w("B"), &opts),
			"active": active_label(w),
			"height": w.node.height(),
			"pool": w.node.mempool_len(),
		})
	}
}

/// node-fault enumeration on one state: for every k, refresh with the k-th node call failing,
/// then a clean refresh; the oracle must hold after the clean refresh. Returns (cases, problems)
fn fault_sweep(m: &M, root: &str, tag: &str, path: &[Op], wname: &str) -> (u64, Vec<(String, String)>) {
	let dir = format!("{}/{}-fault", root, tag);
	// materialise the state
	if run_path(m, &dir, path).is_err() {
		return (0, vec![]);
	}
	let snap = Snapshot::capture(&dir);
	// count node calls of a clean refresh
	let n_calls = {
		let w = World::open(&dir);
		w.w("A").set_account(&active_label(&w)).unwrap();
		w.node.set_fault(FaultPlan::default());
		let _ = w.w(wname).refresh();
		let n = w.node.calls_since_plan();
		drop(w);
		n
	};
	let mut problems = vec![];
	let mut cases = 0;
	for k in 0..n_calls {
		for persistent in [false, true].iter() {
			snap.restore(&dir);
			let w = World::open(&dir);
			w.w("A").set_account(&active_label(&w)).unwrap();
			let before = project_wallet(w.w(wname), &ProjOpts { slots: vec![], heights: true, canon_ids: true });
			w.node.set_fault(if *persistent { FaultPlan { fail_at: None, fail_from: Some(k) } } else { FaultPlan { fail_at: Some(k), fail_from: None } });
			let r = catch(|| w.w(wname).refresh());
			w.node.clear_fault();
			cases += 1;
			match r {
				Err(p) => {
					let site = take_last_panic().map(|x| panic_site(&x.1)).unwrap_or_default();
					problems.push((format!("node-fault/refresh-panics/{}", site), format!("refresh with node call #{} failing panicked: {}", k, p)));
					continue;
				}
				Ok(Ok(true)) => {
					// claimed success although a call failed: the books must be right already
					let mut p = vec![];
					check_books(&w, wname, wname, &mut p);
					for (key, v) in p {
						problems.push((format!("node-fault/claimed-success/{}", key), format!("refresh reported success with node call #{} failing: {}", k, v)));
					}
				}
				_ => {}
			}
			let mid = project_wallet(w.w(wname), &ProjOpts { slots: vec![], heights: true, canon_ids: true });
			let _ = (before, mid);
			match w.w(wname).refresh() {
				Ok(true) => {
					let mut p = vec![];
					check_books(&w, wname, wname, &mut p);
					for (key, v) in p {
						problems.push((format!("node-fault/after-recovery/{}", key), format!("after a refresh with node call #{} failing and a clean refresh: {}", k, v)));
					}
				}
				other => problems.push(("node-fault/clean-refresh-fails".to_owned(), format!("clean refresh after a fault at call #{} returned {:?}", k, other.map_err(|e| format!("{}", e))))),
			}
			drop(w);
		}
	}
	let _ = std::fs::remove_dir_all(&dir);
	(cases, problems)
}

/// node-event enumeration on one state: for every k, a block (carrying whatever waits in the pool) arrives
/// right before the k-th node call of a refresh (k = number of calls: right after the refresh); then one
/// more complete refresh; the chain-truth oracle must hold after that second refresh. A refresh reads the
/// node in several separately committed phases, so the first refresh may have seen the block in some
/// phases only; what the statement requires is that refreshing converges. Returns (cases, problems)
fn event_sweep(m: &M, root: &str, tag: &str, path: &[Op], wname: &str) -> (u64, Vec<(String, String)>) {
	let dir = format!("{}/{}-event", root, tag);
	if run_path(m, &dir, path).is_err() {
		return (0, vec![]);
	}
	let snap = Snapshot::capture(&dir);
	let n_calls = {
		let w = World::open(&dir);
		w.w("A").set_account(&active_label(&w)).unwrap();
		w.node.set_fault(FaultPlan::default());
		let _ = w.w(wname).refresh();
		let n = w.node.calls_since_plan();
		drop(w);
		n
	};
	let mut problems = vec![];
	let mut cases = 0;
	for k in 0..=n_calls {
		snap.restore(&dir);
		let w = World::open(&dir);
		w.w("A").set_account(&active_label(&w)).unwrap();
		// the block is built beforehand (reward to the miner wallet M); the hook only hands it to the chain
		let prev = w.node.head_header();
		let txs = w.node.take_mempool();
		let fees = txs.iter().map(|t| t.fee()).sum();
		let bf = crate::libwallet::BlockFees { fees, key_id: None, height: prev.height + 1 };
		let mw = w.w("M");
		let cb = match mw.with(|b| crate::libwallet::api_impl::foreign::build_coinbase(b, mw.mask(), &bf, false)) {
			Ok(c) => c,
			Err(_) => {
				drop(w);
				continue;
			}
		};
		let block = w.node.build_block(&prev, &txs, (cb.output, cb.kernel));
		let fired = std::sync::Arc::new(std::sync::atomic::AtomicBool::new(false));
		{
			let node = w.node.clone();
			let fired = fired.clone();
			let block = block.clone();
			w.node.set_fault(FaultPlan::default());
			*w.node.yield_hook.lock().unwrap() = Some(std::sync::Arc::new(move |_name: &'static str| {
				if node.calls_since_plan() == k && !fired.swap(true, std::sync::atomic::Ordering::SeqCst) {
					let _ = node.process(block.clone());
				}
			}));
		}
		let r = catch(|| w.w(wname).refresh());
		*w.node.yield_hook.lock().unwrap() = None;
		if !fired.swap(true, std::sync::atomic::Ordering::SeqCst) {
			let _ = w.node.process(block.clone());
		}
		cases += 1;
		if let Err(p) = r {
			let site = take_last_panic().map(|x| panic_site(&x.1)).unwrap_or_default();
			problems.push((format!("node-event/refresh-panics/{}", site), format!("refresh with a block arriving before node call #{} panicked: {}", k, p)));
			drop(w);
			continue;
		}
		match catch(|| w.w(wname).refresh()) {
			Ok(Ok(true)) => {
				let mut p = vec![];
				check_books(&w, wname, wname, &mut p);
				for (key, v) in p {
					problems.push((format!("node-event/after-next-refresh/{}", key), format!("a block arrived before node call #{} of a refresh; after one more complete refresh: {}", k, v)));
				}
			}
			other => {
				let shown = match other {
					Ok(Ok(b)) => format!("Ok({})", b),
					Ok(Err(e)) => format!("Err({})", e),
					Err(p) => format!("panic: {}", p),
				};
				problems.push(("node-event/next-refresh-fails".to_owned(), format!("the refresh after a block arrived before node call #{} returned {}", k, shown)));
			}
		}
		drop(w);
	}
	let _ = std::fs::remove_dir_all(&dir);
	(cases, problems)
}

pub fn replay(payload: &Value) -> i32 {
	std::env::set_var("GWV_SHOW_PANICS", "1");
	let path: Vec<Op> = serde_json::from_value(payload["path"].clone()).unwrap();
	let kind = payload["kind"].as_str().unwrap_or("base0");
	let base = if kind.contains("base1") { 1 } else { 0 };
	let m = M { base, reduced: false };
	let root = scratch_root();
	if kind.starts_with("event") {
		let (n, p) = event_sweep(&m, &root, "c04-replay", &path, payload["wallet"].as_str().unwrap_or("A"));
		println!("{} node-event cases on the state after {:?}: {:?}", n, path, p);
		return if p.is_empty() { 0 } else { 1 };
	}
	if kind.starts_with("fault") {
		let (n, p) = fault_sweep(&m, &root, "c04-replay", &path, payload["wallet"].as_str().unwrap_or("A"));
		println!("fault sweep after {:?}: {} cases, problems {:?}", path, n, p);
		return if p.is_empty() { 0 } else { 1 };
	}
	match run_path(&m, &format!("{}/c04-replay", root), &path) {
		Ok(p) => {
			println!("base {} path {:?}\nproblems at last step: {:?}", base, path, p);
			if std::env::var("GWV_DUMP").is_ok() {
				let w = World::open(&format!("{}/c04-replay", root));
				println!("tip {}", w.node.height());
				for name in ["A", "B"].iter() {
					let wal = w.w(name);
					for o in wal.outputs() {
						println!("{} out {} root {} value {} status {:?} height {} cb {} log {:?}", name, o.key_id.to_bip_32_string(), o.root_key_id.to_bip_32_string(), o.value, o.status, o.height, o.is_coinbase, o.tx_log_entry);
					}
					for t in wal.txs() {
						println!("{} tx {} parent {} {:?} confirmed {} credited {} debited {} slate {:?}", name, t.id, t.parent_key_id.to_bip_32_string(), t.tx_type, t.confirmed, t.amount_credited, t.amount_debited, t.tx_slate_id);
					}
				}
			}
			if p.is_empty() { 0 } else { 1 }
		}
		Err(e) => {
			println!("replay failed: {}", e);
			2
		}
	}
}

pub fn run(_args: &[String]) -> i32 {
	let mut rep = Report::new("C04", "model_checking");
	let thorough = tier() == Tier::Thorough;
	let root = scratch_root();
	let mut states = 0;
	let mut transitions = 0;
	let mut refreshes_ok = 0u64;
	let mut mach = None;
	let mut exhaustive = true;
	let mut samples = vec![];
	let mut fault_cases = 0u64;
	let mut event_cases = 0u64;
	for base in 0..2 {
		let m = M { base, reduced: false };
		let caps = Caps {
			max_depth: if thorough { 5 } else { 3 },
			wall: Duration::from_secs(if thorough { 1500 } else { 22 }),
			max_states: 80_000,
			min_depth: 2,
		};
		let tag = format!("base{}", base);
		let e = explore(&m, &format!("c04-{}", tag), &caps);
		report_explored(&mut rep, "C04", &tag, &e);
		states += e.states;
		transitions += e.transitions;
		refreshes_ok += e.labels.iter().filter(|(k, _)| k.starts_with("Refresh") && k.ends_with(":ok")).map(|(_, v)| *v).sum::<u64>();
		if e.cap_hit.is_some() {
			exhaustive = false;
		}
		if e.machinery_error.is_some() {
			mach = e.machinery_error.clone();
		}
		samples.extend(e.sample_paths.iter().take(2).map(|p| json!({"base": base, "path": p})));
		// directed histories (both tiers, not subject to the BFS wall cap): every operation, then a
		// block, then a refresh of A under either active account or of B
		{
			let all_ops = M { base, reduced: false }.ops(&World::open(&{
				let d = format!("{}/c04-dops", root);
				m.init(&d);
				d
			}));
			let mut dpaths: Vec<Vec<Op>> = vec![];
			for o in all_ops.iter() {
				for mine in [Op::MineA0, Op::MineM].iter() {
					dpaths.push(vec![o.clone(), mine.clone(), Op::RefreshA]);
					dpaths.push(vec![o.clone(), mine.clone(), Op::SwitchA, Op::RefreshA]);
					dpaths.push(vec![o.clone(), mine.clone(), Op::RefreshB]);
				}
			}
			// an unconfirmed output re-spent before it is mined, both transactions in one block or two
			for o in [Op::SendBA0, Op::SendA0B { use_all: false, change: 1 }, Op::InvoiceBA0, Op::SelfSendA0A1].iter() {
				dpaths.push(vec![o.clone(), Op::SendA0BZeroConf, Op::MineM, Op::RefreshA]);
				dpaths.push(vec![o.clone(), Op::SendA0BZeroConf, Op::MineM, Op::MineM, Op::RefreshA, Op::RefreshB]);
				dpaths.push(vec![o.clone(), Op::SendA0BZeroConf, Op::RefreshA, Op::MineM, Op::RefreshA]);
			}
			// a pending transaction in one account, a reserve-and-cancel in the other (per-account log ids collide)
			// a payment received long after the receiver last looked at the chain, refreshed while still unposted
			dpaths.push(vec![Op::MineM51, Op::RecvBA0Hold, Op::RefreshA, Op::PostHeld, Op::MineM, Op::RefreshA]);
			dpaths.push(vec![Op::RecvBA0Hold, Op::MineM51, Op::RefreshA, Op::PostHeld, Op::MineM, Op::RefreshA]);
			// an output reserved (zero-confirmation send, never posted) before the wallet has seen it on
			// chain, mined while reserved, the reservation then cancelled
			dpaths.push(vec![Op::RecvBA0Hold, Op::PendZeroConfA0, Op::PostHeld, Op::MineM, Op::RefreshA, Op::CancelPendZeroConfA0, Op::RefreshA]);
			dpaths.push(vec![Op::RecvBA0Hold, Op::PendZeroConfA0, Op::PostHeld, Op::MineM, Op::MineM, Op::RefreshA, Op::CancelPendZeroConfA0, Op::MineM, Op::RefreshA]);
			dpaths.push(vec![Op::PendingA1, Op::PendingCancelA0]);
			dpaths.push(vec![Op::PendingA1, Op::PendingCancelA0, Op::SwitchA, Op::RefreshA]);
			dpaths.push(vec![Op::PendingA1, Op::PendingCancelA0, Op::MineM, Op::RefreshA]);
			let res = par_map(&dpaths, workers(), |i, p| run_path(&m, &format!("{}/c04-{}-d{}", root, tag, i), p));
			for (p, r) in dpaths.iter().zip(res.into_iter()) {
				transitions += p.len();
				match r {
					Ok(problems) => {
						let zc = p.iter().any(|o| *o == Op::SendA0BZeroConf);
						for (k, v) in problems {
							let key = if zc { format!("C04/{}/after-zero-conf-spend", k) } else { format!("C04/{}", k) };
							rep.add_finding(Finding { key, what: format!("{} — after {:?} (base {})", v, p, base), replay: json!({"kind": format!("base{}", base), "path": p}) });
						}
					}
					Err(e) => mach = Some(format!("directed path {:?}: {}", p, e)),
				}
			}
			rep.cov(&format!("directed_paths_base{}", base), json!(dpaths.len()));
		}
		// node-fault enumeration on every state reachable within depth 1 (quick) / 2 (thorough)
		let ops = m.ops(&World::open(&{
			let d = format!("{}/c04-ops", root);
			m.init(&d);
			d
		}));
		let mut paths: Vec<Vec<Op>> = vec![vec![]];
		for o in ops.iter() {
			paths.push(vec![o.clone()]);
		}
		if thorough {
			for o in ops.iter() {
				for p in ops.iter() {
					paths.push(vec![o.clone(), p.clone()]);
				}
			}
		}
		let jobs: Vec<(usize, Vec<Op>, &str)> = paths.iter().enumerate().flat_map(|(i, p)| vec![(i * 2, p.clone(), "A"), (i * 2 + 1, p.clone(), "B")]).collect();
		let res = par_map(&jobs, workers(), |_, (i, p, wn)| fault_sweep(&m, &root, &format!("c04-{}-f{}", tag, i), p, wn));
		let eres = par_map(&jobs, workers(), |_, (i, p, wn)| event_sweep(&m, &root, &format!("c04-{}-e{}", tag, i), p, wn));
		for ((_, p, wn), (n, problems)) in jobs.iter().zip(eres.into_iter()) {
			event_cases += n;
			for (k, v) in problems {
				rep.add_finding(Finding { key: format!("C04/{}", k), what: format!("{} — wallet {} in the state after {:?} (base {})", v, wn, p, base), replay: json!({"kind": format!("event-base{}", base), "path": p, "wallet": wn}) });
			}
		}
		for ((_, p, wn), (n, problems)) in jobs.iter().zip(res.into_iter()) {
			fault_cases += n;
			for (k, v) in problems {
				rep.add_finding(Finding { key: format!("C04/{}", k), what: format!("{} — wallet {} in the state after {:?} (base {})", v, wn, p, base), replay: json!({"kind": format!("fault-base{}", base), "path": p, "wallet": wn}) });
			}
		}
	}
	rep.cov("states", json!(states));
	rep.cov("transitions", json!(transitions + fault_cases as usize));
	rep.cov("traces_validated_against_impl", json!(transitions + fault_cases as usize));
	rep.cov("evaluations", json!(transitions + fault_cases as usize));
	rep.cov("distinct_nontrivial", json!(states));
	rep.cov("successful_refreshes_checked", json!(refreshes_ok));
	rep.cov("node_fault_cases", json!(fault_cases));
	rep.cov("node_event_cases", json!(event_cases));
	rep.cov("rule", json!("BFS over operation histories from two base states on a real chain; every successful refresh is followed by the chain-truth oracle; distinct_nontrivial = distinct reachable world states; plus one case per (state, failing node call index, transient|persistent outage)"));
	rep.cov("exhaustive", json!(exhaustive));
	rep.cov("samples", json!(samples));
	rep.assume("premise of the property enforced by the alphabet: no cancel after post, no reorg");
	rep.assume("'that account's outputs' = outputs the wallet has ever recorded for the account; independently every UTXO that rewinds with the seed under the account's key path must be known");
	if mach.is_none() && (refreshes_ok < 20 || states < 50 || fault_cases < 20) {
		mach = Some(format!("vacuity guard: refreshes={} states={} fault_cases={}", refreshes_ok, states, fault_cases));
	}
	rep.finish(mach)
}
