//! C09 — decoding untrusted input never crashes the wallet.
//! E1: for a corpus of valid artefacts produced by the wallet itself (c09_corpus.rs), every
//! mutant of stated finite mutation classes (c09_mut.rs) is fed to every decoder entry point
//! that accepts that artefact type. Oracle: the call returns (value or Err) without unwinding,
//! within a time limit and an allocation cap; a JSON-RPC request that the wallet rejects leaves
//! the wallet store unchanged.
//!
//! Tiers (c09_drv.rs::build_items):
//!  quick    : the artefacts flagged `quick` (31 of 64); every truncation (incl. the unmodified
//!             artefact), single substitution / deletion / insertion / adjacent transposition,
//!             armor framing strings, binary length/count/flag fields, JSON node replacement;
//!             plaintext edits of encrypted slatepacks (all single-edit classes + length fields
//!             + passphrase-recipient age file + 0..4-byte plaintexts) into
//!             deser_slatepack(decrypt). JSON-RPC bodies and the two api_impl message functions
//!             (3.8 ms key derivation per call) get truncation, framing and JSON-node classes only.
//!  thorough : all 64 artefacts, every class for every entry point, plaintext edits also through
//!             the api_impl message functions, plus all pairs of single edits within the first
//!             64 bytes for one entry point per decoding path (not for RPC bodies).
//! The sweep runs in worker subprocesses (DESIGN §2.4).

use super::c09_corpus::*;
use super::c09_mut::*;
use crate::common::*;
use crate::keychain::ExtKeychain;
use crate::libwallet::api_impl::owner;
use crate::libwallet::slate_versions::v4_bin::SlateV4Bin;
use crate::libwallet::{
	PaymentProof, Slate, Slatepack, SlatepackAddress, SlatepackArmor,
	SlatepackBin, Slatepacker, SlatepackerArgs, VersionedBinSlate, VersionedSlate,
};
use crate::node::DirectClient;
use crate::world::*;
use ed25519_dalek::SecretKey as DalekSecretKey;
use grin_wallet_api::{Owner, OwnerRpc};
use grin_wallet_config::TorConfig;
use grin_wallet_util::byte_ser;
use grin_wallet_util::OnionV3Address;
use serde_json::{json, Value};
use std::convert::TryFrom;
use std::sync::Arc;
use std::time::{Duration, Instant};

pub const SOFT_LIMIT: Duration = Duration::from_secs(2);
pub const HARD_LIMIT_MS: u64 = 20_000;
pub const ALLOC_CAP: usize = 256 << 20;
pub const CHUNK: usize = 4000;
pub const RPC_CHUNK: usize = 300;
pub const PAIR_WINDOW: usize = 64;

// ---------------------------------------------------------------------------------------------
// entry points

#[derive(Clone, Copy, PartialEq, Eq, Debug, Hash, PartialOrd, Ord)]
pub enum Ep {
	ArmorDecode,
	Deser,
	DeserKey,
	SlateFromMsg,
	DecodeMsg,
	SpBinDeser,
	SpJsonDeser,
	SlateJsonUpgrade,
	VersionedSlateJson,
	SlateBinUpgrade,
	SlateBinSer,
	GetSlate,
	SpAddr,
	Onion,
	ProofJson,
	ForeignHttp,
	OwnerRpcBody,
}

pub const ALL_EPS: [Ep; 17] = [
	Ep::ArmorDecode,
	Ep::Deser,
	Ep::DeserKey,
	Ep::SlateFromMsg,
	Ep::DecodeMsg,
	Ep::SpBinDeser,
	Ep::SpJsonDeser,
	Ep::SlateJsonUpgrade,
	Ep::VersionedSlateJson,
	Ep::SlateBinUpgrade,
	Ep::SlateBinSer,
	Ep::GetSlate,
	Ep::SpAddr,
	Ep::Onion,
	Ep::ProofJson,
	Ep::ForeignHttp,
	Ep::OwnerRpcBody,
];

impl Ep {
	pub fn name(&self) -> &'static str {
		match self {
			Ep::ArmorDecode => "SlatepackArmor::decode",
			Ep::Deser => "Slatepacker::deser_slatepack(no-key)+get_slate",
			Ep::DeserKey => "Slatepacker::deser_slatepack(decrypt)+get_slate",
			Ep::SlateFromMsg => "api_impl::owner::slate_from_slatepack_message",
			Ep::DecodeMsg => "api_impl::owner::decode_slatepack_message",
			Ep::SpBinDeser => "byte_ser::from_bytes<SlatepackBin>",
			Ep::SpJsonDeser => "serde_json::from_str<Slatepack>",
			Ep::SlateJsonUpgrade => "Slate::deserialize_upgrade",
			Ep::VersionedSlateJson => "serde_json::from_str<VersionedSlate>",
			Ep::SlateBinUpgrade => "byte_ser::from_bytes<VersionedBinSlate>+Slate::upgrade",
			Ep::SlateBinSer => "grin_core::ser::deserialize<SlateV4Bin>",
			Ep::GetSlate => "Slatepacker::get_slate",
			Ep::SpAddr => "SlatepackAddress::try_from(&str)",
			Ep::Onion => "OnionV3Address::try_from(&str)",
			Ep::ProofJson => "serde_json::from_str<PaymentProof>+verify_payment_proof",
			Ep::ForeignHttp => "ForeignAPIHandlerV2::post",
			Ep::OwnerRpcBody => "OwnerRpc::handle_request",
		}
	}
	pub fn from_name(s: &str) -> Option<Ep> {
		ALL_EPS.iter().find(|e| e.name() == s).copied()
	}
	pub fn is_rpc(&self) -> bool {
		matches!(self, Ep::ForeignHttp | Ep::OwnerRpcBody)
	}
}

pub fn eps_for(k: Kind) -> Vec<Ep> {
	match k {
		Kind::Armor => vec![
			Ep::ArmorDecode,
			Ep::Deser,
			Ep::DeserKey,
			Ep::SlateFromMsg,
			Ep::DecodeMsg,
		],
		Kind::SpBin => vec![Ep::Deser, Ep::DeserKey, Ep::SpBinDeser],
		Kind::SpJson => vec![
			Ep::Deser,
			Ep::DeserKey,
			Ep::SpJsonDeser,
			Ep::SlateFromMsg,
			Ep::DecodeMsg,
		],
		Kind::SlateJson => vec![Ep::SlateJsonUpgrade, Ep::VersionedSlateJson],
		Kind::SlateBin => vec![Ep::SlateBinUpgrade, Ep::SlateBinSer, Ep::GetSlate],
		Kind::SpAddr => vec![Ep::SpAddr],
		Kind::OnionAddr => vec![Ep::Onion],
		Kind::ProofJson => vec![Ep::ProofJson],
		Kind::RpcForeign => vec![Ep::ForeignHttp],
		Kind::RpcOwner => vec![Ep::OwnerRpcBody],
	}
}

// ---------------------------------------------------------------------------------------------
// per-thread context

type OwnerApi = Owner<HLC, DirectClient, ExtKeychain>;
type ForeignHandler =
	grin_wallet_controller::controller::ForeignAPIHandlerV2<HLC, DirectClient, ExtKeychain>;

struct RpcCtx {
	snap: usize,
	world: Option<World>,
	base: u64,
	owner: Option<OwnerApi>,
	foreign: Option<ForeignHandler>,
	rx: Option<std::sync::mpsc::Receiver<crate::libwallet::StatusMessage>>,
	dirty: bool,
}

pub struct Ctx {
	dir: String,
	wb: Option<World>,
	key_b: DalekSecretKey,
	pub addr_b: SlatepackAddress,
	rt: tokio::runtime::Runtime,
	snaps: Arc<Vec<Snapshot>>,
	slots: Vec<uuid::Uuid>,
	rpc: Option<RpcCtx>,
	pub restores: u64,
}

fn tor_cfg(dir: &str) -> TorConfig {
	let mut t = TorConfig::default();
	t.send_config_dir = dir.to_owned();
	t
}

impl Ctx {
	pub fn new(tag: &str, snaps: Arc<Vec<Snapshot>>, slots: Vec<uuid::Uuid>) -> Ctx {
		crate::node::thread_init();
		let dir = format!("{}/c09-{}", scratch_root(), tag);
		let wdir = format!("{}/keys", dir);
		let wb = World::create(&wdir, &[("B", "B")]);
		let key_b = dec_key_of(wb.w("B"), 0);
		let addr_b = addr_of(wb.w("B"), 0);
		let rt = tokio::runtime::Builder::new()
			.basic_scheduler()
			.enable_all()
			.build()
			.unwrap();
		Ctx {
			dir,
			wb: Some(wb),
			key_b,
			addr_b,
			rt,
			snaps,
			slots,
			rpc: None,
			restores: 0,
		}
	}

	/// force a fresh restore of the RPC world before the next RPC call
	pub fn invalidate_rpc(&mut self) {
		if let Some(r) = self.rpc.as_mut() {
			r.dirty = true;
		}
	}

	fn wallet_b(&self) -> &WalletH {
		self.wb.as_ref().unwrap().w("B")
	}

	fn rpc_proj(&self, w: &World) -> u64 {
		let opts = ProjOpts {
			slots: self.slots.clone(),
			heights: true,
			..Default::default()
		};
		let v: Vec<Value> = w.wallets.iter().map(|x| project_wallet(x, &opts)).collect();
		hash_value(&json!([v, w.node.mempool_len()]))
	}

	fn ensure_rpc(&mut self, snap: usize) {
		let ok = match &self.rpc {
			Some(r) => r.snap == snap && !r.dirty,
			None => false,
		};
		if ok {
			return;
		}
		// drop every handle on the old world before the directory is replaced
		if let Some(mut r) = self.rpc.take() {
			r.owner = None;
			r.foreign = None;
			r.rx = None;
			if let Some(w) = r.world.take() {
				let World { node, wallets, .. } = w;
				drop(wallets);
				drop(node);
			}
		}
		let dir = format!("{}/rpc", self.dir);
		self.snaps[snap].restore(&dir);
		self.restores += 1;
		let w = World::open(&dir);
		let base = self.rpc_proj(&w);
		for x in w.wallets.iter() {
			let mut s = x.inj.lock().unwrap();
			s.reset(None);
			s.events.clear();
		}
		self.rpc = Some(RpcCtx {
			snap,
			world: Some(w),
			base,
			owner: None,
			foreign: None,
			rx: None,
			dirty: false,
		});
	}

	fn owner_api(&mut self) -> &OwnerApi {
		let dir = self.dir.clone();
		let r = self.rpc.as_mut().unwrap();
		if r.owner.is_none() {
			let (tx, rx) = std::sync::mpsc::channel();
			let a = r.world.as_ref().unwrap().w("A");
			let o = Owner::new(a.inst.clone(), Some(tx));
			o.set_tor_config(Some(tor_cfg(&dir)));
			r.owner = Some(o);
			r.rx = Some(rx);
		}
		r.owner.as_ref().unwrap()
	}

	fn foreign_handler(&mut self, wallet: &str) -> &ForeignHandler {
		let dir = self.dir.clone();
		let r = self.rpc.as_mut().unwrap();
		if r.foreign.is_none() {
			let b = r.world.as_ref().unwrap().w(wallet);
			let h = ForeignHandler::new(
				b.inst.clone(),
				Arc::new(crate::util::Mutex::new(b.mask.clone())),
				false,
				crate::util::Mutex::new(Some(tor_cfg(&dir))),
			);
			r.foreign = Some(h);
		}
		r.foreign.as_ref().unwrap()
	}
}

// ---------------------------------------------------------------------------------------------
// observations

#[derive(Clone, Debug, PartialEq)]
pub enum Out {
	Ok,
	Err,
	/// the input cannot be handed to this entry point (e.g. not UTF-8 for a &str API)
	NotApplicable,
	Panic { site: String, class: String, msg: String },
}

#[derive(Clone, Debug)]
pub struct Obs {
	pub out: Out,
	/// normalised outcome text (for the distinct-outcome measure)
	pub sig: String,
	pub dt: Duration,
	pub peak: usize,
	pub maxreq: usize,
	/// RPC: request was rejected but the store projection changed
	pub state_changed_on_reject: Option<String>,
}

fn norm(s: &str) -> String {
	let mut o = String::new();
	let mut last = false;
	for c in s.chars() {
		if c.is_ascii_digit() {
			if !last {
				o.push('N');
			}
			last = true;
		} else {
			o.push(c);
			last = false;
		}
		if o.len() >= 60 {
			break;
		}
	}
	o
}

pub fn msg_class(m: &str) -> String {
	let n = norm(m);
	let s = if n.starts_with("range end index") {
		"range end index out of range".to_owned()
	} else if n.starts_with("range start index") {
		"range start index out of range".to_owned()
	} else if n.starts_with("index out of bounds") {
		"index out of bounds".to_owned()
	} else if n.contains("does not match destination slice length") {
		"copy_from_slice length mismatch".to_owned()
	} else if n.starts_with("called `Result::unwrap()` on an `Err` value") {
		let rest = m.splitn(2, "value: ").nth(1).unwrap_or("");
		let id: String = rest
			.chars()
			.take_while(|c| c.is_alphanumeric() || *c == '_')
			.collect();
		format!("Result::unwrap() on Err {}", id)
	} else if n.starts_with("called `Option::unwrap()` on a `None` value") {
		"Option::unwrap() on None".to_owned()
	} else if n.contains("is not a char boundary") {
		// the character and its offsets are properties of the input, not of the defect
		"str index not a char boundary".to_owned()
	} else if n.starts_with("`at` split index") {
		"split_off index out of range".to_owned()
	} else {
		n
	};
	s.chars()
		.map(|c| if c.is_alphanumeric() || c == ':' || c == '(' || c == ')' { c } else { '_' })
		.collect()
}

fn e2s<E: std::fmt::Display>(e: E) -> String {
	norm(&format!("{}", e))
}

/// (rejected?, signature) of a JSON-RPC response value
fn classify_response(v: &Value) -> (bool, String) {
	if let Some(e) = v.get("error") {
		return (
			true,
			format!("jsonrpc-error {} {}", e["code"], norm(e["message"].as_str().unwrap_or(""))),
		);
	}
	if let Some(r) = v.get("result") {
		if let Some(e) = r.get("Err") {
			return (true, format!("Err {}", norm(&e.to_string())));
		}
		if r.get("Ok").is_some() {
			return (false, "Ok".to_owned());
		}
		return (false, "result".to_owned());
	}
	if v.is_array() {
		// JSON-RPC notification (no id): executed, nothing to reply => not a rejection
		return (false, "notification, no reply".to_owned());
	}
	(true, "other".to_owned())
}

// ---------------------------------------------------------------------------------------------
// the calls

/// Detection self-test (never set by the registered command): GWV_C09_SELFTEST=hang|abort|alloc|panic
/// makes the onion-address entry point misbehave on exactly one mutant, so that the watchdog,
/// the dead-worker path, the allocation cap and the panic path can be demonstrated end to end.
fn selftest_fault(ep: Ep, input: &[u8]) {
	lazy_static::lazy_static! {
		static ref MODE: Option<String> = std::env::var("GWV_C09_SELFTEST").ok();
	}
	if let Some(m) = MODE.as_ref() {
		if ep == Ep::Onion && input.len() > 30 && input.starts_with(b"z") && input[1] != b'z' && input.len() == 57 {
			match m.as_str() {
				"hang" => loop {
					std::thread::sleep(Duration::from_millis(200));
				},
				"abort" => std::process::abort(),
				"alloc" => {
					let v = vec![1u8; 300 << 20];
					std::hint::black_box(&v);
				}
				_ => panic!("selftest fault"),
			}
		}
	}
}

fn call(ctx: &mut Ctx, ep: Ep, art: &Artefact, input: &[u8]) -> (Out, String, Option<bool>) {
	use Out::*;
	selftest_fault(ep, input);
	let as_str = |b: &[u8]| std::str::from_utf8(b).ok().map(|s| s.to_owned());
	let packer_nokey = Slatepacker::new(SlatepackerArgs {
		sender: None,
		recipients: vec![],
		dec_key: None,
	});
	match ep {
		Ep::ArmorDecode => match SlatepackArmor::decode(input) {
			Result::Ok(_) => (Ok, "Ok".into(), None),
			Result::Err(e) => (Err, e2s(e), None),
		},
		Ep::Deser => match packer_nokey.deser_slatepack(input, false) {
			Result::Ok(sp) => match packer_nokey.get_slate(&sp) {
				Result::Ok(_) => (Ok, "Ok".into(), None),
				Result::Err(e) => (Err, format!("get_slate: {}", e2s(e)), None),
			},
			Result::Err(e) => (Err, e2s(e), None),
		},
		Ep::DeserKey => {
			let packer = Slatepacker::new(SlatepackerArgs {
				sender: None,
				recipients: vec![],
				dec_key: Some(&ctx.key_b),
			});
			match packer.deser_slatepack(input, true) {
				Result::Ok(sp) => match packer.get_slate(&sp) {
					Result::Ok(_) => (Ok, "Ok".into(), None),
					Result::Err(e) => (Err, format!("get_slate: {}", e2s(e)), None),
				},
				Result::Err(e) => (Err, e2s(e), None),
			}
		}
		Ep::SlateFromMsg => match as_str(input) {
			None => (NotApplicable, "not utf-8".into(), None),
			Some(s) => {
				let b = ctx.wallet_b();
				match owner::slate_from_slatepack_message(b.inst.clone(), b.mask(), s, vec![0]) {
					Result::Ok(_) => (Ok, "Ok".into(), None),
					Result::Err(e) => (Err, e2s(e), None),
				}
			}
		},
		Ep::DecodeMsg => match as_str(input) {
			None => (NotApplicable, "not utf-8".into(), None),
			Some(s) => {
				let b = ctx.wallet_b();
				match owner::decode_slatepack_message(b.inst.clone(), b.mask(), s, vec![0]) {
					Result::Ok(_) => (Ok, "Ok".into(), None),
					Result::Err(e) => (Err, e2s(e), None),
				}
			}
		},
		Ep::SpBinDeser => match byte_ser::from_bytes::<SlatepackBin>(input) {
			Result::Ok(_) => (Ok, "Ok".into(), None),
			Result::Err(e) => (Err, e2s(e), None),
		},
		Ep::SpJsonDeser => match as_str(input) {
			None => (NotApplicable, "not utf-8".into(), None),
			Some(s) => match serde_json::from_str::<Slatepack>(&s) {
				Result::Ok(sp) => {
					let _ = format!("{}", sp);
					(Ok, "Ok".into(), None)
				}
				Result::Err(e) => (Err, e2s(e), None),
			},
		},
		Ep::SlateJsonUpgrade => match as_str(input) {
			None => (NotApplicable, "not utf-8".into(), None),
			Some(s) => match Slate::deserialize_upgrade(&s) {
				Result::Ok(_) => (Ok, "Ok".into(), None),
				Result::Err(e) => (Err, e2s(e), None),
			},
		},
		Ep::VersionedSlateJson => match as_str(input) {
			None => (NotApplicable, "not utf-8".into(), None),
			Some(s) => match serde_json::from_str::<VersionedSlate>(&s) {
				Result::Ok(_) => (Ok, "Ok".into(), None),
				Result::Err(e) => (Err, e2s(e), None),
			},
		},
		Ep::SlateBinUpgrade => match byte_ser::from_bytes::<VersionedBinSlate>(input) {
			Result::Ok(b) => match Slate::upgrade(b.into()) {
				Result::Ok(_) => (Ok, "Ok".into(), None),
				Result::Err(e) => (Err, e2s(e), None),
			},
			Result::Err(e) => (Err, e2s(e), None),
		},
		Ep::SlateBinSer => {
			let raw = input;
			match crate::core::ser::deserialize::<SlateV4Bin, _>(
				&mut &raw[..],
				crate::core::ser::ProtocolVersion(4),
				crate::core::ser::DeserializationMode::default(),
			) {
				Result::Ok(_) => (Ok, "Ok".into(), None),
				Result::Err(e) => (Err, e2s(e), None),
			}
		}
		Ep::GetSlate => {
			let mut sp = Slatepack::default();
			sp.payload = input.to_vec();
			match packer_nokey.get_slate(&sp) {
				Result::Ok(_) => (Ok, "Ok".into(), None),
				Result::Err(e) => (Err, e2s(e), None),
			}
		}
		Ep::SpAddr => match as_str(input) {
			None => (NotApplicable, "not utf-8".into(), None),
			Some(s) => match SlatepackAddress::try_from(s.as_str()) {
				Result::Ok(a) => {
					let _ = a.encoded_len();
					let _ = a.to_age_pubkey_str();
					let _ = format!("{}", a);
					let _ = OnionV3Address::from(&a).to_http_str();
					(Ok, "Ok".into(), None)
				}
				Result::Err(e) => (Err, e2s(e), None),
			},
		},
		Ep::Onion => match as_str(input) {
			None => (NotApplicable, "not utf-8".into(), None),
			Some(s) => match OnionV3Address::try_from(s.as_str()) {
				Result::Ok(a) => {
					let _ = a.to_ov3_str();
					let _ = a.to_ed25519();
					let _ = SlatepackAddress::try_from(a);
					(Ok, "Ok".into(), None)
				}
				Result::Err(e) => (Err, e2s(e), None),
			},
		},
		Ep::ProofJson => match as_str(input) {
			None => (NotApplicable, "not utf-8".into(), None),
			Some(s) => match serde_json::from_str::<PaymentProof>(&s) {
				Result::Ok(p) => {
					let b = ctx.wallet_b();
					match owner::verify_payment_proof(b.inst.clone(), b.mask(), &p) {
						Result::Ok(_) => (Ok, "Ok".into(), None),
						// parsed fine; what verification says is not C09's business
						Result::Err(e) => (Ok, format!("Ok, verify: {}", e2s(e)), None),
					}
				}
				Result::Err(e) => (Err, e2s(e), None),
			},
		},
		Ep::ForeignHttp => {
			use grin_api::Handler;
			let wallet = art.wallet;
			let req = hyper::Request::post("http://127.0.0.1:3415/v2/foreign")
				.body(hyper::Body::from(input.to_vec()))
				.unwrap();
			let fut = ctx.foreign_handler(wallet).post(req);
			let resp = ctx.rt.block_on(fut);
			match resp {
				Result::Err(e) => (Err, format!("hyper error {}", e2s(e)), Some(true)),
				Result::Ok(r) => {
					let status = r.status();
					let body = ctx.rt.block_on(hyper::body::to_bytes(r.into_body())).unwrap();
					if status != hyper::StatusCode::OK {
						(
							Err,
							format!("http {} {}", status.as_u16(), norm(&String::from_utf8_lossy(&body))),
							Some(true),
						)
					} else {
						match serde_json::from_slice::<Value>(&body) {
							Result::Ok(v) => {
								let (rej, sig) = classify_response(&v);
								(if rej { Err } else { Ok }, sig, Some(rej))
							}
							Result::Err(_) => (Err, "unparseable response".into(), Some(true)),
						}
					}
				}
			}
		}
		Ep::OwnerRpcBody => {
			use easy_jsonrpc_mw::{Handler, MaybeReply};
			// controller::parse_body
			let val: Value = match serde_json::from_reader(input) {
				Result::Ok(v) => v,
				Result::Err(e) => return (Err, format!("invalid request body {}", e2s(e)), Some(true)),
			};
			let api = ctx.owner_api();
			let r = match <dyn OwnerRpc>::handle_request(api, val) {
				MaybeReply::Reply(r) => r,
				MaybeReply::DontReply => json!([]),
			};
			let (_, r2) = grin_wallet_controller::controller::OwnerV3Helpers::check_error_response(&r);
			let (rej, sig) = classify_response(&r2);
			(if rej { Err } else { Ok }, sig, Some(rej))
		}
	}
}

pub fn run_ep(ctx: &mut Ctx, ep: Ep, art: &Artefact, input: &[u8]) -> Obs {
	if ep.is_rpc() {
		ctx.ensure_rpc(art.snap);
	}
	crate::alloc::reset();
	let t0 = Instant::now();
	let res = catch(|| call(ctx, ep, art, input));
	let dt = t0.elapsed();
	let (peak, maxreq) = crate::alloc::peak();
	let (out, sig, rejected) = match res {
		Ok(r) => r,
		Err(msg) => {
			let loc = take_last_panic().map(|x| x.1).unwrap_or_default();
			let site = panic_site(&loc);
			let class = msg_class(&msg);
			(
				Out::Panic {
					site: site.clone(),
					class: class.clone(),
					msg: format!("{} at {}", msg, loc),
				},
				format!("panic {} {}", site, class),
				Some(true),
			)
		}
	};
	let mut changed = None;
	if ep.is_rpc() {
		// every durable effect passes the injecting decorator: no effect => store untouched
		let (effects, mp) = {
			let r = ctx.rpc.as_ref().unwrap();
			let w = r.world.as_ref().unwrap();
			let mut n = 0;
			for x in w.wallets.iter() {
				let mut s = x.inj.lock().unwrap();
				n += s.effects;
				s.reset(None);
				s.events.clear();
			}
			(n, w.node.mempool_len())
		};
		if let Some(rx) = ctx.rpc.as_ref().unwrap().rx.as_ref() {
			for _ in rx.try_iter() {}
		}
		let panicked = matches!(out, Out::Panic { .. });
		if effects > 0 || panicked || mp > 0 {
			let h = {
				let r = ctx.rpc.as_ref().unwrap();
				catch(|| ctx.rpc_proj(r.world.as_ref().unwrap())).unwrap_or(0)
			};
			let r = ctx.rpc.as_mut().unwrap();
			if h != r.base {
				r.dirty = true;
				// exempt: the wallet accepted and executed the request, then a *node* call
				// (posting) failed; that is not a rejected input
				if rejected == Some(true) && !sig.contains("ClientCallback") {
					changed = Some(sig.clone());
				}
			}
			if panicked {
				r.dirty = true;
			}
		}
	}
	Obs {
		out,
		sig,
		dt,
		peak,
		maxreq,
		state_changed_on_reject: changed,
	}
}

/// finding keys of one observation (empty = property holds for this input)
/// `plain`: the edit was made in the decrypted plaintext of an encrypted slatepack (the
/// decoders behind the decryption are different code from those in front of it)
pub fn keys_of(ep: Ep, art: &Artefact, class: MClass, plain: bool, o: &Obs) -> Vec<(String, String)> {
	let mut v = vec![];
	if let Out::Panic { site, class: c, msg } = &o.out {
		v.push((
			format!(
				"C09/panic/{}/{}/{}{}",
				ep.name(),
				site,
				c,
				if plain { "@decrypted-plaintext" } else { "" }
			),
			format!("panic: {}", msg),
		));
	}
	if o.dt > SOFT_LIMIT {
		v.push((
			format!("C09/slow/{}/{}/{}", ep.name(), art.kind.name(), class.name()),
			format!("one input took {:?} (limit {:?})", o.dt, SOFT_LIMIT),
		));
	}
	if o.peak > ALLOC_CAP || o.maxreq > ALLOC_CAP {
		v.push((
			format!("C09/alloc/{}/{}/{}", ep.name(), art.kind.name(), class.name()),
			format!(
				"one input allocated {} bytes (largest request {}), cap {}",
				o.peak, o.maxreq, ALLOC_CAP
			),
		));
	}
	if let Some(sig) = &o.state_changed_on_reject {
		let method = art.name.split('(').next().unwrap_or(&art.name).to_owned();
		let cls = if sig.starts_with("panic") {
			"panic".to_owned()
		} else {
			norm(sig).chars().take(40).map(|c| if c.is_alphanumeric() { c } else { '_' }).collect()
		};
		v.push((
			format!("C09/state-changed-on-reject/{}/{}/{}", ep.name(), method, cls),
			format!("request answered with '{}' but the wallet store projection changed", sig),
		));
	}
	v
}


pub use super::c09_drv::{replay, run};
