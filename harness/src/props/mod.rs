pub mod c01;
pub mod c02;
pub mod c03;
pub mod c04;
pub mod c05;
pub mod c06;
pub mod c07;
pub mod c08;
pub mod c09;
pub mod c09_corpus;
pub mod c09_drv;
pub mod c09_mut;
pub mod c10;
pub mod c11;
pub mod c12;
pub mod c12_double;
pub mod c13;
pub mod c14;
pub mod c15;
pub mod c16;
pub mod c17;
pub mod c18;
pub mod c19;
pub mod c20;
pub mod selftest;

use serde_json::Value;

pub fn dispatch(name: &str, args: &[String]) -> i32 {
	match name {
		"selftest" => selftest::run(args),
		"c01" => c01::run(args),
		"c02" => c02::run(args),
		"c03" => c03::run(args),
		"c04" => c04::run(args),
		"c05" => c05::run(args),
		"c06" => c06::run(args),
		"c07" => c07::run(args),
		"c08" => c08::run(args),
		"c09" => c09::run(args),
		"c10" => c10::run(args),
		"c11" => c11::run(args),
		"c12" => c12::run(args),
		"c13" => c13::run(args),
		"c14" => c14::run(args),
		"c15" => c15::run(args),
		"c16" => c16::run(args),
		"c17" => c17::run(args),
		"c18" => c18::run(args),
		"c19" => c19::run(args),
		"c20" => c20::run(args),
		"replay" => replay(args),
		_ => {
			eprintln!("unknown subcommand {}", name);
			2
		}
	}
}

fn replay(args: &[String]) -> i32 {
	let file = match args.get(0) {
		Some(f) => f,
		None => {
			eprintln!("usage: gwv replay <file>");
			return 2;
		}
	};
	let v: Value = serde_json::from_slice(&std::fs::read(file).expect("read replay file")).expect("parse replay file");
	let prop = v["property"].as_str().unwrap_or("").to_lowercase();
	println!("replaying {} — {}", v["key"], v["what"]);
	if v["replay"]["same_instance"] == true {
		crate::explore::SAME_INSTANCE_REPLAY.store(true, std::sync::atomic::Ordering::SeqCst);
	}
	match prop.as_str() {
		"c01" => c01::replay(&v["replay"]),
		"c02" => c02::replay(&v["replay"]),
		"c03" => c03::replay(&v["replay"]),
		"c04" => c04::replay(&v["replay"]),
		"c05" => c05::replay(&v["replay"]),
		"c06" => c06::replay(&v["replay"]),
		"c07" => c07::replay(&v["replay"]),
		"c08" => c08::replay(&v["replay"]),
		"c09" => c09::replay(&v["replay"]),
		"c10" => c10::replay(&v["replay"]),
		"c11" => c11::replay(&v["replay"]),
		"c12" => c12::replay(&v["replay"]),
		"c13" => c13::replay(&v["replay"]),
		"c14" => c14::replay(&v["replay"]),
		"c15" => c15::replay(&v["replay"]),
		"c16" => c16::replay(&v["replay"]),
		"c17" => c17::replay(&v["replay"]),
		"c18" => c18::replay(&v["replay"]),
		"c19" => c19::replay(&v["replay"]),
		"c20" => c20::replay(&v["replay"]),
		_ => {
			eprintln!("no replay handler for property {}", prop);
			2
		}
	}
}
