//! C06 — a crash at any point leaves a loadable, consistent, recoverable wallet.
//! Crash-point and write-fault enumeration: for every scenario, a clean run counts the
//! persistent effects (LMDB commits, key-index bumps, stored-tx writes) seen at the
//! WalletBackend seam; then for every k: crash before effect k, error at effect k; for
//! every stored-tx write every truncation length (thorough) / boundary lengths (quick).
//! After each: drop everything, reopen the directories, check the invariants, cancel all
//! pending transactions and compare the spendable balance with the clean run's.
//! In addition every scenario is run in a child process under an LD_PRELOAD interposer and
//! killed before every mutating file syscall under the wallet directory (also after a half
//! write), i.e. inside LMDB commits and file writes; the same checks follow.

use crate::common::*;
use crate::core::core::Committed;
use crate::inject::{EffectKind, Fault};
use crate::libwallet::api_impl::{foreign, owner};
use crate::libwallet::{BlockFees, IssueInvoiceTxArgs, OutputStatus, TxLogEntryType};
use crate::world::*;
use serde_json::{json, Value};
use std::collections::BTreeMap;
use uuid::Uuid;

const G: u64 = 1_000_000_000;

const SCENARIOS: [&str; 12] = [
	"send",
	"receive",
	"invoice-payer",
	"invoice-issuer",
	"late-lock",
	"send-lock-with-reply",
	"cancel",
	"refresh-confirm",
	"scan-repair",
	"scan-repair-delete-unconfirmed",
	"coinbase",
	"self-send",
];

fn base_world(dir: &str) {
	let w = World::create(dir, &[("A", "A"), ("B", "B"), ("M", "M")]);
	w.w("A").create_account("acct1").unwrap();
	w.mine_n("A", 4);
	w.mine_n("B", 3);
	w.mine_n("M", 3);
	w.w("A").refresh().unwrap();
	w.w("B").refresh().unwrap();
	w.close();
}

/// preparation (no injection): returns a JSON bag of artefacts for the ops
fn prepare(w: &World, scen: &str) -> Value {
	let a = w.w("A");
	let b = w.w("B");
	match scen {
		"receive" => {
			let s = b.init_send(default_args(3 * G)).unwrap();
			b.lock(&s).unwrap();
			json!({"s1": slate_to_json(&s)})
		}
		"invoice-payer" => {
			let i1 = b.issue_invoice(IssueInvoiceTxArgs { amount: 4 * G, ..Default::default() }).unwrap();
			json!({"i1": slate_to_json(&i1)})
		}
		"cancel" => {
			let s = a.init_send(default_args(5 * G)).unwrap();
			a.lock(&s).unwrap();
			json!({"id": s.id.to_string()})
		}
		"refresh-confirm" => {
			let s1 = a.init_send(default_args(5 * G)).unwrap();
			a.lock(&s1).unwrap();
			let s2 = b.receive(&s1, None).unwrap();
			let s3 = a.finalize(&s2).unwrap();
			a.post(s3.tx_or_err().unwrap()).unwrap();
			// and a second pending one that stays pending (created before the block: initiating a send
			// refreshes the outputs, and the confirmation must be left to the operation under test)
			let p = a.init_send(default_args(2 * G)).unwrap();
			a.lock(&p).unwrap();
			w.mine("M").unwrap();
			json!({})
		}
		"scan-repair" | "scan-repair-delete-unconfirmed" => {
			// divergences: a locked output of a never-posted tx, an unspent record marked spent,
			// a deleted record, a stale unconfirmed incoming output
			let p = a.init_send(default_args(2 * G)).unwrap();
			a.lock(&p).unwrap();
			let s = b.init_send(default_args(G)).unwrap();
			b.lock(&s).unwrap();
			let _ = a.receive(&s, None).unwrap();
			let outs = a.outputs();
			let unspent: Vec<_> = outs.iter().filter(|o| o.status == OutputStatus::Unspent).cloned().collect();
			a.with(|x| {
				let mut batch = x.batch(None).unwrap();
				let mut o = unspent[0].clone();
				o.status = OutputStatus::Spent;
				batch.save(o).unwrap();
				batch.delete(&unspent[1].key_id, &unspent[1].mmr_index).unwrap();
				batch.commit().unwrap();
			});
			json!({})
		}
		_ => json!({}),
	}
}

/// the operations under test (wallet A is armed); slate ids are pushed to `ids` as soon as known
fn ops(w: &World, scen: &str, prep: &Value, ids: &mut Vec<Uuid>) -> Result<(), crate::libwallet::Error> {
	let a = w.w("A");
	let b = w.w("B");
	match scen {
		"send" => {
			let mut args = default_args(7 * G);
			args.num_change_outputs = 2;
			let s1 = a.init_send(args)?;
			ids.push(s1.id);
			a.lock(&s1)?;
			let s2 = b.receive(&s1, None)?;
			a.finalize(&s2)?;
		}
		"send-lock-with-reply" => {
			// the order of the synchronous send: the outputs are reserved when the reply is in, with the reply
			let s1 = a.init_send(default_args(6 * G))?;
			ids.push(s1.id);
			let s2 = b.receive(&s1, None)?;
			a.lock(&s2)?;
			a.finalize(&s2)?;
		}
		"receive" => {
			let s1 = slate_from_json(prep["s1"].as_str().unwrap());
			ids.push(s1.id);
			a.receive(&s1, None)?;
		}
		"invoice-payer" => {
			let i1 = slate_from_json(prep["i1"].as_str().unwrap());
			ids.push(i1.id);
			let i2 = a.process_invoice(&i1, default_args(0))?;
			a.lock(&i2)?;
		}
		"invoice-issuer" => {
			let i1 = a.issue_invoice(IssueInvoiceTxArgs { amount: 4 * G, ..Default::default() })?;
			ids.push(i1.id);
			let i2 = b.process_invoice(&i1, default_args(0))?;
			b.lock(&i2)?;
			a.foreign_finalize(&i2, false)?;
		}
		"late-lock" => {
			let mut args = default_args(6 * G);
			args.late_lock = Some(true);
			let s1 = a.init_send(args)?;
			ids.push(s1.id);
			let s2 = b.receive(&s1, None)?;
			a.finalize(&s2)?;
		}
		"cancel" => {
			let id = Uuid::parse_str(prep["id"].as_str().unwrap()).unwrap();
			ids.push(id);
			a.cancel(None, Some(id))?;
		}
		"refresh-confirm" => {
			a.refresh()?;
		}
		"scan-repair" => {
			a.scan(Some(1), false)?;
		}
		"scan-repair-delete-unconfirmed" => {
			a.scan(Some(1), true)?;
		}
		"coinbase" => {
			let bf = BlockFees { fees: 0, key_id: None, height: w.node.height() + 1 };
			a.with(|x| foreign::build_coinbase(x, None, &bf, false))?;
		}
		"self-send" => {
			let s1 = a.init_send(default_args(3 * G))?;
			ids.push(s1.id);
			a.lock(&s1)?;
			let s2 = a.receive(&s1, Some("acct1"))?;
			a.finalize(&s2)?;
		}
		_ => unreachable!(),
	}
	Ok(())
}

#[derive(Debug, Clone)]
struct RunOut {
	effects: u64,
	kinds: Vec<EffectKind>,
	store_len: usize,
	outcome: String, // completed | crashed | errored:<..> | panic
	problems: Vec<(String, String)>,
	spendable: Option<u64>,
}

/// ids of every stored private context, read from the closed wallet's raw store
fn context_ids(world_dir: &str) -> Vec<Uuid> {
	raw_dump(&WalletH::data_dir(world_dir, "A"))
		.iter()
		.filter(|(k, _)| k.len() == 2 + 16 + 8 && k[0] == b'p')
		.map(|(k, _)| Uuid::from_slice(&k[2..18]).unwrap())
		.collect()
}

fn post_checks(w: &World, dir_ids: &[Uuid], scen: &str, problems: &mut Vec<(String, String)>) {
	let a = w.w("A");
	macro_rules! q {
		($name:expr, $e:expr) => {
			match catch(|| $e) {
				Ok(v) => Some(v),
				Err(p) => {
					let site = take_last_panic().map(|x| panic_site(&x.1)).unwrap_or_default();
					problems.push((format!("query-panics/{}/{}", $name, site), format!("{} panicked after reopen: {}", $name, p)));
					None
				}
			}
		};
	}
	let outs = match q!("iter", a.outputs()) {
		Some(o) => o,
		None => return,
	};
	let txs = match q!("tx_log_iter", a.txs()) {
		Some(t) => t,
		None => return,
	};
	q!("retrieve_outputs", owner::retrieve_outputs(a.inst.clone(), None, &None, true, false, None).is_ok());
	q!("retrieve_txs", owner::retrieve_txs(a.inst.clone(), None, &None, false, None, None, None).is_ok());
	q!("retrieve_summary_info", a.info(false, 1).is_ok());
	for t in txs.iter() {
		if t.stored_tx.is_some() {
			if let Some(id) = t.tx_slate_id {
				// once the private context is gone the transaction cannot be built again: the stored copy
				// must then be the finished transaction (it is written before the context is deleted)
				if t.tx_type == TxLogEntryType::TxSent && !t.confirmed && a.get_context(&id).is_err() {
					if let Some(got) = q!("get_stored_tx", a.with(|x| owner::get_stored_tx(&*x, None, Some(&id)))) {
						let ok = match got {
							Ok(Some(slate)) => slate.tx.as_ref().map(|tx| tx.validate(grin_core::core::Weighting::AsTransaction).is_ok()).unwrap_or(false),
							// unreadable or missing: just as lost
							_ => false,
						};
						if !ok {
							problems.push((
								format!("stored-tx-not-final/{}", scen),
								format!("the private context of sent transaction {} is gone but the stored copy is not a valid finished transaction: it cannot be posted again", t.id),
							));
						}
					}
				}
				// a log entry that names a stored-transaction file: the transaction, or an error —
				// "nothing stored" would be a silent loss
				if let Some(Ok(None)) = q!("get_stored_tx", a.with(|x| owner::get_stored_tx(&*x, None, Some(&id)))) {
					problems.push((
						format!("stored-tx-silently-lost/{}", scen),
						format!("log entry {} names stored transaction file {:?} but get_stored_tx answers Ok(None) after reopen", t.id, t.stored_tx),
					));
				}
			}
		}
	}
	q!("retrieve_summary_info(refresh)", a.info(true, 1).is_ok());
	// the next key an account hands out lies beyond every key a stored output already uses
	// (otherwise the next operation overwrites that record: a silent loss)
	{
		let accts: Vec<(String, crate::keychain::Identifier)> = a.with(|b| b.acct_path_iter().map(|m| (m.label, m.path)).collect());
		for (label, path) in accts.iter() {
			let idx = a.with(|b| b.current_child_index(path)).unwrap_or(0);
			let max_used = outs.iter().filter(|o| o.key_id.parent_path() == *path && o.mmr_index.is_none()).map(|o| o.n_child).max();
			if let Some(m) = max_used {
				if idx <= m {
					problems.push((
						format!("key-index-behind-stored-output/{}", scen),
						format!("account {} will derive child {} next, but a stored output already uses child {}", label, idx, m),
					));
				}
			}
		}
	}
	// accounts other than the active one hold entries too (self-send)
	let live_sent: Vec<_> = txs.iter().filter(|t| t.tx_type == TxLogEntryType::TxSent && !t.confirmed).collect();
	// (2) every reserved output belongs to a live logged transaction
	for o in outs.iter().filter(|o| o.status == OutputStatus::Locked) {
		let ok = live_sent.iter().any(|t| Some(t.id) == o.tx_log_entry && t.parent_key_id == o.root_key_id);
		if !ok {
			let entry = txs.iter().find(|t| Some(t.id) == o.tx_log_entry && t.parent_key_id == o.root_key_id);
			problems.push((
				format!("locked-output-without-live-entry/{}", scen),
				format!("output {} is Locked but its log entry is {:?}", o.key_id.to_bip_32_string(), entry.map(|e| (e.id, txtype_str(&e.tx_type), e.confirmed))),
			));
			break;
		}
	}
	// (3) + (4) per slate with a context: reservation all-or-nothing
	for id in dir_ids.iter() {
		let ctx = match a.get_context(id) {
			Ok(c) => c,
			Err(_) => continue,
		};
		if ctx.input_ids.is_empty() {
			continue;
		}
		let entry = txs.iter().find(|t| t.tx_slate_id == Some(*id) && t.tx_type == TxLogEntryType::TxSent && !t.confirmed);
		let in_states: Vec<Option<OutputStatus>> = ctx.input_ids.iter().map(|i| outs.iter().find(|o| o.key_id == i.0).map(|o| o.status.clone())).collect();
		let change_present: Vec<bool> = ctx.output_ids.iter().map(|i| outs.iter().any(|o| o.key_id == i.0)).collect();
		match entry {
			Some(e) => {
				if !in_states.iter().all(|s| *s == Some(OutputStatus::Locked) || *s == Some(OutputStatus::Spent)) || !change_present.iter().all(|p| *p) {
					problems.push((
						format!("partial-reservation/entry-without-all-outputs/{}", scen),
						format!("live TxSent entry {} exists but inputs are {:?} and change present {:?}", e.id, in_states, change_present),
					));
				}
			}
			None => {
				let cancelled = txs.iter().any(|t| t.tx_slate_id == Some(*id) && t.tx_type == TxLogEntryType::TxSentCancelled);
				let confirmed = txs.iter().any(|t| t.tx_slate_id == Some(*id) && t.tx_type == TxLogEntryType::TxSent && t.confirmed);
				if !cancelled && !confirmed && (in_states.iter().any(|s| *s == Some(OutputStatus::Locked)) || change_present.iter().any(|p| *p)) {
					problems.push((
						format!("partial-reservation/outputs-without-entry/{}", scen),
						format!("no TxSent entry for slate but inputs are {:?} and change present {:?}", in_states, change_present),
					));
				}
			}
		}
	}
	// live sent entries: inputs of the stored transaction are Locked or Spent
	for t in live_sent.iter() {
		if let Some(id) = t.tx_slate_id {
			if let Ok(Ok(Some(tx))) = catch(|| a.stored_tx(&id)) {
				for c in tx.inputs_committed() {
					if let Some(o) = outs.iter().find(|o| a.commit_of(o) == c) {
						if o.status != OutputStatus::Locked && o.status != OutputStatus::Spent {
							problems.push((
								format!("live-sent-input-not-reserved/{}", scen),
								format!("live TxSent entry {} spends {} which is {:?}", t.id, o.key_id.to_bip_32_string(), o.status),
							));
						}
					}
				}
			}
		}
	}
}

fn recover_and_measure(w: &World, scen: &str, problems: &mut Vec<(String, String)>) -> Option<u64> {
	let a = w.w("A");
	if let Err(p) = catch(|| a.refresh()) {
		problems.push((format!("refresh-panics-after-reopen/{}", scen), p));
		return None;
	}
	for acct in ["default", "acct1"].iter() {
		a.set_account(acct).unwrap();
		let parent = a.with(|x| x.parent_key_id());
		let pending: Vec<_> = a
			.txs()
			.into_iter()
			.filter(|t| !t.confirmed && t.parent_key_id == parent && (t.tx_type == TxLogEntryType::TxSent || t.tx_type == TxLogEntryType::TxReceived))
			.collect();
		for t in pending {
			match catch(|| a.cancel(Some(t.id), None)) {
				Ok(Ok(())) => {}
				Ok(Err(e)) => problems.push((format!("pending-tx-not-cancellable/{}", scen), format!("entry {} ({}) cannot be cancelled: {}", t.id, txtype_str(&t.tx_type), e))),
				Err(p) => problems.push((format!("cancel-panics/{}", scen), p)),
			}
		}
	}
	a.set_account("default").unwrap();
	let locked_left = a.outputs().iter().filter(|o| o.status == OutputStatus::Locked).count();
	if locked_left > 0 {
		problems.push((format!("outputs-still-locked-after-cancelling-everything/{}", scen), format!("{} outputs remain Locked", locked_left)));
	}
	a.info(false, 1).ok().map(|i| i.1.amount_currently_spendable)
}

fn run_once(base: &Snapshot, dir: &str, scen: &str, plan: Option<(u64, Fault)>) -> RunOut {
	base.restore(dir);
	let w = World::open(dir);
	let prep = prepare(&w, scen);
	w.w("A").inj.lock().unwrap().reset(plan);
	let mut ids = vec![];
	let r = catch(|| ops(&w, scen, &prep, &mut ids));
	let (effects, kinds, store_len) = {
		let s = w.w("A").inj.lock().unwrap();
		(s.effects, s.kinds.clone(), s.last_store_len)
	};
	w.w("A").inj.lock().unwrap().reset(None);
	let mut problems = vec![];
	let outcome = match r {
		Ok(Ok(())) => "completed".to_owned(),
		Ok(Err(e)) => format!("errored:{}", format!("{:?}", e).chars().take_while(|c| c.is_alphanumeric()).collect::<String>()),
		Err(m) if m == "__crash_sentinel__" => "crashed".to_owned(),
		Err(m) if m.contains("injected write failure") => {
			// the code unwrapped the failed write: the process dies, which the statement allows
			// (it constrains the wallet found on reopening, checked below exactly as for a crash)
			let _ = take_last_panic();
			"panicked-on-write-error".to_owned()
		}
		Err(m) => {
			let site = take_last_panic().map(|x| panic_site(&x.1)).unwrap_or_default();
			problems.push((format!("panic/{}/{}", scen, site), format!("operation panicked: {}", m)));
			"panic".to_owned()
		}
	};
	if outcome.starts_with("errored") {
		// the process is still alive: the open wallet must already be consistent
		let all_ids: Vec<Uuid> = ids.clone();
		let mut p2 = vec![];
		post_checks(&w, &all_ids, scen, &mut p2);
		for (k, v) in p2 {
			problems.push((format!("{}/live-after-error", k), v));
		}
	}
	// process death: drop every handle, reopen from disk
	w.close();
	let mut dir_ids = context_ids(dir);
	for i in ids {
		if !dir_ids.contains(&i) {
			dir_ids.push(i);
		}
	}
	let w = match catch(|| World::open(dir)) {
		Ok(w) => w,
		Err(p) => {
			problems.push((format!("reopen-fails/{}", scen), format!("wallet does not load after the fault: {}", p)));
			return RunOut { effects, kinds, store_len, outcome, problems, spendable: None };
		}
	};
	post_checks(&w, &dir_ids, scen, &mut problems);
	let spendable = recover_and_measure(&w, scen, &mut problems);
	w.close();
	RunOut { effects, kinds, store_len, outcome, problems, spendable }
}

fn fault_str(f: &Fault) -> String {
	match f {
		Fault::Crash => "crash".into(),
		Fault::Error => "error".into(),
		Fault::Torn(n) => format!("torn:{}", n),
		Fault::CrashAfter => "crash-after".into(),
	}
}

fn fault_from(s: &str) -> Fault {
	if s == "crash" {
		Fault::Crash
	} else if s == "error" {
		Fault::Error
	} else if s == "crash-after" {
		Fault::CrashAfter
	} else {
		Fault::Torn(s.trim_start_matches("torn:").parse().unwrap())
	}
}

/// seed-file truncations: every prefix of a valid wallet.seed must be reported as an error
fn seed_truncations(root: &str, problems: &mut Vec<(String, String)>) -> u64 {
	use crate::impls::{DefaultLCProvider, DefaultWalletImpl};
	use crate::keychain::ExtKeychain;
	use crate::libwallet::WalletInst;
	use crate::util::ZeroingString;
	let dir = format!("{}/c06-seed", root);
	let _ = std::fs::remove_dir_all(&dir);
	let node = crate::node::Node::open(&format!("{}/c06-seed-node", root));
	let client = crate::node::DirectClient::new(node.clone());
	let mut n = 0;
	let mut wallet = Box::new(DefaultWalletImpl::<crate::node::DirectClient>::new(client).unwrap())
		as Box<dyn WalletInst<'static, DefaultLCProvider<'static, crate::node::DirectClient, ExtKeychain>, crate::node::DirectClient, ExtKeychain>>;
	let lc = wallet.lc_provider().unwrap();
	lc.set_top_level_directory(&dir).unwrap();
	lc.create_wallet(None, Some(ZeroingString::from(mnemonic_for("A"))), 32, ZeroingString::from("pw"), false).unwrap();
	let seed_path = format!("{}/wallet_data/wallet.seed", dir);
	let full = std::fs::read(&seed_path).unwrap();
	for len in 0..full.len() {
		std::fs::write(&seed_path, &full[..len]).unwrap();
		n += 1;
		match catch(|| lc.open_wallet(None, ZeroingString::from("pw"), false, false)) {
			Err(p) => {
				let site = take_last_panic().map(|x| panic_site(&x.1)).unwrap_or_default();
				problems.push((format!("seed-file-truncated/panic/{}", site), format!("wallet.seed truncated to {} of {} bytes: open_wallet panicked: {}", len, full.len(), p)));
			}
			Ok(Ok(_)) => {
				problems.push(("seed-file-truncated/accepted".into(), format!("wallet.seed truncated to {} of {} bytes was opened", len, full.len())));
			}
			Ok(Err(_)) => {}
		}
		let _ = lc.close_wallet(None);
	}
	std::fs::write(&seed_path, &full).unwrap();
	if lc.open_wallet(None, ZeroingString::from("pw"), false, false).is_err() {
		problems.push(("seed-file/intact-not-opened".into(), "intact seed file no longer opens".into()));
	}
	let _ = lc.close_wallet(None);
	drop(wallet);
	drop(node);
	n
}

// ---------------------------------------------------------------------------------------------
// thorough: real process kills at every mutating file syscall under the wallet directory
// (inside LMDB commits and stored-tx writes), via the LD_PRELOAD interposer of shim/crashpoint.c

/// `gwv c06 child <scenario> <world dir>`: open the prepared world and run the operations under test
fn child_main(args: &[String]) -> i32 {
	let scen = &args[1];
	let dir = &args[2];
	let w = World::open(dir);
	if scen == "__open_only__" {
		// counts the file calls that opening the world makes, before any operation under test
		return 0;
	}
	let prep = w.meta.extra["c06_prep"].clone();
	let mut ids = vec![];
	let r = catch(|| ops(&w, scen, &prep, &mut ids));
	// a normal end: leave without running destructors that would write again
	match r {
		Ok(Ok(())) => 0,
		Ok(Err(_)) => 3,
		Err(_) => 4,
	}
}

struct SysOut {
	cases: u64,
	killed: u64,
	/// write-error cases, and those in which the operation noticed the failed write (returned an error or panicked)
	write_error_cases: u64,
	write_error_noticed: u64,
	problems: Vec<(String, String, Value)>,
	calls_per_scenario: BTreeMap<String, u64>,
}

fn run_child(so: &str, scen: &str, dir: &str, k: u64, short: bool, log: Option<&str>) -> Option<i32> {
	run_child_mode(so, scen, dir, k, short, None, log)
}

/// fail = Some("once" | "from"): the k-th counted call (or every write from it on) fails with ENOSPC and the
/// process carries on instead of being killed
fn run_child_mode(so: &str, scen: &str, dir: &str, k: u64, short: bool, fail: Option<&str>, log: Option<&str>) -> Option<i32> {
	let exe = std::env::current_exe().ok()?;
	let mut c = std::process::Command::new(exe);
	c.args(&["c06", "child", scen, dir])
		.env("LD_PRELOAD", so)
		.env("GWV_CP_DIR", WalletH::data_dir(dir, "A"))
		.env("GWV_CP_K", k.to_string())
		.env("GWV_CP_SHORT", if short { "1" } else { "0" })
		.stdout(std::process::Stdio::null())
		.stderr(if std::env::var("GWV_SHOW_PANICS").is_ok() { std::process::Stdio::inherit() } else { std::process::Stdio::null() });
	match fail {
		Some(f) => {
			c.env("GWV_CP_FAIL", f);
		}
		None => {
			c.env_remove("GWV_CP_FAIL");
		}
	}
	match log {
		Some(l) => {
			c.env("GWV_CP_LOG", l);
		}
		None => match std::env::var("GWV_C06_LOG") {
			// development aid for replays: list the file calls of the replayed child
			Ok(l) => {
				c.env("GWV_CP_LOG", l);
			}
			Err(_) => {
				c.env_remove("GWV_CP_LOG");
			}
		},
	}
	c.status().ok().and_then(|s| s.code())
}

fn syscall_sweep(root: &str, base: &Snapshot, references: &BTreeMap<String, u64>) -> Result<SysOut, String> {
	let so = crate::props::c12::build_shim(root)?;
	let mut out = SysOut { cases: 0, killed: 0, write_error_cases: 0, write_error_noticed: 0, problems: vec![], calls_per_scenario: BTreeMap::new() };
	// prepared snapshots + syscall counts per scenario
	let mut jobs: Vec<(String, Snapshot, u64, bool, Option<&'static str>)> = vec![];
	for scen in SCENARIOS.iter() {
		let dir = format!("{}/c06-sys-prep", root);
		base.restore(&dir);
		let mut w = World::open(&dir);
		let prep = prepare(&w, scen);
		w.meta.extra["c06_prep"] = prep;
		w.close();
		let snap = Snapshot::capture(&dir);
		let log = format!("{}/c06-sys.log", root);
		let _ = std::fs::remove_file(&log);
		// the counting run starts from a freshly restored copy, like every case below (a snapshot carries no
		// LMDB lock files: a directory that has been opened before makes fewer file calls on the next open)
		let dir = format!("{}/c06-sys-count", root);
		snap.restore(&dir);
		let code = run_child(&so, scen, &dir, 0, false, Some(&log));
		if code != Some(0) {
			return Err(format!("clean child run of scenario {} exited with {:?}", scen, code));
		}
		let lines: Vec<String> = std::fs::read_to_string(&log).unwrap_or_default().lines().map(|l| l.to_owned()).collect();
		let n = lines.len() as u64;
		// file calls made while the world is opened, before the operations under test start: a write error
		// there is the failure of opening a wallet on a full disk, not of the operation
		let n_open = {
			let _ = std::fs::remove_file(&log);
			snap.restore(&dir);
			if run_child(&so, "__open_only__", &dir, 0, false, Some(&log)) != Some(0) {
				return Err("open-only child run failed".to_owned());
			}
			std::fs::read_to_string(&log).unwrap_or_default().lines().count() as u64
		};
		out.calls_per_scenario.insert(scen.to_string(), n);
		for k in 1..=n {
			jobs.push((scen.to_string(), snap.clone(), k, false, None));
			let is_write = lines[(k - 1) as usize].split(' ').nth(1).map(|x| x.contains("write")).unwrap_or(false);
			if is_write {
				jobs.push((scen.to_string(), snap.clone(), k, true, None));
				// the write fails (disk full) and the process carries on: once, and from then on
				if k > n_open {
					jobs.push((scen.to_string(), snap.clone(), k, false, Some("once")));
					jobs.push((scen.to_string(), snap.clone(), k, false, Some("from")));
				}
			}
		}
	}
	let results = par_map(&jobs, workers(), |i, (scen, snap, k, short, fail)| {
		let dir = format!("{}/c06-sys-{}", root, i);
		snap.restore(&dir);
		let code = run_child_mode(&so, scen, &dir, *k, *short, *fail, None);
		let mut problems = vec![];
		let killed = code == Some(77);
		// 0: the operations completed, 3: they returned an error, 4 (write-error mode only): they panicked on the
		// failed write - counted like the seam-level outcome "panicked-on-write-error": the process dies, and what
		// matters here is the state it leaves behind
		if !killed && code != Some(0) && code != Some(3) && !(fail.is_some() && code == Some(4)) {
			problems.push((format!("{}/child-exit/{}", if fail.is_some() { "write-error" } else { "syscall-kill" }, scen), format!("child exited with {:?}", code)));
		}
		let dir_ids = context_ids(&dir);
		let spendable = match catch(|| World::open(&dir)) {
			Ok(w) => {
				post_checks(&w, &dir_ids, scen, &mut problems);
				let sp = recover_and_measure(&w, scen, &mut problems);
				w.close();
				sp
			}
			Err(p) => {
				problems.push((format!("reopen-fails/{}", scen), format!("wallet does not load after a kill at file call #{}: {}", k, p)));
				None
			}
		};
		let _ = std::fs::remove_dir_all(&dir);
		let killed = if fail.is_some() { code == Some(3) || code == Some(4) } else { killed };
		if std::env::var("GWV_C06_DEBUG").is_ok() && fail.is_some() {
			eprintln!("write-error case {} k={} {:?}: exit {:?}, problems {:?}", scen, k, fail, code, problems.iter().map(|p| &p.0).collect::<Vec<_>>());
		}
		(killed, problems, spendable)
	});
	for ((scen, _, k, short, fail), (killed, problems, spendable)) in jobs.iter().zip(results.into_iter()) {
		out.cases += 1;
		if fail.is_some() {
			out.write_error_cases += 1;
			if killed {
				out.write_error_noticed += 1;
			}
		} else if killed {
			out.killed += 1;
		}
		let mut ps = problems;
		if let (Some(sp), Some(r)) = (spendable, references.get(scen)) {
			if sp != *r {
				ps.push((format!("balance-not-restored/{}", scen), format!("after a kill at file call #{} and recovery the spendable balance is {} instead of {}", k, sp, r)));
			}
		}
		for (key, what) in ps {
			match fail {
				None => out.problems.push((format!("syscall-kill/{}", key), format!("{} — scenario {}, process killed before file call #{}{}", what, scen, k, if *short { " (after a half write)" } else { "" }), json!({"scenario": scen, "syscall": k, "short": short}))),
				Some(f) => out.problems.push((format!("write-error/{}", key), format!("{} — scenario {}, file call #{} failed with ENOSPC ({}) and the process carried on", what, scen, k, if *f == "once" { "that call only" } else { "and every write after it" }), json!({"scenario": scen, "syscall": k, "short": false, "fail": f}))),
			}
		}
	}
	Ok(out)
}

pub fn replay(payload: &Value) -> i32 {
	std::env::set_var("GWV_SHOW_PANICS", "1");
	let root = scratch_root();
	let based = format!("{}/c06-replay-base", root);
	base_world(&based);
	let base = Snapshot::capture(&based);
	let scen = payload["scenario"].as_str().unwrap().to_owned();
	if let Some(k) = payload["syscall"].as_u64() {
		// one case of the file-call sweep: kill before (or ENOSPC at) the k-th mutating file call
		let so = match crate::props::c12::build_shim(&root) {
			Ok(s) => s,
			Err(e) => {
				println!("cannot build the interposer: {}", e);
				return 2;
			}
		};
		let dir = format!("{}/c06-replay-sys", root);
		base.restore(&dir);
		let mut w = World::open(&dir);
		let prep = prepare(&w, &scen);
		w.meta.extra["c06_prep"] = prep;
		w.close();
		let snap = Snapshot::capture(&dir);
		let dir = format!("{}/c06-replay-sys-run", root);
		snap.restore(&dir);
		let code = run_child_mode(&so, &scen, &dir, k, payload["short"].as_bool().unwrap_or(false), payload["fail"].as_str(), None);
		let mut problems = vec![];
		let dir_ids = context_ids(&dir);
		match catch(|| World::open(&dir)) {
			Ok(w) => {
				post_checks(&w, &dir_ids, &scen, &mut problems);
				let _ = recover_and_measure(&w, &scen, &mut problems);
				w.close();
			}
			Err(p) => problems.push(("reopen-fails".into(), p)),
		}
		println!("child exit code {:?}; problems: {:?}", code, problems);
		return if problems.is_empty() { 0 } else { 1 };
	}
	let plan = if payload["effect"].is_null() { None } else { Some((payload["effect"].as_u64().unwrap(), fault_from(payload["fault"].as_str().unwrap()))) };
	let r = run_once(&base, &format!("{}/c06-replay", root), &scen, plan);
	println!("{:?}", r);
	if r.problems.is_empty() { 0 } else { 1 }
}

pub fn run(args: &[String]) -> i32 {
	if args.get(0).map(|s| s.as_str()) == Some("child") {
		return child_main(args);
	}
	let mut rep = Report::new("C06", "fault_enumeration");
	let thorough = tier() == Tier::Thorough;
	let root = scratch_root();
	let based = format!("{}/c06-base", root);
	base_world(&based);
	let base = Snapshot::capture(&based);
	// clean runs
	let scens: Vec<&str> = SCENARIOS.to_vec();
	let clean = par_map(&scens, workers(), |i, s| run_once(&base, &format!("{}/c06-clean{}", root, i), s, None));
	let mut jobs: Vec<(String, u64, Fault, u64)> = vec![]; // scenario, effect, fault, reference spendable
	let mut per_scen = serde_json::Map::new();
	for (s, c) in scens.iter().zip(clean.iter()) {
		if c.outcome != "completed" {
			return rep.finish(Some(format!("clean run of scenario {} did not complete: {} {:?}", s, c.outcome, c.problems)));
		}
		for (k, w) in c.problems.iter() {
			rep.add_finding(Finding { key: format!("C06/{}", k), what: format!("{} — clean run of {}", w, s), replay: json!({"scenario": s, "effect": null}) });
		}
		let reference = match c.spendable {
			Some(v) => v,
			None => return rep.finish(Some(format!("clean run of {} has no reference balance", s))),
		};
		let mut n_torn = 0;
		for (k, kind) in c.kinds.iter().enumerate() {
			jobs.push((s.to_string(), k as u64, Fault::Crash, reference));
			jobs.push((s.to_string(), k as u64, Fault::Error, reference));
			if *kind == EffectKind::StoreTx {
				jobs.push((s.to_string(), k as u64, Fault::CrashAfter, reference));
				let l = c.store_len;
				let lens: Vec<usize> = if thorough { (0..l).collect() } else { vec![0, 1, 2, l / 2, l / 2 + 1, l - 1] };
				for n in lens {
					jobs.push((s.to_string(), k as u64, Fault::Torn(n), reference));
					n_torn += 1;
				}
			}
		}
		per_scen.insert(s.to_string(), json!({"persistent_effects": c.effects, "kinds": c.kinds.iter().map(|k| format!("{:?}", k)).collect::<Vec<_>>(), "torn_writes": n_torn, "reference_spendable": reference}));
	}
	let results = par_map(&jobs, workers(), |i, (s, k, f, _)| run_once(&base, &format!("{}/c06-{}", root, i), s, Some((*k, f.clone()))));
	let mut hist: BTreeMap<String, u64> = BTreeMap::new();
	let mut fired = 0u64;
	for ((s, k, f, reference), r) in jobs.iter().zip(results.iter()) {
		*hist.entry(r.outcome.split(':').next().unwrap().to_owned()).or_insert(0) += 1;
		if r.outcome != "completed" {
			fired += 1;
		}
		let mut problems = r.problems.clone();
		if let Some(sp) = r.spendable {
			if sp != *reference {
				problems.push((format!("balance-not-restored/{}", s), format!("after recovery and cancelling every pending transaction the spendable balance is {} instead of {}", sp, reference)));
			}
		}
		for (key, what) in problems {
			let key = format!("C06/{}", key);
			if rep.findings.lock().unwrap().iter().any(|x| x.key == key) {
				continue;
			}
			// replay twice
			let mut same = true;
			for rr in 0..2 {
				let again = run_once(&base, &format!("{}/c06-again{}", root, rr), s, Some((*k, f.clone())));
				let mut ps = again.problems.clone();
				if let Some(sp) = again.spendable {
					if sp != *reference {
						ps.push((format!("balance-not-restored/{}", s), String::new()));
					}
				}
				if !ps.iter().any(|p| format!("C06/{}", p.0) == key) {
					same = false;
				}
			}
			if !same {
				return rep.finish(Some(format!("verdict not reproducible: {} at {} effect {} {}", key, s, k, fault_str(f))));
			}
			rep.add_finding(Finding {
				key,
				what: format!("{} — scenario {}, {} at persistent effect #{}", what, s, fault_str(f), k),
				replay: json!({"scenario": s, "effect": k, "fault": fault_str(f)}),
			});
		}
	}
	// thorough: process kills at every mutating file syscall
	let mut sys_cases = 0u64;
	{
		let refs: BTreeMap<String, u64> = scens.iter().zip(clean.iter()).map(|(s, c)| (s.to_string(), c.spendable.unwrap_or(0))).collect();
		match syscall_sweep(&root, &base, &refs) {
			Ok(o) => {
				sys_cases = o.cases;
				fired += o.killed;
				rep.cov("syscall_kill_points", json!({"cases": o.cases, "killed": o.killed, "write_error_cases": o.write_error_cases, "write_errors_noticed_by_the_operation": o.write_error_noticed, "file_calls_per_scenario": o.calls_per_scenario}));
				if o.write_error_noticed < 20 {
					return rep.finish(Some(format!("write-error sweep: only {} of {} injected write errors were noticed by the operation", o.write_error_noticed, o.write_error_cases)));
				}
				for (k, w, payload) in o.problems {
					rep.add_finding(Finding { key: format!("C06/{}", k), what: w, replay: payload });
				}
				if o.killed < 50 {
					return rep.finish(Some(format!("syscall-level sweep killed only {} children", o.killed)));
				}
			}
			Err(e) => return rep.finish(Some(format!("syscall-level sweep: {}", e))),
		}
	}
	let mut seed_problems = vec![];
	let n_seed = seed_truncations(&root, &mut seed_problems);
	for (k, w) in seed_problems {
		rep.add_finding(Finding { key: format!("C06/{}", k), what: w, replay: json!({"scenario": "seed-truncation"}) });
	}
	let n = jobs.len() as u64 + scens.len() as u64 + n_seed + sys_cases;
	rep.cov("evaluations", json!(n));
	rep.cov("distinct_nontrivial", json!(fired));
	rep.cov("rule", json!("one case = (scenario, index of persistent effect, fault kind [, truncation length]); distinct by construction; non-trivial = the fault actually fired (the run did not complete normally)"));
	rep.cov("states", json!(n));
	rep.cov("transitions", json!(n));
	rep.cov("traces_validated_against_impl", json!(n));
	rep.cov("exhaustive", json!(true));
	rep.cov("scenarios", Value::Object(per_scen));
	rep.cov("outcomes", json!(hist));
	rep.cov("seed_file_truncations", json!(n_seed));
	rep.cov("samples", json!(jobs.iter().take(3).map(|(s, k, f, _)| json!({"scenario": s, "effect": k, "fault": fault_str(f)})).collect::<Vec<_>>()));
	rep.assume("a crash is a process death between two persistent effects at the WalletBackend seam (LMDB commit, key-index bump, stored-tx file write); LMDB's own atomicity of a commit is trusted");
	rep.assume("torn stored-tx writes: quick enumerates boundary lengths {0,1,2,len/2,len/2+1,len-1}, thorough every length");
	let vac = if fired < 50 { Some(format!("vacuity guard: only {} faults fired", fired)) } else { None };
	rep.finish(vac)
}
