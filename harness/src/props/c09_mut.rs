//! C09 — mutation generators (pure; every class is indexable so that work can be split in
//! ranges and every count is exact).

use serde_json::Value;

pub const TEXT_ALPHA: [u8; 11] = [
	b'.', b' ', b'0', b'z', b'"', b'{', b'}', b'[', b',', b':', 0x80,
];
/// fixed part of the binary alphabet (substitution adds b^01 and b^80)
pub const BIN_ALPHA: [u8; 6] = [0x00, 0x01, 0x7f, 0x80, 0xfe, 0xff];

/// one byte-level edit
#[derive(Clone, Copy, Debug, PartialEq)]
pub enum Sm {
	Trunc(usize),
	Subst(usize, u8),
	Del(usize),
	Ins(usize, u8),
	Transp(usize),
	/// the byte at the position replaced by a multi-byte UTF-8 character (index into UTF8_CHARS)
	SubstChar(usize, usize),
	/// a multi-byte UTF-8 character inserted before the position
	InsChar(usize, usize),
	/// (occurrence, index into BECH32_LENS): the occurrence-th bech32 address found in the artefact re-encoded,
	/// with a valid checksum, over a key of another length (a single-character edit never gets past the checksum)
	Bech32Len(usize, usize),
	/// (position, index into CASE_CHARS, k): k copies of a character whose case mapping changes its
	/// byte length written over the k*len bytes at the position (the byte length of the text is kept)
	CaseRun(usize, usize, usize),
}

/// 2-, 3- and 4-byte characters: the text stays valid UTF-8, but byte offsets stop being character boundaries
pub const UTF8_CHARS: [&str; 3] = ["\u{e9}", "\u{3002}", "\u{1f600}"];

/// characters whose upper- or lower-casing has another byte length than the character itself
/// (sharp s -> SS, long s -> S, fi ligature -> FI, Kelvin sign -> k, dotted capital I -> i + combining dot):
/// a text normalised by case mapping no longer has the length that was checked before (or after) the mapping
pub const CASE_CHARS: [&str; 5] = ["\u{df}", "\u{17f}", "\u{fb01}", "\u{212a}", "\u{130}"];
/// longest run of such characters
pub const CASE_RUN_MAX: usize = 24;
/// texts up to this length get a run at every position, longer ones at the start and at the end only
pub const CASE_RUN_ALL_POS: usize = 160;

/// all (position, character, run length) of the class over a text of n bytes, simplest first
pub fn case_runs(n: usize) -> std::sync::Arc<Vec<(usize, usize, usize)>> {
	use std::collections::HashMap;
	use std::sync::{Arc, Mutex};
	lazy_static::lazy_static! {
		static ref CACHE: Mutex<HashMap<usize, Arc<Vec<(usize, usize, usize)>>>> = Mutex::new(HashMap::new());
	}
	let mut c = CACHE.lock().unwrap();
	if let Some(v) = c.get(&n) {
		return v.clone();
	}
	let mut v = vec![];
	for k in 1..=CASE_RUN_MAX {
		for (ci, ch) in CASE_CHARS.iter().enumerate() {
			let l = k * ch.len();
			if l > n {
				continue;
			}
			if n <= CASE_RUN_ALL_POS {
				for p in 0..=n - l {
					v.push((p, ci, k));
				}
			} else {
				v.push((0, ci, k));
				v.push((n - l, ci, k));
			}
		}
	}
	let v = Arc::new(v);
	c.insert(n, v.clone());
	v
}

/// data lengths (bytes) of the re-encoded addresses; a real key has 32
pub const BECH32_LENS: [usize; 7] = [0, 1, 16, 31, 33, 40, 64];

/// well-formed bech32 strings with the wallet's address prefixes inside an artefact: (start, end, hrp, data)
pub fn bech32_spans(b: &[u8]) -> Vec<(usize, usize, String, Vec<u8>)> {
	use bech32::FromBase32;
	const CHARSET: &[u8] = b"qpzry9x8gf2tvdw0s3jn54khce6mua7l";
	let mut v = vec![];
	let mut i = 0;
	while i < b.len() {
		let mut hit = None;
		for hrp in ["tgrin1", "grin1"].iter() {
			if b[i..].starts_with(hrp.as_bytes()) && (i == 0 || !b[i - 1].is_ascii_alphanumeric()) {
				hit = Some(hrp.len());
				break;
			}
		}
		if let Some(hl) = hit {
			let mut j = i + hl;
			while j < b.len() && CHARSET.contains(&b[j]) {
				j += 1;
			}
			if let Ok(text) = std::str::from_utf8(&b[i..j]) {
				if let Ok((hrp, data)) = bech32::decode(text) {
					if let Ok(bytes) = Vec::<u8>::from_base32(&data) {
						v.push((i, j, hrp, bytes));
						i = j;
						continue;
					}
				}
			}
		}
		i += 1;
	}
	v
}

impl Sm {
	pub fn apply(&self, b: &[u8]) -> Option<Vec<u8>> {
		match *self {
			Sm::Trunc(n) => {
				// n == len is the unmodified artefact (identity, kept on purpose)
				if n <= b.len() {
					Some(b[..n].to_vec())
				} else {
					None
				}
			}
			Sm::Subst(p, v) => {
				if p < b.len() {
					let mut o = b.to_vec();
					o[p] = v;
					Some(o)
				} else {
					None
				}
			}
			Sm::Del(p) => {
				if p < b.len() {
					let mut o = b.to_vec();
					o.remove(p);
					Some(o)
				} else {
					None
				}
			}
			Sm::Ins(p, v) => {
				if p <= b.len() {
					let mut o = Vec::with_capacity(b.len() + 1);
					o.extend_from_slice(&b[..p]);
					o.push(v);
					o.extend_from_slice(&b[p..]);
					Some(o)
				} else {
					None
				}
			}
			Sm::Transp(p) => {
				if p + 1 < b.len() {
					let mut o = b.to_vec();
					o.swap(p, p + 1);
					Some(o)
				} else {
					None
				}
			}
			Sm::SubstChar(p, c) => {
				if p < b.len() {
					let mut o = b[..p].to_vec();
					o.extend_from_slice(UTF8_CHARS[c].as_bytes());
					o.extend_from_slice(&b[p + 1..]);
					Some(o)
				} else {
					None
				}
			}
			Sm::InsChar(p, c) => {
				if p <= b.len() {
					let mut o = b[..p].to_vec();
					o.extend_from_slice(UTF8_CHARS[c].as_bytes());
					o.extend_from_slice(&b[p..]);
					Some(o)
				} else {
					None
				}
			}
			Sm::Bech32Len(occ, li) => {
				use bech32::ToBase32;
				let spans = bech32_spans(b);
				let (start, end, hrp, data) = spans.get(occ)?.clone();
				let want = BECH32_LENS[li];
				let mut d = data.clone();
				d.resize(want, 0x42);
				let enc = bech32::encode(&hrp, d.to_base32()).ok()?;
				let mut o = b[..start].to_vec();
				// a one-byte length prefix in front of the string (binary forms) follows the new length
				if start > 0 && b[start - 1] as usize == end - start && enc.len() < 256 {
					let n = o.len();
					o[n - 1] = enc.len() as u8;
				}
				o.extend_from_slice(enc.as_bytes());
				o.extend_from_slice(&b[end..]);
				Some(o)
			}
			Sm::CaseRun(p, c, k) => {
				let l = k * CASE_CHARS[c].len();
				if p + l <= b.len() {
					let mut o = b[..p].to_vec();
					for _ in 0..k {
						o.extend_from_slice(CASE_CHARS[c].as_bytes());
					}
					o.extend_from_slice(&b[p + l..]);
					Some(o)
				} else {
					None
				}
			}
		}
	}
	pub fn describe(&self) -> String {
		match *self {
			Sm::Trunc(n) => format!("truncate to {} bytes", n),
			Sm::Subst(p, v) => format!("byte {} := 0x{:02x}", p, v),
			Sm::Del(p) => format!("delete byte {}", p),
			Sm::Ins(p, v) => format!("insert 0x{:02x} before byte {}", v, p),
			Sm::Transp(p) => format!("swap bytes {} and {}", p, p + 1),
			Sm::SubstChar(p, c) => format!("byte {} := the {}-byte character U+{:04X}", p, UTF8_CHARS[c].len(), UTF8_CHARS[c].chars().next().unwrap() as u32),
			Sm::InsChar(p, c) => format!("insert the {}-byte character U+{:04X} before byte {}", UTF8_CHARS[c].len(), UTF8_CHARS[c].chars().next().unwrap() as u32, p),
			Sm::Bech32Len(occ, li) => format!("bech32 address #{} re-encoded (valid checksum) over {} key bytes", occ, BECH32_LENS[li]),
			Sm::CaseRun(p, c, k) => format!("bytes {}..{} := {} x U+{:04X} (case mapping changes its length)", p, p + k * CASE_CHARS[c].len(), k, CASE_CHARS[c].chars().next().unwrap() as u32),
		}
	}
}

#[derive(Clone, Copy, Debug, PartialEq, Eq, Hash, PartialOrd, Ord)]
pub enum MClass {
	Trunc,
	Subst,
	Del,
	Ins,
	Transp,
	Utf8Char,
	CaseRun,
	Bech32Len,
	JsonNode,
	BinField,
	Frame,
	Pairs,
	Special,
}

impl MClass {
	pub fn name(&self) -> &'static str {
		match self {
			MClass::Trunc => "truncation",
			MClass::Subst => "substitution",
			MClass::Del => "deletion",
			MClass::Ins => "insertion",
			MClass::Transp => "transposition",
			MClass::Utf8Char => "multibyte-character",
			MClass::CaseRun => "case-length-run",
			MClass::Bech32Len => "bech32-key-length",
			MClass::JsonNode => "json-node",
			MClass::BinField => "length-field",
			MClass::Frame => "armor-framing",
			MClass::Pairs => "pairs-first-64",
			MClass::Special => "special",
		}
	}
}

/// number of mutants of a byte-level class over a string of length n
pub fn byte_class_len(c: MClass, n: usize, text: bool) -> usize {
	let (sa, ia) = if text {
		(TEXT_ALPHA.len(), TEXT_ALPHA.len())
	} else {
		(BIN_ALPHA.len() + 2, BIN_ALPHA.len())
	};
	match c {
		MClass::Trunc => n + 1,
		MClass::Subst => n * sa,
		MClass::Del => n,
		MClass::Ins => (n + 1) * ia,
		MClass::Transp => n.saturating_sub(1),
		MClass::Utf8Char => {
			if text {
				n * UTF8_CHARS.len() + (n + 1) * UTF8_CHARS.len()
			} else {
				0
			}
		}
		MClass::CaseRun => {
			if text {
				case_runs(n).len()
			} else {
				0
			}
		}
		_ => 0,
	}
}

/// i-th mutant descriptor of a byte-level class (simplest-first: by position)
pub fn byte_class_get(c: MClass, b: &[u8], text: bool, i: usize) -> Sm {
	match c {
		MClass::Trunc => Sm::Trunc(i),
		MClass::Subst => {
			if text {
				let a = TEXT_ALPHA.len();
				Sm::Subst(i / a, TEXT_ALPHA[i % a])
			} else {
				let a = BIN_ALPHA.len() + 2;
				let p = i / a;
				let k = i % a;
				let v = if k < BIN_ALPHA.len() {
					BIN_ALPHA[k]
				} else if k == BIN_ALPHA.len() {
					b[p] ^ 0x01
				} else {
					b[p] ^ 0x80
				};
				Sm::Subst(p, v)
			}
		}
		MClass::Del => Sm::Del(i),
		MClass::Ins => {
			if text {
				let a = TEXT_ALPHA.len();
				Sm::Ins(i / a, TEXT_ALPHA[i % a])
			} else {
				let a = BIN_ALPHA.len();
				Sm::Ins(i / a, BIN_ALPHA[i % a])
			}
		}
		MClass::Transp => Sm::Transp(i),
		MClass::Utf8Char => {
			let k = UTF8_CHARS.len();
			let n_subst = b.len() * k;
			if i < n_subst {
				Sm::SubstChar(i / k, i % k)
			} else {
				let j = i - n_subst;
				Sm::InsChar(j / k, j % k)
			}
		}
		MClass::CaseRun => {
			let (p, ci, k) = case_runs(b.len())[i];
			Sm::CaseRun(p, ci, k)
		}
		MClass::Bech32Len => Sm::Bech32Len(i / BECH32_LENS.len(), i % BECH32_LENS.len()),
		_ => unreachable!(),
	}
}

/// all single edits (no truncation) that touch only the first `w` bytes
pub fn singles_prefix(b: &[u8], text: bool, w: usize) -> Vec<Sm> {
	let n = std::cmp::min(w, b.len());
	let mut v = vec![];
	for c in [MClass::Subst, MClass::Del, MClass::Ins, MClass::Transp].iter() {
		let len = byte_class_len(*c, n, text);
		for i in 0..len {
			let m = byte_class_get(*c, b, text, i);
			// Ins positions 0..=n, but stay within the window
			v.push(m);
		}
	}
	v
}

/// second edit of a pair: the same descriptor shapes over the (already edited) string x;
/// value-relative substitutions (b^01, b^80) are taken relative to x
pub fn pair_second(x: &[u8], text: bool, w: usize) -> Vec<Sm> {
	singles_prefix(x, text, w)
}

// ---------------------------------------------------------------------------------------------
// JSON node replacement

#[derive(Clone, Debug)]
pub enum Seg {
	Key(String),
	Idx(usize),
}

pub fn json_paths(v: &Value) -> Vec<Vec<Seg>> {
	fn walk(v: &Value, cur: &mut Vec<Seg>, out: &mut Vec<Vec<Seg>>) {
		out.push(cur.clone());
		match v {
			Value::Object(m) => {
				for (k, c) in m.iter() {
					cur.push(Seg::Key(k.clone()));
					walk(c, cur, out);
					cur.pop();
				}
			}
			Value::Array(a) => {
				for (i, c) in a.iter().enumerate() {
					cur.push(Seg::Idx(i));
					walk(c, cur, out);
					cur.pop();
				}
			}
			_ => {}
		}
	}
	let mut out = vec![];
	walk(v, &mut vec![], &mut out);
	out
}

pub const JSON_REPL: [&str; 12] = [
	"absent",
	"null",
	"true",
	"0",
	"-1",
	"18446744073709551616",
	"\"\"",
	"\"00\"",
	"hex-too-short",
	"hex-too-long",
	"[]",
	"{}",
];

const PH: &str = "@@C09PH@@";

fn node_at<'a>(v: &'a mut Value, path: &[Seg]) -> Option<&'a mut Value> {
	let mut cur = v;
	for s in path {
		cur = match s {
			Seg::Key(k) => cur.get_mut(k.as_str())?,
			Seg::Idx(i) => cur.get_mut(*i)?,
		};
	}
	Some(cur)
}

fn is_hex(s: &str) -> bool {
	!s.is_empty() && s.len() % 2 == 0 && s.bytes().all(|c| c.is_ascii_hexdigit())
}

pub fn path_str(path: &[Seg]) -> String {
	let mut s = String::from("$");
	for p in path {
		match p {
			Seg::Key(k) => {
				s.push('.');
				s.push_str(k)
			}
			Seg::Idx(i) => s.push_str(&format!("[{}]", i)),
		}
	}
	s
}

/// text of the document with the node at `path` replaced by replacement number `r`;
/// None when not applicable (root absent)
pub fn json_mutant(doc: &Value, path: &[Seg], r: usize) -> Option<String> {
	let mut d = doc.clone();
	if r == 0 {
		if path.is_empty() {
			return None;
		}
		let (last, parent) = path.split_last().unwrap();
		let p = node_at(&mut d, parent)?;
		match (p, last) {
			(Value::Object(m), Seg::Key(k)) => {
				m.remove(k.as_str());
			}
			(Value::Array(a), Seg::Idx(i)) => {
				a.remove(*i);
			}
			_ => return None,
		}
		return Some(serde_json::to_string(&d).unwrap());
	}
	let node = node_at(&mut d, path)?;
	let lit: String = match r {
		8 => match node {
			Value::String(s) if is_hex(s) && s.len() >= 4 => format!("\"{}\"", &s[..s.len() - 2]),
			_ => "\"0011\"".to_owned(),
		},
		9 => match node {
			Value::String(s) if is_hex(s) => format!("\"{}00\"", s),
			_ => format!("\"{}\"", "ab".repeat(65)),
		},
		_ => JSON_REPL[r].to_owned(),
	};
	*node = Value::String(PH.to_owned());
	let t = serde_json::to_string(&d).unwrap();
	Some(t.replacen(&format!("\"{}\"", PH), &lit, 1))
}

// ---------------------------------------------------------------------------------------------
// binary length / count / flag fields

#[derive(Clone, Debug)]
pub struct Field {
	pub name: String,
	pub off: usize,
	pub width: usize,
	/// flag/status byte: every value is tried
	pub flags: bool,
}

fn rd(b: &[u8], off: usize, w: usize) -> Option<u64> {
	if off + w > b.len() {
		return None;
	}
	let mut v = 0u64;
	for i in 0..w {
		v = (v << 8) | b[off + i] as u64;
	}
	Some(v)
}

pub fn field_values(f: &Field, b: &[u8], extra: &[u64]) -> Vec<u64> {
	let cur = rd(b, f.off, f.width).unwrap_or(0);
	let max: u64 = if f.width == 8 {
		u64::MAX
	} else {
		(1u64 << (8 * f.width)) - 1
	};
	let mut v: Vec<u64> = if f.flags && f.width == 1 {
		(0..=255u64).collect()
	} else {
		let mut v = vec![
			0,
			1,
			cur.wrapping_sub(1),
			cur.wrapping_add(1),
			0xffff,
			0xffff_ffff,
			max,
			max >> 1,
			(max >> 1) + 1,
		];
		v.extend_from_slice(extra);
		v
	};
	for x in v.iter_mut() {
		*x &= max;
	}
	let mut out = vec![];
	for x in v {
		if x != cur && !out.contains(&x) {
			out.push(x);
		}
	}
	out
}

pub fn set_field(b: &[u8], f: &Field, val: u64) -> Vec<u8> {
	let mut o = b.to_vec();
	for i in 0..f.width {
		o[f.off + i] = (val >> (8 * (f.width - 1 - i))) as u8;
	}
	o
}

/// SlatepackBin layout (libwallet/src/slatepack/types.rs, SlatepackBin::write)
pub fn fields_slatepack_bin(b: &[u8]) -> Result<Vec<Field>, String> {
	let mut f = vec![];
	let fl = |name: &str, off: usize, width: usize, flags: bool| Field {
		name: name.to_owned(),
		off,
		width,
		flags,
	};
	f.push(fl("slatepack.version.major", 0, 1, true));
	f.push(fl("slatepack.version.minor", 1, 1, true));
	f.push(fl("slatepack.mode", 2, 1, true));
	f.push(fl("slatepack.opt_flags.hi", 3, 1, true));
	f.push(fl("slatepack.opt_flags.lo", 4, 1, true));
	f.push(fl("slatepack.opt_fields_len", 5, 4, false));
	let flags = rd(b, 3, 2).ok_or("short")?;
	let optlen = rd(b, 5, 4).ok_or("short")? as usize;
	let mut off = 9;
	if flags & 1 != 0 {
		f.push(fl("slatepack.sender.len", off, 1, false));
		let l = rd(b, off, 1).ok_or("short")? as usize;
		if l + 1 != optlen {
			return Err("sender length != opt_fields_len".into());
		}
	}
	off += optlen;
	f.push(fl("slatepack.payload.len", off, 8, false));
	let pl = rd(b, off, 8).ok_or("short")? as usize;
	if off + 8 + pl != b.len() {
		return Err(format!("slatepack walker: end {} != len {}", off + 8 + pl, b.len()));
	}
	Ok(f)
}

/// SlatepackEncMetadataBin layout at the start of the decrypted payload
pub fn fields_enc_meta(b: &[u8]) -> Result<Vec<Field>, String> {
	let mut f = vec![];
	let fl = |name: String, off: usize, width: usize, flags: bool| Field {
		name,
		off,
		width,
		flags,
	};
	f.push(fl("encmeta.len".into(), 0, 4, false));
	f.push(fl("encmeta.opt_flags.hi".into(), 4, 1, true));
	f.push(fl("encmeta.opt_flags.lo".into(), 5, 1, true));
	let mlen = rd(b, 0, 4).ok_or("short")? as usize;
	let flags = rd(b, 4, 2).ok_or("short")?;
	let mut off = 6;
	if flags & 1 != 0 {
		f.push(fl("encmeta.sender.len".into(), off, 1, false));
		off += 1 + rd(b, off, 1).ok_or("short")? as usize;
	}
	if flags & 2 != 0 {
		f.push(fl("encmeta.recipients.count".into(), off, 2, false));
		let n = rd(b, off, 2).ok_or("short")? as usize;
		off += 2;
		for i in 0..n {
			f.push(fl(format!("encmeta.recipient[{}].len", i), off, 1, false));
			off += 1 + rd(b, off, 1).ok_or("short")? as usize;
		}
	}
	if off != mlen + 4 {
		return Err(format!("encmeta walker: end {} != meta_len+4 {}", off, mlen + 4));
	}
	Ok(f)
}

/// SlateV4Bin layout (libwallet/src/slate_versions/v4_bin.rs, SlateV4Bin::write)
pub fn fields_slate_bin(b: &[u8]) -> Result<Vec<Field>, String> {
	let mut f = vec![];
	let fl = |name: String, off: usize, width: usize, flags: bool| Field {
		name,
		off,
		width,
		flags,
	};
	let g = |off: usize, w: usize| rd(b, off, w).ok_or_else(|| "short".to_owned());
	f.push(fl("slate.ver.version".into(), 0, 2, false));
	f.push(fl("slate.ver.block_header_version".into(), 2, 2, false));
	f.push(fl("slate.sta".into(), 20, 1, true));
	let mut off = 53;
	f.push(fl("slate.opt_fields.status".into(), off, 1, true));
	let st = g(off, 1)?;
	off += 1;
	if st & 0x01 != 0 {
		f.push(fl("slate.num_parts".into(), off, 1, true));
		off += 1;
	}
	if st & 0x02 != 0 {
		off += 8;
	}
	if st & 0x04 != 0 {
		off += 8;
	}
	let mut feat = 0;
	if st & 0x08 != 0 {
		f.push(fl("slate.feat".into(), off, 1, true));
		feat = g(off, 1)?;
		off += 1;
	}
	if st & 0x10 != 0 {
		off += 8;
	}
	f.push(fl("slate.sigs.count".into(), off, 1, false));
	let ns = g(off, 1)? as usize;
	off += 1;
	for i in 0..ns {
		f.push(fl(format!("slate.sigs[{}].has_partial", i), off, 1, true));
		let hp = g(off, 1)?;
		off += 1 + 33 + 33;
		if hp == 1 {
			off += 64;
		}
	}
	f.push(fl("slate.opt_structs.status".into(), off, 1, true));
	let os = g(off, 1)?;
	off += 1;
	if os & 0x01 != 0 {
		f.push(fl("slate.coms.count".into(), off, 2, false));
		let nc = g(off, 2)? as usize;
		off += 2;
		for i in 0..nc {
			f.push(fl(format!("slate.coms[{}].is_output", i), off, 1, true));
			let io = g(off, 1)?;
			off += 1;
			f.push(fl(format!("slate.coms[{}].features", i), off, 1, true));
			off += 1 + 33;
			if io == 1 {
				f.push(fl(format!("slate.coms[{}].proof.len", i), off, 8, false));
				let pl = g(off, 8)? as usize;
				off += 8 + pl;
			}
		}
	}
	if os & 0x02 != 0 {
		off += 64;
		f.push(fl("slate.proof.has_rsig".into(), off, 1, true));
		let hs = g(off, 1)?;
		off += 1;
		if hs != 0 {
			off += 64;
		}
	}
	if feat == 2 {
		off += 8;
	}
	if off != b.len() {
		return Err(format!("slate walker: end {} != len {}", off, b.len()));
	}
	Ok(f)
}

// ---------------------------------------------------------------------------------------------
// armor framing strings

pub const FRAME_ALPHA: [u8; 5] = [b'.', b' ', b'B', b'1', b'\n'];
pub const FRAME_TEMPLATES: usize = 7;

/// every string of length <= 3 over FRAME_ALPHA (156 strings, shortest first)
pub fn frame_strings() -> Vec<Vec<u8>> {
	let mut out: Vec<Vec<u8>> = vec![vec![]];
	let mut prev: Vec<Vec<u8>> = vec![vec![]];
	for _ in 0..3 {
		let mut next = vec![];
		for p in prev.iter() {
			for a in FRAME_ALPHA.iter() {
				let mut s = p.clone();
				s.push(*a);
				next.push(s);
			}
		}
		out.extend(next.iter().cloned());
		prev = next;
	}
	out
}

/// template t applied to framing string s, around a valid armored message `full`
/// ("BEGINSLATEPACK. <payload>. ENDSLATEPACK.\n")
pub fn frame_mutant(full: &[u8], t: usize, s: &[u8]) -> Vec<u8> {
	let head = b"BEGINSLATEPACK";
	let foot = b"ENDSLATEPACK.";
	// payload region between the first and second period
	let p1 = full.iter().position(|c| *c == b'.').unwrap_or(0);
	let p2 = p1 + 1 + full[p1 + 1..].iter().position(|c| *c == b'.').unwrap_or(0);
	let payload = &full[p1 + 1..p2];
	let cat = |parts: &[&[u8]]| -> Vec<u8> {
		let mut v = vec![];
		for p in parts {
			v.extend_from_slice(p);
		}
		v
	};
	match t {
		0 => cat(&[head, s]),
		1 => cat(&[head, b".", s]),
		2 => cat(&[head, b".", s, b". ", foot]),
		3 => cat(&[head, b".", payload, s, foot]),
		4 => cat(&[s, full]),
		5 => cat(&[full, s]),
		_ => cat(&[head, s, b".", payload, b". ", foot]),
	}
}
