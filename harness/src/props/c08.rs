//! C08 — slate and slatepack encodings round-trip and agree with each other.
//! E1: exhaustive enumeration of structurally generated slates (explicit alphabets per field,
//! t-wise covering products stated exactly below) through every encoder/decoder pair of the
//! real code; oracle = structural equality on a hand-written projection of the public fields.
//! Separately: addresses (64 keys x 2 networks) and stored wallet records (single-field
//! boundary sweeps) through their own encode/decode pairs.

use crate::common::*;
use crate::core::core::transaction::{FeeFields, Inputs, Transaction};
use crate::core::global;
use crate::core::libtx::{aggsig, build, proof::ProofBuilder};
use crate::core::ser;
use crate::keychain::{BlindingFactor, ExtKeychain, Identifier, Keychain};
use crate::libwallet::address::address_from_derivation_path;
use crate::libwallet::api_impl::owner;
use crate::libwallet::dalek_ser;
use crate::libwallet::slate_versions::v4::{PaymentInfoV4, SlateV4};
use crate::libwallet::slate_versions::v4_bin::SlateV4Bin;
use crate::libwallet::{
	Context, InitTxArgs, InitTxSendArgs, IssueInvoiceTxArgs, OutputData, OutputStatus,
	ParticipantData, Slate, SlateState, SlateVersion, Slatepack, SlatepackAddress, SlatepackBin,
	Slatepacker, SlatepackerArgs, StoredProofInfo, TxLogEntry, TxLogEntryType, VersionedBinSlate,
	VersionedSlate, CURRENT_SLATE_VERSION, GRIN_BLOCK_HEADER_VERSION,
};
use crate::util::secp::key::{PublicKey, SecretKey};
use crate::util::secp::pedersen::Commitment;
use crate::util::secp::{self, ContextFlag, Secp256k1, Signature};
use crate::util::ToHex;
use crate::world::*;
use chrono::{DateTime, TimeZone, Utc};
use ed25519_dalek::PublicKey as DalekPublicKey;
use ed25519_dalek::SecretKey as DalekSecretKey;
use ed25519_dalek::Signature as DalekSignature;
use grin_wallet_util::byte_ser;
use grin_wallet_util::OnionV3Address;
use serde_json::{json, Value};
use std::collections::{BTreeMap, BTreeSet, HashSet};
use std::convert::TryFrom;
use std::time::Duration;
use uuid::Uuid;

// ------------------------------------------------------------------------------------------
// dimensions of the slate space (index 0 of every dimension = simplest value)

const D_STATE: usize = 0;
const D_AMOUNT: usize = 1;
const D_FEE: usize = 2;
const D_TTL: usize = 3;
const D_KERNEL: usize = 4;
const D_OFFSET: usize = 5;
const D_NPARTS: usize = 6;
const D_PARTS: usize = 7;
const D_COMS: usize = 8;
const D_PROOF: usize = 9;
const D_VER: usize = 10;
const D_ID: usize = 11;
const ND: usize = 12;

const DIM_NAMES: [&str; ND] = [
	"state",
	"amount",
	"fee",
	"ttl",
	"kernel(feat,args)",
	"offset",
	"num_participants",
	"participant_data",
	"commitments",
	"payment_proof",
	"version_info",
	"id",
];
const SIZES: [usize; ND] = [7, 5, 5, 3, 12, 2, 3, 8, 5, 3, 4, 3];

type Ix = [u8; ND];

/// everything zero / absent / default
const BASE_MIN: Ix = [0; ND];
/// every optional field present
const BASE_FULL: Ix = [1, 1, 1, 1, 1, 1, 2, 4, 3, 2, 0, 0];

const AMOUNTS: [u64; 5] = [0, 1, 1 << 32, 1 << 40, u64::MAX];
const FEES: [(u64, u64); 5] = [
	(0, 0),
	(0, 1),
	(0, (1 << 40) - 1),
	(15, 1),
	(15, (1 << 40) - 1),
];
const TTLS: [u64; 3] = [0, 1, u64::MAX];
/// (feature, lock height argument); coherent and valid combinations first
const KERNELS: [(u8, Option<u64>); 12] = [
	(0, None),
	(2, Some(1)),
	(3, Some(1)),
	(2, Some(0)),
	(2, Some(1 << 32)),
	(3, Some(0)),
	(3, Some(1 << 32)),
	(0, Some(0)),
	(0, Some(1)),
	(0, Some(1 << 32)),
	(2, None),
	(3, None),
];
const NPARTS: [u8; 3] = [2, 1, 3];
/// participant entries: (participant number, has partial signature)
const PARTS: [&[(usize, bool)]; 8] = [
	&[],
	&[(0, false)],
	&[(0, true)],
	&[(0, false), (1, false)],
	&[(0, true), (1, false)],
	&[(0, true), (1, true)],
	&[(0, false), (1, true), (2, false)],
	&[(0, true), (1, true), (2, true)],
];
const COMS_NAMES: [&str; 5] = [
	"tx=None",
	"empty tx",
	"1 output",
	"input+output",
	"coinbase input+2 outputs",
];
const PROOF_NAMES: [&str; 3] = ["none", "without receiver sig", "with receiver sig"];

fn states() -> [SlateState; 7] {
	[
		SlateState::Standard1,
		SlateState::Standard2,
		SlateState::Standard3,
		SlateState::Invoice1,
		SlateState::Invoice2,
		SlateState::Invoice3,
		SlateState::Unknown,
	]
}

fn versions() -> [(u16, u16); 4] {
	[
		(CURRENT_SLATE_VERSION, GRIN_BLOCK_HEADER_VERSION),
		(CURRENT_SLATE_VERSION, GRIN_BLOCK_HEADER_VERSION + 2),
		(0, 0),
		(u16::MAX, u16::MAX),
	]
}

fn ids() -> [Uuid; 3] {
	[
		Uuid::from_bytes([7, 7, 7, 7, 7, 7, 7, 7, 7, 7, 7, 7, 7, 7, 7, 8]),
		Uuid::nil(),
		Uuid::from_bytes([0xff; 16]),
	]
}

fn label(d: usize, v: usize) -> String {
	match d {
		D_STATE => format!("{}", states()[v]),
		D_AMOUNT => format!("{}", AMOUNTS[v]),
		D_FEE => format!("shift{}:fee{}", FEES[v].0, FEES[v].1),
		D_TTL => format!("{}", TTLS[v]),
		D_KERNEL => format!(
			"feat={},args={}",
			KERNELS[v].0,
			KERNELS[v].1.map(|x| x.to_string()).unwrap_or("absent".to_owned())
		),
		D_OFFSET => ["zero", "non-zero"][v].to_owned(),
		D_NPARTS => format!("{}", NPARTS[v]),
		D_PARTS => format!(
			"{}entries:{}",
			PARTS[v].len(),
			PARTS[v].iter().map(|p| if p.1 { "S" } else { "-" }).collect::<String>()
		),
		D_COMS => COMS_NAMES[v].to_owned(),
		D_PROOF => PROOF_NAMES[v].to_owned(),
		D_VER => format!("{}:{}", versions()[v].0, versions()[v].1),
		D_ID => format!("{}", ids()[v]),
		_ => unreachable!(),
	}
}

fn describe_ix(ix: &Ix) -> Value {
	let mut m = serde_json::Map::new();
	for d in 0..ND {
		m.insert(DIM_NAMES[d].to_owned(), json!(label(d, ix[d] as usize)));
	}
	Value::Object(m)
}

// ------------------------------------------------------------------------------------------
// fixtures: real keys, signatures, commitments and proofs (plain data, shared by all workers)

struct Fixtures {
	part_keys: Vec<(PublicKey, PublicKey)>,
	part_sigs: Vec<Signature>,
	offset: BlindingFactor,
	/// index = commitments dimension value 1..4 (0 = None)
	txs: Vec<Transaction>,
	/// Option<PaymentInfo> template (the type itself is not exported by libwallet)
	proof_template: Slate,
	saddr: DalekPublicKey,
	raddr: DalekPublicKey,
	rsig: DalekSignature,
}

fn det_key(secp: &Secp256k1, tag: &str) -> SecretKey {
	let h = blake2_rfc::blake2b::blake2b(32, b"gwverif-c08", tag.as_bytes());
	SecretKey::from_slice(secp, h.as_bytes()).unwrap()
}

fn dalek_pair(tag: &str) -> (DalekSecretKey, DalekPublicKey) {
	let h = blake2_rfc::blake2b::blake2b(32, b"gwverif-c08-ed", tag.as_bytes());
	let s = DalekSecretKey::from_bytes(h.as_bytes()).unwrap();
	let p = DalekPublicKey::from(&s);
	(s, p)
}

fn dalek_sign(s: &DalekSecretKey, p: &DalekPublicKey, msg: &[u8]) -> DalekSignature {
	ed25519_dalek::ExpandedSecretKey::from(s).sign(msg, p)
}

/// build real inputs/outputs: (0 = input, 1 = coinbase input, 2 = output; value; key number)
fn mk_tx<'a>(kc: &'a ExtKeychain, builder: &ProofBuilder<'a, ExtKeychain>, spec: &[(u8, u64, u32)]) -> Transaction {
	let kid = |n: u32| ExtKeychain::derive_key_id(3, 7, 0, n, 0);
	let elems: Vec<Box<build::Append<ExtKeychain, ProofBuilder<'a, ExtKeychain>>>> = spec
		.iter()
		.map(|(k, v, n)| match k {
			0 => build::input(*v, kid(*n)),
			1 => build::coinbase_input(*v, kid(*n)),
			_ => build::output(*v, kid(*n)),
		})
		.collect();
	build::partial_transaction(Slate::empty_transaction(), &elems, kc, builder)
		.unwrap()
		.0
}

fn fixtures() -> Fixtures {
	let kc = keychain_for("A");
	let secp = kc.secp();
	let mut secs = vec![];
	let mut part_keys = vec![];
	for i in 0..3 {
		let sk = det_key(secp, &format!("xs{}", i));
		let sn = det_key(secp, &format!("nonce{}", i));
		part_keys.push((
			PublicKey::from_secret_key(secp, &sk).unwrap(),
			PublicKey::from_secret_key(secp, &sn).unwrap(),
		));
		secs.push((sk, sn));
	}
	let nonce_sum =
		PublicKey::from_combination(secp, part_keys.iter().map(|p| &p.1).collect()).unwrap();
	let key_sum =
		PublicKey::from_combination(secp, part_keys.iter().map(|p| &p.0).collect()).unwrap();
	let msg = secp::Message::from_slice(
		blake2_rfc::blake2b::blake2b(32, &[], b"c08 message").as_bytes(),
	)
	.unwrap();
	let part_sigs = secs
		.iter()
		.map(|(sk, sn)| {
			aggsig::calculate_partial_sig(secp, sk, sn, &nonce_sum, Some(&key_sum), &msg).unwrap()
		})
		.collect();
	let offset = BlindingFactor::from_secret_key(det_key(secp, "offset"));
	let builder = ProofBuilder::new(&kc);
	let mk = |spec: &[(u8, u64, u32)]| -> Transaction { mk_tx(&kc, &builder, spec) };
	let txs = vec![
		Slate::empty_transaction(),
		mk(&[(2, 60, 1)]),
		mk(&[(0, 100, 2), (2, 1 << 40, 3)]),
		mk(&[(1, 60_000_000_000, 4), (2, 0, 5), (2, u64::MAX, 6)]),
	];
	let (_, saddr) = dalek_pair("sender");
	let (rs, raddr) = dalek_pair("receiver");
	let rsig = dalek_sign(&rs, &raddr, b"c08 payment proof message");
	let mut v4 = SlateV4::from(&Slate::blank(2, false));
	v4.proof = Some(PaymentInfoV4 {
		saddr: saddr.clone(),
		raddr: raddr.clone(),
		rsig: None,
	});
	let proof_template: Slate = v4.into();
	assert!(proof_template.payment_proof.is_some());
	Fixtures {
		part_keys,
		part_sigs,
		offset,
		txs,
		proof_template,
		saddr,
		raddr,
		rsig,
	}
}

/// build the original slate for an index vector: every public field is set explicitly here
fn build_slate(ix: &Ix, fx: &Fixtures) -> Slate {
	let mut s = Slate::blank(2, false);
	let (v, b) = versions()[ix[D_VER] as usize];
	s.version_info.version = v;
	s.version_info.block_header_version = b;
	s.num_participants = NPARTS[ix[D_NPARTS] as usize];
	s.id = ids()[ix[D_ID] as usize];
	s.state = states()[ix[D_STATE] as usize].clone();
	s.amount = AMOUNTS[ix[D_AMOUNT] as usize];
	let (shift, fee) = FEES[ix[D_FEE] as usize];
	s.fee_fields = if fee == 0 {
		FeeFields::zero()
	} else {
		FeeFields::new(shift, fee).unwrap()
	};
	s.ttl_cutoff_height = TTLS[ix[D_TTL] as usize];
	let (feat, args) = KERNELS[ix[D_KERNEL] as usize];
	s.kernel_features = feat;
	s.kernel_features_args = None;
	if let Some(h) = args {
		s.kernel_features_args = Some(Default::default());
		s.kernel_features_args.as_mut().unwrap().lock_height = h;
	}
	s.offset = if ix[D_OFFSET] == 0 {
		BlindingFactor::zero()
	} else {
		fx.offset.clone()
	};
	s.participant_data = PARTS[ix[D_PARTS] as usize]
		.iter()
		.map(|(n, sig)| ParticipantData {
			public_blind_excess: fx.part_keys[*n].0,
			public_nonce: fx.part_keys[*n].1,
			part_sig: if *sig { Some(fx.part_sigs[*n]) } else { None },
		})
		.collect();
	s.payment_proof = None;
	if ix[D_PROOF] > 0 {
		s.payment_proof = fx.proof_template.payment_proof.clone();
		let p = s.payment_proof.as_mut().unwrap();
		p.sender_address = fx.saddr.clone();
		p.receiver_address = fx.raddr.clone();
		p.receiver_signature = if ix[D_PROOF] == 2 { Some(fx.rsig.clone()) } else { None };
	}
	s.tx = None;
	if ix[D_COMS] > 0 {
		let mut tx = fx.txs[ix[D_COMS] as usize - 1].clone();
		tx.offset = s.offset.clone();
		s.tx = Some(tx);
		// the wallet's own way of putting the kernel into the slate's transaction; fails
		// (and leaves the transaction without kernel) when feature/argument are not a valid
		// kernel: such slates have no kernel whose features could be compared
		let _ = s.update_kernel();
	}
	s
}

// ------------------------------------------------------------------------------------------
// projection of every public field of a slate, written out by hand (not by the slate's own
// serializers); kernel excess and excess signature are derived data and left out

fn hex(b: &[u8]) -> String {
	b.to_hex()
}

fn proj_tx(tx: &Transaction) -> Value {
	let inputs: Vec<Value> = match tx.inputs() {
		Inputs::FeaturesAndCommit(v) => v
			.iter()
			.map(|i| json!([format!("{:?}", i.features), hex(&i.commit.0)]))
			.collect(),
		Inputs::CommitOnly(v) => v.iter().map(|_| json!("commit-only")).collect(),
	};
	let outputs: Vec<Value> = tx
		.outputs()
		.iter()
		.map(|o| {
			let p = o.proof();
			json!([format!("{:?}", o.features()), hex(&o.commitment().0), hex(&p.proof[..p.plen])])
		})
		.collect();
	json!({
		"offset": hex(tx.offset.as_ref()),
		"inputs": inputs,
		"outputs": outputs,
		"n_kernels": tx.kernels().len(),
		"kernel_features": tx.kernels().get(0).map(|k| format!("{:?}", k.features)),
	})
}

fn proj_slate(s: &Slate) -> Value {
	let secp = Secp256k1::with_caps(ContextFlag::None);
	let parts: Vec<Value> = s
		.participant_data
		.iter()
		.map(|p| {
			json!({
				"xs": hex(&p.public_blind_excess.serialize_vec(&secp, true)[..]),
				"nonce": hex(&p.public_nonce.serialize_vec(&secp, true)[..]),
				"part": p.part_sig.as_ref().map(|x| hex(&x.to_raw_data()[..])),
			})
		})
		.collect();
	json!({
		"version_info": format!("{}:{}", s.version_info.version, s.version_info.block_header_version),
		"num_participants": s.num_participants,
		"id": hex(s.id.as_bytes()),
		"state": format!("{:?}", s.state),
		"amount": s.amount.to_string(),
		"fee_fields": u64::from(s.fee_fields).to_string(),
		"ttl_cutoff_height": s.ttl_cutoff_height.to_string(),
		"kernel_features": s.kernel_features,
		"kernel_features_args": s.kernel_features_args.as_ref().map(|a| a.lock_height.to_string()),
		"offset": hex(s.offset.as_ref()),
		"participant_data": parts,
		"payment_proof": s.payment_proof.as_ref().map(|p| json!({
			"sender_address": hex(p.sender_address.as_bytes()),
			"receiver_address": hex(p.receiver_address.as_bytes()),
			"receiver_signature": p.receiver_signature.as_ref().map(|x| hex(&x.to_bytes()[..])),
		})),
		"tx": s.tx.as_ref().map(proj_tx),
	})
}

/// paths of the fields at which two projections differ ("tx.outputs", "amount", ...)
fn diff_fields(a: &Value, b: &Value) -> Vec<String> {
	let mut out = vec![];
	let (ma, mb) = (a.as_object().unwrap(), b.as_object().unwrap());
	for (k, va) in ma.iter() {
		let vb = &mb[k];
		if va == vb {
			continue;
		}
		if k == "tx" && va.is_object() && vb.is_object() {
			for (k2, x) in va.as_object().unwrap().iter() {
				if *x != vb[k2] {
					out.push(format!("tx.{}", k2));
				}
			}
		} else {
			out.push(k.clone());
		}
	}
	out
}

// ------------------------------------------------------------------------------------------
// encodings

const ENCS: [&str; 6] = [
	"v4json",
	"v4bin",
	"v4bin_byteser",
	"slatepack_bin",
	"slatepack_json",
	"slatepack_armor",
];

fn es<E: std::fmt::Display>(stage: &'static str) -> impl Fn(E) -> (String, String) {
	move |e| (stage.to_owned(), format!("{}", e))
}

fn plain_packer<'a>(sender: Option<SlatepackAddress>) -> Slatepacker<'a> {
	Slatepacker::new(SlatepackerArgs {
		sender,
		recipients: vec![],
		dec_key: None,
	})
}

/// container: 0 = binary slatepack, 1 = JSON slatepack, 2 = armored
fn slatepack_bytes(
	packer: &Slatepacker,
	sp: &Slatepack,
	container: usize,
) -> Result<Vec<u8>, (String, String)> {
	match container {
		0 => byte_ser::to_bytes(&SlatepackBin(sp.clone())).map_err(es("encode")),
		1 => serde_json::to_vec(sp).map_err(es("encode")),
		_ => packer
			.armor_slatepack(sp)
			.map(|s| s.into_bytes())
			.map_err(es("encode")),
	}
}

/// encode with one encoding and decode again; Err = (stage, error text)
fn roundtrip(enc: usize, slate: &Slate) -> Result<Slate, (String, String)> {
	match enc {
		0 => {
			let vs = VersionedSlate::into_version(slate.clone(), SlateVersion::V4)
				.map_err(es("encode"))?;
			let j = serde_json::to_string(&vs).map_err(es("encode"))?;
			Slate::deserialize_upgrade(&j).map_err(es("decode"))
		}
		1 | 2 => {
			let vs = VersionedSlate::into_version(slate.clone(), SlateVersion::V4)
				.map_err(es("encode"))?;
			let vb = VersionedBinSlate::try_from(vs).map_err(es("encode"))?;
			let vb2 = if enc == 1 {
				let VersionedBinSlate::V4(b) = vb;
				let bytes = ser::ser_vec(&b, ser::ProtocolVersion(4)).map_err(es("encode"))?;
				let b2: SlateV4Bin = ser::deserialize(
					&mut &bytes[..],
					ser::ProtocolVersion(4),
					ser::DeserializationMode::default(),
				)
				.map_err(es("decode"))?;
				VersionedBinSlate::V4(b2)
			} else {
				let bytes = byte_ser::to_bytes(&vb).map_err(es("encode"))?;
				byte_ser::from_bytes::<VersionedBinSlate>(&bytes).map_err(es("decode"))?
			};
			Slate::upgrade(vb2.into()).map_err(es("decode"))
		}
		_ => {
			let packer = plain_packer(None);
			let sp = packer.create_slatepack(slate).map_err(es("encode"))?;
			let bytes = slatepack_bytes(&packer, &sp, enc - 3)?;
			let sp2 = packer.deser_slatepack(&bytes, true).map_err(es("decode"))?;
			packer.get_slate(&sp2).map_err(es("decode"))
		}
	}
}

/// class of an error text that is stable across inputs (digits and hex removed)
fn err_class(e: &str) -> String {
	let mut s: String = e
		.chars()
		.map(|c| if c.is_ascii_digit() { '#' } else { c })
		.take(60)
		.collect();
	while s.contains("##") {
		s = s.replace("##", "#");
	}
	s.replace('/', "|")
}

#[derive(Clone, Debug, Serialize, Deserialize)]
struct Problem {
	key: String,
	what: String,
}

#[derive(Default)]
struct CaseOut {
	problems: Vec<Problem>,
	/// per encoding: "ok", "diff", "normalised", "err", "panic"
	outcomes: Vec<(String, &'static str)>,
	normalised: Vec<String>,
	kernel_asserted: bool,
	proj_hash: u64,
	disagreements: usize,
}

/// the dimension value(s) that own a field, as the input class of a finding key
fn field_class(field: &str, orig: &Slate, src: &str) -> String {
	let kern = format!(
		"feat={},args={}",
		orig.kernel_features,
		if orig.kernel_features_args.is_some() { "present" } else { "absent" }
	);
	let c = match field {
		"kernel_features" | "kernel_features_args" => kern,
		"tx.kernel_features" | "tx.n_kernels" => format!("feat={}", orig.kernel_features),
		"amount" => format!("amount={}", orig.amount),
		"fee_fields" => format!("fee_fields={}", u64::from(orig.fee_fields)),
		"ttl_cutoff_height" => format!("ttl={}", orig.ttl_cutoff_height),
		"num_participants" => format!("n={}", orig.num_participants),
		"participant_data" => format!(
			"entries={},sigs={}",
			orig.participant_data.len(),
			orig.participant_data.iter().filter(|p| p.part_sig.is_some()).count()
		),
		"payment_proof" => match &orig.payment_proof {
			None => "none".to_owned(),
			Some(p) => format!("rsig={}", p.receiver_signature.is_some()),
		},
		"offset" | "tx.offset" => format!("zero={}", orig.offset == BlindingFactor::zero()),
		"state" => format!("{}", orig.state),
		"version_info" => format!(
			"{}:{}",
			orig.version_info.version, orig.version_info.block_header_version
		),
		_ => match &orig.tx {
			None => "tx=None".to_owned(),
			Some(t) => format!("inputs={},outputs={}", t.inputs().len(), t.outputs().len()),
		},
	};
	if src.is_empty() {
		c
	} else {
		format!("{}:{}", src, c)
	}
}

/// Is a difference in `kernel_features_args` one of the two conventions of the compact binary
/// format on slates whose argument does not belong to their feature? (feature 0 carries no
/// argument: a stray one is not written; feature 2 always carries one: a missing one is written
/// as 0). The statement speaks of "kernel features and their arguments"; these are not.
fn is_arg_normalisation(orig: &Slate, dec: &Value) -> bool {
	let got = &dec["kernel_features_args"];
	match (orig.kernel_features, &orig.kernel_features_args) {
		(0, Some(_)) | (1, Some(_)) => got.is_null(),
		(2, None) | (3, None) => *got == json!("0"),
		_ => false,
	}
}

/// run one original slate through the given decoded results and classify differences
fn classify(
	orig: &Slate,
	src: &str,
	results: Vec<(String, Result<Result<Slate, (String, String)>, String>)>,
	out: &mut CaseOut,
) {
	let mut po = proj_slate(orig);
	out.proj_hash = hash_value(&po);
	// The V4 formats carry the inputs and outputs of slate.tx only; its kernel and offset are
	// rebuilt by the decoder from the slate-level fields. The reference for them is therefore
	// what the wallet itself derives from those (preserved) fields: Slate::update_kernel for
	// the kernel features, slate.offset for the offset. (A wallet-held slate may carry a stale
	// kernel, e.g. S2 after the fee was removed for the return journey.)
	if orig.tx.is_some() {
		let mut e = orig.clone();
		let t = po["tx"].as_object_mut().unwrap();
		t.insert("offset".into(), json!(hex(orig.offset.as_ref())));
		match e.update_kernel() {
			Ok(()) => {
				let k = e.tx.as_ref().unwrap().kernels()[0];
				t.insert("n_kernels".into(), json!(1));
				t.insert("kernel_features".into(), json!(format!("{:?}", k.features)));
			}
			Err(_) => {
				t.insert("n_kernels".into(), json!(0));
				t.insert("kernel_features".into(), Value::Null);
			}
		}
	}
	out.kernel_asserted = po["tx"]["n_kernels"] == json!(1);
	let mut decoded: Vec<(String, Value, Vec<String>)> = vec![];
	for (enc, r) in results {
		match r {
			Err(p) => {
				let site = take_last_panic().map(|x| panic_site(&x.1)).unwrap_or_default();
				out.outcomes.push((enc.clone(), "panic"));
				out.problems.push(Problem {
					key: format!("C08/panic/{}/{}/{}", enc, site, err_class(&p)),
					what: format!("{} panicked: {}", enc, p),
				});
			}
			Ok(Err((stage, e))) => {
				out.outcomes.push((enc.clone(), "err"));
				out.problems.push(Problem {
					key: format!("C08/error/{}/{}/{}", enc, stage, err_class(&e)),
					what: format!("{} of a well-formed slate failed at {}: {}", enc, stage, e),
				});
			}
			Ok(Ok(d)) => {
				let mut pd = proj_slate(&d);
				if !out.kernel_asserted {
					// the original has no kernel (its feature/argument pair is not a kernel the
					// wallet can build); the decoder always synthesises one: not compared
					if let Some(t) = pd["tx"].as_object_mut() {
						t.insert("n_kernels".into(), po["tx"]["n_kernels"].clone());
						t.insert("kernel_features".into(), po["tx"]["kernel_features"].clone());
					}
				}
				let mut fields = diff_fields(&po, &pd);
				if fields.iter().any(|f| f == "kernel_features_args") && is_arg_normalisation(orig, &pd) {
					fields.retain(|f| f != "kernel_features_args");
					out.normalised.push(format!(
						"{}: feat={} args {:?} -> {}",
						enc,
						orig.kernel_features,
						orig.kernel_features_args.as_ref().map(|a| a.lock_height),
						pd["kernel_features_args"]
					));
					// compare the other encodings against the normalised value
					out.outcomes.push((enc.clone(), if fields.is_empty() { "normalised" } else { "diff" }));
				} else {
					out.outcomes.push((enc.clone(), if fields.is_empty() { "ok" } else { "diff" }));
				}
				decoded.push((enc, pd, fields));
			}
		}
	}
	// agreement of the encodings with each other (counted; a disagreement on a field is always
	// also a round-trip difference of at least one of the two encodings on that field)
	for i in 1..decoded.len() {
		let mut d = diff_fields(&decoded[0].1, &decoded[i].1);
		if !d.is_empty() && is_arg_normalisation(orig, &decoded[0].1) != is_arg_normalisation(orig, &decoded[i].1) {
			d.retain(|f| f != "kernel_features_args");
		}
		if !d.is_empty() {
			out.disagreements += 1;
		}
	}
	// findings: one key per (codec layer, field, input class)
	let field_val = |p: &Value, f: &str| -> Value {
		if f.starts_with("tx.") {
			p["tx"][&f[3..]].clone()
		} else {
			p[f].clone()
		}
	};
	let get = |name: &str| decoded.iter().find(|d| d.0 == name);
	let mut seen = BTreeSet::new();
	for (enc, pd, fields) in decoded.iter() {
		for f in fields {
			let v = field_val(pd, f);
			let same_in = |other: &str| {
				get(other)
					.map(|o| o.2.contains(f) && field_val(&o.1, f) == v)
					.unwrap_or(false)
			};
			// attribute to the innermost layer that already shows the same wrong value
			let layer = if enc != "v4json" && enc != "v4bin" && same_in("v4json") && same_in("v4bin") {
				"v4-common"
			} else if (enc == "v4json" && same_in("v4bin")) || (enc == "v4bin" && same_in("v4json")) {
				"v4-common"
			} else if enc != "v4bin" && enc != "v4json" && same_in("v4bin") {
				"v4bin"
			} else {
				enc.as_str()
			};
			let key = format!("C08/roundtrip/{}/{}/{}", layer, f, field_class(f, orig, src));
			if !seen.insert(key.clone()) {
				continue;
			}
			let others: Vec<String> = decoded
				.iter()
				.map(|d| format!("{}={}", d.0, field_val(&d.1, f)))
				.collect();
			out.problems.push(Problem {
				key,
				what: format!(
					"field `{}` is not preserved: original {} ; decoded: {}",
					f,
					field_val(&po, f),
					others.join(", ")
				),
			});
		}
	}
}

fn check_plain(orig: &Slate, src: &str) -> CaseOut {
	let mut out = CaseOut::default();
	let results = (0..ENCS.len())
		.map(|e| (ENCS[e].to_owned(), catch(|| roundtrip(e, orig))))
		.collect();
	classify(orig, src, results, &mut out);
	out
}

// ------------------------------------------------------------------------------------------
// enumeration of index vectors

/// full product over the dimensions `dims` (every value), all other dimensions at `base`
fn product_over(dims: &[usize], alph: &[Vec<u8>], base: &Ix, out: &mut Vec<Ix>, seen: &mut HashSet<Ix>) {
	let mut idx = vec![0usize; dims.len()];
	loop {
		let mut ix = *base;
		for (i, d) in dims.iter().enumerate() {
			ix[*d] = alph[*d][idx[i]];
		}
		if seen.insert(ix) {
			out.push(ix);
		}
		let mut k = 0;
		loop {
			if k == dims.len() {
				return;
			}
			idx[k] += 1;
			if idx[k] < alph[dims[k]].len() {
				break;
			}
			idx[k] = 0;
			k += 1;
		}
	}
}

fn full_alphabets() -> Vec<Vec<u8>> {
	(0..ND).map(|d| (0..SIZES[d] as u8).collect()).collect()
}

/// all subsets of size t of 0..ND
fn subsets(t: usize) -> Vec<Vec<usize>> {
	fn rec(start: usize, t: usize, cur: &mut Vec<usize>, out: &mut Vec<Vec<usize>>) {
		if cur.len() == t {
			out.push(cur.clone());
			return;
		}
		for d in start..ND {
			cur.push(d);
			rec(d + 1, t, cur, out);
			cur.pop();
		}
	}
	let mut out = vec![];
	rec(0, t, &mut vec![], &mut out);
	out
}

/// t-wise set: for every subset of at most `t` dimensions the full product of their values with
/// the remaining dimensions at a baseline; the all-minimal baseline first, smallest subsets first
fn twise(t: usize, out: &mut Vec<Ix>, seen: &mut HashSet<Ix>) -> Vec<usize> {
	let alph = full_alphabets();
	let mut counts = vec![];
	for base in [BASE_MIN, BASE_FULL].iter() {
		for k in 0..=t {
			let n0 = out.len();
			for s in subsets(k) {
				product_over(&s, &alph, base, out, seen);
			}
			counts.push(out.len() - n0);
		}
	}
	counts
}

/// presence-class alphabets: every dimension reduced to one value per omission class of the
/// compact formats (zero/non-zero, default/non-default, absent/present); kernel, commitments
/// and proof keep every value
fn presence_alphabets() -> Vec<Vec<u8>> {
	vec![
		vec![1, 6],                                   // state S2, Unknown
		vec![0, 4],                                   // amount 0, max
		vec![0, 4],                                   // fee zero, shift 15 + max fee
		vec![0, 2],                                   // ttl 0, max
		(0..12).collect(),                            // kernel: all
		vec![0, 1],                                   // offset
		vec![0, 1, 2],                                // num_participants 2,1,3
		vec![0, 1, 4, 6],                             // participants 0,1,2,3 entries
		(0..5).collect(),                             // commitments: all
		(0..3).collect(),                             // proof: all
		vec![0, 3],                                   // version
		vec![0],                                      // id
	]
}

// ------------------------------------------------------------------------------------------
// encrypted forms and wallet-produced slates (sequential: they use real wallets)

struct EncCtx {
	world: World,
	a0: SlatepackAddress,
	a1: SlatepackAddress,
	b0: SlatepackAddress,
	b1: SlatepackAddress,
	b0_sec: DalekSecretKey,
	a0_sec: DalekSecretKey,
}

fn enc_ctx(tag: &str) -> EncCtx {
	let dir = format!("{}/c08-{}", scratch_root(), tag);
	let world = World::create(&dir, &[("A", "A"), ("B", "B")]);
	let addr = |w: &str, i: u32| {
		let h = world.w(w);
		owner::get_slatepack_address(h.inst.clone(), h.mask(), i).unwrap()
	};
	let sec = |w: &str, i: u32| {
		let h = world.w(w);
		owner::get_slatepack_secret_key(h.inst.clone(), h.mask(), i).unwrap()
	};
	let (a0, a1, b0, b1) = (addr("A", 0), addr("A", 1), addr("B", 0), addr("B", 1));
	let (b0_sec, a0_sec) = (sec("B", 0), sec("A", 0));
	EncCtx {
		world,
		a0,
		a1,
		b0,
		b1,
		b0_sec,
		a0_sec,
	}
}

/// every encrypted form of one slate: sender {none, A0} x recipient list {[B0],[A0,B0],[B0,B1,A1]}
/// x {wallet API armored message, packer + binary / JSON / armored container}, decrypted by B0
/// (and by A0 where A0 is a recipient)
fn check_encrypted(orig: &Slate, src: &str, cx: &EncCtx, also_plain_sender: bool) -> CaseOut {
	let mut out = CaseOut::default();
	let mut results = vec![];
	let a = cx.world.w("A");
	let b = cx.world.w("B");
	let reclists: Vec<(&str, Vec<SlatepackAddress>)> = vec![
		("r1", vec![cx.b0.clone()]),
		("r2", vec![cx.a0.clone(), cx.b0.clone()]),
		("r3", vec![cx.b0.clone(), cx.b1.clone(), cx.a1.clone()]),
	];
	for sender in [false, true].iter() {
		let sname = if *sender { "s1" } else { "s0" };
		for (rname, recs) in reclists.iter() {
			// the wallet's own path
			let name = format!("enc_api_{}_{}", sname, rname);
			let r = catch(|| -> Result<Slate, (String, String)> {
				let msg = owner::create_slatepack_message(
					a.inst.clone(),
					a.mask(),
					orig,
					if *sender { Some(0) } else { None },
					recs.clone(),
				)
				.map_err(es("encode"))?;
				owner::slate_from_slatepack_message(b.inst.clone(), b.mask(), msg, vec![1, 0])
					.map_err(es("decode"))
			});
			results.push((name, r));
			// packer with each container
			for (ci, cname) in ["bin", "json", "armor"].iter().enumerate() {
				for (who, key) in [("B0", &cx.b0_sec), ("A0", &cx.a0_sec)].iter() {
					if *who == "A0" && *rname != "r2" {
						continue;
					}
					let name = format!("enc_{}_{}_{}_by{}", cname, sname, rname, who);
					let r = catch(|| -> Result<Slate, (String, String)> {
						let packer = Slatepacker::new(SlatepackerArgs {
							sender: if *sender { Some(cx.a0.clone()) } else { None },
							recipients: recs.clone(),
							dec_key: None,
						});
						let sp = packer.create_slatepack(orig).map_err(es("encode"))?;
						let bytes = slatepack_bytes(&packer, &sp, ci)?;
						let dec = Slatepacker::new(SlatepackerArgs {
							sender: None,
							recipients: vec![],
							dec_key: Some(*key),
						});
						let sp2 = dec.deser_slatepack(&bytes, true).map_err(es("decode"))?;
						dec.get_slate(&sp2).map_err(es("decode"))
					});
					results.push((name, r));
				}
			}
		}
	}
	if also_plain_sender {
		for (ci, cname) in ["bin", "json", "armor"].iter().enumerate() {
			let name = format!("plain_{}_with_sender", cname);
			let r = catch(|| -> Result<Slate, (String, String)> {
				let packer = plain_packer(Some(cx.a0.clone()));
				let sp = packer.create_slatepack(orig).map_err(es("encode"))?;
				let bytes = slatepack_bytes(&packer, &sp, ci)?;
				let sp2 = packer.deser_slatepack(&bytes, true).map_err(es("decode"))?;
				packer.get_slate(&sp2).map_err(es("decode"))
			});
			results.push((name, r));
		}
	}
	// reference encodings so that differences are attributed to the innermost layer
	for e in 0..2 {
		results.push((ENCS[e].to_owned(), catch(|| roundtrip(e, orig))));
	}
	classify(orig, src, results, &mut out);
	out
}

/// slates produced by real wallet operations: S1 S2 S3 (with payment proof and ttl), I1 I2 I3
fn wallet_slates(cx: &EncCtx) -> Vec<(String, Slate)> {
	let w = &cx.world;
	w.mine_n("A", 6);
	let (a, b) = (w.w("A"), w.w("B"));
	a.refresh().unwrap();
	let mut out = vec![];
	let mut args = default_args(2_000_000_000);
	args.payment_proof_recipient_address = Some(cx.b0.clone());
	args.ttl_blocks = Some(100);
	let s1 = a.init_send(args).unwrap();
	a.lock(&s1).unwrap();
	let s2 = b.receive(&s1, None).unwrap();
	let s3 = a.finalize(&s2).unwrap();
	out.push(("wallet:S1".to_owned(), s1));
	out.push(("wallet:S2".to_owned(), s2));
	out.push(("wallet:S3".to_owned(), s3));
	let p1 = a.init_send(default_args(1_000_000_000)).unwrap();
	out.push(("wallet:S1-plain".to_owned(), p1));
	let i1 = b
		.issue_invoice(IssueInvoiceTxArgs {
			dest_acct_name: None,
			amount: 1_500_000_000,
			target_slate_version: None,
		})
		.unwrap();
	let i2 = a.process_invoice(&i1, default_args(0)).unwrap();
	let i3 = b.foreign_finalize(&i2, false).unwrap();
	out.push(("wallet:I1".to_owned(), i1));
	out.push(("wallet:I2".to_owned(), i2));
	out.push(("wallet:I3".to_owned(), i3));
	out
}

// ------------------------------------------------------------------------------------------
// addresses: 64 ed25519 keys x {mainnet, testnet}

#[derive(Serialize, Deserialize, PartialEq, Debug)]
struct Ov3Wrap {
	#[serde(with = "dalek_ser::ov3_serde")]
	a: OnionV3Address,
	#[serde(with = "dalek_ser::option_ov3_serde")]
	b: Option<OnionV3Address>,
	#[serde(with = "dalek_ser::option_ov3_serde")]
	c: Option<OnionV3Address>,
}

/// 60 keys derived the way the wallet derives its address keys + 4 boundary secret keys
fn address_keys() -> Vec<(String, [u8; 32], Option<SecretKey>)> {
	let kc = keychain_for("A");
	let parent = ExtKeychain::derive_key_id(2, 0, 0, 0, 0);
	let mut out = vec![];
	for i in 0..60u32 {
		let sk = address_from_derivation_path(&kc, &parent, i).unwrap();
		out.push((format!("derived#{}", i), sk.0, Some(sk)));
	}
	for (n, b) in [("00x32", 0u8), ("01x32", 1), ("7fx32", 0x7f), ("ffx32", 0xff)].iter() {
		out.push(((*n).to_owned(), [*b; 32], None));
	}
	out
}

/// all address round trips for one key under the current thread's chain type;
/// returns (number of round trips executed, problems)
fn check_address(name: &str, sk: &[u8; 32], secp_sk: &Option<SecretKey>, hrp: &str) -> (usize, Vec<Problem>) {
	let mut probs = vec![];
	let mut n = 0;
	let mut fail = |clause: &str, what: String| {
		probs.push(Problem {
			key: format!("C08/address/{}/{}", clause, hrp),
			what: format!("{} (key {}, hrp {})", what, name, hrp),
		})
	};
	let dsk = DalekSecretKey::from_bytes(sk).unwrap();
	let pk = DalekPublicKey::from(&dsk);
	let r = catch(|| -> Result<Vec<(&'static str, bool)>, String> {
		let e = |x: crate::libwallet::Error| format!("{}", x);
		let mut v = vec![];
		let a = SlatepackAddress::new(&pk);
		v.push(("slatepack/hrp", a.hrp == hrp));
		let s = String::try_from(&a).map_err(e)?;
		v.push(("slatepack/string", SlatepackAddress::try_from(s.as_str()).map_err(e)? == a));
		v.push(("slatepack/prefix", s.starts_with(&format!("{}1", hrp))));
		v.push(("slatepack/display", format!("{}", a) == s));
		let j = serde_json::to_string(&a).map_err(|x| x.to_string())?;
		v.push((
			"slatepack/json",
			serde_json::from_str::<SlatepackAddress>(&j).map_err(|x| x.to_string())? == a,
		));
		let bytes = ser::ser_vec(&a, ser::ProtocolVersion(4)).map_err(|x| x.to_string())?;
		let a2: SlatepackAddress = ser::deserialize(
			&mut &bytes[..],
			ser::ProtocolVersion(4),
			ser::DeserializationMode::default(),
		)
		.map_err(|x| x.to_string())?;
		v.push(("slatepack/binary", a2 == a));
		v.push(("slatepack/encoded_len", a.encoded_len().map_err(e)? == bytes.len()));
		let o = OnionV3Address::from(&a);
		v.push(("slatepack/via-onion", SlatepackAddress::try_from(o.clone()).map_err(e)? == a));
		if let Some(k) = secp_sk {
			v.push(("slatepack/from-secret", SlatepackAddress::try_from(k).map_err(e)? == a));
		}
		// onion
		let oe = |x: grin_wallet_util::OnionV3AddressError| format!("{}", x);
		v.push(("onion/from-private", OnionV3Address::from_private(sk).map_err(oe)? == o));
		v.push(("onion/bytes", o.as_bytes() == pk.as_bytes()));
		let os = o.to_ov3_str();
		v.push(("onion/string", OnionV3Address::try_from(os.as_str()).map_err(oe)? == o));
		v.push(("onion/len56", os.len() == 56));
		v.push(("onion/display", format!("{}", o) == os));
		v.push((
			"onion/http",
			OnionV3Address::try_from(o.to_http_str().as_str()).map_err(oe)? == o,
		));
		v.push((
			"onion/hex",
			OnionV3Address::try_from(hex(pk.as_bytes()).as_str()).map_err(oe)? == o,
		));
		v.push(("onion/ed25519", o.to_ed25519().map_err(oe)? == pk));
		let j = serde_json::to_string(&o).map_err(|x| x.to_string())?;
		v.push((
			"onion/json",
			serde_json::from_str::<OnionV3Address>(&j).map_err(|x| x.to_string())? == o,
		));
		let w = Ov3Wrap {
			a: o.clone(),
			b: Some(o.clone()),
			c: None,
		};
		let j = serde_json::to_string(&w).map_err(|x| x.to_string())?;
		v.push((
			"onion/json-string-form",
			serde_json::from_str::<Ov3Wrap>(&j).map_err(|x| x.to_string())? == w,
		));
		Ok(v)
	});
	match r {
		Err(p) => {
			let site = take_last_panic().map(|x| panic_site(&x.1)).unwrap_or_default();
			fail(&format!("panic/{}", site), format!("address round trip panicked: {}", p));
		}
		Ok(Err(e)) => fail(&format!("error/{}", err_class(&e)), format!("address round trip failed: {}", e)),
		Ok(Ok(v)) => {
			n = v.len();
			for (c, ok) in v {
				if !ok {
					fail(c, format!("address does not survive `{}`", c));
				}
			}
		}
	}
	(n, probs)
}

fn check_addresses() -> (usize, usize, Vec<Problem>) {
	let keys = address_keys();
	let mut total = 0;
	let mut probs = vec![];
	for (ct, hrp) in [(global::ChainTypes::Mainnet, "grin"), (global::ChainTypes::Testnet, "tgrin")].iter() {
		let keys = keys.clone();
		let (ct, hrp) = (ct.clone(), *hrp);
		let (n, p) = std::thread::spawn(move || {
			global::set_local_chain_type(ct);
			let mut n = 0;
			let mut probs = vec![];
			for (name, sk, ssk) in keys.iter() {
				let (k, p) = check_address(name, sk, ssk, hrp);
				n += k;
				probs.extend(p);
			}
			(n, probs)
		})
		.join()
		.unwrap();
		total += n;
		probs.extend(p);
	}
	(keys.len(), total, probs)
}

// ------------------------------------------------------------------------------------------
// stored wallet records: single-field boundary sweeps from a baseline + one all-extremes record

const U64S: [u64; 5] = [0, 1, 1 << 32, 1 << 40, u64::MAX];

fn idents() -> Vec<Identifier> {
	vec![
		ExtKeychain::derive_key_id(2, 0, 0, 0, 0),
		ExtKeychain::derive_key_id(3, 0, 0, 1, 0),
		ExtKeychain::derive_key_id(4, u32::MAX, u32::MAX, u32::MAX, u32::MAX),
		Identifier::zero(),
		Identifier::from_bytes(&[0xff; 17]),
	]
}

fn timestamps() -> Vec<DateTime<Utc>> {
	vec![
		Utc.timestamp(1_600_000_000, 0),
		Utc.timestamp(0, 0),
		Utc.timestamp(0, 1),
		Utc.timestamp(1 << 31, 999_999_999),
		Utc.timestamp(-1, 500_000_000),
		Utc.ymd(9999, 12, 31).and_hms_nano(23, 59, 59, 999_999_999),
	]
}

fn ts_val(t: &DateTime<Utc>) -> Value {
	json!([t.timestamp(), t.timestamp_subsec_nanos()])
}

fn fee_opts() -> Vec<Option<FeeFields>> {
	vec![
		None,
		Some(FeeFields::new(0, 1).unwrap()),
		Some(FeeFields::new(15, (1 << 40) - 1).unwrap()),
		Some(FeeFields::zero()),
	]
}

fn strings() -> Vec<Option<String>> {
	vec![
		None,
		Some(String::new()),
		Some("0436430c-2b02-624c-2032-570501212b00.grintx".to_owned()),
		Some("a\"b\\c\n\t\u{2713}\u{0}z".to_owned()),
	]
}

fn proj_output(o: &OutputData) -> Value {
	json!({
		"root_key_id": hex(&o.root_key_id.to_bytes()[..]),
		"key_id": hex(&o.key_id.to_bytes()[..]),
		"n_child": o.n_child,
		"commit": o.commit,
		"mmr_index": o.mmr_index.map(|x| x.to_string()),
		"value": o.value.to_string(),
		"status": format!("{:?}", o.status),
		"height": o.height.to_string(),
		"lock_height": o.lock_height.to_string(),
		"is_coinbase": o.is_coinbase,
		"tx_log_entry": o.tx_log_entry,
	})
}

fn output_variants(commit: &Commitment) -> Vec<(String, OutputData)> {
	let ids = idents();
	let base = OutputData {
		root_key_id: ids[0].clone(),
		key_id: ids[1].clone(),
		n_child: 1,
		commit: Some(hex(&commit.0)),
		mmr_index: None,
		value: 60,
		status: OutputStatus::Unspent,
		height: 5,
		lock_height: 0,
		is_coinbase: false,
		tx_log_entry: Some(1),
	};
	let mut v = vec![("baseline".to_owned(), base.clone())];
	let mut add = |n: String, f: &dyn Fn(&mut OutputData)| {
		let mut o = base.clone();
		f(&mut o);
		v.push((n, o));
	};
	for (i, id) in ids.iter().enumerate() {
		add(format!("root_key_id#{}", i), &|o| o.root_key_id = id.clone());
		add(format!("key_id#{}", i), &|o| o.key_id = id.clone());
	}
	for x in [0, 1, u32::MAX].iter() {
		add(format!("n_child={}", x), &|o| o.n_child = *x);
		add(format!("tx_log_entry={}", x), &|o| o.tx_log_entry = Some(*x));
	}
	add("tx_log_entry=None".into(), &|o| o.tx_log_entry = None);
	add("commit=None".into(), &|o| o.commit = None);
	add("commit=empty".into(), &|o| o.commit = Some(String::new()));
	for x in U64S.iter() {
		add(format!("mmr_index={}", x), &|o| o.mmr_index = Some(*x));
		add(format!("value={}", x), &|o| o.value = *x);
		add(format!("height={}", x), &|o| o.height = *x);
		add(format!("lock_height={}", x), &|o| o.lock_height = *x);
	}
	for st in [
		OutputStatus::Unconfirmed,
		OutputStatus::Unspent,
		OutputStatus::Locked,
		OutputStatus::Spent,
		OutputStatus::Reverted,
	]
	.iter()
	{
		add(format!("status={:?}", st), &|o| o.status = st.clone());
	}
	add("is_coinbase=true".into(), &|o| o.is_coinbase = true);
	add("all-extremes".into(), &|o| {
		*o = OutputData {
			root_key_id: ids[4].clone(),
			key_id: ids[2].clone(),
			n_child: u32::MAX,
			commit: Some(hex(&[0xffu8; 33])),
			mmr_index: Some(u64::MAX),
			value: u64::MAX,
			status: OutputStatus::Reverted,
			height: u64::MAX,
			lock_height: u64::MAX,
			is_coinbase: true,
			tx_log_entry: Some(u32::MAX),
		}
	});
	v
}

fn proj_stored_proof(p: &StoredProofInfo) -> Value {
	json!({
		"receiver_address": hex(p.receiver_address.as_bytes()),
		"receiver_signature": p.receiver_signature.as_ref().map(|x| hex(&x.to_bytes()[..])),
		"sender_address_path": p.sender_address_path,
		"sender_address": hex(p.sender_address.as_bytes()),
		"sender_signature": p.sender_signature.as_ref().map(|x| hex(&x.to_bytes()[..])),
	})
}

fn proj_txlog(t: &TxLogEntry) -> Value {
	json!({
		"parent_key_id": hex(&t.parent_key_id.to_bytes()[..]),
		"id": t.id,
		"tx_slate_id": t.tx_slate_id.map(|u| hex(u.as_bytes())),
		"tx_type": format!("{:?}", t.tx_type),
		"creation_ts": ts_val(&t.creation_ts),
		"confirmation_ts": t.confirmation_ts.as_ref().map(ts_val),
		"confirmed": t.confirmed,
		"num_inputs": t.num_inputs.to_string(),
		"num_outputs": t.num_outputs.to_string(),
		"amount_credited": t.amount_credited.to_string(),
		"amount_debited": t.amount_debited.to_string(),
		"fee": t.fee.map(|f| u64::from(f).to_string()),
		"ttl_cutoff_height": t.ttl_cutoff_height.map(|x| x.to_string()),
		"stored_tx": t.stored_tx,
		"kernel_excess": t.kernel_excess.as_ref().map(|c| hex(&c.0)),
		"kernel_lookup_min_height": t.kernel_lookup_min_height.map(|x| x.to_string()),
		"payment_proof": t.payment_proof.as_ref().map(proj_stored_proof),
		"reverted_after": t.reverted_after.map(|d| json!([d.as_secs().to_string(), d.subsec_nanos()])),
	})
}

fn txlog_variants(commit: &Commitment, fx: &Fixtures) -> Vec<(String, TxLogEntry)> {
	let ids = idents();
	let tss = timestamps();
	let mut base = TxLogEntry::new(ids[0].clone(), TxLogEntryType::TxSent, 1);
	base.creation_ts = tss[0];
	let (ssec, _) = dalek_pair("sender");
	let ssig = dalek_sign(&ssec, &fx.saddr, b"c08 sender");
	let mut v = vec![("baseline".to_owned(), base.clone())];
	let mut add = |n: String, f: &dyn Fn(&mut TxLogEntry)| {
		let mut o = base.clone();
		f(&mut o);
		v.push((n, o));
	};
	for (i, id) in ids.iter().enumerate() {
		add(format!("parent_key_id#{}", i), &|t| t.parent_key_id = id.clone());
	}
	for x in [0, 1, u32::MAX].iter() {
		add(format!("id={}", x), &|t| t.id = *x);
	}
	for u in ids_uuid().iter() {
		add(format!("tx_slate_id={}", u), &|t| t.tx_slate_id = Some(*u));
	}
	for ty in [
		TxLogEntryType::ConfirmedCoinbase,
		TxLogEntryType::TxReceived,
		TxLogEntryType::TxSent,
		TxLogEntryType::TxReceivedCancelled,
		TxLogEntryType::TxSentCancelled,
		TxLogEntryType::TxReverted,
	]
	.iter()
	{
		add(format!("tx_type={:?}", ty), &|t| t.tx_type = ty.clone());
	}
	for (i, ts) in tss.iter().enumerate() {
		add(format!("creation_ts#{}", i), &|t| t.creation_ts = *ts);
		add(format!("confirmation_ts#{}", i), &|t| t.confirmation_ts = Some(*ts));
	}
	add("confirmed=true".into(), &|t| t.confirmed = true);
	for x in [0usize, 1, usize::MAX].iter() {
		add(format!("num_inputs={}", x), &|t| t.num_inputs = *x);
		add(format!("num_outputs={}", x), &|t| t.num_outputs = *x);
	}
	for x in U64S.iter() {
		add(format!("amount_credited={}", x), &|t| t.amount_credited = *x);
		add(format!("amount_debited={}", x), &|t| t.amount_debited = *x);
		add(format!("ttl_cutoff_height={}", x), &|t| t.ttl_cutoff_height = Some(*x));
		add(format!("kernel_lookup_min_height={}", x), &|t| t.kernel_lookup_min_height = Some(*x));
		add(format!("reverted_after={}s", x), &|t| t.reverted_after = Some(Duration::from_secs(*x)));
	}
	for (i, f) in fee_opts().iter().enumerate() {
		add(format!("fee#{}", i), &|t| t.fee = *f);
	}
	for (i, s) in strings().iter().enumerate() {
		add(format!("stored_tx#{}", i), &|t| t.stored_tx = s.clone());
	}
	add("kernel_excess=real".into(), &|t| t.kernel_excess = Some(*commit));
	add("kernel_excess=zero".into(), &|t| t.kernel_excess = Some(Commitment([0u8; 33])));
	let proof = |sigs: bool, path: u32| StoredProofInfo {
		receiver_address: fx.raddr.clone(),
		receiver_signature: if sigs { Some(fx.rsig.clone()) } else { None },
		sender_address_path: path,
		sender_address: fx.saddr.clone(),
		sender_signature: if sigs { Some(ssig.clone()) } else { None },
	};
	add("payment_proof=nosigs".into(), &|t| t.payment_proof = Some(proof(false, 0)));
	add("payment_proof=sigs".into(), &|t| t.payment_proof = Some(proof(true, u32::MAX)));
	add("all-extremes".into(), &|t| {
		t.parent_key_id = ids[4].clone();
		t.id = u32::MAX;
		t.tx_slate_id = Some(Uuid::from_bytes([0xff; 16]));
		t.tx_type = TxLogEntryType::TxReverted;
		t.creation_ts = tss[5];
		t.confirmation_ts = Some(tss[5]);
		t.confirmed = true;
		t.num_inputs = usize::MAX;
		t.num_outputs = usize::MAX;
		t.amount_credited = u64::MAX;
		t.amount_debited = u64::MAX;
		t.fee = fee_opts()[2];
		t.ttl_cutoff_height = Some(u64::MAX);
		t.stored_tx = strings()[3].clone();
		t.kernel_excess = Some(*commit);
		t.kernel_lookup_min_height = Some(u64::MAX);
		t.payment_proof = Some(proof(true, u32::MAX));
		t.reverted_after = Some(Duration::from_secs(u64::MAX));
	});
	v
}

fn ids_uuid() -> Vec<Uuid> {
	ids().to_vec()
}

fn proj_init_args(a: &InitTxArgs) -> Value {
	json!({
		"src_acct_name": a.src_acct_name,
		"amount": a.amount.to_string(),
		"amount_includes_fee": a.amount_includes_fee,
		"minimum_confirmations": a.minimum_confirmations.to_string(),
		"max_outputs": a.max_outputs,
		"num_change_outputs": a.num_change_outputs,
		"selection_strategy_is_use_all": a.selection_strategy_is_use_all,
		"target_slate_version": a.target_slate_version,
		"ttl_blocks": a.ttl_blocks.map(|x| x.to_string()),
		"payment_proof_recipient_address": a.payment_proof_recipient_address.as_ref().map(|x| format!("{}:{}", x.hrp, hex(x.pub_key.as_bytes()))),
		"estimate_only": a.estimate_only,
		"late_lock": a.late_lock,
		"send_args": a.send_args.as_ref().map(|s| json!([s.dest, s.post_tx, s.fluff, s.skip_tor])),
	})
}

fn proj_context(c: &Context) -> Value {
	let idv = |v: &Vec<(Identifier, Option<u64>, u64)>| -> Vec<Value> {
		v.iter()
			.map(|(i, m, a)| json!([hex(&i.to_bytes()[..]), m.map(|x| x.to_string()), a.to_string()]))
			.collect()
	};
	json!({
		"parent_key_id": hex(&c.parent_key_id.to_bytes()[..]),
		"sec_key": hex(&c.sec_key.0),
		"sec_nonce": hex(&c.sec_nonce.0),
		"initial_sec_key": hex(&c.initial_sec_key.0),
		"initial_sec_nonce": hex(&c.initial_sec_nonce.0),
		"output_ids": idv(&c.output_ids),
		"input_ids": idv(&c.input_ids),
		"amount": c.amount.to_string(),
		"fee": c.fee.map(|f| u64::from(f).to_string()),
		"payment_proof_derivation_index": c.payment_proof_derivation_index,
		"late_lock_args": c.late_lock_args.as_ref().map(proj_init_args),
		"calculated_excess": c.calculated_excess.as_ref().map(|x| hex(&x.0)),
	})
}

fn context_variants(commit: &Commitment, fx: &Fixtures) -> Vec<(String, Context)> {
	let kc = keychain_for("A");
	let secp = kc.secp();
	let ids = idents();
	let keys = vec![
		det_key(secp, "ctx1"),
		det_key(secp, "ctx2"),
		SecretKey::from_slice(secp, &{
			let mut b = [0u8; 32];
			b[31] = 1;
			b
		})
		.unwrap(),
		// group order - 1
		SecretKey::from_slice(
			secp,
			&crate::util::from_hex("fffffffffffffffffffffffffffffffebaaedce6af48a03bbfd25e8cd0364140").unwrap(),
		)
		.unwrap(),
	];
	let base = Context::with_excess(secp, keys[0].clone(), &ids[0], true);
	let mut v = vec![("baseline".to_owned(), base.clone())];
	let mut add = |n: String, f: &dyn Fn(&mut Context)| {
		let mut o = base.clone();
		f(&mut o);
		v.push((n, o));
	};
	for (i, id) in ids.iter().enumerate() {
		add(format!("parent_key_id#{}", i), &|c| c.parent_key_id = id.clone());
	}
	for (i, k) in keys.iter().enumerate() {
		add(format!("sec_key#{}", i), &|c| c.sec_key = k.clone());
		add(format!("sec_nonce#{}", i), &|c| c.sec_nonce = k.clone());
		add(format!("initial_sec_key#{}", i), &|c| c.initial_sec_key = k.clone());
		add(format!("initial_sec_nonce#{}", i), &|c| c.initial_sec_nonce = k.clone());
	}
	let lists: Vec<Vec<(Identifier, Option<u64>, u64)>> = vec![
		vec![],
		vec![(ids[1].clone(), None, 0)],
		vec![
			(ids[1].clone(), Some(0), 1),
			(ids[2].clone(), Some(u64::MAX), u64::MAX),
			(ids[3].clone(), Some(1 << 40), 1 << 32),
		],
	];
	for (i, l) in lists.iter().enumerate() {
		add(format!("output_ids#{}", i), &|c| c.output_ids = l.clone());
		add(format!("input_ids#{}", i), &|c| c.input_ids = l.clone());
	}
	for x in U64S.iter() {
		add(format!("amount={}", x), &|c| c.amount = *x);
	}
	for (i, f) in fee_opts().iter().enumerate() {
		add(format!("fee#{}", i), &|c| c.fee = *f);
	}
	for x in [0, 1, u32::MAX].iter() {
		add(format!("payment_proof_derivation_index={}", x), &|c| {
			c.payment_proof_derivation_index = Some(*x)
		});
	}
	let full_args = InitTxArgs {
		src_acct_name: Some("acct \"x\"\n\u{2713}".to_owned()),
		amount: u64::MAX,
		amount_includes_fee: Some(true),
		minimum_confirmations: u64::MAX,
		max_outputs: u32::MAX,
		num_change_outputs: u32::MAX,
		selection_strategy_is_use_all: true,
		target_slate_version: Some(u16::MAX),
		ttl_blocks: Some(u64::MAX),
		payment_proof_recipient_address: Some(SlatepackAddress::new(&fx.raddr)),
		estimate_only: Some(true),
		late_lock: Some(true),
		send_args: Some(InitTxSendArgs {
			dest: "http://127.0.0.1:3415/\u{2713}".to_owned(),
			post_tx: true,
			fluff: true,
			skip_tor: true,
		}),
	};
	let zero_args = InitTxArgs {
		src_acct_name: Some(String::new()),
		amount: 0,
		amount_includes_fee: Some(false),
		minimum_confirmations: 0,
		max_outputs: 0,
		num_change_outputs: 0,
		selection_strategy_is_use_all: false,
		target_slate_version: Some(0),
		ttl_blocks: Some(0),
		payment_proof_recipient_address: None,
		estimate_only: Some(false),
		late_lock: Some(false),
		send_args: Some(InitTxSendArgs {
			dest: String::new(),
			post_tx: false,
			fluff: false,
			skip_tor: false,
		}),
	};
	add("late_lock_args=default".into(), &|c| c.late_lock_args = Some(InitTxArgs::default()));
	add("late_lock_args=zero".into(), &|c| c.late_lock_args = Some(zero_args.clone()));
	add("late_lock_args=full".into(), &|c| c.late_lock_args = Some(full_args.clone()));
	add("calculated_excess=real".into(), &|c| c.calculated_excess = Some(*commit));
	add("all-extremes".into(), &|c| {
		c.parent_key_id = ids[4].clone();
		c.sec_key = keys[3].clone();
		c.sec_nonce = keys[2].clone();
		c.initial_sec_key = keys[1].clone();
		c.initial_sec_nonce = keys[3].clone();
		c.output_ids = lists[2].clone();
		c.input_ids = lists[2].clone();
		c.amount = u64::MAX;
		c.fee = fee_opts()[2];
		c.payment_proof_derivation_index = Some(u32::MAX);
		c.late_lock_args = Some(full_args.clone());
		c.calculated_excess = Some(*commit);
	});
	v
}

fn ser_roundtrip<T: ser::Writeable + ser::Readable>(x: &T) -> Result<T, String> {
	let bytes = ser::ser_vec(x, ser::ProtocolVersion(1)).map_err(|e| format!("encode: {}", e))?;
	ser::deserialize(
		&mut &bytes[..],
		ser::ProtocolVersion(1),
		ser::DeserializationMode::default(),
	)
	.map_err(|e| format!("decode: {}", e))
}

fn diff_top(a: &Value, b: &Value) -> Vec<String> {
	let mb = b.as_object().unwrap();
	a.as_object()
		.unwrap()
		.iter()
		.filter(|(k, v)| **v != mb[*k])
		.map(|(k, _)| k.clone())
		.collect()
}

struct RecordsOut {
	variants: BTreeMap<String, usize>,
	roundtrips: usize,
	problems: Vec<Problem>,
	observations: Vec<String>,
}

fn record_problem(kind: &str, path: &str, name: &str, r: Result<Result<Vec<String>, String>, String>, out: &mut RecordsOut) {
	out.roundtrips += 1;
	match r {
		Err(p) => {
			let site = take_last_panic().map(|x| panic_site(&x.1)).unwrap_or_default();
			out.problems.push(Problem {
				key: format!("C08/record/{}/{}/panic/{}", kind, path, site),
				what: format!("{} variant `{}` panicked through {}: {}", kind, name, path, p),
			});
		}
		Ok(Err(e)) => out.problems.push(Problem {
			key: format!("C08/record/{}/{}/error/{}", kind, path, err_class(&e)),
			what: format!("{} variant `{}` failed through {}: {}", kind, name, path, e),
		}),
		Ok(Ok(fields)) => {
			for f in fields {
				out.problems.push(Problem {
					key: format!("C08/record/{}/{}/{}", kind, path, f),
					what: format!("{} variant `{}`: field `{}` changed through {}", kind, name, f, path),
				});
			}
		}
	}
}

/// OutputData, TxLogEntry, Context through (a) their Writeable/Readable pair and (b) a real
/// LMDB wallet store (save in a batch, commit, read back)
fn check_records(cx: &EncCtx, fx: &Fixtures) -> RecordsOut {
	let mut out = RecordsOut {
		variants: BTreeMap::new(),
		roundtrips: 0,
		problems: vec![],
		observations: vec![],
	};
	let commit = fx.txs[1].outputs()[0].commitment();
	let a = cx.world.w("A");
	let es = |e: crate::libwallet::Error| format!("{}", e);
	// outputs
	let ov = output_variants(&commit);
	out.variants.insert("OutputData".into(), ov.len());
	for (name, o) in ov.iter() {
		let po = proj_output(o);
		let r = catch(|| ser_roundtrip(o).map(|d| diff_top(&po, &proj_output(&d))));
		record_problem("OutputData", "ser", name, r, &mut out);
		let r = catch(|| {
			a.with(|b| -> Result<Vec<String>, String> {
				{
					let mut batch = b.batch(None).map_err(es)?;
					batch.save(o.clone()).map_err(es)?;
					batch.commit().map_err(es)?;
				}
				let d = b.get(&o.key_id, &o.mmr_index).map_err(es)?;
				let f = diff_top(&po, &proj_output(&d));
				let mut batch = b.batch(None).map_err(es)?;
				batch.delete(&o.key_id, &o.mmr_index).map_err(es)?;
				batch.commit().map_err(es)?;
				Ok(f)
			})
		});
		record_problem("OutputData", "lmdb", name, r, &mut out);
	}
	// log entries
	let tv = txlog_variants(&commit, fx);
	out.variants.insert("TxLogEntry".into(), tv.len());
	for (name, t) in tv.iter() {
		let pt = proj_txlog(t);
		let r = catch(|| ser_roundtrip(t).map(|d| diff_top(&pt, &proj_txlog(&d))));
		record_problem("TxLogEntry", "ser", name, r, &mut out);
		let r = catch(|| {
			a.with(|b| -> Result<Vec<String>, String> {
				{
					let mut batch = b.batch(None).map_err(es)?;
					batch.save_tx_log_entry(t.clone(), &t.parent_key_id).map_err(es)?;
					batch.commit().map_err(es)?;
				}
				let d = b
					.tx_log_iter()
					.find(|x| x.id == t.id && x.parent_key_id == t.parent_key_id)
					.ok_or("entry not found after save".to_owned())?;
				Ok(diff_top(&pt, &proj_txlog(&d)))
			})
		});
		record_problem("TxLogEntry", "lmdb", name, r, &mut out);
	}
	// contexts
	let cv = context_variants(&commit, fx);
	out.variants.insert("Context".into(), cv.len());
	for (i, (name, c)) in cv.iter().enumerate() {
		let pc = proj_context(c);
		let r = catch(|| ser_roundtrip(c).map(|d| diff_top(&pc, &proj_context(&d))));
		record_problem("Context", "ser", name, r, &mut out);
		let sid = Uuid::from_bytes([9, 9, 9, 9, 9, 9, 9, 9, 9, 9, 9, 9, 9, 9, 0, i as u8]);
		let r = catch(|| {
			a.with(|b| -> Result<Vec<String>, String> {
				{
					let mut batch = b.batch(None).map_err(es)?;
					batch.save_private_context(sid.as_bytes(), c).map_err(es)?;
					batch.commit().map_err(es)?;
				}
				let d = b.get_private_context(None, sid.as_bytes()).map_err(es)?;
				Ok(diff_top(&pc, &proj_context(&d)))
			})
		});
		record_problem("Context", "lmdb", name, r, &mut out);
	}
	// observed, not asserted: the log entry's `reverted_after` is stored by a serializer named
	// `option_duration_as_secs`; the sub-second part is outside what the stored form carries
	let mut t = tv[0].1.clone();
	t.reverted_after = Some(Duration::new(1, 500_000_000));
	if let Ok(d) = ser_roundtrip(&t) {
		out.observations.push(format!(
			"TxLogEntry.reverted_after = 1.5s is read back as {:?} (whole seconds by format; not asserted)",
			d.reverted_after
		));
	}
	out
}

// ------------------------------------------------------------------------------------------
// driver

#[derive(Serialize, Deserialize)]
struct Summary {
	problems: Vec<Problem>,
	hist: [u32; 5],
	n_norm: u32,
	kernel_asserted: bool,
	hash: u64,
	disagreements: u32,
}

const OUTCOMES: [&str; 5] = ["ok", "normalised", "diff", "err", "panic"];

fn summarise(c: CaseOut) -> Summary {
	let mut hist = [0u32; 5];
	for (_, o) in c.outcomes.iter() {
		hist[OUTCOMES.iter().position(|x| x == o).unwrap()] += 1;
	}
	Summary {
		problems: c.problems,
		hist,
		n_norm: c.normalised.len() as u32,
		kernel_asserted: c.kernel_asserted,
		hash: c.proj_hash,
		disagreements: c.disagreements as u32,
	}
}

/// Encrypted forms are re-encrypted on every run (fresh ephemeral keys), so the bytes differ between
/// runs: a problem key is *stable* if it recurs in two further runs, *intermittent* if it recurs in at
/// least one of six further runs (reported with that suffix), and a machinery error if it never does.
fn settle_encrypted(want: &BTreeSet<String>, rerun: &mut dyn FnMut() -> BTreeSet<String>) -> Result<(BTreeSet<String>, BTreeSet<String>), String> {
	let mut runs: Vec<BTreeSet<String>> = vec![];
	for _ in 0..2 {
		runs.push(rerun());
	}
	let stable: BTreeSet<String> = want.iter().filter(|k| runs.iter().all(|r| r.contains(*k))).cloned().collect();
	let rest: BTreeSet<String> = want.difference(&stable).cloned().collect();
	if rest.is_empty() {
		return Ok((stable, BTreeSet::new()));
	}
	for _ in 0..4 {
		runs.push(rerun());
	}
	let mut intermittent = BTreeSet::new();
	for k in rest.iter() {
		if runs.iter().any(|r| r.contains(k)) {
			intermittent.insert(k.clone());
		} else {
			return Err(format!("verdict {} did not recur in six further runs", k));
		}
	}
	Ok((stable, intermittent))
}

fn keys_of(p: &[Problem]) -> BTreeSet<String> {
	p.iter().map(|x| x.key.clone()).collect()
}

fn ix_to_json(ix: &Ix) -> Value {
	json!(ix.to_vec())
}

fn ix_from_json(v: &Value) -> Ix {
	let mut ix = [0u8; ND];
	for (i, x) in v.as_array().unwrap().iter().enumerate() {
		ix[i] = x.as_u64().unwrap() as u8;
	}
	ix
}

pub fn replay(payload: &Value) -> i32 {
	let fx = fixtures();
	let kind = payload["kind"].as_str().unwrap_or("");
	let want = payload["key"].as_str().unwrap_or("").to_owned();
	let probs: Vec<Problem> = match kind {
		"slate" => {
			let ix = ix_from_json(&payload["ix"]);
			let s = build_slate(&ix, &fx);
			println!("slate {}", describe_ix(&ix));
			println!("original  {}", proj_slate(&s));
			for e in 0..ENCS.len() {
				match catch(|| roundtrip(e, &s)) {
					Ok(Ok(d)) => println!("{:16} {}", ENCS[e], proj_slate(&d)),
					other => println!("{:16} {:?}", ENCS[e], other.map(|r| r.map(|_| ()))),
				}
			}
			check_plain(&s, "").problems
		}
		"slate-enc" => {
			let ix = ix_from_json(&payload["ix"]);
			let s = build_slate(&ix, &fx);
			let cx = enc_ctx("replay");
			println!("slate {}", describe_ix(&ix));
			check_encrypted(&s, "", &cx, true).problems
		}
		"wallet" => {
			let cx = enc_ctx("replay");
			let mut p = vec![];
			for (name, s) in wallet_slates(&cx) {
				p.extend(check_plain(&s, &name).problems);
				p.extend(check_encrypted(&s, &name, &cx, true).problems);
			}
			p
		}
		"address" => check_addresses().2,
		"record" => {
			let cx = enc_ctx("replay");
			check_records(&cx, &fx).problems
		}
		_ => {
			eprintln!("unknown replay kind {}", kind);
			return 2;
		}
	};
	for p in probs.iter() {
		println!("problem {} — {}", p.key, p.what);
	}
	if probs.iter().any(|p| p.key == want) || (want.is_empty() && !probs.is_empty()) {
		println!("verdict: reproduced");
		1
	} else {
		println!("verdict: not reproduced");
		0
	}
}

struct Space {
	ixs: Vec<Ix>,
	t: usize,
	tw_counts: Vec<usize>,
	n_twise: usize,
	fp_size: usize,
	n_fp: usize,
}

/// the enumerated slate space of the current tier (deterministic: workers regenerate it)
fn gen_space(thorough: bool) -> Space {
	let mut ixs: Vec<Ix> = vec![];
	let mut seen = HashSet::new();
	let t = if thorough { 4 } else { 2 };
	let tw_counts = twise(t, &mut ixs, &mut seen);
	let n_twise = ixs.len();
	let mut n_fp = 0usize;
	let mut fp_size = 0usize;
	if thorough {
		let pa = presence_alphabets();
		fp_size = pa.iter().map(|a| a.len()).product();
		let all: Vec<usize> = (0..ND).collect();
		let n0 = ixs.len();
		product_over(&all, &pa, &BASE_MIN, &mut ixs, &mut seen);
		n_fp = ixs.len() - n0;
	}
	Space {
		ixs,
		t,
		tw_counts,
		n_twise,
		fp_size,
		n_fp,
	}
}

/// representatives for the encrypted forms: both baselines and every single-dimension variation
fn gen_reps() -> Vec<Ix> {
	let mut reps: Vec<Ix> = vec![];
	let mut rseen = HashSet::new();
	twise(1, &mut reps, &mut rseen);
	reps
}

#[derive(Serialize, Deserialize, Default)]
struct EncSummary {
	problems: Vec<Problem>,
	outcomes: BTreeMap<String, u64>,
	forms: u64,
}

fn enc_summarise(c: CaseOut) -> EncSummary {
	let mut e = EncSummary::default();
	for (_, o) in c.outcomes.iter() {
		*e.outcomes.entry((*o).to_owned()).or_insert(0) += 1;
	}
	e.forms = c.outcomes.len() as u64;
	e.problems = c.problems;
	e
}

/// Worker subprocess: `gwv c08 worker <plain|enc> <k> <n> <outfile>` handles the items with
/// index = k (mod n). Subprocesses, not threads: the code under test serialises every key,
/// signature and transaction conversion on one process-global lock (static_secp_instance).
fn worker(args: &[String]) -> i32 {
	let mode = args[1].as_str();
	let k: usize = args[2].parse().unwrap();
	let n: usize = args[3].parse().unwrap();
	let fx = fixtures();
	let mut out: Vec<Value> = vec![];
	match mode {
		"plain" => {
			let sp = gen_space(tier() == Tier::Thorough);
			let mut told = BTreeSet::new();
			for (i, ix) in sp.ixs.iter().enumerate().filter(|(i, _)| i % n == k) {
				let mut s = summarise(check_plain(&build_slate(ix, &fx), ""));
				// the description is only needed for the first case of a key
				for p in s.problems.iter_mut() {
					if !told.insert(p.key.clone()) {
						p.what = String::new();
					}
				}
				out.push(json!([i, serde_json::to_value(&s).unwrap()]));
			}
		}
		"enc" => {
			let reps = gen_reps();
			let cx = enc_ctx(&format!("w{}", k));
			for (i, ix) in reps.iter().enumerate().filter(|(i, _)| i % n == k) {
				let s = enc_summarise(check_encrypted(&build_slate(ix, &fx), "", &cx, true));
				out.push(json!([i, serde_json::to_value(&s).unwrap()]));
			}
			cx.world.close();
		}
		_ => return 2,
	}
	std::fs::write(&args[4], serde_json::to_vec(&out).unwrap()).unwrap();
	0
}

fn spawn_workers<T: serde::de::DeserializeOwned>(mode: &str, n_items: usize) -> Result<Vec<T>, String> {
	let n = workers().max(1).min(n_items.max(1));
	let exe = std::env::current_exe().map_err(|e| e.to_string())?;
	let dir = scratch_root();
	let mut children = vec![];
	for k in 0..n {
		let outfile = format!("{}/c08-{}-{}.json", dir, mode, k);
		let child = std::process::Command::new(&exe)
			.args(&["c08", "worker", mode, &k.to_string(), &n.to_string(), &outfile])
			.stdout(std::process::Stdio::null())
			.spawn()
			.map_err(|e| format!("cannot spawn worker: {}", e))?;
		children.push((child, outfile));
	}
	let mut res: Vec<Option<T>> = (0..n_items).map(|_| None).collect();
	for (mut child, outfile) in children {
		let st = child.wait().map_err(|e| e.to_string())?;
		if !st.success() {
			return Err(format!("{} worker failed: {:?}", mode, st));
		}
		let v: Vec<(usize, T)> = serde_json::from_slice(&std::fs::read(&outfile).map_err(|e| e.to_string())?)
			.map_err(|e| format!("worker output: {}", e))?;
		let _ = std::fs::remove_file(&outfile);
		for (i, t) in v {
			res[i] = Some(t);
		}
	}
	if res.iter().any(|x| x.is_none()) {
		return Err(format!("{} workers did not cover every item", mode));
	}
	Ok(res.into_iter().map(|x| x.unwrap()).collect())
}

fn tick(what: &str, t0: &std::time::Instant) {
	if std::env::var("GWV_TIMING").is_ok() {
		eprintln!("[c08] {:>8.2}s {}", t0.elapsed().as_secs_f64(), what);
	}
}

pub fn run(args: &[String]) -> i32 {
	if args.get(0).map(|x| x == "worker").unwrap_or(false) {
		return worker(args);
	}
	let mut rep = Report::new("C08", "model_checking");
	let t0 = std::time::Instant::now();
	let thorough = tier() == Tier::Thorough;
	let fx = fixtures();

	// ---- 1. the slate space
	let Space {
		ixs,
		t,
		tw_counts,
		n_twise,
		fp_size,
		n_fp,
	} = gen_space(thorough);
	tick("fixtures + enumeration", &t0);
	let sums: Vec<Summary> = match spawn_workers("plain", ixs.len()) {
		Ok(s) => s,
		Err(e) => return rep.finish(Some(e)),
	};
	let mut hist = [0u64; 5];
	let mut n_norm = 0u64;
	let mut n_kernel = 0u64;
	let mut disagreements = 0u64;
	let mut hashes = HashSet::new();
	let mut value_seen = vec![BTreeSet::new(); ND];
	let mut evaluations = 0u64;
	let mut confirmed: BTreeSet<String> = BTreeSet::new();
	for (i, s) in sums.iter().enumerate() {
		for k in 0..5 {
			hist[k] += s.hist[k] as u64;
		}
		evaluations += ENCS.len() as u64;
		n_norm += s.n_norm as u64;
		n_kernel += s.kernel_asserted as u64;
		disagreements += (s.disagreements > 0) as u64;
		hashes.insert(s.hash);
		for d in 0..ND {
			value_seen[d].insert(ixs[i][d]);
		}
		// replay-twice rule, for the first (simplest) case of every finding key
		if s.problems.iter().all(|p| confirmed.contains(&p.key)) {
			continue;
		}
		confirmed.extend(s.problems.iter().map(|p| p.key.clone()));
		let want = keys_of(&s.problems);
		for _ in 0..2 {
			let again = keys_of(&check_plain(&build_slate(&ixs[i], &fx), "").problems);
			if again != want {
				return rep.finish(Some(format!(
					"non-deterministic verdict for slate {}: {:?} vs {:?}",
					describe_ix(&ixs[i]),
					again,
					want
				)));
			}
		}
		for p in s.problems.iter() {
			rep.add_finding(Finding {
				key: p.key.clone(),
				what: format!("{} — slate {}", p.what, describe_ix(&ixs[i])),
				replay: json!({"kind": "slate", "key": p.key, "ix": ix_to_json(&ixs[i]), "slate": describe_ix(&ixs[i])}),
			});
		}
	}

	tick("plain encodings", &t0);
	// ---- 2. encrypted forms of representatives; wallet-produced slates
	let cx = enc_ctx("main");
	let reps = gen_reps();
	let mut enc_hist: BTreeMap<String, u64> = BTreeMap::new();
	let mut enc_forms = 0u64;
	let enc_sums: Vec<EncSummary> = match spawn_workers("enc", reps.len()) {
		Ok(s) => s,
		Err(e) => return rep.finish(Some(e)),
	};
	for (i, e) in enc_sums.iter().enumerate() {
		for (k, v) in e.outcomes.iter() {
			*enc_hist.entry(k.clone()).or_insert(0) += v;
		}
		enc_forms += e.forms;
		if e.problems.iter().all(|p| confirmed.contains(&p.key)) {
			continue;
		}
		confirmed.extend(e.problems.iter().map(|p| p.key.clone()));
		let s = build_slate(&reps[i], &fx);
		let want = keys_of(&e.problems);
		let (stable, intermittent) = match settle_encrypted(&want, &mut || keys_of(&check_encrypted(&s, "", &cx, true).problems)) {
			Ok(x) => x,
			Err(m) => return rep.finish(Some(format!("non-deterministic verdict (encrypted forms) {}: {}", describe_ix(&reps[i]), m))),
		};
		for p in e.problems.iter() {
			if !stable.contains(&p.key) && !intermittent.contains(&p.key) {
				continue;
			}
			rep.add_finding(Finding {
				key: if intermittent.contains(&p.key) { format!("{}/depends-on-ciphertext", p.key) } else { p.key.clone() },
				what: format!("{} — slate {}", p.what, describe_ix(&reps[i])),
				replay: json!({"kind": "slate-enc", "key": p.key, "ix": ix_to_json(&reps[i]), "slate": describe_ix(&reps[i])}),
			});
		}
	}
	let mut run_enc = |s: &Slate, src: &str, payload: Value, rep: &Report| -> Result<(), String> {
		let c = check_encrypted(s, src, &cx, true);
		for (_, o) in c.outcomes.iter() {
			*enc_hist.entry((*o).to_owned()).or_insert(0) += 1;
		}
		enc_forms += c.outcomes.len() as u64;
		if !c.problems.iter().all(|p| confirmed.contains(&p.key)) {
			confirmed.extend(c.problems.iter().map(|p| p.key.clone()));
			let want = keys_of(&c.problems);
			let (stable, intermittent) = settle_encrypted(&want, &mut || keys_of(&check_encrypted(s, src, &cx, true).problems)).map_err(|m| format!("non-deterministic verdict (encrypted forms) {}: {}", payload, m))?;
			for p in c.problems.iter() {
				if !stable.contains(&p.key) && !intermittent.contains(&p.key) {
					continue;
				}
				let mut pl = payload.clone();
				pl["key"] = json!(p.key);
				rep.add_finding(Finding {
					key: if intermittent.contains(&p.key) { format!("{}/depends-on-ciphertext", p.key) } else { p.key.clone() },
					what: format!("{} — {}", p.what, payload),
					replay: pl,
				});
			}
		}
		Ok(())
	};
	tick("encrypted representatives", &t0);
	let wslates = match catch(|| wallet_slates(&cx)) {
		Ok(w) => w,
		Err(e) => return rep.finish(Some(format!("could not produce wallet slates: {}", e))),
	};
	let mut wallet_samples = vec![];
	for (name, s) in wslates.iter() {
		let c = check_plain(s, name);
		evaluations += ENCS.len() as u64;
		for (_, o) in c.outcomes.iter() {
			hist[OUTCOMES.iter().position(|x| x == o).unwrap()] += 1;
		}
		hashes.insert(c.proj_hash);
		wallet_samples.push(json!({"slate": name, "state": format!("{}", s.state),
			"outcomes": c.outcomes.iter().map(|(e, o)| format!("{}={}", e, o)).collect::<Vec<_>>()}));
		for p in c.problems.iter() {
			rep.add_finding(Finding {
				key: p.key.clone(),
				what: format!("{} — {}", p.what, name),
				replay: json!({"kind": "wallet", "key": p.key, "which": name}),
			});
		}
		if let Err(e) = run_enc(s, name, json!({"kind": "wallet", "which": name}), &rep) {
			return rep.finish(Some(e));
		}
	}
	drop(run_enc);
	// observed, not asserted: does a finalized wallet slate keep a postable kernel?
	let mut s3_obs = vec![];
	for (name, s) in wslates.iter().filter(|(n, _)| n == "wallet:S3" || n == "wallet:I3") {
		if let Ok(Ok(d)) = catch(|| roundtrip(0, s)) {
			let (k0, k1) = (s.tx.as_ref().unwrap().kernels()[0], d.tx.as_ref().unwrap().kernels()[0]);
			s3_obs.push(format!(
				"{}: kernel excess equal={} excess_sig equal={} (derived data, not asserted)",
				name,
				k0.excess == k1.excess,
				k0.excess_sig == k1.excess_sig
			));
		}
	}

	tick("wallet slates", &t0);
	// ---- 3. addresses
	let (n_keys, n_addr_rt, addr_probs) = check_addresses();
	if !addr_probs.is_empty() {
		let again = keys_of(&check_addresses().2);
		if again != keys_of(&addr_probs) || keys_of(&check_addresses().2) != again {
			return rep.finish(Some("non-deterministic verdict for addresses".to_owned()));
		}
	}
	for p in addr_probs.iter() {
		rep.add_finding(Finding {
			key: p.key.clone(),
			what: p.what.clone(),
			replay: json!({"kind": "address", "key": p.key}),
		});
	}

	tick("addresses", &t0);
	// ---- 4. stored records
	let rec = check_records(&cx, &fx);
	if !rec.problems.is_empty() {
		let want = keys_of(&rec.problems);
		for _ in 0..2 {
			if keys_of(&check_records(&cx, &fx).problems) != want {
				return rep.finish(Some("non-deterministic verdict for stored records".to_owned()));
			}
		}
	}
	for p in rec.problems.iter() {
		rep.add_finding(Finding {
			key: p.key.clone(),
			what: p.what.clone(),
			replay: json!({"kind": "record", "key": p.key}),
		});
	}

	tick("records", &t0);
	// ---- evidence
	let mut samples = vec![];
	for ix in [BASE_MIN, BASE_FULL, ixs[ixs.len() / 2], ixs[ixs.len() - 1]].iter() {
		let s = build_slate(ix, &fx);
		let c = check_plain(&s, "");
		let json_len = serde_json::to_string(&VersionedSlate::into_version(s.clone(), SlateVersion::V4).unwrap())
			.map(|x| x.len())
			.unwrap_or(0);
		samples.push(json!({
			"slate": describe_ix(ix),
			"v4json_bytes": json_len,
			"outcomes": c.outcomes.iter().map(|(e, o)| format!("{}={}", e, o)).collect::<Vec<_>>(),
			"accepted_normalisations": c.normalised,
		}));
	}
	samples.extend(wallet_samples);
	let n_slates = ixs.len() as u64 + wslates.len() as u64;
	let total_rt = evaluations + enc_forms + n_addr_rt as u64 + rec.roundtrips as u64;
	rep.cov("states", json!(n_slates + 2 * n_keys as u64 + rec.variants.values().sum::<usize>() as u64));
	rep.cov("transitions", json!(total_rt));
	rep.cov("traces_validated_against_impl", json!(total_rt));
	rep.cov("evaluations", json!(total_rt));
	rep.cov("distinct_nontrivial", json!(hashes.len()));
	rep.cov("rule", json!("distinct original slates by hash of the hand-written projection of all public fields (every one is encoded and decoded by the real code through each of the 6 plain encodings); the blank baseline counts as one"));
	rep.cov("dimensions", json!((0..ND).map(|d| (DIM_NAMES[d].to_owned(), json!({"size": SIZES[d], "values": (0..SIZES[d]).map(|v| label(d, v)).collect::<Vec<_>>()}))).collect::<BTreeMap<_, _>>()));
	rep.cov("construction", json!(format!(
		"{}-wise: for every subset of <= {} of the {} dimensions the full product of their alphabets with the other dimensions at a baseline, for two baselines (all-minimal, all-present){}",
		t, t, ND,
		if thorough { "; plus the full product over the presence-class alphabets (one value per omission class; kernel, commitments, proof complete)" } else { "" }
	)));
	rep.cov("twise_new_slates_by_baseline_then_subset_size", json!(tw_counts));
	rep.cov("twise_slates", json!(n_twise));
	rep.cov("presence_product_size", json!(fp_size));
	rep.cov("presence_product_new_slates", json!(n_fp));
	rep.cov("full_product_of_complete_alphabets", json!(SIZES.iter().map(|x| *x as u64).product::<u64>()));
	rep.cov("plain_encodings", json!(ENCS));
	rep.cov("plain_outcomes", json!(OUTCOMES.iter().zip(hist.iter()).map(|(k, v)| (k.to_string(), *v)).collect::<BTreeMap<_, _>>()));
	rep.cov("slates_with_kernel_compared", json!(n_kernel));
	rep.cov("accepted_arg_normalisations", json!(n_norm));
	rep.cov("slates_whose_encodings_disagree", json!(disagreements));
	rep.cov("encrypted_representatives", json!(reps.len() + wslates.len()));
	rep.cov("encrypted_forms_per_slate", json!("sender {none,A0} x recipients {[B0],[A0,B0],[B0,B1,A1]} x {wallet API message; packer bin/json/armor, decrypted by B0 and by A0 where listed} + plain bin/json/armor with sender + v4json/v4bin reference"));
	rep.cov("encrypted_outcomes", json!(enc_hist));
	rep.cov("wallet_produced_slates", json!(wslates.iter().map(|(n, _)| n.clone()).collect::<Vec<_>>()));
	rep.cov("address_keys", json!(n_keys));
	rep.cov("address_networks", json!(["mainnet(grin)", "testnet(tgrin)"]));
	rep.cov("address_roundtrips", json!(n_addr_rt));
	rep.cov("record_variants", json!(rec.variants));
	rep.cov("record_roundtrips", json!(rec.roundtrips));
	rep.cov("observations_not_asserted", json!(rec.observations.iter().chain(s3_obs.iter()).collect::<Vec<_>>()));
	rep.cov("exhaustive", json!(true));
	rep.cov("samples", json!(samples));
	rep.assume("values between the alphabet points of a field behave like an alphabet point of the same omission class (small-scope hypothesis)");
	rep.assume("kernel excess and excess signature of slate.tx are derived from participant data by the decoder and are not part of the comparison; a kernel is compared (features incl. fee and lock height) only when the wallet's own Slate::update_kernel can build one for the original");
	rep.assume("a kernel-feature argument that does not belong to the feature (feat 0 with an argument; feat 2 without) may be normalised by the binary format (dropped / written as 0): counted, not reported");
	rep.assume("tx.offset of the original equals slate.offset (the decoder sets it so)");
	let all_values = (0..ND).all(|d| value_seen[d].len() == SIZES[d]);
	let floor = if thorough { 300_000 } else { 2_000 };
	let vac = if !all_values {
		Some("vacuity guard: a dimension value was never exercised".to_owned())
	} else if (hashes.len() as u64) < floor || hashes.len() as u64 != n_slates {
		Some(format!("vacuity guard: {} distinct slates for {} cases (floor {})", hashes.len(), n_slates, floor))
	} else if hist[0] < floor || n_kernel < floor / 4 {
		Some(format!("vacuity guard: only {} clean round trips / {} kernel comparisons", hist[0], n_kernel))
	} else if enc_hist.get("ok").copied().unwrap_or(0) < 1000 {
		Some(format!("vacuity guard: encrypted forms {:?}", enc_hist))
	} else if n_addr_rt < 2 * n_keys * 15 || rec.roundtrips < 300 {
		Some(format!("vacuity guard: {} address / {} record round trips", n_addr_rt, rec.roundtrips))
	} else {
		None
	};
	cx.world.close();
	rep.finish(vac)
}

