//! C20 — background refresh never clobbers concurrent wallet operations.
//! E3: stateless enumeration of every interleaving, at wallet-lock and node-call
//! granularity, of one refresh (or scan) with 1..2 (quick) / 1..3 (thorough) operations and
//! node events, on real threads under a cooperative scheduler. Oracle: the final projected
//! wallet state is one that some serial order of the same units produces; no deadlock.

use crate::common::*;
use crate::libwallet::api_impl::owner;
use crate::libwallet::{OutputStatus, TxLogEntryType};
use crate::node::FaultPlan;
use crate::sched::{self, Point, Sched};
use crate::world::*;
use serde_json::{json, Value};
use std::collections::BTreeMap;
use std::sync::atomic::{AtomicUsize, Ordering};
use std::sync::{Arc, Mutex};
use std::time::{Duration, Instant};
use uuid::Uuid;

const G: u64 = 1_000_000_000;

#[derive(Clone, Debug, PartialEq, Serialize, Deserialize)]
pub enum Unit {
	Refresh,
	Scan { delete_unconfirmed: bool },
	Init,
	Lock,
	Receive,
	/// a second, different incoming payment (restored-wallet scenario)
	Receive2,
	Finalize,
	CancelPosted,
	CancelPending,
	/// cancel the send that is waiting for finalisation (the one that carries the TTL in the expiring base world)
	CancelWaiting,
	Post,
	/// the owner makes the second account the active one (set_active_account)
	SwitchAccount,
	EvMine,
	EvNodeDown,
}

fn is_event(u: &Unit) -> bool {
	matches!(u, Unit::EvMine | Unit::EvNodeDown)
}

#[derive(Clone, Debug, Serialize, Deserialize)]
pub struct Scenario {
	name: String,
	refresher: Unit,
	/// one entry per operation thread: the API calls that thread makes, in order
	ops: Vec<Vec<Unit>>,
	events: Vec<Unit>,
	/// base world variant in which the send waiting for finalisation carries a cutoff height one
	/// block ahead (so that a mined block expires it)
	#[serde(default)]
	ttl: bool,
	/// base world variant with a wallet R freshly restored from the seed of a wallet that has one
	/// output on chain (never scanned); the units act on R
	#[serde(default)]
	restored: bool,
	/// quick-tier schedule budget of this scenario when it differs from the default
	#[serde(default)]
	quick_budget: Option<u64>,
	/// base world variant in which the wallet also holds an incoming payment that the sender has finalised
	/// and posted: its output is unconfirmed, its transaction waits in the pool for the next block, and it is
	/// the smallest output, so the send initiated by the Init unit selects it as soon as it is confirmed
	#[serde(default)]
	incoming: bool,
	/// base world variant (with the expiring send Q) in which a second account holds a pending send without
	/// a cutoff whose log id equals Q's (log ids are counted per account)
	#[serde(default)]
	twin: bool,
}

fn base_world(dir: &str, ttl: bool, restored: bool) {
	base_world_v(dir, ttl, restored, false, false)
}

fn base_world_v(dir: &str, ttl: bool, restored: bool, incoming: bool, twin: bool) {
	let mut w = World::create(dir, &[("A", "A"), ("B", "B"), ("M", "M")]);
	if twin {
		// the second account gets one reward early, so that it is mature by the time it is spent
		w.w("A").create_account("acct1").unwrap();
		w.w("A").set_account("acct1").unwrap();
		w.mine_n("A", 1);
		w.w("A").set_account("default").unwrap();
	}
	w.mine_n("A", 5);
	w.mine_n("B", 3);
	w.mine_n("M", 3);
	w.w("A").refresh().unwrap();
	w.w("B").refresh().unwrap();
	let a = w.w("A");
	let b = w.w("B");
	if incoming {
		// X: an incoming payment, finalised and posted by its sender, waiting in the pool
		let x1 = b.init_send(default_args(7 * G)).unwrap();
		b.lock(&x1).unwrap();
		let x2 = a.receive(&x1, None).unwrap();
		let x3 = b.finalize(&x2).unwrap();
		b.post(x3.tx_or_err().unwrap()).unwrap();
	}
	// P: a no-change send, finalised and posted, awaiting its kernel on chain
	let exact = 60 * G - grin_core::libtx::tx_fee(1, 1, 1);
	let s1 = a.init_send(default_args(exact)).unwrap();
	a.lock(&s1).unwrap();
	let s2 = b.receive(&s1, None).unwrap();
	let s3 = a.finalize(&s2).unwrap();
	a.post(s3.tx_or_err().unwrap()).unwrap();
	let p_id = s1.id;
	// Q: a send waiting for finalisation (with change)
	let mut qargs = default_args(5 * G);
	if ttl {
		qargs.ttl_blocks = Some(1);
	}
	let q1 = a.init_send(qargs).unwrap();
	a.lock(&q1).unwrap();
	let q2 = b.receive(&q1, None).unwrap();
	if twin {
		// a pending send of the second account under the same numeric log id as Q
		let q_entry = a.txs().into_iter().find(|t| t.tx_slate_id == Some(q1.id)).unwrap().id;
		a.set_account("acct1").unwrap();
		a.refresh().unwrap();
		let p1 = a.with(|x| x.parent_key_id());
		loop {
			let next = a.txs().iter().filter(|e| e.parent_key_id == p1).map(|e| e.id + 1).max().unwrap_or(0);
			if next >= q_entry {
				break;
			}
			a.issue_invoice(crate::libwallet::IssueInvoiceTxArgs { amount: G, ..Default::default() }).unwrap();
		}
		let t1 = a.init_send(default_args(2 * G)).unwrap();
		a.lock(&t1).unwrap();
		let tid = a.txs().into_iter().find(|t| t.tx_slate_id == Some(t1.id)).unwrap().id;
		assert_eq!(tid, q_entry, "twin transaction must carry the log id of Q");
		a.set_account("default").unwrap();
	}
	// R1: an incoming payment not yet received
	let r1 = b.init_send(default_args(3 * G)).unwrap();
	b.lock(&r1).unwrap();
	// N: a pending (never posted) send to cancel
	let n1 = a.init_send(default_args(2 * G)).unwrap();
	a.lock(&n1).unwrap();
	let mut r1 = r1;
	let mut r2_json = String::new();
	let mut target = "A";
	if restored {
		// S: a wallet with exactly one output on chain; R: the same seed, empty store, never scanned
		w.add_wallet("S", "S");
		w.mine("S").unwrap();
		w.add_wallet("R", "S");
		let b = w.w("B");
		b.refresh().unwrap();
		r1 = b.init_send(default_args(1 * G)).unwrap();
		b.lock(&r1).unwrap();
		let r2 = b.init_send(default_args(2 * G)).unwrap();
		b.lock(&r2).unwrap();
		r2_json = slate_to_json(&r2);
		target = "R";
	}
	w.meta.extra = json!({
		"target": target,
		"r2": r2_json,
		"p_id": p_id.to_string(),
		"q2": slate_to_json(&q2),
		"q_id": q1.id.to_string(),
		"r1": slate_to_json(&r1),
		"n_id": n1.id.to_string(),
	});
	w.close();
}

fn slots(w: &World) -> Vec<Uuid> {
	["p_id", "q_id", "n_id"].iter().map(|k| Uuid::parse_str(w.meta.extra[*k].as_str().unwrap()).unwrap()).chain(std::iter::once(slate_from_json(w.meta.extra["r1"].as_str().unwrap()).id)).collect()
}

/// run one unit on the world (from whatever thread); returns an outcome label
fn target(w: &World) -> &str {
	w.meta.extra["target"].as_str().unwrap_or("A")
}

fn run_unit(w: &World, u: &Unit, q3_tx: &Mutex<Option<String>>) -> String {
	let a = w.w(target(w));
	let lbl = |r: Result<(), crate::libwallet::Error>| match r {
		Ok(()) => "ok".to_owned(),
		Err(e) => format!("err:{}", format!("{:?}", e).chars().take_while(|c| c.is_alphanumeric()).collect::<String>()),
	};
	match u {
		Unit::Refresh => lbl(owner::update_wallet_state(a.inst.clone(), None, &None, false).map(|_| ())),
		Unit::Scan { delete_unconfirmed } => lbl(a.scan(Some(1), *delete_unconfirmed)),
		Unit::Init => {
			sched::yield_point(Point::Lock);
			match a.init_send(default_args(4 * G)) {
				Ok(s) => {
					*q3_tx.lock().unwrap() = Some(format!("init:{}", slate_to_json(&s)));
					"ok".into()
				}
				Err(e) => lbl(Err(e)),
			}
		}
		Unit::Lock => {
			let s = q3_tx.lock().unwrap().clone();
			match s {
				Some(j) if j.starts_with("init:") => {
					let s = slate_from_json(&j[5..]);
					sched::yield_point(Point::Lock);
					lbl(a.lock(&s))
				}
				_ => "nothing-to-lock".into(),
			}
		}
		Unit::Receive => {
			let s = slate_from_json(w.meta.extra["r1"].as_str().unwrap());
			sched::yield_point(Point::Lock);
			lbl(a.receive(&s, None).map(|_| ()))
		}
		Unit::Receive2 => {
			let s = slate_from_json(w.meta.extra["r2"].as_str().unwrap());
			sched::yield_point(Point::Lock);
			lbl(a.receive(&s, None).map(|_| ()))
		}
		Unit::Finalize => {
			let s = slate_from_json(w.meta.extra["q2"].as_str().unwrap());
			sched::yield_point(Point::Lock);
			match a.finalize(&s) {
				Ok(s3) => {
					*q3_tx.lock().unwrap() = Some(tx_to_hex(s3.tx_or_err().unwrap()));
					"ok".into()
				}
				Err(e) => lbl(Err(e)),
			}
		}
		Unit::CancelPosted => lbl(a.cancel(None, Some(Uuid::parse_str(w.meta.extra["p_id"].as_str().unwrap()).unwrap()))),
		Unit::CancelPending => lbl(a.cancel(None, Some(Uuid::parse_str(w.meta.extra["n_id"].as_str().unwrap()).unwrap()))),
		Unit::CancelWaiting => lbl(a.cancel(None, Some(Uuid::parse_str(w.meta.extra["q_id"].as_str().unwrap()).unwrap()))),
		Unit::Post => {
			// re-post the stored transaction of Q if it has been finalised, else nothing to post
			let id = Uuid::parse_str(w.meta.extra["q_id"].as_str().unwrap()).unwrap();
			sched::yield_point(Point::Lock);
			let tx = a.with(|x| x.get_stored_tx(&format!("{}", id)));
			match tx {
				Ok(Some(tx)) if !tx.kernels().is_empty() && tx.kernels()[0].verify().is_ok() => lbl(a.post(&tx)),
				_ => "nothing-to-post".into(),
			}
		}
		Unit::SwitchAccount => {
			sched::yield_point(Point::Lock);
			lbl(a.set_account("acct1"))
		}
		Unit::EvMine => {
			w.mine("M").unwrap();
			"ok".into()
		}
		Unit::EvNodeDown => {
			// the next node call (by anyone) fails
			w.node.set_fault(FaultPlan { fail_at: Some(0), fail_from: None });
			"ok".into()
		}
	}
}

fn project(w: &World) -> Value {
	let opts = ProjOpts { slots: slots(w), heights: false, canon_ids: true };
	let mut v = project_wallet(w.w(target(w)), &opts);
	// key indices of a refused / repeated hand-out may differ without any visible effect on funds:
	// kept (the statement lists key indices)
	// node-side state (the pool) is not part of the compared state: the statement is about the wallet
	v
}

struct Exec {
	proj: Value,
	labels: Vec<String>,
	log: Option<sched::RunLog>,
	panics: Vec<String>,
}

fn run_serial(dir: &str, base: &Snapshot, order: &[Unit]) -> Exec {
	base.restore(dir);
	let w = World::open(dir);
	let q3 = Mutex::new(None);
	let mut labels = vec![];
	let mut panics = vec![];
	for u in order {
		match catch(|| run_unit(&w, u, &q3)) {
			Ok(l) => labels.push(format!("{:?}:{}", u, l)),
			Err(p) => panics.push(format!("{:?} panicked: {}", u, p)),
		}
	}
	w.node.clear_fault();
	let proj = project(&w);
	drop(w);
	Exec { proj, labels, log: None, panics }
}

fn run_schedule(dir: &str, base: &Snapshot, sc: &Scenario, prefix: &[usize]) -> Exec {
	base.restore(dir);
	let w = Arc::new(World::open(dir));
	*w.node.yield_hook.lock().unwrap() = Some(sched::node_hook());
	let n_threads = 1 + sc.ops.len() + if sc.events.is_empty() { 0 } else { 1 };
	let _ = is_event;
	let s = Sched::new(n_threads);
	let q3 = Arc::new(Mutex::new(None));
	let labels: Arc<Mutex<BTreeMap<usize, String>>> = Arc::new(Mutex::new(BTreeMap::new()));
	let panics: Arc<Mutex<Vec<String>>> = Arc::new(Mutex::new(vec![]));
	let mut handles = vec![];
	let mut units: Vec<Vec<Unit>> = vec![vec![sc.refresher.clone()]];
	for o in sc.ops.iter() {
		units.push(o.clone());
	}
	if !sc.events.is_empty() {
		units.push(sc.events.clone());
	}
	for (id, us) in units.into_iter().enumerate() {
		let w = w.clone();
		let q3 = if us.contains(&Unit::Init) { Arc::new(Mutex::new(None)) } else { q3.clone() };
		let labels = labels.clone();
		let panics = panics.clone();
		handles.push(s.spawn(id, move || {
			for (i, u) in us.iter().enumerate() {
				if i > 0 {
					sched::yield_point(Point::Event);
				}
				match std::panic::catch_unwind(std::panic::AssertUnwindSafe(|| run_unit(&w, u, &q3))) {
					Ok(l) => {
						labels.lock().unwrap().insert(id * 10 + i, format!("{:?}:{}", u, l));
					}
					Err(e) => {
						if e.downcast_ref::<sched::Aborted>().is_some() {
							std::panic::resume_unwind(e);
						}
						let msg = e.downcast_ref::<String>().cloned().or(e.downcast_ref::<&str>().map(|s| s.to_string())).unwrap_or_default();
						panics.lock().unwrap().push(format!("{:?} panicked: {}", u, msg));
					}
				}
			}
		}));
	}
	let a_inst = w.w(target(&w)).inst.clone();
	let log = s.run(prefix, &|| a_inst.try_lock().is_some());
	for h in handles {
		let _ = h.join();
	}
	*w.node.yield_hook.lock().unwrap() = None;
	w.node.clear_fault();
	let proj = project(&w);
	let labels = labels.lock().unwrap().values().cloned().collect();
	let panics = panics.lock().unwrap().clone();
	drop(a_inst);
	match Arc::try_unwrap(w) {
		Ok(w) => drop(w),
		Err(_) => {}
	}
	Exec { proj, labels, log: Some(log), panics }
}

fn permutations(sc: &Scenario) -> Vec<Vec<Unit>> {
	// all interleavings of [refresher], each op, and the event sequence (events keep their order)
	let mut items: Vec<Vec<Unit>> = vec![vec![sc.refresher.clone()]];
	for o in sc.ops.iter() {
		items.push(o.clone());
	}
	if !sc.events.is_empty() {
		items.push(sc.events.clone());
	}
	fn rec(items: &mut Vec<Vec<Unit>>, cur: &mut Vec<Unit>, out: &mut Vec<Vec<Unit>>) {
		if items.iter().all(|i| i.is_empty()) {
			out.push(cur.clone());
			return;
		}
		for k in 0..items.len() {
			if items[k].is_empty() {
				continue;
			}
			let u = items[k].remove(0);
			cur.push(u.clone());
			rec(items, cur, out);
			cur.pop();
			items[k].insert(0, u);
		}
	}
	let mut out = vec![];
	rec(&mut items, &mut vec![], &mut out);
	out
}

/// a short, stable signature of how a projection differs from a serial one:
/// per output / log entry the (status | type,confirmed) pair that differs
fn diff_signature(a: &Value, b: &Value) -> String {
	let mut sig: Vec<String> = vec![];
	let idx = |v: &Value| -> BTreeMap<String, String> {
		v["outputs"].as_array().unwrap().iter().map(|o| (o["key"].as_str().unwrap().to_owned(), format!("{}", o["status"].as_str().unwrap()))).collect()
	};
	let (oa, ob) = (idx(a), idx(b));
	for (k, sa) in oa.iter() {
		match ob.get(k) {
			Some(sb) if sb != sa => sig.push(format!("output:{}-not-{}", sa, sb)),
			None => sig.push(format!("extra-output:{}", sa)),
			_ => {}
		}
	}
	for (k, sb) in ob.iter() {
		if !oa.contains_key(k) {
			sig.push(format!("missing-output:{}", sb));
		}
	}
	let tidx = |v: &Value| -> Vec<String> {
		let mut l: Vec<String> = v["txs"].as_array().unwrap().iter().map(|t| format!("{}/{}/{}", t["slate"], t["type"].as_str().unwrap(), if t["confirmed"] == true { "confirmed" } else { "unconfirmed" })).collect();
		l.sort();
		l
	};
	let (ta, tb) = (tidx(a), tidx(b));
	for t in ta.iter() {
		if !tb.contains(t) {
			sig.push(format!("entry:{}", t));
		}
	}
	if a["contexts"] != b["contexts"] {
		sig.push("contexts".into());
	}
	if a["accounts"] != b["accounts"] {
		sig.push("indices".into());
	}
	sig.sort();
	sig.dedup();
	sig.join(",")
}

fn diff(a: &Value, b: &Value) -> Vec<String> {
	let mut d = vec![];
	for k in ["outputs", "txs", "accounts", "contexts"].iter() {
		if a[*k] != b[*k] {
			match (a[*k].as_array(), b[*k].as_array()) {
				(Some(x), Some(y)) => {
					for e in x.iter() {
						if !y.contains(e) {
							d.push(format!("{} has {}", k, e));
						}
					}
					for e in y.iter() {
						if !x.contains(e) {
							d.push(format!("{} lacks {}", k, e));
						}
					}
				}
				_ => d.push(format!("{}: {} vs {}", k, a[*k], b[*k])),
			}
		}
	}
	d
}

pub struct ScResult {
	schedules: u64,
	serial_orders: usize,
	distinct_serial: usize,
	distinct_final: usize,
	max_points: usize,
	completed_level: Option<usize>,
	cap_hit: Option<String>,
	findings: Vec<Finding>,
	machinery: Option<String>,
	sample: Option<Value>,
}

fn explore_scenario(root: &str, base: &Snapshot, sc: &Scenario, bound: Option<usize>, wall: Duration, max_schedules: u64, pinned: &[Vec<usize>]) -> ScResult {
	let start = Instant::now();
	let perms = permutations(sc);
	let serial: Vec<Exec> = par_map(&perms, workers(), |i, order| run_serial(&format!("{}/c20-{}-s{}", root, sc.name, i), base, order));
	let mut serial_set: Vec<(u64, &Exec, &Vec<Unit>)> = vec![];
	let mut res = ScResult { schedules: 0, serial_orders: perms.len(), distinct_serial: 0, distinct_final: 0, max_points: 0, completed_level: None, cap_hit: None, findings: vec![], machinery: None, sample: None };
	for (e, o) in serial.iter().zip(perms.iter()) {
		if !e.panics.is_empty() {
			res.findings.push(Finding { key: format!("C20/panic/serial/{}", sc.name), what: format!("{:?} in serial order {:?}", e.panics, o), replay: json!({"scenario": sc, "serial": o}) });
		}
		let h = hash_value(&e.proj);
		if !serial_set.iter().any(|x| x.0 == h) {
			serial_set.push((h, e, o));
		}
	}
	res.distinct_serial = serial_set.len();
	// Iterative deviation bounding, level-synchronous and deterministic: level k holds every schedule
	// with exactly k non-default choices. A level is run completely or not at all (its size is known
	// when the previous level has finished), so the explored set does not depend on timing.
	let count = AtomicUsize::new(0);
	let finals: Mutex<BTreeMap<u64, u64>> = Mutex::new(BTreeMap::new());
	let findings: Mutex<Vec<Finding>> = Mutex::new(vec![]);
	let machinery: Mutex<Option<String>> = Mutex::new(None);
	let cap: Mutex<Option<String>> = Mutex::new(None);
	let maxp = AtomicUsize::new(0);
	let sample: Mutex<Option<Value>> = Mutex::new(None);
	let eval = |prefix: &Vec<usize>| -> Vec<Vec<usize>> {
		let dir = format!("{}/c20-{}-w{:?}", root, sc.name, std::thread::current().id()).replace("ThreadId(", "").replace(")", "");
		let e = run_schedule(&dir, base, sc, prefix);
		count.fetch_add(1, Ordering::SeqCst);
		let log = e.log.as_ref().unwrap();
		maxp.fetch_max(log.choices.len(), Ordering::SeqCst);
		if let Some(err) = &log.error {
			*machinery.lock().unwrap() = Some(format!("{} (scenario {}, prefix {:?})", err, sc.name, prefix));
		}
		// children: one more deviation at any later point
		let mut children = vec![];
		for i in prefix.len()..log.choices.len() {
			for alt in 1..log.enabled[i].len() {
				let mut p: Vec<usize> = log.choices[..i].to_vec();
				p.push(alt);
				children.push(p);
			}
		}
		let h = hash_value(&e.proj);
		*finals.lock().unwrap().entry(h).or_insert(0) += 1;
		let replay = json!({"scenario": sc, "schedule": log.choices});
		if log.deadlock {
			findings.lock().unwrap().push(Finding { key: format!("C20/deadlock/{}", sc.name), what: format!("no enabled thread with unfinished threads under schedule {:?}", log.choices), replay: replay.clone() });
		}
		for p in e.panics.iter() {
			findings.lock().unwrap().push(Finding { key: format!("C20/panic/{}", sc.name), what: format!("{} under schedule {:?}", p, log.choices), replay: replay.clone() });
		}
		if !log.deadlock && log.error.is_none() && !serial_set.iter().any(|x| x.0 == h) {
			let mut best: Option<(usize, Vec<String>, &Vec<Unit>)> = None;
			for (_, se, o) in serial_set.iter() {
				let d = diff(&e.proj, &se.proj);
				if best.as_ref().map(|b| d.len() < b.0).unwrap_or(true) {
					best = Some((d.len(), d, o));
				}
			}
			let (_, d, o) = best.unwrap();
			let nearest = serial_set.iter().find(|x| std::ptr::eq(x.2, o)).unwrap().1;
			let key = format!("C20/non-serializable/{}/{}", sc.name, diff_signature(&e.proj, &nearest.proj));
			findings.lock().unwrap().push(Finding {
				key,
				what: format!("final wallet state under schedule {:?} (outcomes {:?}) equals no serial order; nearest is {:?}, from which it differs in: {}", log.choices, e.labels, o, d.join("; ")),
				replay,
			});
		} else if sample.lock().unwrap().is_none() && log.choices.iter().any(|c| *c != 0) {
			*sample.lock().unwrap() = Some(json!({"scenario": sc.name, "schedule": log.choices, "enabled_at_each_point": log.enabled, "outcomes": e.labels}));
		}
		let _ = std::fs::remove_dir_all(&dir);
		children
	};
	// pinned schedules (the recorded schedules of known findings) run in every tier, outside the budget
	if !pinned.is_empty() {
		let pv: Vec<Vec<usize>> = pinned.to_vec();
		let _ = par_map(&pv, workers(), |_i, p| (eval(p), ()));
	}
	let mut level: Vec<Vec<usize>> = vec![vec![]];
	let mut depth = 0usize;
	let mut completed_level: Option<usize> = None;
	loop {
		if level.is_empty() {
			break;
		}
		if let Some(bd) = bound {
			if depth > bd {
				*cap.lock().unwrap() = Some(format!("deviation bound {} reached: {} schedules of level {} not run", bd, level.len(), depth));
				break;
			}
		}
		if count.load(Ordering::SeqCst) as u64 + level.len() as u64 > max_schedules {
			*cap.lock().unwrap() = Some(format!("schedule budget {}: level {} ({} schedules) not run; levels 0..{} complete", max_schedules, depth, level.len(), depth.saturating_sub(1)));
			break;
		}
		if start.elapsed() > wall {
			*cap.lock().unwrap() = Some(format!("wall cap {:?}: level {} ({} schedules) not run", wall, depth, level.len()));
			break;
		}
		let results: Vec<(Vec<Vec<usize>>, ())> = par_map(&level, workers(), |_wi, prefix| (eval(prefix), ()));
		completed_level = Some(depth);
		let mut next: Vec<Vec<usize>> = vec![];
		for (children, _) in results {
			next.extend(children);
		}
		level = next;
		depth += 1;
	}
	res.completed_level = completed_level;
	res.schedules = count.load(Ordering::SeqCst) as u64;
	res.distinct_final = finals.lock().unwrap().len();
	res.max_points = maxp.load(Ordering::SeqCst);
	res.cap_hit = cap.lock().unwrap().clone();
	res.machinery = machinery.lock().unwrap().clone();
	res.sample = sample.lock().unwrap().clone();
	let mut fs = findings.lock().unwrap().clone();
	// per key keep the schedule with the fewest deviations, then the lexicographically smallest
	fs.sort_by_key(|f| {
		let sch: Vec<u64> = f.replay["schedule"].as_array().map(|a| a.iter().map(|x| x.as_u64().unwrap_or(0)).collect()).unwrap_or_default();
		(f.key.clone(), sch.iter().filter(|c| **c != 0).count(), sch)
	});
	// replay-twice
	for f in fs.into_iter() {
		if res.findings.iter().any(|x| x.key == f.key) {
			continue;
		}
		let sched_v: Vec<usize> = serde_json::from_value(f.replay["schedule"].clone()).unwrap_or_default();
		let mut same = true;
		for r in 0..2 {
			let e = run_schedule(&format!("{}/c20-{}-again{}", root, sc.name, r), base, sc, &sched_v);
			let h = hash_value(&e.proj);
			let log = e.log.as_ref().unwrap();
			let bad = log.deadlock || !e.panics.is_empty() || !serial_set.iter().any(|x| x.0 == h);
			if !bad || log.error.is_some() {
				same = false;
			}
		}
		if !same {
			res.machinery = Some(format!("finding {} did not reproduce under its recorded schedule", f.key));
		}
		res.findings.push(f);
	}
	res
}

fn scenarios(thorough: bool) -> Vec<Scenario> {
	let sc = |name: &str, r: Unit, ops: Vec<Vec<Unit>>, ev: Vec<Unit>| Scenario { name: name.into(), refresher: r, ops, events: ev, ttl: false, restored: false, quick_budget: None, incoming: false, twin: false };
	let il = || vec![Unit::Init, Unit::Lock];
	let mut v = vec![
		sc("refresh+cancel-posted+mine", Unit::Refresh, vec![vec![Unit::CancelPosted]], vec![Unit::EvMine]),
		sc("refresh+finalize+mine", Unit::Refresh, vec![vec![Unit::Finalize]], vec![Unit::EvMine]),
		sc("refresh+receive+mine", Unit::Refresh, vec![vec![Unit::Receive]], vec![Unit::EvMine]),
		sc("refresh+init-lock+mine", Unit::Refresh, vec![il()], vec![Unit::EvMine]),
		sc("refresh+cancel-pending+nodedown", Unit::Refresh, vec![vec![Unit::CancelPending]], vec![Unit::EvNodeDown]),
		sc("scan+receive", Unit::Scan { delete_unconfirmed: false }, vec![vec![Unit::Receive]], vec![]),
		sc("scan-delete+init-lock", Unit::Scan { delete_unconfirmed: true }, vec![il()], vec![]),
		sc("scan-delete+cancel-pending", Unit::Scan { delete_unconfirmed: true }, vec![vec![Unit::CancelPending]], vec![]),
		Scenario { ttl: true, ..sc("refresh+finalize-expiring+mine", Unit::Refresh, vec![vec![Unit::Finalize]], vec![Unit::EvMine]) },
		// level 2 of this one holds the schedules in which the cancel completes between the refresh's
		// reading of its list and its TTL sweep, with the block already mined: give it room in the quick tier
		Scenario { ttl: true, quick_budget: Some(2600), ..sc("refresh+cancel-expiring+mine", Unit::Refresh, vec![vec![Unit::CancelWaiting]], vec![Unit::EvMine]) },
		Scenario { incoming: true, quick_budget: Some(1300), ..sc("incoming:refresh+init-lock+mine", Unit::Refresh, vec![il()], vec![Unit::EvMine]) },
		Scenario { ttl: true, twin: true, ..sc("twin:refresh+switch-account+mine", Unit::Refresh, vec![vec![Unit::SwitchAccount]], vec![Unit::EvMine]) },
		Scenario { restored: true, ..sc("restored:scan+receive+receive", Unit::Scan { delete_unconfirmed: false }, vec![vec![Unit::Receive, Unit::Receive2]], vec![]) },
	];
	if thorough {
		v.extend(vec![
			sc("refresh+finalize-post+mine", Unit::Refresh, vec![vec![Unit::Finalize, Unit::Post]], vec![Unit::EvMine]),
			sc("refresh+cancel-posted+receive+mine", Unit::Refresh, vec![vec![Unit::CancelPosted], vec![Unit::Receive]], vec![Unit::EvMine]),
			sc("refresh+init-lock+cancel-pending+mine+nodedown", Unit::Refresh, vec![il(), vec![Unit::CancelPending]], vec![Unit::EvMine, Unit::EvNodeDown]),
			sc("scan+finalize+mine", Unit::Scan { delete_unconfirmed: false }, vec![vec![Unit::Finalize]], vec![Unit::EvMine]),
			sc("scan-delete+receive+mine", Unit::Scan { delete_unconfirmed: true }, vec![vec![Unit::Receive]], vec![Unit::EvMine]),
			sc("refresh+receive+finalize+cancel-pending", Unit::Refresh, vec![vec![Unit::Receive], vec![Unit::Finalize], vec![Unit::CancelPending]], vec![]),
		]);
	}
	v
}

pub fn replay(payload: &Value) -> i32 {
	std::env::set_var("GWV_SHOW_PANICS", "1");
	sched::install_hooks();
	let root = scratch_root();
	let sc: Scenario = serde_json::from_value(payload["scenario"].clone()).unwrap();
	let based = format!("{}/c20-replay-base", root);
	base_world_v(&based, sc.ttl, sc.restored, sc.incoming, sc.twin);
	let base = Snapshot::capture(&based);
	let schedule: Vec<usize> = serde_json::from_value(payload["schedule"].clone()).unwrap_or_default();
	let perms = permutations(&sc);
	let serial: Vec<Exec> = perms.iter().enumerate().map(|(i, o)| run_serial(&format!("{}/c20-replay-s{}", root, i), &base, o)).collect();
	let e = run_schedule(&format!("{}/c20-replay", root), &base, &sc, &schedule);
	let log = e.log.as_ref().unwrap();
	println!("scenario {} schedule {:?}\noutcomes {:?}\ndeadlock {} error {:?} panics {:?}", sc.name, log.choices, e.labels, log.deadlock, log.error, e.panics);
	println!("trace (thread 0 = refresher, 1.. = operations, last = events): {:?}", log.trace);
	let h = hash_value(&e.proj);
	let hit = serial.iter().zip(perms.iter()).find(|(s, _)| hash_value(&s.proj) == h);
	match hit {
		Some((_, o)) => {
			println!("final state equals serial order {:?}", o);
			if log.deadlock || !e.panics.is_empty() { 1 } else { 0 }
		}
		None => {
			for (s, o) in serial.iter().zip(perms.iter()) {
				println!("differs from serial {:?} in: {:?}", o, diff(&e.proj, &s.proj));
			}
			1
		}
	}
}

pub fn run(_args: &[String]) -> i32 {
	let mut rep = Report::new("C20", "model_checking");
	let thorough = tier() == Tier::Thorough;
	sched::install_hooks();
	let root = scratch_root();
	let based = format!("{}/c20-base", root);
	base_world(&based, false, false);
	let base_plain = Snapshot::capture(&based);
	let based_ttl = format!("{}/c20-base-ttl", root);
	base_world(&based_ttl, true, false);
	let base_ttl = Snapshot::capture(&based_ttl);
	let based_res = format!("{}/c20-base-restored", root);
	base_world(&based_res, false, true);
	let base_res = Snapshot::capture(&based_res);
	let based_twin = format!("{}/c20-base-twin", root);
	base_world_v(&based_twin, true, false, false, true);
	let base_twin = Snapshot::capture(&based_twin);
	let based_inc = format!("{}/c20-base-incoming", root);
	base_world_v(&based_inc, false, false, true, false);
	let base_inc = Snapshot::capture(&based_inc);
	let mut scs = scenarios(thorough);
	// recorded schedules of the known findings: re-run in every tier (pinned/C20.json, committed)
	let pinned: Vec<Value> = std::fs::read(format!("{}/pinned/C20.json", verif_root())).ok().and_then(|b| serde_json::from_slice(&b).ok()).unwrap_or_default();
	if !thorough {
		for q in scenarios(true).into_iter() {
			if !scs.iter().any(|s| s.name == q.name) && pinned.iter().any(|p| p["scenario"]["name"] == json!(q.name)) {
				scs.push(q);
			}
		}
	}
	if let Ok(f) = std::env::var("GWV_C20_SCENARIO") {
		// development aid: restrict to scenarios whose name contains the given text
		scs = scenarios(true).into_iter().filter(|s| s.name.contains(&f)).collect();
	}
	let mut total = 0u64;
	let mut per = serde_json::Map::new();
	let mut mach = None;
	let mut exhaustive = true;
	let mut samples = vec![];
	let mut distinct_total = 0usize;
	let per_wall = Duration::from_secs(std::env::var("GWV_C20_WALL").ok().and_then(|v| v.parse().ok()).unwrap_or(if thorough { 1500 } else { 60 }));
	for sc in scs.iter() {
		let budget: u64 = std::env::var("GWV_C20_BUDGET").ok().and_then(|v| v.parse().ok()).unwrap_or(if thorough { 40_000 } else { sc.quick_budget.unwrap_or(700) });
		let pins: Vec<Vec<usize>> = pinned.iter().filter(|p| p["scenario"]["name"] == json!(sc.name)).filter_map(|p| serde_json::from_value(p["schedule"].clone()).ok()).collect();
		let pinned_only = !thorough && std::env::var("GWV_C20_SCENARIO").is_err() && !scenarios(false).iter().any(|q| q.name == sc.name);
		let base = if sc.twin { &base_twin } else if sc.incoming { &base_inc } else if sc.restored { &base_res } else if sc.ttl { &base_ttl } else { &base_plain };
		let r = explore_scenario(&root, base, sc, None, per_wall, if pinned_only { 0 } else { budget }, &pins);
		total += r.schedules;
		distinct_total += r.distinct_final;
		if r.cap_hit.is_some() {
			exhaustive = false;
		}
		per.insert(sc.name.clone(), json!({"schedules": r.schedules, "serial_orders": r.serial_orders, "distinct_serial_outcomes": r.distinct_serial, "distinct_final_states": r.distinct_final, "max_scheduling_points": r.max_points, "completed_deviation_level": r.completed_level, "cap_hit": r.cap_hit}));
		for f in r.findings {
			rep.add_finding(f);
		}
		if r.machinery.is_some() {
			mach = r.machinery;
		}
		if let Some(s) = r.sample {
			if samples.len() < 4 {
				samples.push(s);
			}
		}
	}
	rep.cov("states", json!(distinct_total));
	rep.cov("transitions", json!(total));
	rep.cov("traces_validated_against_impl", json!(total));
	rep.cov("evaluations", json!(total));
	rep.cov("distinct_nontrivial", json!(distinct_total));
	rep.cov("rule", json!("one execution = one complete schedule (choice at every wallet-lock / node-call scheduling point) of real threads; distinct_nontrivial = distinct final wallet projections summed over scenarios"));
	rep.cov("exhaustive", json!(exhaustive));
	rep.cov("schedule_budget_per_scenario", json!(std::env::var("GWV_C20_BUDGET").ok().and_then(|v| v.parse::<u64>().ok()).unwrap_or(if thorough { 40_000 } else { 700 })));
	rep.cov("scenarios", Value::Object(per));
	rep.cov("samples", json!(samples));
	rep.assume("granularity = wallet-mutex acquisitions and node calls; all shared wallet state is behind that one mutex");
	rep.assume("iterative deviation bounding: level k = all schedules with exactly k non-default scheduling choices; a level is run completely or not at all, within a per-scenario schedule budget (quick 450, thorough 40000); the completed level is reported per scenario");
	if mach.is_none() && (total < 100 || distinct_total < scs.len() + 2) {
		mach = Some(format!("vacuity guard: {} schedules, {} distinct final states", total, distinct_total));
	}
	rep.finish(mach)
}

#[allow(dead_code)]
fn _unused(_: OutputStatus, _: TxLogEntryType) {
	let _ = is_event(&Unit::EvMine);
}
