//! C03 — reserved outputs are exclusive: no two live transactions share an input;
//! repeating a protocol step with the same slate is refused or has no further effect.
//! E2: BFS over all histories of {init, init-invoice, lock, receive, finalize, cancel,
//! post, mine, refresh} on two slate slots of wallet A (three mature outputs), wallet B
//! as counterparty, real chain.

use crate::common::*;
use crate::explore::*;
use crate::libwallet::{IssueInvoiceTxArgs, OutputStatus, TxLogEntryType};
use crate::world::*;
use serde_json::{json, Value};
use std::collections::BTreeSet;
use std::time::Duration;
use uuid::Uuid;

const G: u64 = 1_000_000_000;
const AMOUNT: u64 = 30 * G;

#[derive(Clone, Debug, Serialize, Deserialize, PartialEq)]
pub enum Op {
	Init { slot: usize, use_all: bool },
	InitInvoice { slot: usize },
	Lock { slot: usize },
	Receive { slot: usize },
	Finalize { slot: usize },
	Cancel { slot: usize },
	Post { slot: usize },
	Mine,
	Refresh,
	/// (directed histories only) a send whose source is the third account, named while the default account is active
	InitNamed { slot: usize },
	/// (directed histories only) a send that spends one whole output and creates no change
	InitExact { slot: usize },
	/// (directed histories only) cancel of that send: the third account is made active for the call
	CancelNamed { slot: usize },
	/// (directed histories only) a small send that requires no confirmations and takes every eligible output,
	/// unconfirmed change of a pending transaction included
	InitZeroConf { slot: usize },
	/// (directed histories only) a late-locked send: inputs are chosen and reserved at finalization
	InitLate { slot: usize },
}

#[derive(Clone, Debug, Serialize, Deserialize, Default)]
struct Slot {
	kind: String, // "send" | "invoice"
	id: String,
	s1: Option<String>,
	s2: Option<String>,
	s3_tx: Option<String>,
	lock_ok: u32,
	recv_ok: u32,
	fin_ok: u32,
	cancelled: bool,
	/// key paths of the inputs recorded by the harness at the (first) lock step
	lock_inputs: Vec<String>,
}

fn slots(w: &World) -> Vec<Option<Slot>> {
	serde_json::from_value(w.meta.extra["slots"].clone()).unwrap_or_else(|_| vec![None, None])
}

fn set_slots(w: &mut World, s: &[Option<Slot>]) {
	w.meta.extra["slots"] = serde_json::to_value(s).unwrap();
}

fn slot_ids(w: &World) -> Vec<Uuid> {
	slots(w)
		.iter()
		.map(|s| match s {
			Some(s) => Uuid::parse_str(&s.id).unwrap(),
			None => Uuid::nil(),
		})
		.collect()
}

pub struct M {
	pub nslots: usize,
}

fn counts(w: &World) -> (usize, usize, usize, usize, usize) {
	let a = w.w("A");
	let b = w.w("B");
	let ao = a.outputs();
	(
		a.txs().len(),
		ao.len(),
		ao.iter().filter(|o| o.status == OutputStatus::Locked).count(),
		b.txs().len(),
		b.outputs().len(),
	)
}

fn err_label(e: &crate::libwallet::Error) -> String {
	let s = format!("{:?}", e);
	let name: String = s.chars().take_while(|c| c.is_alphanumeric()).collect();
	format!("err:{}", name)
}

impl Model for M {
	type Op = Op;

	fn init(&self, dir: &str) {
		let mut w = World::create(dir, &[("A", "A"), ("B", "B"), ("M", "M")]);
		w.mine_n("A", 3);
		w.mine_n("M", 3);
		w.w("A").refresh().unwrap();
		w.w("B").refresh().unwrap();
		let s: Vec<Option<Slot>> = (0..self.nslots).map(|_| None).collect();
		set_slots(&mut w, &s);
		// background: a second account holds a live (locked, never finalised) send whose numeric
		// log id equals the id the first transaction of the default account will get (log ids are
		// per account), so that anything addressing transactions by bare id is exposed
		{
			let a = w.w("A");
			a.create_account("acct1").unwrap();
			a.set_account("acct1").unwrap();
			w.mine_n("A", 1);
			w.mine_n("M", 3);
			a.refresh().unwrap();
			let p1 = a.with(|b| b.parent_key_id());
			a.set_account("default").unwrap();
			a.refresh().unwrap();
			let p0 = a.with(|b| b.parent_key_id());
			let next0 = a.txs().iter().filter(|e| e.parent_key_id == p0).map(|e| e.id + 1).max().unwrap_or(0);
			a.set_account("acct1").unwrap();
			loop {
				let next1 = a.txs().iter().filter(|e| e.parent_key_id == p1).map(|e| e.id + 1).max().unwrap_or(0);
				if next1 >= next0 {
					break;
				}
				a.issue_invoice(IssueInvoiceTxArgs { amount: G, ..Default::default() }).unwrap();
			}
			// a third, funded account for sends that name their source account
			a.create_account("acct2").unwrap();
			a.set_account("acct2").unwrap();
			w.mine_n("A", 2);
			w.mine_n("M", 3);
			a.refresh().unwrap();
			a.set_account("acct1").unwrap();
			let bg = a.init_send(default_args(20 * G)).unwrap();
			a.lock(&bg).unwrap();
			a.set_account("default").unwrap();
			let inputs: Vec<String> = a.get_context(&bg.id).unwrap().input_ids.iter().map(|i| i.0.to_bip_32_string()).collect();
			w.meta.extra["background"] = json!({"id": bg.id.to_string(), "inputs": inputs});
		}
		w.close();
	}

	fn ops(&self, w: &World) -> Vec<Op> {
		let mut v = vec![];
		let sl = slots(w);
		for (i, s) in sl.iter().enumerate() {
			match s {
				None => {
					// slot symmetry: only the lowest empty slot may be initialised
					if sl.iter().take(i).all(|x| x.is_some()) {
						v.push(Op::Init { slot: i, use_all: false });
						v.push(Op::Init { slot: i, use_all: true });
						v.push(Op::InitInvoice { slot: i });
					}
				}
				Some(s) => {
					v.push(Op::Lock { slot: i });
					if s.kind == "send" {
						v.push(Op::Receive { slot: i });
					}
					if s.s2.is_some() {
						v.push(Op::Finalize { slot: i });
					}
					v.push(Op::Cancel { slot: i });
					if s.s3_tx.is_some() {
						v.push(Op::Post { slot: i });
					}
				}
			}
		}
		v.push(Op::Mine);
		v.push(Op::Refresh);
		v
	}

	fn step(&self, w: &mut World, op: &Op, out: &mut StepOut) {
		let mut sl = slots(w);
		let before = counts(w);
		let proj_before = self.project(w);
		match op {
			Op::Init { slot, use_all } => {
				let mut args = default_args(AMOUNT);
				args.selection_strategy_is_use_all = *use_all;
				match w.w("A").init_send(args) {
					Ok(s1) => {
						sl[*slot] = Some(Slot {
							kind: "send".into(),
							id: s1.id.to_string(),
							s1: Some(slate_to_json(&s1)),
							..Default::default()
						});
						out.label = "ok".into();
					}
					Err(e) => out.label = err_label(&e),
				}
			}
			Op::InitZeroConf { slot } => {
				let mut args = default_args(5 * G);
				args.minimum_confirmations = 0;
				args.selection_strategy_is_use_all = true;
				match w.w("A").init_send(args) {
					Ok(s1) => {
						sl[*slot] = Some(Slot { kind: "send".into(), id: s1.id.to_string(), s1: Some(slate_to_json(&s1)), ..Default::default() });
						out.label = "ok".into();
					}
					Err(e) => out.label = err_label(&e),
				}
			}
			Op::InitLate { slot } => {
				let mut args = default_args(AMOUNT);
				args.late_lock = Some(true);
				match w.w("A").init_send(args) {
					Ok(s1) => {
						sl[*slot] = Some(Slot { kind: "send".into(), id: s1.id.to_string(), s1: Some(slate_to_json(&s1)), ..Default::default() });
						out.label = "ok".into();
					}
					Err(e) => out.label = err_label(&e),
				}
			}
			Op::InitExact { slot } => {
				let exact = 60 * G - grin_core::libtx::tx_fee(1, 1, 1);
				match w.w("A").init_send(default_args(exact)) {
					Ok(s1) => {
						sl[*slot] = Some(Slot { kind: "send".into(), id: s1.id.to_string(), s1: Some(slate_to_json(&s1)), ..Default::default() });
						out.label = "ok".into();
					}
					Err(e) => out.label = err_label(&e),
				}
			}
			Op::InitNamed { slot } => {
				let mut args = default_args(AMOUNT);
				args.src_acct_name = Some("acct2".to_owned());
				match w.w("A").init_send(args) {
					Ok(s1) => {
						sl[*slot] = Some(Slot { kind: "send".into(), id: s1.id.to_string(), s1: Some(slate_to_json(&s1)), ..Default::default() });
						out.label = "ok".into();
					}
					Err(e) => out.label = err_label(&e),
				}
			}
			Op::CancelNamed { slot } => {
				let s = sl[*slot].as_mut().unwrap();
				let id = Uuid::parse_str(&s.id).unwrap();
				let a = w.w("A");
				a.set_account("acct2").unwrap();
				let r = a.cancel(None, Some(id));
				a.set_account("default").unwrap();
				match r {
					Ok(()) => {
						s.cancelled = true;
						out.label = "ok".into();
					}
					Err(e) => out.label = err_label(&e),
				}
			}
			Op::InitInvoice { slot } => {
				let r = w
					.w("B")
					.issue_invoice(IssueInvoiceTxArgs {
						amount: AMOUNT,
						..Default::default()
					})
					.and_then(|i1| w.w("A").process_invoice(&i1, default_args(0)));
				match r {
					Ok(i2) => {
						sl[*slot] = Some(Slot {
							kind: "invoice".into(),
							id: i2.id.to_string(),
							s1: Some(slate_to_json(&i2)),
							s2: Some(slate_to_json(&i2)),
							..Default::default()
						});
						out.label = "ok".into();
					}
					Err(e) => out.label = err_label(&e),
				}
			}
			Op::Lock { slot } => {
				let s = sl[*slot].as_mut().unwrap();
				let slate = slate_from_json(s.s1.as_ref().unwrap());
				let a = w.w("A");
				let ctx_inputs: Vec<String> = a
					.get_context(&slate.id)
					.map(|c| c.input_ids.iter().map(|i| i.0.to_bip_32_string()).collect())
					.unwrap_or_default();
				match a.lock(&slate) {
					Ok(()) => {
						if s.lock_ok > 0 || s.cancelled {
							// repeated reservation: must have no further effect
							let after = counts(w);
							if after != before {
								let why = if s.cancelled && s.lock_ok == 0 { "after-cancel" } else if s.cancelled { "after-lock-and-cancel" } else { "repeat" };
								out.problem(
									format!("replay/lock/{}", why),
									format!("tx_lock_outputs repeated for the same slate succeeded and changed (A entries, A outputs, A locked, B entries, B outputs) from {:?} to {:?}", before, after),
								);
							}
						}
						if s.lock_ok == 0 {
							s.lock_inputs = ctx_inputs;
						}
						s.lock_ok += 1;
						out.label = "ok".into();
					}
					Err(e) => out.label = err_label(&e),
				}
			}
			Op::Receive { slot } => {
				let s = sl[*slot].as_mut().unwrap();
				let slate = slate_from_json(s.s1.as_ref().unwrap());
				match w.w("B").receive(&slate, None) {
					Ok(s2) => {
						if s.recv_ok > 0 {
							let after = counts(w);
							if after != before {
								out.problem("replay/receive", format!("receive_tx repeated for the same slate succeeded and changed counts from {:?} to {:?}", before, after));
							}
						}
						s.recv_ok += 1;
						s.s2 = Some(slate_to_json(&s2));
						out.label = "ok".into();
					}
					Err(e) => out.label = err_label(&e),
				}
			}
			Op::Finalize { slot } => {
				let s = sl[*slot].as_mut().unwrap();
				let slate = slate_from_json(s.s2.as_ref().unwrap());
				let r = if s.kind == "send" {
					w.w("A").finalize(&slate)
				} else {
					w.w("B").foreign_finalize(&slate, false)
				};
				match r {
					Ok(s3) => {
						// (for an invoice it is the issuer that finalizes, and the payer's cancel does not take
						// back the signature it already handed over: only the sender's own finalization counts)
						if s.cancelled && s.kind == "send" {
							out.problem(
								"finalize-after-cancel",
								format!("finalization of the cancelled transaction in slot {} returned a transaction", slot),
							);
						}
						if s.fin_ok > 0 {
							let after = counts(w);
							if after != before {
								out.problem("replay/finalize", format!("finalize repeated for the same slate succeeded and changed counts from {:?} to {:?}", before, after));
							}
						}
						s.fin_ok += 1;
						s.s3_tx = Some(tx_to_hex(s3.tx_or_err().unwrap()));
						out.label = "ok".into();
					}
					Err(e) => out.label = err_label(&e),
				}
			}
			Op::Cancel { slot } => {
				let s = sl[*slot].as_mut().unwrap();
				let id = Uuid::parse_str(&s.id).unwrap();
				match w.w("A").cancel(None, Some(id)) {
					Ok(()) => {
						s.cancelled = true;
						out.label = "ok".into();
					}
					Err(e) => out.label = err_label(&e),
				}
			}
			Op::Post { slot } => {
				let s = sl[*slot].as_ref().unwrap();
				let tx = tx_from_hex(s.s3_tx.as_ref().unwrap());
				match w.w("A").post(&tx) {
					Ok(()) => out.label = "ok".into(),
					Err(e) => out.label = err_label(&e),
				}
			}
			Op::Mine => {
				w.mine("M").unwrap();
				out.label = "ok".into();
			}
			Op::Refresh => {
				// the counterparty keeps its books current too (a replay that reaches it after it has
				// seen the payment confirmed is part of the alphabet)
				let _ = w.w("B").refresh();
				match w.w("A").refresh() {
					Ok(_) => out.label = "ok".into(),
					Err(e) => out.label = err_label(&e),
				}
			}
		}
		set_slots(w, &sl);
		if out.label.starts_with("err") {
			// a refused step must not change the books (a refresh implied by the step may)
			match op {
				Op::Lock { .. } | Op::Receive { .. } | Op::Finalize { .. } => {
					// the statement speaks of log entries, outputs and reservations: the stored contexts are left
					// out of this comparison (a late-locked finalize that is refused at its reserve step has
					// already written the inputs it chose into the context; nothing is reserved by that)
					let strip = |v: &Value| {
						let mut v = v.clone();
						for wn in ["A", "B"].iter() {
							if let Some(o) = v[*wn].as_object_mut() {
								o.remove("contexts");
							}
							// (a key index that moved on reserves nothing either)
							if let Some(accts) = v[*wn]["accounts"].as_array_mut() {
								for a in accts.iter_mut() {
									a["child_index"] = json!(0);
								}
							}
						}
						v
					};
					let proj_after = self.project(w);
					if strip(&proj_after) != strip(&proj_before) {
						out.problem(
							format!("refused-step-changed-state/{}", op_kind(op)),
							format!("{:?} returned {} but changed the wallet state ({})", op, out.label, {
								let (a, b) = (strip(&proj_before), strip(&proj_after));
								let mut d = vec![];
								for wn in ["A", "B"].iter() {
									if let (Some(x), Some(y)) = (a[*wn].as_object(), b[*wn].as_object()) {
										for (k, v) in x.iter() {
											if y.get(k) != Some(v) {
												d.push(format!("{}.{}", wn, k));
											}
										}
									}
								}
								for k in ["slots", "height", "pool"].iter() {
									if a[*k] != b[*k] {
										d.push(k.to_string());
									}
								}
								d.join(", ")
							}),
						);
					}
				}
				_ => {}
			}
		}
	}

	fn check(&self, w: &World, out: &mut StepOut) {
		let a = w.w("A");
		let sl = slots(w);
		let outs = a.outputs();
		let txs = a.txs();
		// live = TxSent, unconfirmed
		struct Live {
			entry: u32,
			slate: Option<Uuid>,
			inputs: BTreeSet<String>,
		}
		let mut live: Vec<Live> = vec![];
		for t in txs.iter() {
			if t.tx_type != TxLogEntryType::TxSent || t.confirmed {
				continue;
			}
			let mut inputs = BTreeSet::new();
			if let Some(id) = t.tx_slate_id {
				// inputs named by the stored context count as reserved only when the entry records a
				// reservation (a late-locked slate handed to the reserve step gets an entry without inputs)
				if t.num_inputs > 0 {
					if let Ok(c) = a.get_context(&id) {
						for i in c.input_ids.iter() {
							inputs.insert(i.0.to_bip_32_string());
						}
					}
				}
				if let Ok(Some(tx)) = catch(|| a.stored_tx(&id)).unwrap_or(Ok(None)) {
					for inp in tx.inputs_committed() {
						if let Some(o) = outs.iter().find(|o| a.commit_of(o) == inp) {
							inputs.insert(o.key_id.to_bip_32_string());
						}
					}
				}
				for s in sl.iter().flatten() {
					if s.id == id.to_string() {
						for k in s.lock_inputs.iter() {
							inputs.insert(k.clone());
						}
					}
				}
				if w.meta.extra["background"]["id"] == json!(id.to_string()) {
					for k in w.meta.extra["background"]["inputs"].as_array().unwrap() {
						inputs.insert(k.as_str().unwrap().to_owned());
					}
				}
			}
			live.push(Live {
				entry: t.id,
				slate: t.tx_slate_id,
				inputs,
			});
		}
		for i in 0..live.len() {
			for j in i + 1..live.len() {
				if live[i].slate == live[j].slate {
					if live[i].slate.is_some() {
						// "never adds a second log entry": one slate, two live sent entries, however it came about
						out.problem(
							"second-log-entry/two-live-sent-entries-for-one-slate",
							format!("log entries {} and {} of wallet A are both live TxSent entries of slate {:?}", live[i].entry, live[j].entry, live[i].slate),
						);
					}
					continue;
				}
				let shared: Vec<&String> = live[i].inputs.intersection(&live[j].inputs).collect();
				if !shared.is_empty() {
					out.problem(
						"shared-input/two-live-sent-transactions",
						format!(
							"log entries {} and {} of wallet A are both live (TxSent, unconfirmed) and both spend {:?}",
							live[i].entry, live[j].entry, shared
						),
					);
				}
			}
		}
		// what a live transaction has reserved stays reserved until it is cancelled or confirmed
		for l in live.iter() {
			for k in l.inputs.iter() {
				if let Some(o) = outs.iter().find(|o| o.key_id.to_bip_32_string() == *k) {
					if o.status != OutputStatus::Locked && o.status != OutputStatus::Spent {
						out.problem(
							"live-transaction-input-released",
							format!("log entry {} (slate {:?}) is live but its input {} is {}", l.entry, l.slate, k, status_str(&o.status)),
						);
					}
				}
			}
		}
		// every Locked output is claimed by exactly the live entry it points to
		for o in outs.iter().filter(|o| o.status == OutputStatus::Locked) {
			let claimants = live
				.iter()
				.filter(|l| l.inputs.contains(&o.key_id.to_bip_32_string()))
				.count();
			if claimants > 1 && live.iter().filter(|l| l.inputs.contains(&o.key_id.to_bip_32_string())).map(|l| l.slate).collect::<BTreeSet<_>>().len() > 1 {
				// already reported above as shared-input
			}
		}
	}

	fn project(&self, w: &World) -> Value {
		let opts = ProjOpts {
			slots: slot_ids(w),
			heights: false, canon_ids: true };
		let sl = slots(w);
		let slot_v: Vec<Value> = sl
			.iter()
			.map(|s| match s {
				None => Value::Null,
				Some(s) => {
					let on_chain = s.s3_tx.as_ref().map(|h| {
						let tx = tx_from_hex(h);
						w.node.kernel_on_chain(&tx.kernels()[0].excess).is_some()
					});
					let in_pool = s.s3_tx.as_ref().map(|h| {
						let tx = tx_from_hex(h);
						w.node.mempool.lock().unwrap().iter().any(|t| t.kernels() == tx.kernels())
					});
					json!({"kind": s.kind, "s2": s.s2.is_some(), "s3": s.s3_tx.is_some(), "lock_ok": s.lock_ok.min(2), "recv_ok": s.recv_ok.min(2), "fin_ok": s.fin_ok.min(2), "cancelled": s.cancelled, "on_chain": on_chain, "in_pool": in_pool, "lock_inputs": s.lock_inputs})
				}
			})
			.collect();
		json!({
			"A": project_wallet(w.w("A"), &opts),
			"B": project_wallet(w.w("B"), &opts),
			"slots": slot_v,
			"height": w.node.height(),
			"pool": w.node.mempool_len(),
		})
	}
}

use crate::core::core::Committed;

fn op_kind(op: &Op) -> &'static str {
	match op {
		Op::Init { .. } => "init",
		Op::InitInvoice { .. } => "init-invoice",
		Op::Lock { .. } => "lock",
		Op::Receive { .. } => "receive",
		Op::Finalize { .. } => "finalize",
		Op::Cancel { .. } => "cancel",
		Op::Post { .. } => "post",
		Op::Mine => "mine",
		Op::Refresh => "refresh",
		Op::InitNamed { .. } => "init-named",
		Op::InitExact { .. } => "init-exact",
		Op::CancelNamed { .. } => "cancel-named",
		Op::InitZeroConf { .. } => "init-zero-conf",
		Op::InitLate { .. } => "init-late",
	}
}

pub fn replay(payload: &Value) -> i32 {
	let path: Vec<Op> = serde_json::from_value(payload["path"].clone()).unwrap();
	let m = M { nslots: payload["slots"].as_u64().unwrap_or(2) as usize };
	let dir = format!("{}/c03-replay", scratch_root());
	match run_path(&m, &dir, &path) {
		Ok(p) => {
			println!("path {:?}\nproblems at last step: {:?}", path, p);
			if p.is_empty() {
				0
			} else {
				1
			}
		}
		Err(e) => {
			println!("replay failed: {}", e);
			2
		}
	}
}

pub fn run(_args: &[String]) -> i32 {
	let mut rep = Report::new("C03", "model_checking");
	let thorough = tier() == Tier::Thorough;
	let m = M { nslots: 2 };
	let caps = Caps {
		max_depth: if thorough { 8 } else { 5 },
		wall: Duration::from_secs(if thorough { 2400 } else { 40 }),
		max_states: if thorough { 60_000 } else { 20_000 },
		min_depth: 3,
	};
	let e = explore(&m, "c03", &caps);
	report_explored(&mut rep, "C03", "bfs", &e);
	// directed histories beyond the BFS depth: a complete exchange, confirmed and seen by both
	// wallets, then every step of it repeated
	let mut directed = 0usize;
	{
		let send: Vec<Op> = vec![Op::Init { slot: 0, use_all: false }, Op::Receive { slot: 0 }, Op::Lock { slot: 0 }, Op::Finalize { slot: 0 }, Op::Post { slot: 0 }, Op::Mine, Op::Refresh];
		let inv: Vec<Op> = vec![Op::InitInvoice { slot: 0 }, Op::Lock { slot: 0 }, Op::Finalize { slot: 0 }, Op::Post { slot: 0 }, Op::Mine, Op::Refresh];
		let mut paths: Vec<Vec<Op>> = vec![];
		for base in [send, inv].iter() {
			for again in [Op::Receive { slot: 0 }, Op::Lock { slot: 0 }, Op::Finalize { slot: 0 }, Op::Cancel { slot: 0 }, Op::Post { slot: 0 }].iter() {
				if base.iter().any(|o| std::mem::discriminant(o) == std::mem::discriminant(again)) || matches!(again, Op::Cancel { .. }) {
					let mut p = base.clone();
					p.push(again.clone());
					paths.push(p.clone());
					p.push(Op::Mine);
					p.push(Op::Refresh);
					paths.push(p);
				}
			}
		}
		// a send from a named (non-active) account: reserved, cancelled, then every step repeated
		for again in [Op::Lock { slot: 0 }, Op::Receive { slot: 0 }] {
			paths.push(vec![Op::InitNamed { slot: 0 }, Op::Lock { slot: 0 }, Op::CancelNamed { slot: 0 }, again.clone()]);
			paths.push(vec![Op::InitNamed { slot: 0 }, Op::Receive { slot: 0 }, Op::Lock { slot: 0 }, Op::CancelNamed { slot: 0 }, again.clone()]);
		}
		paths.push(vec![Op::InitNamed { slot: 0 }, Op::Lock { slot: 0 }, Op::Lock { slot: 0 }]);
		// a cancelled transaction (with and without change) whose reply arrives after its outputs
		// have been reserved by another one
		for first in [Op::InitExact { slot: 0 }, Op::Init { slot: 0, use_all: false }, Op::Init { slot: 0, use_all: true }] {
			paths.push(vec![first.clone(), Op::Lock { slot: 0 }, Op::Receive { slot: 0 }, Op::Cancel { slot: 0 }, Op::Finalize { slot: 0 }]);
			paths.push(vec![first.clone(), Op::Lock { slot: 0 }, Op::Receive { slot: 0 }, Op::Cancel { slot: 0 }, Op::Init { slot: 1, use_all: true }, Op::Lock { slot: 1 }, Op::Finalize { slot: 0 }]);
		}
		// zero-confirmation sends over the unconfirmed change of a pending transaction: a reservation must
		// take an unconfirmed output out of the next selection as well (three slates: a third slot)
		let m3 = M { nslots: 3 };
		let zero: Vec<Vec<Op>> = vec![
			vec![Op::Init { slot: 0, use_all: false }, Op::Lock { slot: 0 }, Op::InitZeroConf { slot: 1 }, Op::Lock { slot: 1 }, Op::InitZeroConf { slot: 2 }, Op::Lock { slot: 2 }],
			vec![Op::Init { slot: 0, use_all: false }, Op::Lock { slot: 0 }, Op::Receive { slot: 0 }, Op::Finalize { slot: 0 }, Op::Post { slot: 0 }, Op::InitZeroConf { slot: 1 }, Op::Lock { slot: 1 }, Op::InitZeroConf { slot: 2 }, Op::Lock { slot: 2 }],
			vec![Op::Init { slot: 0, use_all: false }, Op::Lock { slot: 0 }, Op::InitZeroConf { slot: 1 }, Op::InitZeroConf { slot: 2 }, Op::Lock { slot: 1 }, Op::Lock { slot: 2 }],
		];
		// late-locked sends: the reservation happens inside finalize; an explicit reserve step before or after,
		// and a repeated finalize, must not add a second entry or reservation
		let mut zero = zero;
		zero.push(vec![Op::InitLate { slot: 0 }, Op::Receive { slot: 0 }, Op::Finalize { slot: 0 }]);
		zero.push(vec![Op::InitLate { slot: 0 }, Op::Lock { slot: 0 }, Op::Receive { slot: 0 }, Op::Finalize { slot: 0 }]);
		zero.push(vec![Op::InitLate { slot: 0 }, Op::Receive { slot: 0 }, Op::Lock { slot: 0 }, Op::Finalize { slot: 0 }]);
		zero.push(vec![Op::InitLate { slot: 0 }, Op::Receive { slot: 0 }, Op::Finalize { slot: 0 }, Op::Lock { slot: 0 }]);
		zero.push(vec![Op::InitLate { slot: 0 }, Op::Receive { slot: 0 }, Op::Finalize { slot: 0 }, Op::Finalize { slot: 0 }]);
		let root = scratch_root();
		let zres = par_map(&zero, workers(), |i, p| run_path(&m3, &format!("{}/c03-z{}", root, i), p));
		for (p, r) in zero.iter().zip(zres.into_iter()) {
			directed += p.len();
			match r {
				Ok(problems) => {
					for (k, v) in problems {
						rep.add_finding(Finding { key: format!("C03/{}", k), what: format!("{} — after {:?}", v, p), replay: json!({"path": p, "slots": 3}) });
					}
				}
				Err(e) => return rep.finish(Some(format!("directed path {:?}: {}", p, e))),
			}
		}
		let res = par_map(&paths, workers(), |i, p| {
			// every prefix end is checked by run_path only at the last step: run the two tails separately
			run_path(&m, &format!("{}/c03-d{}", root, i), p)
		});
		for (p, r) in paths.iter().zip(res.into_iter()) {
			directed += p.len();
			match r {
				Ok(problems) => {
					for (k, v) in problems {
						rep.add_finding(Finding { key: format!("C03/{}", k), what: format!("{} — after {:?}", v, p), replay: json!({"path": p}) });
					}
				}
				Err(e) => return rep.finish(Some(format!("directed path {:?}: {}", p, e))),
			}
		}
		rep.cov("directed_paths", json!(paths.len()));
	}
	rep.cov("states", json!(e.states));
	rep.cov("transitions", json!(e.transitions + directed));
	rep.cov("traces_validated_against_impl", json!(e.transitions + directed));
	rep.cov("evaluations", json!(e.transitions + directed));
	rep.cov("distinct_nontrivial", json!(e.states));
	rep.cov("rule", json!("breadth-first search over operation histories on a real two-wallet world; states deduplicated by canonical projection; distinct_nontrivial = distinct reachable states"));
	rep.cov("exhaustive", json!(e.cap_hit.is_none()));
	rep.cov("bound", json!({"max_depth": caps.max_depth, "completed_depth": e.completed_depth, "slate_slots": 2, "wallet_A_outputs": 3}));
	rep.cov("samples", json!(e.sample_paths));
	rep.assume("two concurrent slates, one sending wallet with three mature outputs, one account; histories up to the completed depth");
	let ok_labels: u64 = e.labels.iter().filter(|(k, _)| k.ends_with(":ok")).map(|(_, v)| *v).sum();
	let err_labels: u64 = e.labels.iter().filter(|(k, _)| k.contains(":err")).map(|(_, v)| *v).sum();
	let mut mach = e.machinery_error.clone();
	if mach.is_none() && (e.states < 50 || ok_labels < 50 || err_labels < 10 || e.completed_depth < 3) {
		mach = Some(format!("vacuity guard: states={} ok={} err={} depth={}", e.states, ok_labels, err_labels, e.completed_depth));
	}
	rep.finish(mach)
}
