//! C15 — no key derivation path is ever used for two outputs.
//! E2: BFS over histories of output-creating operations on two accounts of wallet A
//! (receive, receive into the other account, send with change, coinbase new / re-request /
//! foreign key id, invoice, build_output, mine, account switch, restart, and crashes at
//! every persistent effect inside receive / send / coinbase). A monitor fed by the backend
//! decorator checks every key hand-out and every output record written; in every state a
//! fresh wallet is restored from the seed and its next key paths compared with the chain.

use crate::common::*;
use crate::explore::*;
use crate::inject::{Event, Fault};
use crate::keychain::{ExtKeychainPath, Identifier};
use crate::libwallet::api_impl::{foreign, owner};
use crate::libwallet::{BlockFees, IssueInvoiceTxArgs, OutputStatus};
use crate::world::*;
use grin_core::core::OutputFeatures;
use serde_json::{json, Value};
use std::collections::{BTreeMap, BTreeSet};
use std::time::Duration;

const G: u64 = 1_000_000_000;

#[derive(Clone, Debug, Serialize, Deserialize, PartialEq)]
pub enum Op {
	Receive { crash: Option<u64> },
	ReceiveOtherAcct,
	Send { crash: Option<u64> },
	/// a send with two change outputs whose source is the other account, named while this one is active
	SendNamed,
	CoinbaseNew { crash: Option<u64> },
	CoinbaseRerequest,
	CoinbaseForeignKey,
	/// cancel the latest unconfirmed incoming payment of the active account: its output record
	/// is deleted, its path stays consumed
	CancelReceive,
	/// a coinbase request naming a path that was bound to an output whose record no longer exists
	CoinbaseDeletedKey,
	Invoice,
	BuildOutput,
	Mine,
	Switch,
	Restart,
}

/// persistent monitor state (kept in meta because the world is reopened for every transition)
#[derive(Clone, Debug, Serialize, Deserialize, Default)]
struct Mon {
	/// account path -> child paths handed out by next_child
	handed: BTreeMap<String, Vec<String>>,
	/// key path -> (value, is_coinbase, last status) of the output bound to it
	bound: BTreeMap<String, (u64, bool, String)>,
	active: String,
	last_candidate: Option<String>,
}

fn mon(w: &World) -> Mon {
	serde_json::from_value(w.meta.extra["mon"].clone()).unwrap_or_default()
}

pub struct M {
	pub with_crashes: bool,
}

fn drain(w: &World, m: &mut Mon, out: &mut StepOut, op: &Op) {
	let events: Vec<Event> = {
		let mut s = w.w("A").inj.lock().unwrap();
		s.events.drain(..).collect()
	};
	for e in events {
		match e {
			Event::NextChild(parent, child) => {
				let l = m.handed.entry(parent.to_bip_32_string()).or_default();
				let c = child.to_bip_32_string();
				if l.contains(&c) || m.bound.contains_key(&c) {
					out.problem(
						"path-handed-out-twice",
						format!("{:?}: next_child returned {} which was already handed out or is bound to an output", op, c),
					);
				}
				l.push(c);
			}
			Event::Save(o) => {
				let k = o.key_id.to_bip_32_string();
				let new = (o.value, o.is_coinbase, status_str(&o.status).to_owned());
				match m.bound.get(&k) {
					None => {
						let handed = m.handed.values().any(|l| l.contains(&k));
						let restored = o.mmr_index.is_some();
						if !handed && !restored {
							out.problem(
								"output-on-path-never-handed-out",
								format!("{:?}: an output record was written for {} which next_child never handed out", op, k),
							);
						}
						m.bound.insert(k, new);
					}
					Some(old) => {
						if old.0 == new.0 && old.1 == new.1 {
							m.bound.insert(k, new); // status update of the same output
						} else {
							let candidate_replaced = old.1 && new.1 && old.2 == "Unconfirmed";
							if !candidate_replaced {
								out.problem(
									format!("path-reused/{}", op_kind(op)),
									format!("{:?}: key path {} was bound to an output (value {}, coinbase {}, {}) and is now used for a different one (value {}, coinbase {})", op, k, old.0, old.1, old.2, new.0, new.1),
								);
							}
							m.bound.insert(k, new);
						}
					}
				}
			}
			Event::Delete(id, _) => {
				// a deleted record leaves its path burnt: keep the binding so that reuse is reported
				let _ = id;
			}
			Event::SaveTx(_) => {}
		}
	}
}

fn op_kind(op: &Op) -> &'static str {
	match op {
		Op::Receive { .. } => "receive",
		Op::ReceiveOtherAcct => "receive-other-account",
		Op::Send { .. } => "send",
		Op::SendNamed => "send-named",
		Op::CoinbaseNew { .. } => "coinbase-new",
		Op::CoinbaseRerequest => "coinbase-rerequest",
		Op::CoinbaseForeignKey => "coinbase-foreign-key",
		Op::CancelReceive => "cancel-receive",
		Op::CoinbaseDeletedKey => "coinbase-deleted-key",
		Op::Invoice => "invoice",
		Op::BuildOutput => "build-output",
		Op::Mine => "mine",
		Op::Switch => "switch",
		Op::Restart => "restart",
	}
}

fn other(label: &str) -> &'static str {
	if label == "default" {
		"acct1"
	} else {
		"default"
	}
}

impl Model for M {
	type Op = Op;

	fn init(&self, dir: &str) {
		let mut w = World::create(dir, &[("A", "A"), ("B", "B"), ("M", "M")]);
		w.w("A").create_account("acct1").unwrap();
		w.mine_n("A", 2);
		w.w("A").set_account("acct1").unwrap();
		w.mine_n("A", 1);
		w.w("A").set_account("default").unwrap();
		w.mine_n("B", 3);
		w.mine_n("M", 3);
		w.w("A").refresh().unwrap();
		w.w("B").refresh().unwrap();
		// seed the monitor with what exists: every record is bound, every used index handed out
		let mut m = Mon { active: "default".into(), ..Default::default() };
		let mut dummy = StepOut::default();
		drain(&w, &mut m, &mut dummy, &Op::Restart);
		w.meta.extra["mon"] = serde_json::to_value(&m).unwrap();
		w.close();
	}

	fn ops(&self, _w: &World) -> Vec<Op> {
		let mut v = vec![
			Op::Receive { crash: None },
			Op::ReceiveOtherAcct,
			Op::Send { crash: None },
			Op::SendNamed,
			Op::CoinbaseNew { crash: None },
			Op::CoinbaseRerequest,
			Op::CoinbaseForeignKey,
			Op::CancelReceive,
			Op::CoinbaseDeletedKey,
			Op::Invoice,
			Op::BuildOutput,
			Op::Mine,
			Op::Switch,
			Op::Restart,
		];
		if self.with_crashes {
			for k in 0..4 {
				v.push(Op::Receive { crash: Some(k) });
				v.push(Op::Send { crash: Some(k) });
				if k < 2 {
					v.push(Op::CoinbaseNew { crash: Some(k) });
				}
			}
		}
		v
	}

	fn step(&self, w: &mut World, op: &Op, out: &mut StepOut) {
		let mut m = mon(w);
		w.w("A").set_account(&m.active).unwrap();
		let a = w.w("A");
		let b = w.w("B");
		let arm = |crash: &Option<u64>| {
			a.inj.lock().unwrap().reset(crash.map(|k| (k, Fault::CrashAfter)));
		};
		let res: Result<Result<(), crate::libwallet::Error>, String> = match op {
			Op::Receive { crash } => {
				let s = b.init_send(default_args(G)).and_then(|s| b.lock(&s).map(|_| s));
				match s {
					Ok(s) => {
						arm(crash);
						catch(|| a.receive(&s, None).map(|_| ()))
					}
					Err(e) => Ok(Err(e)),
				}
			}
			Op::ReceiveOtherAcct => {
				let s = b.init_send(default_args(G)).and_then(|s| b.lock(&s).map(|_| s));
				match s {
					Ok(s) => catch(|| a.receive(&s, Some(other(&m.active))).map(|_| ())),
					Err(e) => Ok(Err(e)),
				}
			}
			Op::Send { crash } => {
				arm(crash);
				catch(|| {
					let mut args = default_args(2 * G);
					args.num_change_outputs = 2;
					let s = a.init_send(args)?;
					a.lock(&s)
				})
			}
			Op::SendNamed => catch(|| {
				let mut args = default_args(2 * G);
				args.num_change_outputs = 2;
				args.src_acct_name = Some(other(&m.active).to_owned());
				let s = a.init_send(args)?;
				a.lock(&s)
			}),
			Op::CoinbaseNew { crash } => {
				arm(crash);
				let bf = BlockFees { fees: 0, key_id: None, height: w.node.height() + 1 };
				catch(|| {
					let cb = a.with(|x| foreign::build_coinbase(x, None, &bf, false))?;
					m.last_candidate = cb.key_id.map(|k| crate::util::ToHex::to_hex(&k.to_bytes().to_vec()));
					Ok(())
				})
			}
			Op::CoinbaseRerequest => match m.last_candidate.clone() {
				None => Ok(Ok(())),
				Some(h) => {
					let bf = BlockFees { fees: 1_000_000, key_id: Some(Identifier::from_hex(&h).unwrap()), height: w.node.height() + 1 };
					catch(|| a.with(|x| foreign::build_coinbase(x, None, &bf, false)).map(|_| ()))
				}
			},
			Op::CoinbaseForeignKey => {
				let k = a.outputs().into_iter().find(|o| o.status == OutputStatus::Unspent).map(|o| o.key_id);
				match k {
					None => Ok(Ok(())),
					Some(k) => {
						let bf = BlockFees { fees: 0, key_id: Some(k), height: w.node.height() + 1 };
						catch(|| a.with(|x| foreign::build_coinbase(x, None, &bf, false)).map(|_| ()))
					}
				}
			}
			Op::CancelReceive => {
				let parent = a.with(|x| x.parent_key_id());
				let t = a.txs().into_iter().filter(|t| t.parent_key_id == parent && t.tx_type == crate::libwallet::TxLogEntryType::TxReceived && !t.confirmed).last();
				match t {
					None => Ok(Ok(())),
					Some(t) => catch(|| a.cancel(Some(t.id), None)),
				}
			}
			Op::CoinbaseDeletedKey => {
				let prefix = format!("{}/", acct_path(&m.active));
				let existing: BTreeSet<String> = a.outputs().iter().map(|o| o.key_id.to_bip_32_string()).collect();
				let k = m.bound.keys().find(|k| k.starts_with(&prefix) && !existing.contains(*k)).cloned();
				match k {
					None => Ok(Ok(())),
					Some(k) => {
						let id = path_to_id(&k);
						let bf = BlockFees { fees: 0, key_id: Some(id), height: w.node.height() + 1 };
						catch(|| a.with(|x| foreign::build_coinbase(x, None, &bf, false)).map(|_| ()))
					}
				}
			}
			Op::Invoice => catch(|| a.issue_invoice(IssueInvoiceTxArgs { amount: G, ..Default::default() }).map(|_| ())),
			Op::BuildOutput => catch(|| a.with(|x| owner::build_output(x, None, OutputFeatures::Plain, 5 * G)).map(|_| ())),
			Op::Mine => catch(|| w.mine("A")),
			Op::Switch => {
				m.active = other(&m.active).to_owned();
				Ok(Ok(()))
			}
			Op::Restart => Ok(Ok(())),
		};
		a.inj.lock().unwrap().reset(None);
		out.label = match &res {
			Ok(Ok(())) => "ok".into(),
			Ok(Err(e)) => format!("err:{}", format!("{:?}", e).chars().take_while(|c| c.is_alphanumeric()).collect::<String>()),
			Err(p) if p == "__crash_sentinel__" => "crashed".into(),
			Err(p) => {
				let site = take_last_panic().map(|x| panic_site(&x.1)).unwrap_or_default();
				out.problem(format!("panic/{}/{}", op_kind(op), site), format!("{:?} panicked: {}", op, p));
				"panic".into()
			}
		};
		// build_output hands out a key without writing a record: it is bound from then on
		drain(w, &mut m, out, op);
		if *op == Op::BuildOutput && out.label == "ok" {
			if let Some(l) = m.handed.get(&crate::props::c15::acct_path(&m.active)) {
				if let Some(k) = l.last() {
					m.bound.entry(k.clone()).or_insert((5 * G, false, "built".into()));
				}
			}
		}
		w.meta.extra["mon"] = serde_json::to_value(&m).unwrap();
		if out.label == "crashed" || *op == Op::Restart {
			// process death / restart: every handle is dropped and the wallet reopened by the explorer
			w.reopen_wallet("A");
		}
	}

	fn check(&self, w: &World, out: &mut StepOut) {
		let a = w.w("A");
		let outs = a.outputs();
		// all key paths and all commitments of the wallet are distinct
		let mut keys = BTreeSet::new();
		let mut commits = BTreeSet::new();
		for o in outs.iter() {
			if !keys.insert((o.key_id.to_bip_32_string(), o.mmr_index)) {
				out.problem("duplicate-key-record", format!("two records for key {}", o.key_id.to_bip_32_string()));
			}
			if !commits.insert(a.commit_of(o).0.to_vec()) {
				out.problem("duplicate-commitment", format!("two outputs share the commitment of {}", o.key_id.to_bip_32_string()));
			}
		}
		let mut by_path: BTreeMap<String, Vec<(u64, bool)>> = BTreeMap::new();
		for o in outs.iter() {
			by_path.entry(o.key_id.to_bip_32_string()).or_default().push((o.value, o.is_coinbase));
		}
		for (k, v) in by_path {
			if v.len() > 1 && v.iter().any(|x| *x != v[0]) {
				out.problem("path-shared-by-two-outputs", format!("key path {} carries two different outputs {:?}", k, v));
			}
		}
		// restore from seed at this state: next paths lie beyond everything found on chain
		// (done on a scratch copy of the chain view: a new wallet directory inside this world)
		let dir = WalletH::data_dir(&w.dir, "R");
		let _ = std::fs::remove_dir_all(std::path::Path::new(&dir).parent().unwrap());
		let r = WalletH::open(&w.dir, "R", "A", &w.node);
		match catch(|| r.scan(Some(1), false)) {
			Ok(Ok(())) => {
				let owned = chain_owned(&w.node, "A");
				let mut max_child: BTreeMap<Identifier, u32> = BTreeMap::new();
				for x in owned.iter() {
					let p = x.key_id.parent_path();
					let n = x.key_id.to_path().last_path_index();
					let e = max_child.entry(p).or_insert(0);
					if n > *e {
						*e = n;
					}
				}
				for (p, n) in max_child {
					let idx = r.with(|b| b.current_child_index(&p).unwrap());
					if idx <= n {
						out.problem(
							"restore/next-path-not-beyond-chain",
							format!("after restore and scan the next child index of account {} is {} but an output with index {} is on chain", p.to_bip_32_string(), idx, n),
						);
					}
				}
			}
			Ok(Err(e)) => out.problem("restore/scan-error", format!("scan of the restored wallet failed: {}", e)),
			Err(p) => out.problem("restore/scan-panics", p),
		}
		drop(r);
		let _ = std::fs::remove_dir_all(std::path::Path::new(&dir).parent().unwrap());
	}

	fn project(&self, w: &World) -> Value {
		let opts = ProjOpts { slots: vec![], heights: false, canon_ids: true };
		let m = mon(w);
		json!({
			"A": project_wallet(w.w("A"), &opts),
			"active": m.active,
			"candidate": m.last_candidate.is_some(),
			"handed": m.handed,
			"height": w.node.height(),
		})
	}
}

fn path_to_id(p: &str) -> Identifier {
	let n: Vec<u32> = p.trim_start_matches("m/").split('/').map(|x| x.parse().unwrap()).collect();
	let g = |i: usize| n.get(i).cloned().unwrap_or(0);
	<crate::keychain::ExtKeychain as crate::keychain::Keychain>::derive_key_id(n.len() as u8, g(0), g(1), g(2), g(3))
}

pub fn acct_path(label: &str) -> String {
	if label == "acct1" { "m/1/0".into() } else { "m/0/0".into() }
}

pub fn replay(payload: &Value) -> i32 {
	std::env::set_var("GWV_SHOW_PANICS", "1");
	if payload["kind"] == "same-instance" {
		let (n, p) = same_instance_cases(&scratch_root());
		println!("{} same-instance cases, problems: {:?}", n, p.iter().map(|x| (&x.0, &x.1)).collect::<Vec<_>>());
		return if p.is_empty() { 0 } else { 1 };
	}
	if payload["kind"] == "confirm-order" {
		let only = (
			payload["k"].as_u64().unwrap() as usize,
			payload["perm"].as_array().unwrap().iter().map(|x| x.as_u64().unwrap() as usize).collect::<Vec<_>>(),
			payload["one_block"].as_bool().unwrap(),
			payload["change"].as_u64().unwrap() as usize,
		);
		return match confirm_order_cases(&scratch_root(), Some(only)) {
			Ok((_, p)) => {
				println!("problems: {:?}", p.iter().map(|x| (&x.0, &x.1)).collect::<Vec<_>>());
				if p.is_empty() { 0 } else { 1 }
			}
			Err(e) => {
				println!("replay failed: {}", e);
				2
			}
		};
	}
	let path: Vec<Op> = serde_json::from_value(payload["path"].clone()).unwrap();
	let m = M { with_crashes: true };
	match run_path(&m, &format!("{}/c15-replay", scratch_root()), &path) {
		Ok(p) => {
			println!("path {:?}\nproblems at last step: {:?}", path, p);
			if p.is_empty() { 0 } else { 1 }
		}
		Err(e) => {
			println!("replay failed: {}", e);
			2
		}
	}
}

/// One wallet instance that stays open (the BFS reopens every handle between transitions, so state
/// an instance keeps in memory never survives a step there): it derives keys, a second instance of
/// the same seed puts outputs with higher indices on chain, the first instance scans and derives
/// again. For every order of {receive, build_output, coinbase} as the key-deriving calls.
fn same_instance_cases(root: &str) -> (u64, Vec<(String, String, Value)>) {
	let mut problems = vec![];
	let mut n = 0u64;
	let derivers = ["receive", "build_output", "coinbase"];
	for first in derivers.iter() {
		for second in derivers.iter() {
			n += 1;
			let dir = format!("{}/c15-same-{}-{}", root, first, second);
			let mut w = World::create(&dir, &[("A", "A"), ("B", "B"), ("M", "M")]);
			w.mine_n("A", 2);
			w.mine_n("B", 3);
			w.mine_n("M", 3);
			w.w("A").refresh().unwrap();
			w.w("B").refresh().unwrap();
			let derive = |w: &World, how: &str| -> Option<String> {
				let a = w.w("A");
				let before: BTreeSet<String> = a.outputs().iter().map(|o| o.key_id.to_bip_32_string()).collect();
				match how {
					"receive" => {
						let b = w.w("B");
						let s = b.init_send(default_args(G)).and_then(|s| b.lock(&s).map(|_| s)).ok()?;
						a.receive(&s, None).ok()?;
						a.outputs().iter().map(|o| o.key_id.to_bip_32_string()).find(|k| !before.contains(k))
					}
					"build_output" => a.with(|x| owner::build_output(x, None, OutputFeatures::Plain, 5 * G)).ok().map(|o| o.key_id.to_bip_32_string()),
					_ => {
						let bf = BlockFees { fees: 0, key_id: None, height: w.node.height() + 1 };
						a.with(|x| foreign::build_coinbase(x, None, &bf, false)).ok().and_then(|c| c.key_id).map(|k| k.to_bip_32_string())
					}
				}
			};
			let k1 = derive(&w, first);
			// a second instance of the same seed (restored elsewhere) earns two rewards
			w.add_wallet("A2", "A");
			w.w("A2").scan(Some(1), false).unwrap();
			w.mine_n("A2", 2);
			w.mine_n("M", 3);
			// the first instance, still open, scans and derives again
			w.w("A").scan(Some(1), false).unwrap();
			let k2 = derive(&w, second);
			let on_chain: Vec<String> = chain_owned(&w.node, "A").iter().map(|x| x.key_id.to_bip_32_string()).collect();
			if let Some(k2) = k2.as_ref() {
				let idx = |p: &str| p.rsplit('/').next().and_then(|x| x.parse::<u32>().ok()).unwrap_or(0);
				let max_chain = on_chain.iter().filter(|p| p.starts_with("m/0/0/")).map(|p| idx(p)).max().unwrap_or(0);
				if on_chain.contains(k2) || Some(k2) == k1.as_ref() || idx(k2) <= max_chain {
					problems.push((
						"same-instance/next-path-not-beyond-chain".to_owned(),
						format!("a wallet instance derived {:?} ({}), scanned after another instance of its seed had put outputs up to index {} on chain, and then derived {} ({})", k1, first, max_chain, k2, second),
						json!({"kind": "same-instance", "first": first, "second": second}),
					));
				}
			}
			w.close();
			let _ = std::fs::remove_dir_all(&dir);
		}
	}
	(n, problems)
}

fn permutations(n: usize) -> Vec<Vec<usize>> {
	fn rec(cur: &mut Vec<usize>, used: &mut Vec<bool>, out: &mut Vec<Vec<usize>>) {
		if cur.len() == used.len() {
			out.push(cur.clone());
			return;
		}
		for i in 0..used.len() {
			if !used[i] {
				used[i] = true;
				cur.push(i);
				rec(cur, used, out);
				cur.pop();
				used[i] = false;
			}
		}
	}
	let mut out = vec![];
	rec(&mut vec![], &mut vec![false; n], &mut out);
	out
}

/// one confirmation-order case; returns (finding key suffix, description) if the restored wallet is wrong
fn confirm_order_case(root: &str, k: usize, perm: &[usize], one_block: bool, change: usize) -> Result<Option<(String, String)>, String> {
	let dir = format!("{}/c15-order-{}-{}-{}-{}", root, k, perm.iter().map(|x| x.to_string()).collect::<Vec<_>>().join(""), one_block, change);
	let w = World::create(&dir, &[("A", "A"), ("B", "B"), ("M", "M")]);
	let r = (|| -> Result<Option<(String, String)>, crate::libwallet::Error> {
		w.mine_n("A", if change > 0 { 1 } else { 0 });
		w.mine_n("B", 4);
		w.mine_n("M", 3);
		w.w("A").refresh()?;
		w.w("B").refresh()?;
		let a = w.w("A");
		let b = w.w("B");
		// keys are derived in this order ...
		let mut txs = vec![];
		for _ in 0..k {
			let s1 = b.init_send(default_args(G))?;
			b.lock(&s1)?;
			let s2 = a.receive(&s1, None)?;
			let s3 = b.finalize(&s2)?;
			txs.push(s3.tx_or_err()?.clone());
		}
		if change > 0 {
			// the wallet's own send: its change outputs sit in one block, ordered by commitment
			let mut args = default_args(2 * G);
			args.num_change_outputs = change as u32;
			let s1 = a.init_send(args)?;
			a.lock(&s1)?;
			let s2 = b.receive(&s1, None)?;
			let s3 = a.finalize(&s2)?;
			a.post(s3.tx_or_err()?)?;
			w.mine("M")?;
		}
		// ... and confirmed in that one
		for i in perm.iter() {
			b.post(&txs[*i])?;
			if !one_block {
				w.mine("M")?;
			}
		}
		if one_block {
			w.mine("M")?;
		}
		w.mine_n("M", 1);
		let owned = chain_owned(&w.node, "A");
		let parent = ExtKeychainPath::new(2, 0, 0, 0, 0).to_identifier();
		let on_chain: Vec<u32> = owned.iter().filter(|x| x.key_id.parent_path() == parent).map(|x| x.key_id.to_path().last_path_index()).collect();
		if on_chain.len() < k {
			return Err(crate::libwallet::Error::GenericError(format!("only {} of the wallet's outputs reached the chain", on_chain.len())));
		}
		let max_chain = *on_chain.iter().max().unwrap();
		// restore from the seed
		let rw = WalletH::open(&w.dir, "R", "A", &w.node);
		rw.scan(Some(1), false)?;
		let idx = rw.with(|x| x.current_child_index(&parent))?;
		if idx <= max_chain {
			return Ok(Some((
				"restore/next-path-not-beyond-chain/confirmation-order".to_owned(),
				format!("outputs with child indices {:?} (chain order) are on chain; after restore and scan the next child index is {} (not beyond {})", on_chain, idx, max_chain),
			)));
		}
		// and the next key really is a new one
		let s1 = b.init_send(default_args(G))?;
		b.lock(&s1)?;
		rw.receive(&s1, None)?;
		let chain_keys: BTreeSet<String> = owned.iter().map(|x| x.key_id.to_bip_32_string()).collect();
		let mut seen = BTreeSet::new();
		for o in rw.outputs() {
			let kp = o.key_id.to_bip_32_string();
			if !seen.insert(kp.clone()) || (o.status == OutputStatus::Unconfirmed && chain_keys.contains(&kp)) {
				return Ok(Some((
					"restore/path-handed-out-twice/confirmation-order".to_owned(),
					format!("the restored wallet bound path {} to a new output although an output on chain uses it (chain order of indices {:?})", kp, on_chain),
				)));
			}
		}
		Ok(None)
	})();
	w.close();
	let _ = std::fs::remove_dir_all(&dir);
	r.map_err(|e| format!("confirmation-order case k={} perm={:?} one_block={} change={}: {}", k, perm, one_block, change, e))
}

/// The order in which outputs reach the chain is not the order in which their keys were derived: a key
/// is bound when a slate is received, the output confirms when the sender posts. For 2 and 3 incoming
/// payments: every order of posting x {one block each, all in one block} [x the wallet's own send with 2/3
/// change outputs confirmed before], then restore from the seed, scan, and derive once more.
fn confirm_order_cases(root: &str, only: Option<(usize, Vec<usize>, bool, usize)>) -> Result<(u64, Vec<(String, String, Value)>), String> {
	let mut cases = vec![];
	for k in [2usize, 3] {
		for perm in permutations(k) {
			for one_block in [false, true] {
				cases.push((k, perm.clone(), one_block, 0usize));
			}
		}
	}
	for change in [2usize, 3] {
		for perm in permutations(2) {
			cases.push((2, perm, false, change));
		}
	}
	if let Some(o) = only {
		cases = vec![o];
	}
	let res = par_map(&cases, workers(), |_, (k, perm, one_block, change)| confirm_order_case(root, *k, perm, *one_block, *change));
	let mut problems = vec![];
	for (c, r) in cases.iter().zip(res.into_iter()) {
		match r {
			Err(e) => return Err(e),
			Ok(None) => {}
			Ok(Some((key, what))) => {
				if !problems.iter().any(|p: &(String, String, Value)| p.0 == key) {
					problems.push((key, format!("{} [payments {}, posted in order {:?}, {}, own change outputs {}]", what, c.0, c.1, if c.2 { "one block" } else { "one block each" }, c.3), json!({"kind": "confirm-order", "k": c.0, "perm": c.1, "one_block": c.2, "change": c.3})));
				}
			}
		}
	}
	Ok((cases.len() as u64, problems))
}

pub fn run(_args: &[String]) -> i32 {
	let mut rep = Report::new("C15", "model_checking");
	let thorough = tier() == Tier::Thorough;
	let mut states = 0;
	let mut transitions = 0;
	let mut mach = None;
	let mut exhaustive = true;
	let mut samples = vec![];
	let mut crashed = 0u64;
	for (tag, with_crashes, depth, wall) in [
		("plain", false, if thorough { 5 } else { 3 }, if thorough { 1500 } else { 22 }),
		("crashes", true, if thorough { 3 } else { 2 }, if thorough { 900 } else { 22 }),
	]
	.iter()
	{
		let m = M { with_crashes: *with_crashes };
		let caps = Caps { max_depth: *depth, wall: Duration::from_secs(*wall), max_states: 60_000, min_depth: 2 };
		let e = explore(&m, &format!("c15-{}", tag), &caps);
		report_explored(&mut rep, "C15", tag, &e);
		states += e.states;
		transitions += e.transitions;
		crashed += e.labels.iter().filter(|(k, _)| k.ends_with(":crashed")).map(|(_, v)| *v).sum::<u64>();
		if e.cap_hit.is_some() {
			exhaustive = false;
		}
		if e.machinery_error.is_some() {
			mach = e.machinery_error.clone();
		}
		samples.extend(e.sample_paths.iter().take(2).cloned());
	}
	// directed histories (independent of how deep the BFS gets under its wall cap): an output-creating
	// operation, its cancellation, and every output-creating operation after it
	{
		let m = M { with_crashes: false };
		let firsts = [Op::Receive { crash: None }, Op::Invoice];
		let nexts = [Op::Receive { crash: None }, Op::Invoice, Op::BuildOutput, Op::CoinbaseNew { crash: None }, Op::Send { crash: None }, Op::ReceiveOtherAcct];
		let mut paths: Vec<Vec<Op>> = vec![];
		for f in firsts.iter() {
			for n in nexts.iter() {
				paths.push(vec![f.clone(), Op::CancelReceive, n.clone()]);
				paths.push(vec![f.clone(), Op::CancelReceive, Op::Restart, n.clone()]);
			}
		}
		for n in nexts.iter() {
			paths.push(vec![Op::SendNamed, n.clone()]);
			paths.push(vec![Op::SendNamed, Op::Switch, n.clone()]);
		}
		let root = scratch_root();
		let res = par_map(&paths, workers(), |i, p| run_path(&m, &format!("{}/c15-d{}", root, i), p));
		for (p, r) in paths.iter().zip(res.into_iter()) {
			transitions += p.len();
			match r {
				Ok(problems) => {
					for (k, v) in problems {
						rep.add_finding(Finding { key: format!("C15/{}", k), what: format!("{} — after {:?}", v, p), replay: json!({"path": p}) });
					}
				}
				Err(e) => mach = Some(format!("directed path {:?}: {}", p, e)),
			}
		}
		rep.cov("directed_paths", json!(paths.len()));
	}
	let (n_same, same_problems) = same_instance_cases(&scratch_root());
	for (k, what, payload) in same_problems {
		rep.add_finding(Finding { key: format!("C15/{}", k), what, replay: payload });
	}
	rep.cov("same_instance_cases", json!(n_same));
	match confirm_order_cases(&scratch_root(), None) {
		Ok((n, problems)) => {
			for (k, what, payload) in problems {
				rep.add_finding(Finding { key: format!("C15/{}", k), what, replay: payload });
			}
			rep.cov("confirmation_order_cases", json!(n));
		}
		Err(e) => mach = Some(e),
	}
	rep.cov("states", json!(states));
	rep.cov("transitions", json!(transitions));
	rep.cov("traces_validated_against_impl", json!(transitions));
	rep.cov("evaluations", json!(transitions));
	rep.cov("distinct_nontrivial", json!(states));
	rep.cov("crashed_transitions", json!(crashed));
	rep.cov("rule", json!("BFS over histories of output-creating operations (two explorations: without crash variants to a greater depth, with a crash after every persistent effect of receive/send/coinbase to a smaller depth); every state also restores a fresh wallet from the seed and scans; distinct_nontrivial = distinct reachable states"));
	rep.cov("exhaustive", json!(exhaustive));
	rep.cov("samples", json!(samples));
	rep.assume("paths of outputs that were spent before a restore cannot be found on chain; the statement only requires the next path to lie beyond every path found on chain");
	if mach.is_none() && (states < 50 || (crashed < 5)) {
		mach = Some(format!("vacuity guard: states={} crashed={}", states, crashed));
	}
	rep.finish(mach)
}
