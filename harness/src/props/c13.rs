//! C13 — the owner listener acts only on requests authenticated by the session key.
//!
//! E2: explicit-state search over request histories posted to a real
//! `controller::OwnerAPIHandlerV3` (in-process `api::Handler::post`, no sockets) whose wallet
//! is the repository's `DefaultWalletImpl` + `DefaultLCProvider` over a real chain.
//! Every transition rebuilds world + handler from the base snapshot and replays its prefix,
//! so each explored request sequence is one complete execution of the implementation.

use crate::common::*;
use crate::controller::controller::OwnerAPIHandlerV3;
use crate::dwallet::{self, DLC, PASSWORD};
use crate::keychain::ExtKeychain;
use crate::node::{DirectClient, Node};
use crate::util::secp::key::{PublicKey, SecretKey};
use crate::util::{from_hex, static_secp_instance, Mutex, ToHex};
use crate::world::{catch, hash_value, mnemonic_for, scratch_root, ProjOpts, Snapshot};
use grin_api::Handler;
use hyper::{Body, Request};
use ring::aead;
use serde_json::{json, Value};
use std::collections::{BTreeMap, BTreeSet, HashMap};
use std::sync::Arc;

type H = OwnerAPIHandlerV3<DLC, DirectClient, ExtKeychain>;

const SEED: &str = "c13-owner";

// ------------------------------------------------------------------------------------------
// alphabet

const METHODS: [&str; 6] = [
	"open_wallet",
	"accounts",
	"retrieve_summary_info",
	"create_account_path",
	"get_mnemonic",
	"close_wallet",
];

#[derive(Clone, Copy, PartialEq, Eq, Debug, PartialOrd, Ord)]
enum Class {
	/// the plaintext key exchange
	Init,
	/// encrypted and authenticated under the current key, regular envelope
	Auth,
	/// not authenticated under the current key: must be refused, nothing may change
	Unauth,
	/// authenticated ciphertext in an unusual envelope: refused with an error or answered sealed
	Odd,
}

#[derive(Clone, Copy, PartialEq, Eq, Debug)]
enum KeySel {
	Cur,
	Prev,
	Never,
}

#[derive(Clone, Debug)]
enum Env {
	PlainInit,
	/// the plaintext key exchange sent as a JSON-RPC notification (no id): nothing is answered, the
	/// session must stay as it is
	PlainInitNotification,
	/// the key exchange as the only member of an encrypted batch
	BatchEncInit,
	Plain(&'static str),
	Enc(KeySel, &'static str),
	/// flip one bit of the base64-decoded ciphertext+tag: (first byte | last byte = tag)
	FlipBody(bool, &'static str),
	/// flip one bit of the 12-byte nonce (first | last byte)
	FlipNonce(bool, &'static str),
	OddMethod(&'static str),
	BatchPlain(bool),
	BatchEnc(KeySel),
	SeqForm,
	/// inner envelope under Cur wrapped in an outer envelope under the given key
	Nested(KeySel, &'static str),
	FakeEncPlainParams,
	/// key exchange inside the channel with its argument as a positional JSON-RPC parameter
	EncInitPositional,
	Malformed(&'static str),
	OddField(&'static str),
}

const MALFORMED: [&str; 14] = [
	"notjson-truncated",
	"empty",
	"scalar-number",
	"scalar-null",
	"scalar-string",
	"no-params",
	"params-string",
	"params-empty-array",
	"nonce-number",
	"body-number",
	"body-notbase64",
	"nonce-nothex",
	"nonce-short",
	"nonce-empty",
];

const ODDFIELD: [&str; 5] = [
	"missing-id",
	"missing-method",
	"missing-jsonrpc",
	"id-object",
	"nonce-long",
];

impl Env {
	fn id(&self) -> String {
		match self {
			Env::PlainInit => "plain:init_secure_api".into(),
			Env::PlainInitNotification => "plain-notification:init_secure_api".into(),
			Env::BatchEncInit => "batch-of-one-enc-cur:init_secure_api".into(),
			Env::Plain(m) => format!("plain:{}", m),
			Env::Enc(KeySel::Cur, m) => format!("enc-cur:{}", m),
			Env::Enc(KeySel::Prev, m) => format!("enc-prev:{}", m),
			Env::Enc(KeySel::Never, m) => format!("enc-never:{}", m),
			Env::FlipBody(first, m) => {
				format!("flipbody-{}:{}", if *first { "first" } else { "tag" }, m)
			}
			Env::FlipNonce(first, m) => {
				format!("flipnonce-{}:{}", if *first { "first" } else { "last" }, m)
			}
			Env::OddMethod(m) => format!("oddmethod:{}", m),
			Env::BatchPlain(with_init) => {
				if *with_init {
					"batch-plain:init+calls".into()
				} else {
					"batch-plain:calls".into()
				}
			}
			Env::BatchEnc(k) => format!("batch-of-one-enc-{:?}:open_wallet", k).to_lowercase(),
			Env::SeqForm => "seqform-enc-cur:open_wallet".into(),
			Env::Nested(k, m) => format!("nested-outer-{:?}:{}", k, m).to_lowercase(),
			Env::FakeEncPlainParams => "fakeenc-plain-params:open_wallet".into(),
			Env::EncInitPositional => "enc-cur-positional:init_secure_api".into(),
			Env::Malformed(k) => format!("malformed:{}", k),
			Env::OddField(k) => format!("oddfield:{}", k),
		}
	}

	/// envelope class for finding keys (id without the method)
	fn kind(&self) -> String {
		let id = self.id();
		match self {
			Env::Malformed(_) | Env::OddField(_) | Env::BatchPlain(_) => id,
			_ => id.split(':').next().unwrap().to_owned(),
		}
	}

	fn class(&self) -> Class {
		match self {
			Env::PlainInit | Env::PlainInitNotification => Class::Init,
			Env::BatchEncInit => Class::Odd,
			Env::Enc(KeySel::Cur, _) => Class::Auth,
			Env::EncInitPositional => Class::Auth,
			Env::Nested(KeySel::Cur, _) => Class::Auth,
			Env::OddMethod(_) | Env::SeqForm | Env::OddField(_) | Env::BatchEnc(KeySel::Cur) => {
				Class::Odd
			}
			_ => Class::Unauth,
		}
	}

	fn needs(&self) -> (bool, bool) {
		// (needs current key, needs previous key)
		match self {
			Env::Enc(KeySel::Cur, _)
			| Env::EncInitPositional
			| Env::FlipBody(..)
			| Env::FlipNonce(..)
			| Env::OddMethod(_)
			| Env::BatchEnc(KeySel::Cur)
			| Env::BatchEncInit
			| Env::SeqForm
			| Env::Nested(..)
			| Env::OddField(_) => (true, false),
			Env::Enc(KeySel::Prev, _) | Env::BatchEnc(KeySel::Prev) => (false, true),
			_ => (false, false),
		}
	}
}

fn alphabet() -> Vec<Env> {
	// simplest first
	let mut a = vec![Env::PlainInit, Env::PlainInitNotification, Env::BatchEncInit];
	for m in METHODS.iter() {
		a.push(Env::Plain(m));
	}
	for m in METHODS.iter() {
		a.push(Env::Enc(KeySel::Cur, m));
	}
	a.push(Env::Enc(KeySel::Cur, "init_secure_api"));
	for k in [KeySel::Prev, KeySel::Never].iter() {
		for m in METHODS.iter() {
			a.push(Env::Enc(*k, m));
		}
		a.push(Env::Enc(*k, "init_secure_api"));
	}
	for first in [true, false].iter() {
		for m in METHODS.iter() {
			a.push(Env::FlipBody(*first, m));
		}
	}
	for first in [true, false].iter() {
		for m in METHODS.iter() {
			a.push(Env::FlipNonce(*first, m));
		}
	}
	for m in METHODS.iter() {
		a.push(Env::OddMethod(m));
	}
	a.push(Env::BatchPlain(false));
	a.push(Env::BatchPlain(true));
	a.push(Env::BatchEnc(KeySel::Never));
	a.push(Env::BatchEnc(KeySel::Cur));
	a.push(Env::SeqForm);
	a.push(Env::EncInitPositional);
	a.push(Env::Nested(KeySel::Cur, "open_wallet"));
	a.push(Env::Nested(KeySel::Cur, "get_mnemonic"));
	a.push(Env::Nested(KeySel::Never, "open_wallet"));
	a.push(Env::FakeEncPlainParams);
	for k in MALFORMED.iter() {
		a.push(Env::Malformed(k));
	}
	for k in ODDFIELD.iter() {
		a.push(Env::OddField(k));
	}
	a
}

// ------------------------------------------------------------------------------------------
// client side crypto (the production client path, with harness-chosen nonces)

fn h32(tag: &[u8], n: u64) -> [u8; 32] {
	let h = blake2_rfc::blake2b::blake2b(32, tag, &n.to_le_bytes());
	let mut r = [0u8; 32];
	r.copy_from_slice(h.as_bytes());
	r
}

fn seal(key: &[u8; 32], nonce: [u8; 12], plain: &Value) -> (Vec<u8>, Vec<u8>) {
	let mut buf = serde_json::to_string(plain).unwrap().into_bytes();
	let unbound = aead::UnboundKey::new(&aead::AES_256_GCM, key).unwrap();
	let k = aead::LessSafeKey::new(unbound);
	k.seal_in_place_append_tag(
		aead::Nonce::assume_unique_for_key(nonce),
		aead::Aad::from(&[]),
		&mut buf,
	)
	.unwrap();
	(nonce.to_vec(), buf)
}

fn open_sealed(key: &[u8; 32], nonce_hex: &str, body_b64: &str) -> Option<Value> {
	let mut buf = base64::decode(body_b64).ok()?;
	let n = from_hex(nonce_hex).ok()?;
	if n.len() < 12 {
		return None;
	}
	let mut nn = [0u8; 12];
	nn.copy_from_slice(&n[0..12]);
	let unbound = aead::UnboundKey::new(&aead::AES_256_GCM, key).unwrap();
	let k = aead::LessSafeKey::new(unbound);
	let plain = k
		.open_in_place(
			aead::Nonce::assume_unique_for_key(nn),
			aead::Aad::from(&[]),
			&mut buf,
		)
		.ok()?;
	serde_json::from_slice(plain).ok()
}

fn envelope(method: &str, nonce: &[u8], body: &[u8]) -> Value {
	json!({
		"jsonrpc": "2.0",
		"method": method,
		"id": 1,
		"params": { "nonce": nonce.to_hex(), "body_enc": base64::encode(body) }
	})
}

// ------------------------------------------------------------------------------------------
// one real run

#[derive(Clone, PartialEq, Eq, Debug)]
struct Obs {
	key: Option<[u8; 32]>,
	open: bool,
	token_ok: bool,
	files: u64,
	proj: u64,
}

#[derive(Clone, PartialEq, Eq, Hash, Debug, PartialOrd, Ord)]
struct StateKey {
	/// a key exchange that the listener does not answer (notification form, member of a batch) has been sent
	/// since the last answered one: the API object behind the listener may hold another key than the listener
	/// (that copy is not observable from outside; the client model tracks the history instead)
	stray_init: bool,
	gen: u32,
	has_prev: bool,
	open: bool,
	token_ok: bool,
	proj: u64,
}

/// The fixed initial world: one chain (never modified by any request of the alphabet, so a
/// single read-only instance is shared by every session) and the wallet directory image
/// every session starts from.
struct Base {
	node: Arc<Node>,
	wallet: Snapshot,
	/// projection of a *closed* wallet directory, keyed by its byte-exact content hash
	closed_proj: std::sync::Mutex<HashMap<u64, u64>>,
}

struct Session {
	dir: String,
	top: String,
	_node: Arc<Node>,
	handler: H,
	cur: Option<[u8; 32]>,
	prev: Option<[u8; 32]>,
	token: Option<String>,
	gen: u32,
	ctr: u64,
	stray_init: bool,
}

#[derive(Clone, Debug)]
struct StepOut {
	/// reply class, for histograms
	reply: String,
	/// request was posted (false = envelope not constructible in this state)
	enabled: bool,
	/// oracle verdict: (finding key, description)
	problem: Option<(String, String)>,
	/// harness lost track of the session (client model vs real handler): machinery
	desync: Option<String>,
	sample: Option<Value>,
}

fn call_json(method: &str, token: &Option<String>, ecdh_pub: &str) -> Value {
	let tok = json!(token);
	let params = match method {
		"open_wallet" => json!({"name": null, "password": PASSWORD}),
		"accounts" => json!({ "token": tok }),
		"retrieve_summary_info" => {
			json!({"token": tok, "refresh_from_node": true, "minimum_confirmations": 1})
		}
		"create_account_path" => json!({"token": tok, "label": "acct1"}),
		"get_mnemonic" => json!({"name": null, "password": PASSWORD}),
		"close_wallet" => json!({ "name": null }),
		"init_secure_api" => json!({ "ecdh_pubkey": ecdh_pub }),
		_ => unreachable!(),
	};
	json!({"jsonrpc": "2.0", "method": method, "params": params, "id": 1})
}

impl Session {
	fn new(base: &Base, dir: &str) -> Session {
		let _ = std::fs::remove_dir_all(dir);
		let top = format!("{}/wallet", dir);
		base.wallet.restore(&top);
		let node = base.node.clone();
		let inst = dwallet::new_inst(&top, &node);
		let handler = OwnerAPIHandlerV3::new(inst, Arc::new(Mutex::new(None)), None, false);
		Session {
			dir: dir.to_owned(),
			top,
			_node: node,
			handler,
			cur: None,
			prev: None,
			token: None,
			gen: 0,
			ctr: 0,
			stray_init: false,
		}
	}

	fn token_key(&self) -> Option<SecretKey> {
		let t = self.token.as_ref()?;
		let b = from_hex(t).ok()?;
		let secp_inst = static_secp_instance();
		let secp = secp_inst.lock();
		SecretKey::from_slice(&secp, &b).ok()
	}

	fn observe(&self, base: &Base) -> Obs {
		let key = self.handler.shared_key.lock().as_ref().map(|k| k.0);
		let files = dwallet::dir_hash(&self.top);
		let open = dwallet::is_open(&self.handler.wallet);
		let tk = self.token_key();
		let token_ok = dwallet::with(&self.handler.wallet, |b| b.keychain(tk.as_ref()).is_ok())
			.unwrap_or(false);
		let data_dir = format!("{}/wallet_data", self.top);
		let opts = ProjOpts {
			slots: vec![],
			heights: true, canon_ids: false };
		let proj = match dwallet::with(&self.handler.wallet, |b| {
			dwallet::project_backend(b, &data_dir, None, &opts)
		}) {
			Some(v) => v,
			None => {
				if let Some(p) = base.closed_proj.lock().unwrap().get(&files) {
					return Obs {
						key,
						open,
						token_ok,
						files,
						proj: *p,
					};
				}
				// closed: project a private copy so that the wallet directory itself is untouched
				let tmp = format!("{}/proj-copy", self.dir);
				Snapshot::capture(&self.top).restore(&tmp);
				let tmp_data = format!("{}/wallet_data", tmp);
				let v = {
					let mut be: crate::impls::LMDBBackend<'static, DirectClient, ExtKeychain> =
						crate::impls::LMDBBackend::new(
							&tmp_data,
							DirectClient::new(self._node.clone()),
						)
						.unwrap();
					dwallet::project_backend(&mut be, &tmp_data, None, &opts)
				};
				let _ = std::fs::remove_dir_all(&tmp);
				base.closed_proj.lock().unwrap().insert(files, hash_value(&v));
				v
			}
		};
		Obs {
			key,
			open,
			token_ok,
			files,
			proj: hash_value(&proj),
		}
	}

	fn state_key(&self, o: &Obs) -> StateKey {
		StateKey {
			stray_init: self.stray_init,
			// generations beyond 3 differ from 3 only in the value of the (random) keys
			gen: std::cmp::min(self.gen, 3),
			has_prev: self.prev.is_some(),
			open: o.open,
			token_ok: o.token_ok,
			proj: o.proj,
		}
	}

	fn next_nonce(&mut self) -> [u8; 12] {
		self.ctr += 1;
		let h = h32(b"c13-nonce", self.ctr);
		let mut n = [0u8; 12];
		n.copy_from_slice(&h[0..12]);
		n
	}

	fn client_secret(&self, n: u32) -> SecretKey {
		let secp_inst = static_secp_instance();
		let secp = secp_inst.lock();
		// The client keeps or changes its ECDH key pair from one handshake to the next: handshakes 1 and 2
		// use the same pair (a client that re-negotiates without drawing a new pair, as the repository's own
		// tests do), handshake 3 a new one, every later one the first again. The negotiated key must be a new
		// one each time all the same, or the superseded key would still be accepted.
		// (n counts from 1: the handshake that makes generation n)
		let idx = [0u64, 0, 0, 1, 0][std::cmp::min(n, 4) as usize];
		SecretKey::from_slice(&secp, &h32(b"c13-ecdh", idx)).unwrap()
	}

	fn client_pub_hex(&self, n: u32) -> String {
		let sk = self.client_secret(n);
		let secp_inst = static_secp_instance();
		let secp = secp_inst.lock();
		PublicKey::from_secret_key(&secp, &sk)
			.unwrap()
			.serialize_vec(&secp, true)
			.to_hex()
	}

	fn derive(&self, n: u32, server_pub_hex: &str) -> Option<[u8; 32]> {
		let sk = self.client_secret(n);
		let secp_inst = static_secp_instance();
		let secp = secp_inst.lock();
		let mut p = PublicKey::from_slice(&secp, &from_hex(server_pub_hex).ok()?).ok()?;
		p.mul_assign(&secp, &sk).ok()?;
		let x = p.serialize_vec(&secp, true);
		let mut r = [0u8; 32];
		r.copy_from_slice(&x[1..]);
		Some(r)
	}

	fn key_of(&self, k: KeySel) -> Option<[u8; 32]> {
		match k {
			KeySel::Cur => self.cur,
			KeySel::Prev => self.prev,
			KeySel::Never => Some(h32(b"c13-never-negotiated", 0)),
		}
	}

	/// Build the request body for the current state. None = not constructible here.
	fn build(&mut self, e: &Env) -> Option<Vec<u8>> {
		let (need_cur, need_prev) = e.needs();
		if (need_cur && self.cur.is_none()) || (need_prev && self.prev.is_none()) {
			return None;
		}
		let ecdh = self.client_pub_hex(self.gen + 1);
		let tok = self.token.clone();
		let call = |m: &str| call_json(m, &tok, &ecdh);
		let never = h32(b"c13-never-negotiated", 0);
		// key for envelopes that only need *some* key to have a shape
		let shape_key = self.cur.unwrap_or(never);
		let v: Value = match e {
			Env::PlainInit => call("init_secure_api"),
			Env::PlainInitNotification => {
				let mut v = call("init_secure_api");
				v.as_object_mut().unwrap().remove("id");
				v
			}
			Env::BatchEncInit => {
				let (n, b) = seal(&self.cur?, self.next_nonce(), &call("init_secure_api"));
				json!([envelope("encrypted_request_v3", &n, &b)])
			}
			Env::Plain(m) => call(m),
			Env::Enc(k, m) => {
				let key = self.key_of(*k)?;
				let (n, b) = seal(&key, self.next_nonce(), &call(m));
				envelope("encrypted_request_v3", &n, &b)
			}
			Env::FlipBody(first, m) => {
				let (n, mut b) = seal(&self.cur?, self.next_nonce(), &call(m));
				let i = if *first { 0 } else { b.len() - 1 };
				b[i] ^= 1;
				envelope("encrypted_request_v3", &n, &b)
			}
			Env::FlipNonce(first, m) => {
				let (mut n, b) = seal(&self.cur?, self.next_nonce(), &call(m));
				let i = if *first { 0 } else { 11 };
				n[i] ^= 1;
				envelope("encrypted_request_v3", &n, &b)
			}
			Env::OddMethod(m) => {
				let (n, b) = seal(&self.cur?, self.next_nonce(), &call(m));
				envelope(m, &n, &b)
			}
			Env::EncInitPositional => {
				let inner = json!({"jsonrpc": "2.0", "method": "init_secure_api", "params": [ecdh], "id": 1});
				let (n, b) = seal(&self.cur?, self.next_nonce(), &inner);
				envelope("encrypted_request_v3", &n, &b)
			}
			Env::BatchPlain(with_init) => {
				let mut v = vec![];
				if *with_init {
					v.push(call("init_secure_api"));
				}
				v.push(call("open_wallet"));
				v.push(call("get_mnemonic"));
				v.push(call("create_account_path"));
				Value::Array(v)
			}
			Env::BatchEnc(k) => {
				let key = self.key_of(*k)?;
				let (n, b) = seal(&key, self.next_nonce(), &call("open_wallet"));
				json!([envelope("encrypted_request_v3", &n, &b)])
			}
			Env::SeqForm => {
				let (n, b) = seal(&self.cur?, self.next_nonce(), &call("open_wallet"));
				json!(["2.0", "encrypted_request_v3", 1, {"nonce": n.to_hex(), "body_enc": base64::encode(&b)}])
			}
			Env::Nested(outer, m) => {
				let (n, b) = seal(&self.cur?, self.next_nonce(), &call(m));
				let inner = envelope("encrypted_request_v3", &n, &b);
				let okey = self.key_of(*outer)?;
				let (n2, b2) = seal(&okey, self.next_nonce(), &inner);
				envelope("encrypted_request_v3", &n2, &b2)
			}
			Env::FakeEncPlainParams => {
				let c = call("open_wallet");
				json!({"jsonrpc": "2.0", "method": "encrypted_request_v3", "id": 1, "params": c})
			}
			Env::Malformed(kind) => {
				let (n, b) = seal(&shape_key, self.next_nonce(), &call("open_wallet"));
				let good = envelope("encrypted_request_v3", &n, &b);
				let mut v = good.clone();
				match *kind {
					"notjson-truncated" => {
						let s = serde_json::to_string(&good).unwrap();
						return Some(s.as_bytes()[..s.len() / 2].to_vec());
					}
					"empty" => return Some(vec![]),
					"scalar-number" => v = json!(42),
					"scalar-null" => v = Value::Null,
					"scalar-string" => v = json!("encrypted_request_v3"),
					"no-params" => {
						v.as_object_mut().unwrap().remove("params");
					}
					"params-string" => v["params"] = json!(serde_json::to_string(&good["params"]).unwrap()),
					"params-empty-array" => v["params"] = json!([]),
					"nonce-number" => v["params"]["nonce"] = json!(12345),
					"body-number" => v["params"]["body_enc"] = json!(12345),
					"body-notbase64" => {
						v["params"]["body_enc"] =
							json!(format!("*{}", good["params"]["body_enc"].as_str().unwrap()))
					}
					"nonce-nothex" => {
						v["params"]["nonce"] =
							json!(format!("zz{}", &good["params"]["nonce"].as_str().unwrap()[2..]))
					}
					"nonce-short" => v["params"]["nonce"] = json!(n[..11].to_vec().to_hex()),
					"nonce-empty" => v["params"]["nonce"] = json!(""),
					_ => unreachable!(),
				}
				v
			}
			Env::OddField(kind) => {
				let (n, b) = seal(&self.cur?, self.next_nonce(), &call("open_wallet"));
				let mut v = envelope("encrypted_request_v3", &n, &b);
				match *kind {
					"missing-id" => {
						v.as_object_mut().unwrap().remove("id");
					}
					"missing-method" => {
						v.as_object_mut().unwrap().remove("method");
					}
					"missing-jsonrpc" => {
						v.as_object_mut().unwrap().remove("jsonrpc");
					}
					"id-object" => v["id"] = json!({"a": 1}),
					"nonce-long" => {
						let mut nl = n.clone();
						nl.extend_from_slice(&[0xab, 0xcd]);
						v["params"]["nonce"] = json!(nl.to_hex());
					}
					_ => unreachable!(),
				}
				v
			}
		};
		Some(serde_json::to_vec(&v).unwrap())
	}

	fn post(&self, body: Vec<u8>) -> Result<(u16, Vec<u8>), String> {
		let req = Request::post("http://127.0.0.1/v3/owner")
			.body(Body::from(body))
			.unwrap();
		let fut = self.handler.post(req);
		let r = catch(|| {
			futures::executor::block_on(async move {
				let resp = fut.await.map_err(|e| format!("hyper error {}", e))?;
				let status = resp.status().as_u16();
				let bytes = hyper::body::to_bytes(resp.into_body())
					.await
					.map_err(|e| format!("body error {}", e))?;
				Ok::<_, String>((status, bytes.to_vec()))
			})
		});
		match r {
			Ok(Ok(x)) => Ok(x),
			Ok(Err(e)) => Err(format!("transport: {}", e)),
			Err(p) => Err(format!("panic: {}", p)),
		}
	}

	/// Post one envelope, apply the oracle of its class, update the client model.
	fn step(&mut self, base: &Base, e: &Env, before: &Obs) -> (StepOut, Obs) {
		let gen_for_ecdh = self.gen + 1;
		let body = match self.build(e) {
			Some(b) => b,
			None => {
				return (
					StepOut {
						reply: "not-enabled".into(),
						enabled: false,
						problem: None,
						desync: None,
						sample: None,
					},
					before.clone(),
				)
			}
		};
		let key_at_request = self.cur;
		let mnemonic = mnemonic_for(SEED);
		let posted = self.post(body.clone());
		let after = self.observe(base);
		let class = e.class();
		let mut problem: Option<(String, String)> = None;
		let mut desync = None;
		let mut set_problem = |k: String, w: String| {
			if problem.is_none() {
				problem = Some((k, w));
			}
		};
		// --- classify the reply
		let mut decrypted: Option<Value> = None;
		let mut plain_json: Option<Value> = None;
		let reply: String = match &posted {
			Err(p) => {
				let site = take_last_panic()
					.map(|x| panic_site(&x.1))
					.unwrap_or_default();
				if class != Class::Odd {
					set_problem(
						format!("C13/panic/{}/{}", site, e.kind()),
						format!("handler did not answer: {}", p),
					);
				}
				"panic".into()
			}
			Ok((status, bytes)) => {
				if *status != 200 {
					format!("http-{}", status)
				} else {
					match serde_json::from_slice::<Value>(bytes) {
						Err(_) => "ok-not-json".into(),
						Ok(v) => {
							plain_json = Some(v.clone());
							let is_err_obj = v.is_object()
								&& v.get("error").map(|x| !x.is_null()).unwrap_or(false)
								&& v.get("result").is_none();
							let enc = v["result"]["Ok"]["body_enc"].as_str().and_then(|b| {
								v["result"]["Ok"]["nonce"].as_str().map(|n| (n.to_owned(), b.to_owned()))
							});
							if is_err_obj {
								format!("error{}", v["error"]["code"])
							} else if let Some((n, b)) = enc {
								match key_at_request.and_then(|k| open_sealed(&k, &n, &b)) {
									Some(inner) => {
										let cls = if inner.get("error").is_some() {
											"encrypted(error)"
										} else if inner["result"].get("Ok").is_some() {
											"encrypted(result-ok)"
										} else if inner["result"].get("Err").is_some() {
											"encrypted(result-err)"
										} else {
											"encrypted(other)"
										};
										decrypted = Some(inner);
										cls.into()
									}
									None => "encrypted-undecryptable".into(),
								}
							} else if v.get("result").is_some() {
								"plaintext-result".into()
							} else if v.is_array() {
								format!("plaintext-array[{}]", v.as_array().unwrap().len())
							} else {
								"plaintext-other".into()
							}
						}
					}
				}
			}
		};
		let reply_text = match &posted {
			Ok((_, b)) => String::from_utf8_lossy(b).to_string(),
			Err(_) => String::new(),
		};
		// --- oracle
		let changed = {
			let mut c = vec![];
			if after.key != before.key {
				c.push("session-key");
			}
			if after.open != before.open {
				c.push("open-state");
			}
			if after.token_ok != before.token_ok {
				c.push("mask");
			}
			if after.files != before.files {
				c.push("store-files");
			}
			if after.proj != before.proj {
				c.push("store-content");
			}
			c
		};
		match class {
			Class::Unauth => {
				let refused = reply.starts_with("error") || reply.starts_with("http-");
				if !refused && reply != "panic" {
					set_problem(
						format!("C13/unauth-not-refused/{}/{}", e.kind(), reply),
						format!(
							"request {} (not authenticated under the current session key) was answered with {} instead of an error",
							e.id(), reply
						),
					);
				}
				if reply_text.contains(&mnemonic)
					|| self.token.as_ref().map(|t| reply_text.contains(t.as_str())).unwrap_or(false)
				{
					set_problem(
						format!("C13/unauth-reveals-secret/{}", e.kind()),
						format!("reply to unauthenticated request {} contains the mnemonic or the mask token", e.id()),
					);
				}
				if !changed.is_empty() {
					set_problem(
						format!("C13/unauth-changed-state/{}/{}", e.kind(), changed.join("+")),
						format!(
							"request {} (not authenticated under the current session key) changed {} (reply: {})",
							e.id(), changed.join("+"), reply
						),
					);
				}
			}
			Class::Auth => {
				if !reply.starts_with("encrypted(") && reply != "panic" {
					set_problem(
						format!("C13/auth-reply-not-encrypted/{}/{}", e.kind(), reply),
						format!(
							"request {} authenticated under the current session key was answered with {} instead of an envelope encrypted under that key",
							e.id(), reply
						),
					);
				}
			}
			Class::Odd => {
				// the ciphertext authenticates under the current key: the handler may refuse the
				// unusual envelope (plain error), but if it answers the call the answer must be sealed
				if reply.starts_with("plaintext") || reply == "ok-not-json" || reply == "encrypted-undecryptable" {
					set_problem(
						format!("C13/odd-envelope-reply-not-encrypted/{}/{}", e.kind(), reply),
						format!(
							"request {} (ciphertext authenticated under the current session key, unusual envelope) was answered with {} — neither an error nor an envelope encrypted under that key",
							e.id(), reply
						),
					);
				}
			}
			Class::Init => {}
		}
		// --- client model
		if matches!(e, Env::PlainInitNotification | Env::BatchEncInit) {
			self.stray_init = true;
		}
		let gen_before_model = self.gen;
		match e {
			Env::PlainInit => {
				let pk = plain_json
					.as_ref()
					.and_then(|v| v["result"]["Ok"].as_str().map(|s| s.to_owned()));
				match pk.and_then(|p| self.derive(gen_for_ecdh, &p)) {
					Some(k) => {
						self.prev = self.cur;
						self.cur = Some(k);
						self.gen += 1;
					}
					None => desync = Some(format!("plaintext key exchange failed: {}", reply)),
				}
			}
			_ => {
				if let Some(inner) = &decrypted {
					let m = match e {
						Env::Enc(KeySel::Cur, m) | Env::OddMethod(m) => *m,
						Env::EncInitPositional => "init_secure_api",
						Env::SeqForm | Env::OddField(_) => "open_wallet",
						_ => "",
					};
					if m == "open_wallet" {
						if let Some(t) = inner["result"]["Ok"].as_str() {
							self.token = Some(t.to_owned());
						}
					}
					if m == "init_secure_api" {
						if let Some(p) = inner["result"]["Ok"].as_str() {
							if let Some(k) = self.derive(gen_for_ecdh, p) {
								self.prev = self.cur;
								self.cur = Some(k);
								self.gen += 1;
							}
						}
					}
				}
			}
		}
		if self.gen != gen_before_model {
			// an answered key exchange: listener and API object hold the same key again
			self.stray_init = false;
		}
		// the token may have been replaced: recompute its validity for the state key
		let after = if self.token.is_some() && after.open && !after.token_ok {
			let tk = self.token_key();
			let ok = dwallet::with(&self.handler.wallet, |b| b.keychain(tk.as_ref()).is_ok())
				.unwrap_or(false);
			Obs {
				token_ok: ok,
				..after
			}
		} else {
			after
		};
		if class != Class::Unauth && after.key != self.cur && desync.is_none() {
			desync = Some(format!(
				"client session key differs from the handler's after {} ({})",
				e.id(),
				reply
			));
			// A key exchange that was answered with the server's public key must make the
			// negotiated key the current one; otherwise the superseded key stays valid.
			let exchanged = match e {
				Env::PlainInit => self.gen == gen_for_ecdh,
				Env::Enc(KeySel::Cur, "init_secure_api") | Env::EncInitPositional => self.gen == gen_for_ecdh,
				_ => false,
			};
			if exchanged && problem.is_none() {
				problem = Some((
					format!(
						"C13/key-exchange-not-effective/{}/{}",
						e.kind(),
						if after.key == before.key { "old-key-kept" } else { "other-key" }
					),
					format!(
						"{} was answered with the server's ECDH public key, but the handler's session key is not the negotiated key afterwards ({}): the superseded key is not replaced",
						e.id(),
						if after.key == before.key { "it still holds the previous key" } else { "it holds some other key" }
					),
				));
			}
		}
		let sample = json!({
			"request": e.id(),
			"class": format!("{:?}", class),
			"reply": reply,
			"changed": changed,
			"request_body": String::from_utf8_lossy(&body).chars().take(260).collect::<String>(),
			"reply_body": reply_text.chars().take(200).collect::<String>(),
		});
		(
			StepOut {
				reply,
				enabled: true,
				problem,
				desync,
				sample: Some(sample),
			},
			after,
		)
	}
}

impl Drop for Session {
	fn drop(&mut self) {
		let _ = dwallet::close(&self.handler.wallet);
	}
}

fn make_base(root: &str) -> Base {
	let dir = format!("{}/c13-base", root);
	let _ = std::fs::remove_dir_all(&dir);
	std::fs::create_dir_all(&dir).unwrap();
	let node = Node::open(&dir);
	let top = format!("{}/wallet", dir);
	{
		let inst = dwallet::new_inst(&top, &node);
		dwallet::create(&inst, SEED);
		dwallet::open(&inst, false).unwrap();
		// a single reward: a refresh that confirms several new outputs at once numbers their
		// log entries in HashMap order, which would make the store projection history-independent
		// only up to a permutation
		dwallet::mine_to(&inst, &node, None).unwrap();
		dwallet::close(&inst).unwrap();
	}
	let wallet = Snapshot::capture(&top);
	let _ = std::fs::remove_dir_all(&top);
	Base {
		node,
		wallet,
		closed_proj: std::sync::Mutex::new(HashMap::new()),
	}
}

/// result of running one request sequence from the initial state
struct PathRun {
	/// per step: (source state, output, target state)
	steps: Vec<(StateKey, StepOut, StateKey)>,
}

fn run_path(base: &Base, dir: &str, alpha: &[Env], path: &[usize]) -> PathRun {
	let mut s = Session::new(base, dir);
	let mut obs = s.observe(base);
	let mut steps = vec![];
	for i in path {
		let src = s.state_key(&obs);
		let (out, after) = s.step(base, &alpha[*i], &obs);
		obs = after;
		let dst = s.state_key(&obs);
		steps.push((src, out, dst));
	}
	drop(s);
	let _ = std::fs::remove_dir_all(dir);
	PathRun { steps }
}

fn path_ids(alpha: &[Env], path: &[usize]) -> Vec<String> {
	path.iter().map(|i| alpha[*i].id()).collect()
}

pub fn replay(payload: &Value) -> i32 {
	if payload["kind"] == "stalled-request" {
		let root = scratch_root();
		let base = make_base(&root);
		let m = METHODS.iter().copied().find(|x| Some(*x) == payload["method"].as_str()).unwrap_or("accounts");
		let p = stalled_request_case(&base, &format!("{}/c13-replay-stall", root), m);
		println!("stalled-request case {}: {:?}", m, p);
		return if p.is_empty() { 0 } else { 1 };
	}
	let alpha = alphabet();
	let ids: Vec<String> = payload["path"]
		.as_array()
		.unwrap()
		.iter()
		.map(|v| v.as_str().unwrap().to_owned())
		.collect();
	let path: Vec<usize> = ids
		.iter()
		.map(|id| alpha.iter().position(|e| e.id() == *id).expect("unknown envelope id"))
		.collect();
	let root = scratch_root();
	let base = make_base(&root);
	let r = run_path(&base, &format!("{}/c13-replay", root), &alpha, &path);
	let mut bad = false;
	for (i, (src, out, dst)) in r.steps.iter().enumerate() {
		println!(
			"step {} {}: reply={} state {:?} -> {:?}",
			i,
			ids[i],
			out.reply,
			src,
			dst
		);
		if let Some(s) = &out.sample {
			println!("   {}", s);
		}
		if let Some((k, w)) = &out.problem {
			println!("   VERDICT {} — {}", k, w);
			bad = true;
		}
	}
	if bad {
		1
	} else {
		0
	}
}

#[derive(Default)]
struct Acc {
	transitions: u64,
	not_enabled: u64,
	hist: BTreeMap<String, u64>,
	nontrivial: BTreeSet<(StateKey, usize)>,
	outcomes: BTreeSet<(String, String, bool)>,
	samples: Vec<Value>,
	sample_kinds: BTreeSet<String>,
	pending: Vec<(String, String, Vec<usize>)>,
	prevkey_refused: u64,
	auth_ok_results: u64,
	inits: u64,
	desyncs: Vec<String>,
}

impl Acc {
	/// account for the steps of one executed path; `only_last`: the prefix was already
	/// accounted for when its own path was run (BFS), only the last step is new
	fn consume(
		&mut self,
		alpha: &[Env],
		steps: &[(StateKey, StepOut, StateKey)],
		path: &[usize],
		only_last: bool,
	) -> Option<String> {
		for (i, (src, out, _dst)) in steps.iter().enumerate() {
			if only_last && i + 1 != steps.len() {
				if out.desync.is_some() {
					// continuation of a path on which the client lost the session: not explored
					return None;
				}
				continue;
			}
			let e = &alpha[path[i]];
			if !out.enabled {
				self.not_enabled += 1;
				continue;
			}
			self.transitions += 1;
			*self
				.hist
				.entry(format!("{:?}/{}", e.class(), out.reply))
				.or_insert(0) += 1;
			self.outcomes.insert((e.id(), out.reply.clone(), src.open));
			if src.gen >= 1 {
				self.nontrivial.insert((src.clone(), path[i]));
			}
			if let Env::Enc(KeySel::Prev, _) = e {
				if out.reply.starts_with("error") && out.problem.is_none() {
					self.prevkey_refused += 1;
				}
			}
			if e.class() == Class::Auth && out.reply == "encrypted(result-ok)" {
				self.auth_ok_results += 1;
			}
			if e.class() == Class::Init && out.desync.is_none() {
				self.inits += 1;
			}
			if let Some(d) = &out.desync {
				self.desyncs
					.push(format!("{} after path {:?}", d, path_ids(alpha, &path[..=i])));
				if let Some((k, w)) = &out.problem {
					self.pending.push((k.clone(), w.clone(), path[..=i].to_vec()));
				}
				// whatever follows on this path is not a run of a well-defined client
				break;
			}
			let sk = format!("{}|{}", e.kind(), out.reply);
			if src.gen >= 1 && !self.sample_kinds.contains(&sk) && self.samples.len() < 14 {
				self.sample_kinds.insert(sk);
				let mut s = out.sample.clone().unwrap();
				s["history"] = json!(path_ids(alpha, &path[..i]));
				self.samples.push(s);
			}
			if let Some((k, w)) = &out.problem {
				self.pending.push((k.clone(), w.clone(), path[..=i].to_vec()));
			}
		}
		None
	}
}

/// A request whose upload stalls while the session key is re-negotiated: request A (sealed under the current
/// key K1) is handed to the handler with half of its body, a complete key exchange follows on the side
/// (K2), then the rest of A arrives. Whatever becomes of A itself, the session must afterwards be the one
/// the key exchange set up: K2 is served, the superseded K1 is refused. (The BFS posts whole requests one
/// after the other; this is the one interleaving a listener that copies the key around could get wrong.)
fn stalled_request_case(base: &Base, dir: &str, m: &'static str) -> Vec<(String, String)> {
	use std::future::Future;
	let mut problems = vec![];
	let mut s = Session::new(base, dir);
	let o0 = s.observe(base);
	let (st1, o1) = s.step(base, &Env::PlainInit, &o0);
	if st1.desync.is_some() || s.cur.is_none() {
		return vec![("__mach__".into(), format!("first key exchange failed: {:?}", st1.desync))];
	}
	let body_a = match s.build(&Env::Enc(KeySel::Cur, m)) {
		Some(b) => b,
		None => return vec![("__mach__".into(), "cannot build request A".into())],
	};
	let (mut tx, body) = Body::channel();
	let req = Request::post("http://127.0.0.1/v3/owner").body(body).unwrap();
	let mut fut = s.handler.post(req);
	let half = body_a.len() / 2;
	let first: Vec<u8> = body_a[..half].to_vec();
	let rest: Vec<u8> = body_a[half..].to_vec();
	{
		let waker = futures::task::noop_waker();
		let mut cx = std::task::Context::from_waker(&waker);
		let _ = futures::executor::block_on(tx.send_data(first.into()));
		let _ = fut.as_mut().poll(&mut cx);
	}
	// the key exchange on the side
	let (st2, o2) = s.step(base, &Env::PlainInit, &o1);
	if st2.desync.is_some() || s.prev.is_none() {
		return vec![("__mach__".into(), format!("second key exchange failed: {:?}", st2.desync))];
	}
	// the rest of A
	let _ = catch(|| {
		futures::executor::block_on(async move {
			let _ = tx.send_data(rest.into()).await;
			drop(tx);
			if let Ok(resp) = fut.await {
				let _ = hyper::body::to_bytes(resp.into_body()).await;
			}
		})
	});
	let o3 = s.observe(base);
	let _ = o2;
	let (r_prev, o4) = s.step(base, &Env::Enc(KeySel::Prev, "accounts"), &o3);
	if let Some((k, w)) = r_prev.problem {
		problems.push((format!("{}/after-stalled-request:{}", k, m), format!("{} — after a request ({}) whose upload stalled across a key exchange", w, m)));
	}
	let (r_cur, _) = s.step(base, &Env::Enc(KeySel::Cur, "accounts"), &o4);
	if let Some((k, w)) = r_cur.problem {
		problems.push((format!("{}/after-stalled-request:{}", k, m), format!("{} — after a request ({}) whose upload stalled across a key exchange", w, m)));
	} else if r_cur.desync.is_some() {
		problems.push((
			format!("C13/current-key-refused/after-stalled-request:{}", m),
			format!("the key negotiated by the exchange that completed while request {} was still uploading is not the session key afterwards: {:?}", m, r_cur.desync),
		));
	}
	problems
}

pub fn run(_args: &[String]) -> i32 {
	let mut rep = Report::new("C13", "model_checking");
	let thorough = tier() == Tier::Thorough;
	let envn = |k: &str| std::env::var(k).ok().and_then(|v| v.parse::<usize>().ok());
	let depth = envn("C13_DEPTH").unwrap_or(12);
	let tree_depth = envn("C13_TREE").unwrap_or(if thorough { 3 } else { 2 });
	let root = scratch_root();
	let base = make_base(&root);
	let alpha = alphabet();
	let nworkers = workers();

	let mut visited: HashMap<StateKey, usize> = HashMap::new();
	let mut frontier: Vec<(StateKey, Vec<usize>)> = vec![];
	let mut requests_posted = 0u64;
	let mut per_depth = vec![];
	let mut acc = Acc::default();

	// initial state
	{
		let s = Session::new(&base, &format!("{}/c13-init", root));
		let o = s.observe(&base);
		let k = s.state_key(&o);
		drop(s);
		visited.insert(k.clone(), 0);
		frontier.push((k, vec![]));
	}

	// ---- level-synchronous BFS with state dedup
	for d in 0..depth {
		if frontier.is_empty() {
			break;
		}
		let mut items: Vec<Vec<usize>> = vec![];
		for (_, p) in frontier.iter() {
			for i in 0..alpha.len() {
				let mut q = p.clone();
				q.push(i);
				items.push(q);
			}
		}
		requests_posted += items.iter().map(|p| p.len() as u64).sum::<u64>();
		let results = par_map(&items, nworkers, |i, p| {
			run_path(&base, &format!("{}/c13-b{}-{}", root, d, i), &alpha, p)
		});
		let mut next: Vec<(StateKey, Vec<usize>)> = vec![];
		for (p, r) in items.iter().zip(results.iter()) {
			if let Some(m) = acc.consume(&alpha, &r.steps, p, true) {
				return rep.finish(Some(m));
			}
			let (_, out, dst) = r.steps.last().unwrap();
			if !out.enabled || r.steps.iter().any(|s| s.1.desync.is_some()) {
				continue;
			}
			if !visited.contains_key(dst) {
				visited.insert(dst.clone(), d + 1);
				next.push((dst.clone(), p.clone()));
			}
		}
		per_depth.push(json!({"depth": d + 1, "expanded_states": frontier.len(), "paths_run": items.len(), "new_states": next.len()}));
		frontier = next;
	}
	let bfs_transitions = acc.transitions;
	let bfs_closed = frontier.is_empty();

	// ---- complete request tree without dedup (cross-check of the dedup projection)
	let mut tree_paths: Vec<Vec<usize>> = vec![vec![]];
	for _ in 0..tree_depth {
		let mut nl = vec![];
		for p in tree_paths.iter() {
			for i in 0..alpha.len() {
				let mut q = p.clone();
				q.push(i);
				nl.push(q);
			}
		}
		tree_paths = nl;
	}
	requests_posted += tree_paths.iter().map(|p| p.len() as u64).sum::<u64>();
	let tree_results = par_map(&tree_paths, nworkers, |i, p| {
		run_path(&base, &format!("{}/c13-t{}", root, i), &alpha, p)
	});
	let mut tree_states: BTreeSet<StateKey> = BTreeSet::new();
	let mut tree_witness: BTreeMap<StateKey, Vec<String>> = BTreeMap::new();
	for (p, r) in tree_paths.iter().zip(tree_results.iter()) {
		if let Some(m) = acc.consume(&alpha, &r.steps, p, false) {
			return rep.finish(Some(m));
		}
		for (i, (_, out, dst)) in r.steps.iter().enumerate() {
			if out.desync.is_some() {
				break;
			}
			if out.enabled {
				tree_states.insert(dst.clone());
				tree_witness
					.entry(dst.clone())
					.or_insert_with(|| path_ids(&alpha, &p[..=i]));
			}
		}
	}
	let bfs_states_upto: BTreeSet<StateKey> = visited
		.iter()
		.filter(|(_, d)| **d <= tree_depth)
		.map(|(k, _)| k.clone())
		.collect();
	for k in visited.iter().filter(|(_, d)| **d == 0).map(|(k, _)| k.clone()) {
		tree_states.insert(k);
	}
	if acc.desyncs.is_empty() && tree_states != bfs_states_upto {
		let missing: Vec<String> = tree_states
			.difference(&bfs_states_upto)
			.map(|k| format!("{:?} via {:?}", k, tree_witness.get(k)))
			.collect();
		return rep.finish(Some(format!(
			"dedup cross-check failed: complete tree of depth {} reaches {} projected states, BFS with dedup {}; not reached by BFS: {:?}",
			tree_depth,
			tree_states.len(),
			bfs_states_upto.len(),
			missing
		)));
	}

	// ---- findings: replay twice
	let mut pending = acc.pending.clone();
	pending.sort_by_key(|p| p.2.len());
	let mut seen = BTreeSet::new();
	for (key, what, path) in pending.iter() {
		if !seen.insert(key.clone()) {
			continue;
		}
		for n in 0..2 {
			let r = run_path(&base, &format!("{}/c13-r{}", root, n), &alpha, path);
			let again = r.steps.last().and_then(|s| s.1.problem.clone()).map(|p| p.0);
			if again.as_ref() != Some(key) {
				return rep.finish(Some(format!(
					"non-deterministic verdict for path {:?}: {:?} vs {}",
					path_ids(&alpha, path),
					again,
					key
				)));
			}
		}
		rep.add_finding(Finding {
			key: key.clone(),
			what: format!("{} — request sequence {:?}", what, path_ids(&alpha, path)),
			replay: json!({"path": path_ids(&alpha, path)}),
		});
	}

	if rep.findings.lock().unwrap().is_empty() && !acc.desyncs.is_empty() {
		return rep.finish(Some(format!(
			"client model lost the session without an oracle violation: {}",
			acc.desyncs[0]
		)));
	}
	// ---- stalled uploads across a key exchange
	let stalled_methods: Vec<&'static str> = METHODS.iter().copied().collect();
	let stalled = par_map(&stalled_methods, nworkers, |i, m| stalled_request_case(&base, &format!("{}/c13-stall{}", root, i), m));
	for (m, ps) in stalled_methods.iter().zip(stalled.into_iter()) {
		for (k, w) in ps {
			if k == "__mach__" {
				return rep.finish(Some(format!("stalled-request case {}: {}", m, w)));
			}
			rep.add_finding(Finding { key: k, what: w, replay: json!({"kind": "stalled-request", "method": m}) });
		}
	}
	rep.cov("stalled_request_cases", json!(stalled_methods.len()));
	let classes: BTreeMap<String, usize> = {
		let mut m = BTreeMap::new();
		for e in alpha.iter() {
			*m.entry(format!("{:?}", e.class())).or_insert(0) += 1;
		}
		m
	};
	let traces = tree_paths.len() as u64
		+ per_depth.iter().map(|d| d["paths_run"].as_u64().unwrap()).sum::<u64>();
	rep.cov("states", json!(visited.len()));
	rep.cov("transitions", json!(acc.transitions));
	rep.cov("bfs_transitions", json!(bfs_transitions));
	rep.cov("tree_transitions", json!(acc.transitions - bfs_transitions));
	rep.cov("transitions_not_enabled", json!(acc.not_enabled));
	rep.cov("traces_validated_against_impl", json!(traces));
	rep.cov("evaluations", json!(requests_posted));
	rep.cov("distinct_nontrivial", json!(acc.nontrivial.len()));
	rep.cov("rule", json!("distinct (source state, envelope) pairs posted to the handler while a session key exists (the request reaches the decryption gate instead of the 'encryption not enabled' branch); state = (key generation, previous key exists, wallet open, mask valid, store projection)"));
	rep.cov("distinct_outcomes", json!(acc.outcomes.len()));
	rep.cov("alphabet_size", json!(alpha.len()));
	rep.cov("alphabet_classes", json!(classes));
	rep.cov("alphabet", json!(alpha.iter().map(|e| e.id()).collect::<Vec<_>>()));
	rep.cov("depth_bfs_dedup", json!(depth));
	rep.cov("bfs_reached_fixpoint", json!(bfs_closed));
	rep.cov("depth_complete_tree", json!(tree_depth));
	rep.cov("complete_tree_paths", json!(tree_paths.len()));
	rep.cov("bfs_levels", json!(per_depth));
	rep.cov("outcome_histogram", json!(acc.hist));
	rep.cov("exhaustive", json!(true));
	rep.cov("samples", json!(acc.samples));
	rep.cov("prevkey_requests_refused", json!(acc.prevkey_refused));
	rep.cov("authenticated_results_ok", json!(acc.auth_ok_results));
	rep.cov("key_exchanges", json!(acc.inits));
	rep.assume(&format!("two histories with the same projection (key generation capped at 3, previous key exists, wallet open/closed, client's mask token valid, canonical store projection) have the same future behaviour; cross-checked by running the complete request tree of depth {} without dedup (every step under the same oracle) and comparing the projected state sets", tree_depth));
	rep.assume("server ECDH secrets and response nonces are the production thread_rng values; client ECDH secrets and request nonces are deterministic; no comparison involves a random value");
	rep.assume("unauthenticated requests carry the correct password and the client's current mask token, so a request that passes the gate has a visible effect");
	// a run that found violations explores less (dead paths are cut): floors apply to clean runs
	let has_findings = !rep.findings.lock().unwrap().is_empty();
	let vac = if has_findings {
		None
	} else if acc.inits == 0
		|| acc.auth_ok_results < 6
		|| acc.prevkey_refused == 0
		|| visited.len() < 8
		|| acc.outcomes.len() < 20
	{
		Some(format!(
			"vacuity guard: key exchanges {}, authenticated Ok results {}, old-key requests refused {}, states {}, distinct outcomes {}",
			acc.inits, acc.auth_ok_results, acc.prevkey_refused, visited.len(), acc.outcomes.len()
		))
	} else {
		None
	};
	rep.finish(vac)
}
