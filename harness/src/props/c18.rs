//! C18 — a reorganised-away incoming payment is found reverted by scan (or full refresh),
//! never spendable; re-mined it is confirmed again by an ordinary refresh; orphaned coinbase
//! rewards stop being counted.
//! Exhaustive enumeration on a real forking chain: fork point × blocks after the receiving
//! block × fork with/without the transaction × fork length × up to three head flips ×
//! an action {nothing, refresh, full refresh, scan} after every flip.

use crate::common::*;
use crate::core::core::hash::Hashed;
use crate::core::core::{BlockHeader, Transaction};
use crate::libwallet::api_impl::owner;
use crate::libwallet::{OutputStatus, TxLogEntryType};
use crate::world::*;
use serde_json::{json, Value};
use std::collections::BTreeMap;
use uuid::Uuid;

const G: u64 = 1_000_000_000;
const PAY: u64 = 7 * G;

#[derive(Clone, Copy, Debug, PartialEq, Serialize, Deserialize)]
enum Act {
	Nothing,
	Refresh,
	FullRefresh,
	Scan,
	/// scan that also deletes unconfirmed outputs and cancels their transactions (scan --delete_unconfirmed):
	/// a reverted payment is not an unconfirmed one and must survive it
	ScanDelete,
	/// scan from a start height above 1 (still below the fork point): the revert must be found all the same
	ScanFrom2,
	/// an ordinary refresh first, then a scan while the node is still at the same height
	RefreshThenScan,
	RefreshThenFullRefresh,
}

#[derive(Clone, Debug, Serialize, Deserialize)]
struct Case {
	/// fork point = (height of the receiving block) - depth
	depth: u64,
	/// blocks mined on the original branch after the receiving block (the first by B)
	after: u64,
	fork_has_tx: bool,
	/// extra fork blocks beyond what is needed to win
	extra: u64,
	/// action after each head flip (fork wins, original wins, fork wins ...)
	acts: Vec<Act>,
}

struct Ctx {
	slate: Uuid,
	tx: Transaction,
	h_r: u64,
}

fn base_world(dir: &str) {
	let mut w = World::create(dir, &[("A", "A"), ("B", "B"), ("M", "M")]);
	w.mine_n("A", 3);
	w.mine_n("B", 2); // B has funds of its own (one will still be there after any fork)
	w.mine_n("M", 4);
	w.w("A").refresh().unwrap();
	w.w("B").refresh().unwrap();
	// the payment, finalised and posted but not mined yet
	let a = w.w("A");
	let b = w.w("B");
	let s1 = a.init_send(default_args(PAY)).unwrap();
	a.lock(&s1).unwrap();
	let s2 = b.receive(&s1, None).unwrap();
	let s3 = a.finalize(&s2).unwrap();
	w.meta.extra["slate"] = json!(s1.id.to_string());
	w.meta.extra["tx"] = json!(tx_to_hex(s3.tx_or_err().unwrap()));
	w.close();
}

fn act(w: &World, a: Act) -> Result<(), String> {
	let b = w.w("B");
	let r = match a {
		Act::Nothing => return Ok(()),
		Act::Refresh => catch(|| b.refresh().map(|_| ())),
		Act::FullRefresh => catch(|| owner::update_wallet_state(b.inst.clone(), None, &None, true).map(|_| ())),
		Act::Scan => catch(|| b.scan(Some(1), false)),
		Act::ScanDelete => catch(|| b.scan(Some(1), true)),
		Act::ScanFrom2 => catch(|| b.scan(Some(2), false)),
		Act::RefreshThenScan => catch(|| b.refresh().and_then(|_| b.scan(Some(1), false))),
		Act::RefreshThenFullRefresh => catch(|| b.refresh().and_then(|_| owner::update_wallet_state(b.inst.clone(), None, &None, true).map(|_| ()))),
	};
	match r {
		Err(p) => Err(format!("panic: {}", p)),
		Ok(Err(e)) => Err(format!("{}", e)),
		Ok(Ok(())) => Ok(()),
	}
}

/// the C18 oracle, evaluated right after a scan or full refresh of B
fn oracle(w: &World, cx: &Ctx, after: Act, problems: &mut Vec<(String, String)>) {
	let b = w.w("B");
	let kernel = cx.tx.kernels()[0].excess;
	let on_chain = w.node.kernel_on_chain(&kernel).is_some();
	let entry = b.txs().into_iter().find(|t| t.tx_slate_id == Some(cx.slate));
	let entry = match entry {
		Some(e) => e,
		None => {
			problems.push(("entry-missing".into(), "the receive entry disappeared".into()));
			return;
		}
	};
	let outs = b.outputs();
	let pay_out = outs.iter().find(|o| o.tx_log_entry == Some(entry.id) && !o.is_coinbase && o.value == PAY);
	let info = b.info(false, 1).unwrap().1;
	// chain truth for B
	let owned = chain_owned(&w.node, "B");
	let tip = w.node.height();
	let truth_total: u64 = owned.iter().map(|x| x.value).sum();
	let truth_spendable: u64 = owned.iter().filter(|x| !(x.is_coinbase && x.height + 3 > tip)).map(|x| x.value).sum();
	let an = format!("{:?}", after);
	if !on_chain {
		if entry.tx_type != TxLogEntryType::TxReverted || entry.confirmed {
			problems.push((
				format!("not-reported-reverted/{}", an),
				format!("kernel is not on the current chain but after {:?} the entry is {} confirmed={}", after, txtype_str(&entry.tx_type), entry.confirmed),
			));
		}
		match pay_out {
			Some(o) if o.status == OutputStatus::Unspent || o.status == OutputStatus::Locked => problems.push((
				format!("reverted-output-still-{}/{}", status_str(&o.status).to_lowercase(), an),
				format!("the payment's output is recorded {} although its transaction is not on the chain", status_str(&o.status)),
			)),
			_ => {}
		}
		if let Some(o) = pay_out {
			if o.status == OutputStatus::Reverted && info.amount_reverted != PAY {
				problems.push((format!("amount-reverted/{}", an), format!("amount_reverted is {} for a reverted payment of {}", info.amount_reverted, PAY)));
			}
		}
	}
	if info.total != truth_total || info.amount_currently_spendable + info.amount_immature + info.amount_awaiting_confirmation != truth_total {
		problems.push((
			format!("total-differs-from-chain/{}/{}", if on_chain { "tx-on-chain" } else { "tx-reverted" }, an),
			format!("after {:?}: total {} (spendable {} immature {} awaiting {}), the chain holds {} for this seed (spendable {})", after, info.total, info.amount_currently_spendable, info.amount_immature, info.amount_awaiting_confirmation, truth_total, truth_spendable),
		));
	}
	if !on_chain {
		// never selected as an input: asking for more than the true spendable balance must fail,
		// and a use-all selection must not contain the reverted output
		let mut args = default_args(truth_spendable.saturating_sub(30_000_000).max(1));
		args.selection_strategy_is_use_all = true;
		match catch(|| b.init_send(args)) {
			Ok(Ok(s)) => {
				if let Ok(c) = b.get_context(&s.id) {
					if let Some(o) = pay_out {
						if c.input_ids.iter().any(|i| i.0 == o.key_id) {
							problems.push((format!("reverted-output-selected/{}", an), "a send selected the reverted payment's output as an input".into()));
						}
					}
					for i in c.input_ids.iter() {
						let rec = outs.iter().find(|o| o.key_id == i.0).unwrap();
						if !owned.iter().any(|x| x.commit == b.commit_of(rec)) {
							problems.push((format!("orphaned-output-selected/{}", an), format!("a send selected {} which is not on the current chain", i.0.to_bip_32_string())));
						}
					}
				}
			}
			Ok(Err(_)) => {}
			Err(p) => problems.push((format!("selection-panics/{}", an), p)),
		}
	}
}

fn run_case(dir: &str, base: &Snapshot, c: &Case) -> (Vec<(String, String)>, u64) {
	base.restore(dir);
	let w = World::open(dir);
	let cx = Ctx {
		slate: Uuid::parse_str(w.meta.extra["slate"].as_str().unwrap()).unwrap(),
		tx: tx_from_hex(w.meta.extra["tx"].as_str().unwrap()),
		h_r: w.node.height() + 1,
	};
	let mut problems = vec![];
	let mut oracles = 0u64;
	// block R with the payment, then `after` more blocks on the original branch (first one mined by B)
	w.w("A").post(&cx.tx).unwrap();
	w.mine("M").unwrap();
	for i in 0..c.after {
		w.mine(if i == 0 { "B" } else { "M" }).unwrap();
	}
	w.w("B").refresh().unwrap();
	{
		// sanity: confirmed and spendable before any reorg
		let e = w.w("B").txs().into_iter().find(|t| t.tx_slate_id == Some(cx.slate)).unwrap();
		if !e.confirmed {
			drop(w);
			return (vec![("machinery".into(), "payment not confirmed before the reorg".into())], 0);
		}
	}
	let mut orig_tip: BlockHeader = w.node.head_header();
	let fork_point = cx.h_r - c.depth;
	let mut fork_tip: BlockHeader = w.header_at(fork_point);
	let mut fork_started = false;
	for (i, a) in c.acts.iter().enumerate() {
		let fork_turn = i % 2 == 0;
		// extend the losing branch until it becomes the head (+ extra on the first fork)
		let mut guard = 0;
		loop {
			let (tip, txs): (&mut BlockHeader, Vec<Transaction>) = if fork_turn {
				let t = if !fork_started && c.fork_has_tx { vec![cx.tx.clone()] } else { vec![] };
				(&mut fork_tip, t)
			} else {
				(&mut orig_tip, vec![])
			};
			let (h, is_head) = match w.mine_on(tip, "M", &txs) {
				Ok(x) => x,
				Err(e) => {
					drop(w);
					return (vec![("machinery".into(), format!("cannot extend branch: {}", e))], oracles);
				}
			};
			*tip = h;
			if fork_turn {
				fork_started = true;
			}
			guard += 1;
			if is_head || guard > 12 {
				break;
			}
		}
		if i == 0 {
			for _ in 0..c.extra {
				let (h, _) = w.mine_on(&fork_tip, "M", &[]).unwrap();
				fork_tip = h;
			}
		}
		if w.node.head_header().hash() != (if fork_turn { fork_tip.hash() } else { orig_tip.hash() }) {
			drop(w);
			return (vec![("machinery".into(), "branch did not become the head".into())], oracles);
		}
		if let Err(e) = act(&w, *a) {
			problems.push((format!("action-fails/{:?}", a), format!("{:?} after head flip {} failed: {}", a, i, e)));
			continue;
		}
		if matches!(a, Act::Scan | Act::ScanDelete | Act::ScanFrom2 | Act::FullRefresh | Act::RefreshThenScan | Act::RefreshThenFullRefresh) {
			oracles += 1;
			let mut p = vec![];
			oracle(&w, &cx, *a, &mut p);
			for (k, v) in p {
				problems.push((k, format!("{} (after head flip #{} of case {:?})", v, i, c)));
			}
		}
	}
	// final: if the payment is not on the current chain, get it re-mined; an ORDINARY refresh must then
	// report it confirmed and spendable again (provided the wallet had learnt that it was reverted)
	let kernel = cx.tx.kernels()[0].excess;
	let last_was_full = matches!(c.acts.last(), Some(Act::Scan) | Some(Act::ScanDelete) | Some(Act::ScanFrom2) | Some(Act::FullRefresh) | Some(Act::RefreshThenScan) | Some(Act::RefreshThenFullRefresh));
	if w.node.kernel_on_chain(&kernel).is_none() && last_was_full {
		if w.w("A").post(&cx.tx).is_ok() {
			w.mine("M").unwrap();
			match act(&w, Act::Refresh) {
				Ok(()) => {
					oracles += 1;
					let b = w.w("B");
					let e = b.txs().into_iter().find(|t| t.tx_slate_id == Some(cx.slate)).unwrap();
					let o = b.outputs().into_iter().find(|o| o.tx_log_entry == Some(e.id) && o.value == PAY && !o.is_coinbase);
					if e.tx_type != TxLogEntryType::TxReceived || !e.confirmed || o.as_ref().map(|o| o.status != OutputStatus::Unspent).unwrap_or(true) {
						problems.push((
							"re-mined-not-confirmed-by-refresh".into(),
							format!("after the reverted payment was mined again an ordinary refresh leaves entry {} confirmed={} output {:?} — case {:?}", txtype_str(&e.tx_type), e.confirmed, o.map(|o| status_str(&o.status)), c),
						));
					} else {
						let info = b.info(false, 1).unwrap().1;
						let owned = chain_owned(&w.node, "B");
						let tip = w.node.height();
						let truth_spendable: u64 = owned.iter().filter(|x| !(x.is_coinbase && x.height + 3 > tip)).map(|x| x.value).sum();
						if info.amount_currently_spendable != truth_spendable {
							problems.push(("re-mined-not-spendable".into(), format!("spendable {} after re-mining, chain truth {} — case {:?}", info.amount_currently_spendable, truth_spendable, c)));
						}
					}
				}
				Err(e) => problems.push(("action-fails/Refresh".into(), e)),
			}
		}
	}
	drop(w);
	(problems, oracles)
}

fn cases(thorough: bool) -> Vec<Case> {
	let mut v = vec![];
	let acts = [Act::Scan, Act::FullRefresh, Act::Refresh, Act::Nothing, Act::RefreshThenScan, Act::RefreshThenFullRefresh, Act::ScanDelete];
	let mut seqs: Vec<Vec<Act>> = vec![];
	for a in acts.iter() {
		seqs.push(vec![*a]);
	}
	for a in acts.iter() {
		for b in acts.iter() {
			seqs.push(vec![*a, *b]);
		}
	}
	for a in acts.iter() {
		for b in acts.iter() {
			for c in [Act::Scan, Act::FullRefresh, Act::RefreshThenScan].iter() {
				seqs.push(vec![*a, *b, *c]);
			}
		}
	}
	seqs.push(vec![Act::ScanFrom2]);
	for a in acts.iter() {
		seqs.push(vec![*a, Act::ScanFrom2]);
		seqs.push(vec![Act::ScanFrom2, *a]);
	}
	// only sequences that end in (or contain) an oracle point are informative
	seqs.retain(|s| s.iter().any(|a| matches!(a, Act::Scan | Act::ScanDelete | Act::ScanFrom2 | Act::FullRefresh | Act::RefreshThenScan | Act::RefreshThenFullRefresh)));
	for depth in (if thorough { vec![1u64, 2, 3] } else { vec![1u64, 2] }).iter() {
		for after in [1u64, 0].iter() {
			for fork_has_tx in [false, true].iter() {
				for extra in (if thorough { vec![0u64, 1] } else { vec![0u64] }).iter() {
					for s in seqs.iter() {
						if !thorough && s.len() == 3 && !(*depth == 1 && *after == 1) {
							continue;
						}
						v.push(Case { depth: *depth, after: *after, fork_has_tx: *fork_has_tx, extra: *extra, acts: s.clone() });
					}
				}
			}
		}
	}
	v
}

pub fn replay(payload: &Value) -> i32 {
	std::env::set_var("GWV_SHOW_PANICS", "1");
	let root = scratch_root();
	let based = format!("{}/c18-replay-base", root);
	base_world(&based);
	let base = Snapshot::capture(&based);
	let c: Case = serde_json::from_value(payload["case"].clone()).unwrap();
	let (p, n) = run_case(&format!("{}/c18-replay", root), &base, &c);
	println!("case {:?}: {} oracle evaluations, problems {:?}", c, n, p);
	if p.is_empty() { 0 } else { 1 }
}

pub fn run(_args: &[String]) -> i32 {
	let mut rep = Report::new("C18", "model_checking");
	let thorough = tier() == Tier::Thorough;
	let root = scratch_root();
	let based = format!("{}/c18-base", root);
	base_world(&based);
	let base = Snapshot::capture(&based);
	let cs = cases(thorough);
	let res = par_map(&cs, workers(), |i, c| {
		let dir = format!("{}/c18-{}", root, i);
		let r = run_case(&dir, &base, c);
		let _ = std::fs::remove_dir_all(&dir);
		r
	});
	let mut oracles = 0u64;
	let mut hist: BTreeMap<String, u64> = BTreeMap::new();
	for (c, (problems, n)) in cs.iter().zip(res.iter()) {
		oracles += n;
		*hist.entry(if problems.is_empty() { "holds".into() } else { "violation".into() }).or_insert(0) += 1;
		for (k, w) in problems.iter() {
			if k == "machinery" {
				return rep.finish(Some(format!("{} — case {:?}", w, c)));
			}
			let key = format!("C18/{}", k);
			if rep.findings.lock().unwrap().iter().any(|f| f.key == key) {
				continue;
			}
			// replay twice
			for r in 0..2 {
				let (p2, _) = run_case(&format!("{}/c18-again{}", root, r), &base, c);
				if !p2.iter().any(|x| x.0 == *k) {
					return rep.finish(Some(format!("verdict not reproducible: {} — case {:?}", key, c)));
				}
			}
			rep.add_finding(Finding { key, what: w.clone(), replay: json!({"case": c}) });
		}
	}
	let n = cs.len() as u64;
	rep.cov("states", json!(oracles));
	rep.cov("transitions", json!(n));
	rep.cov("traces_validated_against_impl", json!(n));
	rep.cov("evaluations", json!(n));
	rep.cov("distinct_nontrivial", json!(oracles));
	rep.cov("rule", json!("one case = (fork depth below the receiving block, blocks after it, fork with/without the tx, extra fork length, sequence of wallet actions after each of up to three head flips); non-trivial count = oracle evaluations after a scan / full refresh / re-mining refresh"));
	rep.cov("exhaustive", json!(true));
	rep.cov("dimensions", json!({"fork_depths": if thorough { vec![1,2,3] } else { vec![1,2] }, "blocks_after": [1,0], "fork_has_tx": [false,true], "extra_fork_blocks": if thorough { vec![0,1] } else { vec![0] }, "actions": ["Scan","FullRefresh","Refresh","Nothing","RefreshThenScan","RefreshThenFullRefresh","ScanDelete","ScanFrom2"], "max_head_flips": 3, "cases": n}));
	rep.cov("outcomes", json!(hist));
	rep.cov("samples", json!([cs[0], cs[5], cs[cs.len() - 1]]));
	rep.assume("'full refresh' = update_wallet_state with update_all = true (what scan runs first); reorgs are built on a real grin_chain with side branches of real blocks");
	let vac = if oracles < 50 { Some(format!("vacuity guard: only {} oracle evaluations", oracles)) } else { None };
	rep.finish(vac)
}
