//! smoke test of the world machinery (not a property)
use crate::world::*;
use grin_core::core::hash::Hashed;
use std::time::Instant;

pub fn run(_args: &[String]) -> i32 {
	let root = scratch_root();
	let dir = format!("{}/self", root);
	let t = Instant::now();
	let w = World::create(&dir, &[("A", "A"), ("B", "B")]);
	println!("create {:?}", t.elapsed());
	let t = Instant::now();
	w.mine_n("A", 5);
	println!("mine5 {:?} height {}", t.elapsed(), w.node.height());
	let a = w.w("A");
	let b = w.w("B");
	let t = Instant::now();
	println!("refresh {:?} {:?}", a.refresh(), t.elapsed());
	let (_, info) = a.info(false, 1).unwrap();
	println!("info {:?}", info);
	let t = Instant::now();
	let s1 = a.init_send(default_args(1_000_000_000)).unwrap();
	println!("init {:?}", t.elapsed());
	a.lock(&s1).unwrap();
	let t = Instant::now();
	let s2 = b.receive(&s1, None).unwrap();
	println!("recv {:?}", t.elapsed());
	let t = Instant::now();
	let s3 = a.finalize(&s2).unwrap();
	println!("fin {:?}", t.elapsed());
	a.post(s3.tx_or_err().unwrap()).unwrap();
	println!("mempool {}", w.node.mempool_len());
	w.mine("A").unwrap();
	a.refresh().unwrap();
	b.refresh().unwrap();
	println!("A {:?}", a.info(false, 1).unwrap().1);
	println!("B {:?}", b.info(false, 1).unwrap().1);
	let opts = ProjOpts { slots: vec![s1.id], heights: true, canon_ids: false };
	let pa = project_wallet(a, &opts);
	println!("{}", serde_json::to_string(&pa).unwrap());
	let t = Instant::now();
	w.close();
	let snap = Snapshot::capture(&dir);
	println!("snapshot {} bytes, {} files {:?}", snap.bytes(), snap.files.len(), t.elapsed());
	for f in snap.files.iter() { println!("  {} {}", f.0, f.1.len()); }
	let dir2 = format!("{}/self2", root);
	let t = Instant::now();
	snap.restore(&dir2);
	let w2 = World::open(&dir2);
	println!("restore+open {:?}", t.elapsed());
	let pa2 = project_wallet(w2.w("A"), &opts);
	assert_eq!(pa, pa2);
	// fork test: build 2 blocks on height-2 ancestor
	let h = w2.node.height();
	println!("height {}", h);
	// fork: replace the last 2 blocks by a 3-block branch mined to B
	let tip_before = w2.node.head_header();
	let became = w2.fork(h - 2, 3, "B", &[]);
	println!("fork became head: {} height {} (old tip {} still main: {})", became, w2.node.height(), tip_before.height,
		w2.header_at(tip_before.height).hash() == tip_before.hash());
	let a2 = w2.w("A");
	println!("A before scan {:?}", a2.info(true, 1).map(|i| (i.1.total, i.1.amount_reverted)));
	a2.scan(Some(1), false).unwrap();
	println!("A after scan {:?}", a2.info(true, 1).map(|i| (i.1.total, i.1.amount_reverted)));
	w2.close();
	let d = raw_dump(&WalletH::data_dir(&dir2, "A"));
	println!("raw dump {} entries", d.len());
	0
}
