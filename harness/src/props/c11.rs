//! C11 — payment proofs are sound end to end.
//! Exhaustive sweep: every proof-carrying send shape (amount/change shape × source account ×
//! lock mode) × every alteration of the proof fields of the recipient's reply → owner
//! finalize_tx must refuse (and accept the unaltered reply); and for every shape the exported
//! proof × every alteration × every verifying wallet {sender, recipient, third party} →
//! owner::verify_payment_proof must refuse (and accept the unaltered proof with the right
//! ownership flags, and refuse it while the kernel is not on chain).

use crate::common::*;
use crate::core::core::hash::Hashed;
use crate::core::libtx::tx_fee;
use crate::keychain::{ExtKeychain, Keychain};
use crate::libwallet::api_impl::owner;
use crate::libwallet::slate_versions::v4::{PaymentInfoV4, SlateV4};
use crate::libwallet::verif_hooks::tx as wtx;
use crate::libwallet::{address, PaymentProof, Slate, SlatepackAddress};
use crate::util::secp::key::{PublicKey, SecretKey};
use crate::util::secp::pedersen::Commitment;
use crate::util::static_secp_instance;
use crate::world::*;
use ed25519_dalek::{PublicKey as DPk, SecretKey as DSk, Signature as DSig, Verifier};
use serde_json::{json, Value};
use std::collections::BTreeMap;
use uuid::Uuid;

const G: u64 = 1_000_000_000;

// ---------------------------------------------------------------------------------------------
// helpers shared with C02

/// secret key of the wallet address (derivation index 0) of account `acct` of the wallet with seed `seed`
pub fn addr_sk(seed: &str, acct: u32) -> SecretKey {
	let kc = keychain_for(seed);
	address::address_from_derivation_path(&kc, &ExtKeychain::derive_key_id(2, acct, 0, 0, 0), 0).unwrap()
}

pub fn addr_pk(seed: &str, acct: u32) -> DPk {
	let d = DSk::from_bytes(&addr_sk(seed, acct).0).unwrap();
	(&d).into()
}

/// the recipient's (or anybody's) signature over a payment proof message, made by the library's own routine
pub fn pp_sign(amount: u64, excess: &Commitment, sender: DPk, sk: SecretKey) -> DSig {
	wtx::create_payment_proof_signature(amount, excess, sender, sk).unwrap()
}

pub fn flip_dsig(s: &DSig, byte: usize) -> DSig {
	let mut b = s.to_bytes();
	b[byte] ^= 1;
	DSig::from_bytes(&b).unwrap()
}

/// final kernel excess of an exchange = commitment to the sum of both parties' public excess keys
pub fn excess_of(s1: &Slate, reply: &Slate) -> Option<Commitment> {
	let secp = static_secp_instance();
	let secp = secp.lock();
	let a = s1.participant_data.get(0)?;
	let b = reply.participant_data.get(0)?;
	let sum = PublicKey::from_combination(&secp, vec![&a.public_blind_excess, &b.public_blind_excess]).ok()?;
	Commitment::from_pubkey(&secp, &sum).ok()
}

/// alterations of the proof fields of a reply slate
#[derive(Clone, Copy, Debug, PartialEq, Serialize, Deserialize)]
pub enum PAlt {
	Removed,
	SigAbsent,
	SigBitFlip,
	SigOtherKey,
	SigBySender,
	SigAmountPlus1,
	SigAmountMinus1,
	/// the recipient signs over another amount AND the reply states that amount in its own amount field
	SigAmountPlus1Claimed,
	SigAmountMinus1Claimed,
	SigOtherExcess,
	SigOtherSender,
	RaddrReplaced,
	RaddrReplacedSigned,
	SaddrReplaced,
	SaddrReplacedSigned,
	AddrsSwapped,
	/// the reply to a standard send comes back dressed as an invoice reply (state Invoice2, fee
	/// field filled in as invoice replies carry it) with the proof removed / re-addressed and signed
	RemovedAsInvoice2,
	RaddrReplacedSignedAsInvoice2,
}

pub fn palts() -> Vec<PAlt> {
	use PAlt::*;
	vec![
		Removed,
		SigAbsent,
		SigBitFlip,
		SigOtherKey,
		SigBySender,
		SigAmountPlus1,
		SigAmountMinus1,
		SigAmountPlus1Claimed,
		SigAmountMinus1Claimed,
		SigOtherExcess,
		SigOtherSender,
		RaddrReplaced,
		RaddrReplacedSigned,
		SaddrReplaced,
		SaddrReplacedSigned,
		AddrsSwapped,
		RemovedAsInvoice2,
		RaddrReplacedSignedAsInvoice2,
	]
}

pub struct PEnv {
	pub amount: u64,
	pub excess: Commitment,
	/// the excess of another kernel that is on chain
	pub other_excess: Commitment,
	pub sender: (String, u32),
	pub recipient: (String, u32),
	/// the fee agreed at initiation (compact replies carry a zero fee field)
	pub fee: grin_core::core::FeeFields,
}

/// false when the reply carries no proof (alteration not applicable)
pub fn apply_palt(a: &PAlt, v: &mut SlateV4, e: &PEnv) -> bool {
	let p = match v.proof.clone() {
		Some(p) => p,
		None => return false,
	};
	let m_pk = addr_pk("M", 0);
	let m_sk = || addr_sk("M", 0);
	let r_sk = || addr_sk(&e.recipient.0, e.recipient.1);
	let with_sig = |s: DSig| Some(PaymentInfoV4 { rsig: Some(s), ..p.clone() });
	v.proof = match a {
		PAlt::Removed => None,
		PAlt::SigAbsent => Some(PaymentInfoV4 { rsig: None, ..p.clone() }),
		PAlt::SigBitFlip => match p.rsig {
			Some(s) => with_sig(flip_dsig(&s, 40)),
			None => return false,
		},
		PAlt::SigOtherKey => with_sig(pp_sign(e.amount, &e.excess, p.saddr, m_sk())),
		PAlt::SigBySender => with_sig(pp_sign(e.amount, &e.excess, p.saddr, addr_sk(&e.sender.0, e.sender.1))),
		PAlt::SigAmountPlus1 => with_sig(pp_sign(e.amount + 1, &e.excess, p.saddr, r_sk())),
		PAlt::SigAmountMinus1 => with_sig(pp_sign(e.amount - 1, &e.excess, p.saddr, r_sk())),
		PAlt::SigAmountPlus1Claimed => {
			v.amt = e.amount + 1;
			with_sig(pp_sign(e.amount + 1, &e.excess, p.saddr, r_sk()))
		}
		PAlt::SigAmountMinus1Claimed => {
			v.amt = e.amount - 1;
			with_sig(pp_sign(e.amount - 1, &e.excess, p.saddr, r_sk()))
		}
		PAlt::SigOtherExcess => with_sig(pp_sign(e.amount, &e.other_excess, p.saddr, r_sk())),
		PAlt::SigOtherSender => with_sig(pp_sign(e.amount, &e.excess, m_pk, r_sk())),
		PAlt::RaddrReplaced => Some(PaymentInfoV4 { raddr: m_pk, ..p.clone() }),
		PAlt::RaddrReplacedSigned => Some(PaymentInfoV4 { raddr: m_pk, rsig: Some(pp_sign(e.amount, &e.excess, p.saddr, m_sk())), ..p.clone() }),
		PAlt::SaddrReplaced => Some(PaymentInfoV4 { saddr: m_pk, ..p.clone() }),
		PAlt::SaddrReplacedSigned => Some(PaymentInfoV4 { saddr: m_pk, rsig: Some(pp_sign(e.amount, &e.excess, m_pk, r_sk())), ..p.clone() }),
		PAlt::AddrsSwapped => Some(PaymentInfoV4 { saddr: p.raddr, raddr: p.saddr, ..p.clone() }),
		PAlt::RemovedAsInvoice2 | PAlt::RaddrReplacedSignedAsInvoice2 => {
			match v.sta {
				crate::libwallet::slate_versions::v4::SlateStateV4::Standard2 => {}
				_ => return false,
			}
			v.sta = crate::libwallet::slate_versions::v4::SlateStateV4::Invoice2;
			v.fee = e.fee.clone();
			if *a == PAlt::RemovedAsInvoice2 {
				None
			} else {
				Some(PaymentInfoV4 { raddr: m_pk, rsig: Some(pp_sign(e.amount, &e.excess, p.saddr, m_sk())), ..p.clone() })
			}
		}
	};
	true
}

/// excess of the coinbase kernel of the head block
pub fn head_coinbase_excess(w: &World) -> Commitment {
	let h = w.node.head_header();
	let b = w.node.chain.get_block(&h.hash()).unwrap();
	b.kernels().iter().find(|k| k.is_coinbase()).unwrap().excess
}

pub fn err_class(e: &crate::libwallet::Error) -> String {
	let d = format!("{:?}", e);
	let v: String = d.chars().take_while(|c| c.is_alphanumeric()).collect();
	let msg = format!("{}", e);
	// keep the message of the generic variants, they are the only discriminator
	if msg.contains("not found on chain") {
		return format!("{}:kernel not found on chain", v);
	}
	if v == "PaymentProof" || v == "GenericError" || v == "PaymentProofRetrieval" {
		format!("{}:{}", v, msg.chars().rev().take(44).collect::<String>().chars().rev().collect::<String>())
	} else {
		v
	}
}

// ---------------------------------------------------------------------------------------------
// shapes

#[derive(Clone, Copy, Debug, PartialEq, Serialize, Deserialize)]
enum Amt {
	/// 20 grin, one input, one change output
	Small,
	/// one whole output minus fee, no change
	Exact,
	/// 25 grin from all outputs, two change outputs
	Split2,
	/// 20 grin with the fee taken out of the amount (amount_includes_fee): the recipient gets, and signs for,
	/// the amount less the fee
	SmallInclFee,
}

#[derive(Clone, Copy, Debug, PartialEq, Serialize, Deserialize)]
enum Acct {
	Default,
	/// acct1 is the active account for the whole exchange
	Acct1Active,
	/// default is active at initiation, acct1 named as source; acct1 made active before finalization
	Acct1Src,
	/// acct1 named as source, default active from initiation through finalization: finalization
	/// may be refused (wrong account); if it is accepted the exported proof must still verify
	Acct1SrcDefaultActive,
}

#[derive(Clone, Copy, Debug, PartialEq, Serialize, Deserialize)]
struct Shape {
	amt: Amt,
	acct: Acct,
	late: bool,
	/// the sender reserves its outputs only when the reply is in, handing the (possibly altered)
	/// reply itself to tx_lock_outputs, as the synchronous send does
	#[serde(default)]
	lock_with_reply: bool,
	/// before replying, the counterparty reflects the sender's own first slate to the sender's foreign
	/// receive_tx (the sender then also holds a TxReceived entry under the same slate id, as in a
	/// self-send); the honest reply may be refused afterwards, an altered one must be
	#[serde(default)]
	reflect_first: bool,
}

fn shapes(thorough: bool) -> Vec<Shape> {
	if thorough {
		let mut v = vec![];
		for late in [false, true].iter() {
			for acct in [Acct::Default, Acct::Acct1Active, Acct::Acct1Src, Acct::Acct1SrcDefaultActive].iter() {
				for amt in [Amt::Small, Amt::Exact, Amt::Split2, Amt::SmallInclFee].iter() {
					v.push(Shape { amt: *amt, acct: *acct, late: *late, lock_with_reply: false, reflect_first: false });
					if !*late && *acct != Acct::Acct1SrcDefaultActive {
						v.push(Shape { amt: *amt, acct: *acct, late: false, lock_with_reply: true, reflect_first: false });
					}
					if *acct == Acct::Default || *acct == Acct::Acct1Active {
						v.push(Shape { amt: *amt, acct: *acct, late: *late, lock_with_reply: false, reflect_first: true });
						if !*late {
							v.push(Shape { amt: *amt, acct: *acct, late: false, lock_with_reply: true, reflect_first: true });
						}
					}
				}
			}
		}
		v
	} else {
		vec![
			Shape { amt: Amt::Small, acct: Acct::Default, late: false, lock_with_reply: false, reflect_first: false },
			Shape { amt: Amt::Exact, acct: Acct::Default, late: false, lock_with_reply: false, reflect_first: false },
			Shape { amt: Amt::Split2, acct: Acct::Default, late: false, lock_with_reply: false, reflect_first: false },
			Shape { amt: Amt::Small, acct: Acct::Acct1Active, late: false, lock_with_reply: false, reflect_first: false },
			Shape { amt: Amt::Split2, acct: Acct::Acct1Src, late: false, lock_with_reply: false, reflect_first: false },
			Shape { amt: Amt::Small, acct: Acct::Acct1SrcDefaultActive, late: false, lock_with_reply: false, reflect_first: false },
			Shape { amt: Amt::Exact, acct: Acct::Acct1Active, late: false, lock_with_reply: false, reflect_first: false },
			Shape { amt: Amt::Small, acct: Acct::Default, late: false, lock_with_reply: true, reflect_first: false },
			Shape { amt: Amt::SmallInclFee, acct: Acct::Default, late: false, lock_with_reply: false, reflect_first: false },
			Shape { amt: Amt::SmallInclFee, acct: Acct::Default, late: true, lock_with_reply: false, reflect_first: false },
			Shape { amt: Amt::Small, acct: Acct::Default, late: false, lock_with_reply: false, reflect_first: true },
			Shape { amt: Amt::Small, acct: Acct::Default, late: false, lock_with_reply: true, reflect_first: true },
			Shape { amt: Amt::Small, acct: Acct::Default, late: true, lock_with_reply: false, reflect_first: false },
			Shape { amt: Amt::Split2, acct: Acct::Acct1Active, late: true, lock_with_reply: false, reflect_first: false },
		]
	}
}

fn lock_mode(s: &Shape) -> &'static str {
	match (s.late, s.lock_with_reply, s.reflect_first) {
		(true, _, false) => "late-locked",
		(false, true, false) => "locked-with-reply",
		(false, false, false) => "locked-at-send",
		(true, _, true) => "late-locked/first-slate-reflected",
		(false, true, true) => "locked-with-reply/first-slate-reflected",
		(false, false, true) => "locked-at-send/first-slate-reflected",
	}
}

#[derive(Clone, Debug, Serialize, Deserialize)]
struct Base {
	/// exported proof of an earlier, confirmed proof-carrying payment A -> B
	y_proof: Value,
}

fn base_world(dir: &str) {
	let mut w = World::create(dir, &[("A", "A"), ("B", "B"), ("M", "M")]);
	w.w("A").create_account("acct1").unwrap();
	w.mine_n("A", 5);
	w.w("A").set_account("acct1").unwrap();
	w.mine_n("A", 4);
	w.w("A").set_account("default").unwrap();
	w.mine_n("B", 2);
	w.mine_n("M", 4);
	w.w("A").refresh().unwrap();
	w.w("B").refresh().unwrap();
	// Y: an earlier proof-carrying payment, confirmed
	let y_proof = {
		let a = w.w("A");
		let b = w.w("B");
		let mut args = default_args(3 * G);
		args.payment_proof_recipient_address = Some(SlatepackAddress::new(&addr_pk("B", 0)));
		let s1 = a.init_send(args).unwrap();
		a.lock(&s1).unwrap();
		let s2 = b.receive(&s1, None).unwrap();
		let s3 = a.finalize(&s2).unwrap();
		a.post(s3.tx_or_err().unwrap()).unwrap();
		w.mine("M").unwrap();
		a.refresh().unwrap();
		b.refresh().unwrap();
		let p = owner::retrieve_payment_proof(a.inst.clone(), a.mask(), &None, true, None, Some(s1.id)).unwrap();
		serde_json::to_value(&p).unwrap()
	};
	w.w("A").set_account("acct1").unwrap();
	w.w("A").refresh().unwrap();
	w.w("A").set_account("default").unwrap();
	w.meta.extra["c11base"] = serde_json::to_value(&Base { y_proof }).unwrap();
	w.close();
}

#[derive(Clone, Debug, Serialize, Deserialize)]
struct Prep {
	s1: String,
	s2: String,
	amount: u64,
}

fn acct_no(s: &Shape) -> u32 {
	if s.acct == Acct::Default {
		0
	} else {
		1
	}
}

fn activate(w: &World, s: &Shape) {
	if s.acct != Acct::Default && s.acct != Acct::Acct1SrcDefaultActive {
		w.w("A").set_account("acct1").unwrap();
	}
}

/// run the exchange of a shape up to the recipient's reply; the world is left just before finalization
fn prepare(dir: &str, base: &Snapshot, s: &Shape) -> Result<Snapshot, String> {
	base.restore(dir);
	let mut w = World::open(dir);
	let r = (|| -> Result<Prep, String> {
		let a = w.w("A");
		let b = w.w("B");
		let e = |x: crate::libwallet::Error| format!("{}", x);
		if s.acct == Acct::Acct1Active {
			a.set_account("acct1").unwrap();
		}
		let amount = match s.amt {
			Amt::Small | Amt::SmallInclFee => 20 * G,
			Amt::Exact => 60 * G - tx_fee(1, 1, 1),
			Amt::Split2 => 25 * G,
		};
		let mut args = default_args(amount);
		if s.amt == Amt::Split2 {
			args.num_change_outputs = 2;
			args.selection_strategy_is_use_all = true;
		}
		if s.acct == Acct::Acct1Src || s.acct == Acct::Acct1SrcDefaultActive {
			args.src_acct_name = Some("acct1".to_owned());
		}
		args.payment_proof_recipient_address = Some(SlatepackAddress::new(&addr_pk("B", 0)));
		if s.amt == Amt::SmallInclFee {
			args.amount_includes_fee = Some(true);
		}
		if s.late {
			args.late_lock = Some(true);
		}
		let s1 = a.init_send(args).map_err(e)?;
		if !s.late && !s.lock_with_reply {
			a.lock(&s1).map_err(e)?;
		}
		if s.reflect_first {
			let _ = catch(|| a.receive(&s1, None));
			let _ = take_last_panic();
		}
		let s2 = b.receive(&s1, None).map_err(e)?;
		// the amount the transaction pays (with amount_includes_fee: what was asked for less the fee)
		let amount = if s.amt == Amt::SmallInclFee { s1.amount } else { amount };
		Ok(Prep { s1: slate_to_json(&s1), s2: slate_to_json(&s2), amount })
	})();
	match r {
		Ok(p) => {
			w.meta.extra["c11"] = serde_json::to_value(&p).unwrap();
			w.close();
			Ok(Snapshot::capture(dir))
		}
		Err(e) => {
			w.close();
			Err(e)
		}
	}
}

fn penv(w: &World, s: &Shape, p: &Prep) -> Result<PEnv, String> {
	let s1 = slate_from_json(&p.s1);
	let s2 = slate_from_json(&p.s2);
	let excess = excess_of(&s1, &s2).ok_or("cannot compute the final excess")?;
	let env = PEnv { amount: p.amount, excess, other_excess: head_coinbase_excess(w), sender: ("A".to_owned(), acct_no(s)), recipient: ("B".to_owned(), 0), fee: s1.fee_fields.clone() };
	// sanity of the harness's own view of the message: the honest signature must verify under it
	let v4 = SlateV4::from(&s2);
	let pr = v4.proof.ok_or("honest reply carries no proof")?;
	let msg = wtx::payment_proof_message(env.amount, &env.excess, addr_pk("A", acct_no(s))).map_err(|e| format!("{}", e))?;
	let sig = pr.rsig.ok_or("honest reply carries no recipient signature")?;
	if pr.raddr != addr_pk("B", 0) || pr.saddr != addr_pk("A", acct_no(s)) {
		return Err("honest reply addresses are not the ones the harness derives".into());
	}
	if pr.raddr.verify(&msg, &sig).is_err() {
		return Err("honest recipient signature does not verify under the harness's message".into());
	}
	Ok(env)
}

/// Ok(label) / Err((key, what)); Err with key starting "__mach__" = machinery
fn run_finalize(dir: &str, snap: &Snapshot, s: &Shape, alt: Option<PAlt>) -> Result<String, (String, String)> {
	snap.restore(dir);
	let w = World::open(dir);
	let r = run_finalize_inner(&w, s, alt);
	w.close();
	r
}

fn run_finalize_inner(w: &World, s: &Shape, alt: Option<PAlt>) -> Result<String, (String, String)> {
	let p: Prep = serde_json::from_value(w.meta.extra["c11"].clone()).unwrap();
	let env = penv(w, s, &p).map_err(|e| ("__mach__".to_owned(), e))?;
	let a = w.w("A");
	activate(w, s);
	let reply = slate_from_json(&p.s2);
	let mut v4 = SlateV4::from(&reply);
	if let Some(alt) = alt.as_ref() {
		if !apply_palt(alt, &mut v4, &env) {
			return Err(("__mach__".to_owned(), format!("alteration {:?} not applicable", alt)));
		}
	}
	let mutated = Slate::from(v4);
	if s.lock_with_reply {
		// a refusal at this step is as good as one at finalization
		if let Ok(Err(e)) = catch(|| a.lock(&mutated)) {
			return match alt {
				None if s.reflect_first => Ok(format!("honest:refused-after-reflection:{}", err_class(&e))),
				None => Err((format!("C11/honest-refused/{}", lock_mode(s)), format!("tx_lock_outputs refused the unaltered reply of {:?}: {}", s, e))),
				Some(_) => Ok(format!("refused-at-lock:{}", err_class(&e))),
			};
		}
	}
	let res = catch(|| a.finalize(&mutated));
	let aname = alt.map(|x| format!("{:?}", x)).unwrap_or_else(|| "honest".to_owned());
	match res {
		Err(pm) => {
			let site = take_last_panic().map(|x| panic_site(&x.1)).unwrap_or_default();
			Err((format!("C11/panic/{}/owner::finalize_tx/{}", site, aname), format!("finalize_tx panicked on a reply with alteration {} ({:?}): {}", aname, s, pm)))
		}
		Ok(Ok(_)) => match alt {
			None => Ok("honest:ok".into()),
			Some(_) => Err((
				format!("C11/finalize-accepted/{}/{}", aname, lock_mode(s)),
				format!("owner::finalize_tx accepted a reply whose payment proof was altered ({}) on a {} proof-carrying send {:?}", aname, lock_mode(s), s),
			)),
		},
		Ok(Err(e)) => match alt {
			None if s.acct == Acct::Acct1SrcDefaultActive => Ok(format!("honest:refused-under-other-account:{}", err_class(&e))),
			None if s.reflect_first => Ok(format!("honest:refused-after-reflection:{}", err_class(&e))),
			None => Err((format!("C11/honest-refused/{}", lock_mode(s)), format!("owner::finalize_tx refused the unaltered reply of {:?}: {}", s, e))),
			Some(_) => Ok(format!("refused:{}", err_class(&e))),
		},
	}
}

/// alterations of an exported proof
#[derive(Clone, Copy, Debug, PartialEq, Serialize, Deserialize)]
enum EAlt {
	AmountPlus1,
	AmountMinus1,
	ExcessOtherTxKernel,
	ExcessCoinbaseKernel,
	SenderAddrThirdParty,
	SenderAddrRecipients,
	RecipientAddrThirdParty,
	RecipientAddrSenders,
	AddrsSwapped,
	RSigOtherKey,
	RSigIsSenderSig,
	RSigOtherMessage,
	RSigBitFlip,
	RSigFromOtherProof,
	SSigOtherKey,
	SSigIsRecipientSig,
	SSigOtherMessage,
	SSigBitFlip,
	SSigFromOtherProof,
	SigsSwapped,
}

fn ealts() -> Vec<EAlt> {
	use EAlt::*;
	vec![
		AmountPlus1,
		AmountMinus1,
		ExcessOtherTxKernel,
		ExcessCoinbaseKernel,
		SenderAddrThirdParty,
		SenderAddrRecipients,
		RecipientAddrThirdParty,
		RecipientAddrSenders,
		AddrsSwapped,
		RSigOtherKey,
		RSigIsSenderSig,
		RSigOtherMessage,
		RSigBitFlip,
		RSigFromOtherProof,
		SSigOtherKey,
		SSigIsRecipientSig,
		SSigOtherMessage,
		SSigBitFlip,
		SSigFromOtherProof,
		SigsSwapped,
	]
}

fn apply_ealt(a: &EAlt, p: &PaymentProof, y: &PaymentProof, coinbase_excess: &Commitment, s: &Shape) -> PaymentProof {
	let mut q = p.clone();
	let m = SlatepackAddress::new(&addr_pk("M", 0));
	let spk = p.sender_address.pub_key;
	match a {
		EAlt::AmountPlus1 => q.amount += 1,
		EAlt::AmountMinus1 => q.amount -= 1,
		EAlt::ExcessOtherTxKernel => q.excess = y.excess,
		EAlt::ExcessCoinbaseKernel => q.excess = *coinbase_excess,
		EAlt::SenderAddrThirdParty => q.sender_address = m,
		EAlt::SenderAddrRecipients => q.sender_address = p.recipient_address.clone(),
		EAlt::RecipientAddrThirdParty => q.recipient_address = m,
		EAlt::RecipientAddrSenders => q.recipient_address = p.sender_address.clone(),
		EAlt::AddrsSwapped => {
			q.sender_address = p.recipient_address.clone();
			q.recipient_address = p.sender_address.clone();
		}
		EAlt::RSigOtherKey => q.recipient_sig = pp_sign(p.amount, &p.excess, spk, addr_sk("M", 0)),
		EAlt::RSigIsSenderSig => q.recipient_sig = p.sender_sig,
		EAlt::RSigOtherMessage => q.recipient_sig = pp_sign(p.amount + 1, &p.excess, spk, addr_sk("B", 0)),
		EAlt::RSigBitFlip => q.recipient_sig = flip_dsig(&p.recipient_sig, 40),
		EAlt::RSigFromOtherProof => q.recipient_sig = y.recipient_sig,
		EAlt::SSigOtherKey => q.sender_sig = pp_sign(p.amount, &p.excess, spk, addr_sk("M", 0)),
		EAlt::SSigIsRecipientSig => q.sender_sig = p.recipient_sig,
		EAlt::SSigOtherMessage => q.sender_sig = pp_sign(p.amount + 1, &p.excess, spk, addr_sk("A", acct_no(s))),
		EAlt::SSigBitFlip => q.sender_sig = flip_dsig(&p.sender_sig, 40),
		EAlt::SSigFromOtherProof => q.sender_sig = y.sender_sig,
		EAlt::SigsSwapped => {
			q.sender_sig = p.recipient_sig;
			q.recipient_sig = p.sender_sig;
		}
	}
	q
}

struct ExportOut {
	/// (label) per evaluated verification
	labels: Vec<String>,
	problems: Vec<(String, String)>,
	observations: Vec<String>,
	sample: Value,
}

fn verify_by(w: &World, who: &str, p: &PaymentProof) -> Result<Result<(bool, bool), crate::libwallet::Error>, String> {
	let h = w.w(who);
	catch(|| owner::verify_payment_proof(h.inst.clone(), h.mask(), p))
}

/// the export scenario of one shape: honest finalization, proof before/after confirmation, every
/// alteration × every verifier. `only` restricts to one alteration (replay).
fn run_export(dir: &str, snap: &Snapshot, s: &Shape, only: Option<EAlt>) -> Result<ExportOut, (String, String)> {
	snap.restore(dir);
	let w = World::open(dir);
	let r = run_export_inner(&w, s, only);
	w.close();
	r
}

fn run_export_inner(w: &World, s: &Shape, only: Option<EAlt>) -> Result<ExportOut, (String, String)> {
	let mach = |e: String| ("__mach__".to_owned(), e);
	let p: Prep = serde_json::from_value(w.meta.extra["c11"].clone()).unwrap();
	let base: Base = serde_json::from_value(w.meta.extra["c11base"].clone()).unwrap();
	let y: PaymentProof = serde_json::from_value(base.y_proof.clone()).unwrap();
	let a = w.w("A");
	activate(w, s);
	let reply = slate_from_json(&p.s2);
	let id: Uuid = reply.id;
	let mut out = ExportOut { labels: vec![], problems: vec![], observations: vec![], sample: Value::Null };
	if s.lock_with_reply {
		if let Err(e) = a.lock(&reply) {
			out.labels.push(format!("honest-lock-refused:{}", err_class(&e)));
			return Ok(out);
		}
	}
	let s3 = match a.finalize(&reply) {
		Ok(s3) => s3,
		Err(e) if s.acct == Acct::Acct1SrcDefaultActive => {
			out.labels.push(format!("finalize-under-other-account:refused:{}", err_class(&e)));
			return Ok(out);
		}
		Err(e) => {
			// the first phase reports a refused honest reply as a verdict; there is no proof to export
			out.labels.push(format!("honest-finalize-refused:{}", err_class(&e)));
			return Ok(out);
		}
	};
	if s.acct == Acct::Acct1SrcDefaultActive {
		// the log entry lives in the source account: everything after finalization happens there
		a.set_account("acct1").unwrap();
	}
	let get = |refresh: bool| catch(|| owner::retrieve_payment_proof(a.inst.clone(), a.mask(), &None, refresh, None, Some(id)));
	let panic_key = |what: &str| {
		let site = take_last_panic().map(|x| panic_site(&x.1)).unwrap_or_default();
		format!("C11/panic/{}/{}", site, what)
	};
	// --- before the kernel is on chain
	for stage in ["finalized-not-posted", "posted-not-mined"].iter() {
		if *stage == "posted-not-mined" {
			a.post(s3.tx_or_err().unwrap()).map_err(|e| mach(format!("post failed: {}", e)))?;
		}
		match get(false) {
			Err(pm) => out.problems.push((panic_key("owner::retrieve_payment_proof"), format!("retrieve_payment_proof panicked: {}", pm))),
			Ok(Err(e)) => out.labels.push(format!("{}:export-refused:{}", stage, err_class(&e))),
			Ok(Ok(pr)) => {
				for who in ["A", "B", "M"].iter() {
					match verify_by(w, who, &pr) {
						Err(pm) => out.problems.push((panic_key("owner::verify_payment_proof"), format!("verify_payment_proof panicked: {}", pm))),
						Ok(Ok(f)) => out.problems.push((
							format!("C11/verify-accepted/kernel-not-on-chain/{}", stage),
							format!("verify_payment_proof by {} returned Ok({:?}) for the honest proof of {:?} while its kernel was not on chain ({})", who, f, s, stage),
						)),
						Ok(Err(e)) => out.labels.push(format!("{}:verify-refused:{}", stage, err_class(&e).chars().take(40).collect::<String>())),
					}
				}
			}
		}
	}
	w.mine("M").map_err(|e| mach(format!("mine failed: {}", e)))?;
	a.refresh().map_err(|e| mach(format!("refresh failed: {}", e)))?;
	w.w("B").refresh().map_err(|e| mach(format!("refresh failed: {}", e)))?;
	let proof = match get(true) {
		Err(pm) => {
			out.problems.push((panic_key("owner::retrieve_payment_proof"), format!("retrieve_payment_proof panicked: {}", pm)));
			return Ok(out);
		}
		Ok(Err(e)) => {
			out.problems.push((format!("C11/export-failed/{}", lock_mode(s)), format!("retrieve_payment_proof failed for the confirmed proof-carrying send {:?}: {}", s, e)));
			return Ok(out);
		}
		Ok(Ok(p)) => p,
	};
	out.sample = serde_json::to_value(&proof).unwrap();
	// exported fields are the agreed ones
	let s1 = slate_from_json(&p.s1);
	let excess = excess_of(&s1, &reply).ok_or_else(|| mach("excess".into()))?;
	if proof.amount != p.amount || proof.excess != excess || proof.sender_address.pub_key != addr_pk("A", acct_no(s)) || proof.recipient_address.pub_key != addr_pk("B", 0) {
		out.problems.push((
			format!("C11/export-wrong-fields/{}", lock_mode(s)),
			format!("exported proof of {:?} carries amount {} (agreed {}), excess match {}, sender match {}, recipient match {}", s, proof.amount, p.amount, proof.excess == excess, proof.sender_address.pub_key == addr_pk("A", acct_no(s)), proof.recipient_address.pub_key == addr_pk("B", 0)),
		));
	}
	// --- honest proof, every verifier
	for (who, expect) in [("A", (true, false)), ("B", (false, true)), ("M", (false, false))].iter() {
		match verify_by(w, who, &proof) {
			Err(pm) => out.problems.push((panic_key("owner::verify_payment_proof"), format!("verify_payment_proof panicked: {}", pm))),
			Ok(Err(e)) => out.problems.push((format!("C11/honest-proof-refused/{}", lock_mode(s)), format!("verify_payment_proof by {} refused the unaltered exported proof of {:?}: {}", who, s, e))),
			Ok(Ok(f)) => {
				if f != *expect {
					out.problems.push((format!("C11/flags/verifier-{}", who), format!("verify_payment_proof by {} returned (sender_mine, recipient_mine) = {:?}, expected {:?} ({:?})", who, f, expect, s)));
				} else {
					out.labels.push(format!("honest:verified-by-{}:{:?}", who, f));
				}
			}
		}
	}
	if s.acct != Acct::Default {
		// not asserted: the sender flag is derived from the active account only
		a.set_account("default").unwrap();
		if let Ok(Ok(f)) = verify_by(w, "A", &proof) {
			out.observations.push(format!("sender verifies its own acct1 proof with default active: flags {:?}", f));
		}
		a.set_account("acct1").unwrap();
	}
	// --- alterations
	let cb = head_coinbase_excess(w);
	for ea in ealts().iter() {
		if let Some(o) = only {
			if o != *ea {
				continue;
			}
		}
		let q = apply_ealt(ea, &proof, &y, &cb, s);
		for who in ["A", "B", "M"].iter() {
			match verify_by(w, who, &q) {
				Err(pm) => out.problems.push((panic_key("owner::verify_payment_proof"), format!("verify_payment_proof panicked on {:?}: {}", ea, pm))),
				Ok(Ok(f)) => out.problems.push((
					format!("C11/verify-accepted/{:?}", ea),
					format!("verify_payment_proof by {} returned Ok({:?}) for an exported proof altered by {:?} ({:?})", who, f, ea, s),
				)),
				Ok(Err(e)) => out.labels.push(format!("{:?}:refused:{}", ea, err_class(&e).chars().take(48).collect::<String>())),
			}
		}
	}
	// --- the block that holds the kernel is reorganised away (nobody re-mines the transaction): the
	// same proof must be refused by everyone, before and after the wallets look at the chain again
	{
		let h = w.node.height();
		if w.fork(h - 1, 2, "M", &[]) {
			for stage in ["before-refresh", "after-refresh"].iter() {
				if *stage == "after-refresh" {
					let _ = a.refresh();
					let _ = w.w("B").refresh();
				}
				for who in ["A", "B", "M"].iter() {
					match verify_by(w, who, &proof) {
						Err(pm) => out.problems.push((panic_key("owner::verify_payment_proof"), format!("verify_payment_proof panicked: {}", pm))),
						Ok(Ok(f)) => out.problems.push((
							format!("C11/verify-accepted/kernel-reorganised-away/{}", stage),
							format!("verify_payment_proof by {} returned Ok({:?}) for the proof of {:?} after the block holding its kernel was reorganised away ({})", who, f, s, stage),
						)),
						Ok(Err(e)) => out.labels.push(format!("reorged:{}:verify-refused:{}", stage, err_class(&e).chars().take(40).collect::<String>())),
					}
				}
			}
		} else {
			out.observations.push("fork did not become the main chain: reorganised-kernel case not exercised".into());
		}
	}
	// --- not asserted (two fields changed consistently): the sender's signature does not cover the recipient address
	{
		let mut q = proof.clone();
		q.recipient_address = SlatepackAddress::new(&addr_pk("M", 0));
		q.recipient_sig = pp_sign(proof.amount, &proof.excess, proof.sender_address.pub_key, addr_sk("M", 0));
		if let Ok(r) = verify_by(w, "M", &q) {
			out.observations.push(format!("double alteration (recipient address -> third party, recipient signature re-made by the third party): {}", match r {
				Ok(f) => format!("accepted {:?}", f),
				Err(e) => format!("refused {}", err_class(&e)),
			}));
		}
	}
	Ok(out)
}

pub fn replay(payload: &Value) -> i32 {
	std::env::set_var("GWV_SHOW_PANICS", "1");
	let root = scratch_root();
	let based = format!("{}/c11-replay-base", root);
	let dir = format!("{}/c11-replay", root);
	base_world(&based);
	let base = Snapshot::capture(&based);
	let s: Shape = serde_json::from_value(payload["shape"].clone()).unwrap();
	let snap = match prepare(&dir, &base, &s) {
		Ok(x) => x,
		Err(e) => {
			println!("preparation failed: {}", e);
			return 2;
		}
	};
	if payload["kind"] == "finalize" {
		let alt: Option<PAlt> = serde_json::from_value(payload["alt"].clone()).unwrap();
		let r = run_finalize(&dir, &snap, &s, alt);
		println!("verdict: {:?}", r);
		match r {
			Ok(_) => 0,
			Err((k, _)) if k == "__mach__" => 2,
			Err(_) => 1,
		}
	} else {
		let only: Option<EAlt> = serde_json::from_value(payload["ealt"].clone()).unwrap_or(None);
		match run_export(&dir, &snap, &s, only) {
			Ok(o) => {
				println!("labels: {:?}\nproblems: {:?}\nobservations: {:?}", o.labels, o.problems, o.observations);
				if o.problems.is_empty() {
					0
				} else {
					1
				}
			}
			Err(e) => {
				println!("machinery: {:?}", e);
				2
			}
		}
	}
}

pub fn run(_args: &[String]) -> i32 {
	let mut rep = Report::new("C11", "model_checking");
	let thorough = tier() == Tier::Thorough;
	let root = scratch_root();
	let based = format!("{}/c11-base", root);
	base_world(&based);
	let base = Snapshot::capture(&based);
	let shs = shapes(thorough);
	// phase 1: one exchange per shape, up to the reply
	let preps = par_map(&shs, workers(), |i, s| {
		let dir = format!("{}/c11-p{}", root, i);
		let r = prepare(&dir, &base, s);
		let _ = std::fs::remove_dir_all(&dir);
		r
	});
	for (s, p) in shs.iter().zip(preps.iter()) {
		if let Err(e) = p {
			return rep.finish(Some(format!("preparation of {:?} failed: {}", s, e)));
		}
	}
	let snaps: Vec<Snapshot> = preps.into_iter().map(|p| p.unwrap()).collect();
	// phase 2a: finalization cases
	let mut cases: Vec<(usize, Option<PAlt>)> = vec![];
	for i in 0..shs.len() {
		cases.push((i, None));
		for a in palts() {
			cases.push((i, Some(a)));
		}
	}
	let fres = par_map(&cases, workers(), |ci, (i, alt)| {
		let dir = format!("{}/c11-f{}", root, ci);
		let r = run_finalize(&dir, &snaps[*i], &shs[*i], *alt);
		let r = match r {
			Err((k, wh)) if k != "__mach__" => {
				// replay twice from a fresh exchange
				let mut same = true;
				for _ in 0..2 {
					let again = prepare(&dir, &base, &shs[*i]).map_err(|e| ("__mach__".to_owned(), e)).and_then(|sn| run_finalize(&dir, &sn, &shs[*i], *alt));
					match again {
						Err((k2, _)) if k2 == k => {}
						_ => same = false,
					}
				}
				if same {
					Err((k, wh))
				} else {
					Err(("__mach__".to_owned(), format!("verdict {} not reproducible", k)))
				}
			}
			x => x,
		};
		let _ = std::fs::remove_dir_all(&dir);
		r
	});
	// phase 2b: export scenarios
	let idx: Vec<usize> = (0..shs.len()).collect();
	let eres = par_map(&idx, workers(), |_, i| {
		let dir = format!("{}/c11-e{}", root, i);
		let r = run_export(&dir, &snaps[*i], &shs[*i], None);
		let r = match r {
			Ok(o) if !o.problems.is_empty() => {
				let keys: Vec<String> = o.problems.iter().map(|p| p.0.clone()).collect();
				let mut same = true;
				for _ in 0..2 {
					let again = prepare(&dir, &base, &shs[*i]).map_err(|e| ("__mach__".to_owned(), e)).and_then(|sn| run_export(&dir, &sn, &shs[*i], None));
					match again {
						Ok(o2) if o2.problems.iter().map(|p| p.0.clone()).collect::<Vec<_>>() == keys => {}
						_ => same = false,
					}
				}
				if same {
					Ok(o)
				} else {
					Err(("__mach__".to_owned(), format!("export verdicts {:?} not reproducible", keys)))
				}
			}
			x => x,
		};
		let _ = std::fs::remove_dir_all(&dir);
		r
	});
	let mut hist: BTreeMap<String, u64> = BTreeMap::new();
	let mut honest_ok = 0u64;
	let mut refused = 0u64;
	let mut accepted = 0u64;
	let mut samples = vec![];
	let mut mach = None;
	for ((i, alt), r) in cases.iter().zip(fres.iter()) {
		match r {
			Ok(l) => {
				if l == "honest:ok" {
					honest_ok += 1;
				} else {
					refused += 1;
				}
				*hist.entry(format!("finalize:{}", l)).or_insert(0) += 1;
				if samples.len() < 3 && alt.is_some() && *i == 0 {
					samples.push(json!({"shape": shs[*i], "reply_alteration": alt, "outcome": l}));
				}
			}
			Err((k, wh)) => {
				if k == "__mach__" {
					mach = Some(wh.clone());
					continue;
				}
				accepted += 1;
				*hist.entry("finalize:violation".into()).or_insert(0) += 1;
				rep.add_finding(Finding { key: k.clone(), what: wh.clone(), replay: json!({"kind": "finalize", "shape": shs[*i], "alt": alt}) });
			}
		}
	}
	let mut verify_refused = 0u64;
	let mut verify_honest = 0u64;
	let mut not_on_chain_refused = 0u64;
	let mut observations: BTreeMap<String, u64> = BTreeMap::new();
	for (i, r) in idx.iter().zip(eres.iter()) {
		match r {
			Err((_, wh)) => mach = Some(format!("export scenario {:?}: {}", shs[*i], wh)),
			Ok(o) => {
				for l in o.labels.iter() {
					if l.starts_with("honest:verified") {
						verify_honest += 1;
					} else if l.contains("not-mined") || l.contains("not-posted") {
						not_on_chain_refused += 1;
					} else {
						verify_refused += 1;
					}
					*hist.entry(format!("verify:{}", l)).or_insert(0) += 1;
				}
				for ob in o.observations.iter() {
					*observations.entry(ob.clone()).or_insert(0) += 1;
				}
				for (k, wh) in o.problems.iter() {
					*hist.entry("verify:violation".into()).or_insert(0) += 1;
					let ealt = k.rsplit('/').next().and_then(|n| ealts().into_iter().find(|e| format!("{:?}", e) == n));
					rep.add_finding(Finding { key: k.clone(), what: wh.clone(), replay: json!({"kind": "export", "shape": shs[*i], "ealt": ealt}) });
				}
				if samples.len() < 5 && *i == 0 {
					samples.push(json!({"shape": shs[*i], "exported_proof": o.sample, "verified_by": ["A", "B", "M"], "alterations": ealts().len()}));
				}
			}
		}
	}
	let n_verify = (idx.len() * (ealts().len() * 3 + 3 + 6)) as u64;
	let n = cases.len() as u64 + n_verify;
	rep.cov("states", json!(shs.len() + cases.len() + idx.len() * 3));
	rep.cov("transitions", json!(n));
	rep.cov("traces_validated_against_impl", json!(n));
	rep.cov("evaluations", json!(n));
	rep.cov("distinct_nontrivial", json!(refused + accepted + verify_refused));
	rep.cov("rule", json!("one case = (send shape, alteration of the reply's proof fields) finalised by the real owner::finalize_tx, or (send shape, alteration of the exported proof, verifying wallet) checked by the real owner::verify_payment_proof; all distinct by construction; non-trivial = the altered ones (the unaltered controls are counted separately)"));
	rep.cov("exhaustive", json!(true));
	rep.cov("dimensions", json!({
		"shapes": shs.len(), "shape_dims": {"amount/change": ["Small(1 change)", "Exact(0 change)", "Split2(2 change, all inputs)"], "account": ["Default", "Acct1Active", "Acct1Src"], "lock": ["at send", "late"]},
		"reply_alterations": palts().len(), "finalize_cases": cases.len(),
		"export_alterations": ealts().len(), "verifiers": 3, "verify_calls": n_verify,
	}));
	rep.cov("outcomes", json!(hist));
	rep.cov("honest_finalized", json!(honest_ok));
	rep.cov("altered_replies_refused", json!(refused));
	rep.cov("altered_replies_accepted", json!(accepted));
	rep.cov("altered_proofs_refused", json!(verify_refused));
	rep.cov("honest_proof_verifications", json!(verify_honest));
	rep.cov("refused_while_kernel_not_on_chain", json!(not_on_chain_refused));
	rep.cov("observations_not_asserted", json!(observations));
	rep.cov("samples", json!(samples));
	rep.assume("the third party is a real wallet M with its own seed; 'another key' is M's address key or the sender's own; 'another on-chain kernel' is the kernel of an earlier confirmed proof-carrying payment between the same wallets and the coinbase kernel of the head block");
	rep.assume("ownership flags are asserted with the sending account active (verify_payment_proof documents a 'simple test' on the active account's address); the flags seen with another account active are reported, not asserted");
	rep.assume("a proof in which two fields are changed consistently (recipient address and a recipient signature re-made by the new key) is outside the statement's single-field alterations; its outcome is reported under observations_not_asserted");
	rep.assume("'kernel not on chain' is exercised before posting and while the transaction is only in the pool; a fork without the kernel is not built here");
	let has_findings = !rep.findings.lock().unwrap().is_empty();
	if mach.is_none() && !has_findings {
		let must_finalize = shs.iter().filter(|x| x.acct != Acct::Acct1SrcDefaultActive).count() as u64;
		if honest_ok < must_finalize {
			mach = Some(format!("vacuity guard: {} of {} honest replies finalised", honest_ok, must_finalize));
		} else if refused < (shs.len() as u64) * 5 || verify_refused < (shs.len() as u64) * 20 || verify_honest < shs.len() as u64 {
			mach = Some(format!("vacuity guard: refused replies {} refused proofs {} honest verifications {}", refused, verify_refused, verify_honest));
		}
	}
	rep.finish(mach)
}
