//! C16 — scanning restores and repairs the wallet to the chain's truth, idempotently.
//! For every chain state reachable with the C04 alphabet up to a depth (plus paging
//! variants and, thorough, a chain crossing the 1000-output scan batch): restore a new
//! wallet from the seed and scan from every start height; inject every single (quick) /
//! pair (thorough) of divergences into the original wallet and scan; scan twice.

use crate::common::*;
use crate::explore::run_path;
use crate::keychain::Identifier;
use crate::libwallet::{OutputData, OutputStatus};
use crate::props::c04::{self, check_books_opt, Op};
use crate::world::*;
use serde_json::{json, Value};
use std::collections::BTreeMap;
use std::sync::atomic::Ordering;

const G: u64 = 1_000_000_000;
const MATURITY: u64 = 3;

#[derive(Clone, Copy, Debug, PartialEq, Serialize, Deserialize)]
enum Div {
	DeleteRecord,
	UnspentToSpent,
	UnspentToLockedDangling,
	StaleUnconfirmed,
	LockedByNeverPosted,
	CancelAfterPost,
	Reorg,
	/// an incoming payment the wallet has seen confirmed is reorganised away and mined again two
	/// blocks higher, without the wallet looking in between (its record stays Unspent, stale height)
	ReorgRemined,
}

const DIVS: [Div; 8] = [
	Div::DeleteRecord,
	Div::UnspentToSpent,
	Div::UnspentToLockedDangling,
	Div::StaleUnconfirmed,
	Div::LockedByNeverPosted,
	Div::CancelAfterPost,
	Div::Reorg,
	Div::ReorgRemined,
];

fn needs_delete_unconfirmed(d: Div) -> bool {
	matches!(d, Div::UnspentToLockedDangling | Div::StaleUnconfirmed | Div::LockedByNeverPosted)
}

/// inject one divergence into wallet A (default account); false if not applicable in this state
fn inject(w: &World, d: Div, nth: usize) -> bool {
	let a = w.w("A");
	a.set_account("default").unwrap();
	let parent = a.with(|b| b.parent_key_id());
	let unspent: Vec<OutputData> = a.outputs().into_iter().filter(|o| o.status == OutputStatus::Unspent && o.root_key_id == parent && w.node.is_unspent(&a.commit_of(o))).collect();
	match d {
		Div::DeleteRecord | Div::UnspentToSpent | Div::UnspentToLockedDangling => {
			if unspent.len() <= nth {
				return false;
			}
			let mut o = unspent[nth].clone();
			a.with(|b| {
				let mut batch = b.batch(None).unwrap();
				match d {
					Div::DeleteRecord => batch.delete(&o.key_id, &o.mmr_index).unwrap(),
					Div::UnspentToSpent => {
						o.status = OutputStatus::Spent;
						batch.save(o).unwrap();
					}
					_ => {
						o.status = OutputStatus::Locked;
						o.tx_log_entry = Some(4000);
						batch.save(o).unwrap();
					}
				}
				batch.commit().unwrap();
			});
			true
		}
		Div::StaleUnconfirmed => {
			// an incoming payment that never gets posted
			let b = w.w("B");
			match b.init_send(default_args(G)).and_then(|s| b.lock(&s).map(|_| s)).and_then(|s| a.receive(&s, None)) {
				Ok(_) => true,
				Err(_) => false,
			}
		}
		Div::LockedByNeverPosted => match a.init_send(default_args(2 * G)).and_then(|s| a.lock(&s)) {
			Ok(_) => true,
			Err(_) => false,
		},
		Div::CancelAfterPost => {
			let b = w.w("B");
			let r = (|| -> Result<(), crate::libwallet::Error> {
				let s1 = a.init_send(default_args(3 * G))?;
				a.lock(&s1)?;
				let s2 = b.receive(&s1, None)?;
				let s3 = a.finalize(&s2)?;
				a.post(s3.tx_or_err()?)?;
				a.cancel(None, Some(s1.id))?;
				Ok(())
			})();
			if r.is_err() {
				return false;
			}
			w.mine("M").unwrap();
			true
		}
		Div::ReorgRemined => {
			let b = w.w("B");
			let r = (|| -> Result<crate::core::core::Transaction, crate::libwallet::Error> {
				let s1 = b.init_send(default_args(3 * G))?;
				b.lock(&s1)?;
				let s2 = a.receive(&s1, None)?;
				let s3 = b.finalize(&s2)?;
				let tx = s3.tx_or_err()?.clone();
				b.post(&tx)?;
				Ok(tx)
			})();
			let tx = match r {
				Ok(t) => t,
				Err(_) => return false,
			};
			w.mine("M").unwrap();
			a.refresh().ok();
			let h = w.node.height();
			let mut prev = w.header_at(h - 1);
			let mut head = false;
			for i in 0..3 {
				let t: Vec<crate::core::core::Transaction> = if i == 1 { vec![tx.clone()] } else { vec![] };
				let (hd, is_head) = w.mine_on(&prev, "M", &t).unwrap();
				prev = hd;
				head = is_head;
			}
			head
		}
		Div::Reorg => {
			// replace the last two blocks (whatever they contain) by a longer empty branch
			let h = w.node.height();
			if h < 4 {
				return false;
			}
			a.refresh().ok();
			w.fork(h - 2, 3, "M", &[])
		}
	}
}

/// after a scan of wallet `name` (seed `seed`): every account's books equal chain truth
fn books_all_accounts(w: &World, name: &str, seed: &str, problems: &mut Vec<(String, String)>) {
	let wal = w.w(name);
	let accts: Vec<(String, Identifier)> = wal.with(|b| b.acct_path_iter().map(|m| (m.label, m.path)).collect());
	for (label, _) in accts.iter() {
		wal.set_account(label).unwrap();
		// figures are computed against the wallet's last confirmed height: bring it to the tip
		if wal.refresh().is_err() {
			problems.push(("refresh-after-scan-fails".into(), format!("refresh of account {} after scan failed", label)));
			continue;
		}
		let mut p = vec![];
		check_books_opt(w, name, seed, false, &mut p);
		for (k, v) in p {
			problems.push((k, format!("account {}: {}", label, v)));
		}
	}
	wal.set_account("default").unwrap();
}

fn view(w: &WalletH) -> Value {
	project_wallet(w, &ProjOpts { slots: vec![], heights: true, canon_ids: false })
}

struct Out {
	cases: u64,
	scans_ok: u64,
	problems: Vec<(String, String, Value)>,
}

/// all checks on one chain/wallet state (given as a C04 path from a base)
fn check_state(root: &str, tag: &str, base: usize, path: &[Op], page: u64, divsets: &[Vec<Div>], all_starts: bool) -> Out {
	let m = c04::M { base, reduced: false };
	let dir = format!("{}/{}", root, tag);
	let mut out = Out { cases: 0, scans_ok: 0, problems: vec![] };
	if run_path(&m, &dir, path).is_err() {
		return out;
	}
	// a third account holding an output: a restore then has to re-create two unknown account paths at once
	{
		let w = World::open(&dir);
		let a = w.w("A");
		if a.create_account("acct2").is_ok() {
			a.set_account("acct2").unwrap();
			w.mine("A").unwrap();
			a.set_account("default").unwrap();
			a.refresh().ok();
		}
		w.close();
	}
	let snap = Snapshot::capture(&dir);
	let desc = |extra: Value| json!({"base": base, "path": path, "page": page, "case": extra});
	// ---- restore from seed, every start height
	let tip = {
		let w = World::open(&dir);
		let t = w.node.height();
		drop(w);
		t
	};
	let starts: Vec<u64> = if all_starts { (0..=tip).collect() } else { vec![0, 1, tip / 2, tip] };
	for start in starts {
		snap.restore(&dir);
		let mut w = World::open(&dir);
		w.node.page.store(page, Ordering::SeqCst);
		w.add_wallet("R", "A");
		let r = w.w("R");
		out.cases += 1;
		match catch(|| r.scan(Some(start), false)) {
			Err(p) => {
				out.problems.push(("restore/scan-panics".into(), format!("scan from height {} panicked: {}", start, p), desc(json!({"restore_from": start}))));
				continue;
			}
			Ok(Err(e)) => {
				out.problems.push(("restore/scan-error".into(), format!("scan from height {} failed: {}", start, e), desc(json!({"restore_from": start}))));
				continue;
			}
			Ok(Ok(())) => out.scans_ok += 1,
		}
		let truth: Vec<Owned> = chain_owned(&w.node, "A").into_iter().filter(|x| x.height >= start).collect();
		let recs: Vec<OutputData> = r.outputs().into_iter().filter(|o| o.status == OutputStatus::Unspent).collect();
		let key = |c: &crate::util::secp::pedersen::Commitment| c.0.to_vec();
		let orig_wallet = w.w("A");
		let orig_outs = orig_wallet.outputs();
		let tmap: BTreeMap<Vec<u8>, &Owned> = truth.iter().map(|x| (key(&x.commit), x)).collect();
		let rmap: BTreeMap<Vec<u8>, &OutputData> = recs.iter().map(|o| (key(&r.commit_of(o)), o)).collect();
		for (c, x) in tmap.iter() {
			match rmap.get(c) {
				None => out.problems.push((
					"restore/output-not-found".into(),
					format!("scan from height {} (page size {}) did not restore output {} (value {}, height {})", start, page, x.key_id.to_bip_32_string(), x.value, x.height),
					desc(json!({"restore_from": start})),
				)),
				Some(o) => {
					let lock = if x.is_coinbase { x.height + MATURITY } else { x.height };
					let exp = (x.value, x.height, x.is_coinbase, lock, x.key_id.parent_path().to_bip_32_string());
					let got = (o.value, o.height, o.is_coinbase, o.lock_height, o.root_key_id.to_bip_32_string());
					// differential: the account the original wallet keeps this output in
					if let Some(orig) = orig_outs.iter().find(|q| key(&orig_wallet.commit_of(q)) == *c) {
						if orig.root_key_id != o.root_key_id {
							out.problems.push((
								"restore/account-differs-from-original".into(),
								format!(
									"output {} (value {}) is held in account path {} by the original wallet but in account path {} by the wallet restored from the same seed",
									x.key_id.to_bip_32_string(), x.value, orig.root_key_id.to_bip_32_string(), o.root_key_id.to_bip_32_string()
								),
								desc(json!({"restore_from": start})),
							));
						}
					}
					if exp != got || o.key_id != x.key_id {
						out.problems.push((
							"restore/output-attributes".into(),
							format!("restored output {}: (value, height, coinbase, lock height, account) = {:?}, chain truth {:?}", x.key_id.to_bip_32_string(), got, exp),
							desc(json!({"restore_from": start})),
						));
					}
				}
			}
		}
		for (c, o) in rmap.iter() {
			if !tmap.contains_key(c) && (start <= 1 || o.height >= start) {
				out.problems.push((
					"restore/extra-unspent-record".into(),
					format!("scan from height {} produced an Unspent record {} (value {}) that is not one of the seed's outputs in the UTXO set", start, o.key_id.to_bip_32_string(), o.value),
					desc(json!({"restore_from": start})),
				));
			}
		}
		// every account path that holds a restored output is reachable through an account label
		{
			let paths: Vec<Identifier> = r.with(|b| b.acct_path_iter().map(|m| m.path).collect());
			for o in recs.iter() {
				if !paths.contains(&o.root_key_id) {
					out.problems.push((
						"restore/account-not-reachable".into(),
						format!("restored output {} belongs to account path {} but no account label maps to that path (labels map to {:?})", o.key_id.to_bip_32_string(), o.root_key_id.to_bip_32_string(), paths.iter().map(|p| p.to_bip_32_string()).collect::<Vec<_>>()),
						desc(json!({"restore_from": start})),
					));
					break;
				}
			}
		}
		if start <= 1 {
			// spendable total over all accounts == chain truth (== what the original holds, spendable + reserved)
			let accts: Vec<String> = r.with(|b| b.acct_path_iter().map(|m| m.label).collect());
			let mut spendable = 0u64;
			for l in accts.iter() {
				r.set_account(l).unwrap();
				let _ = r.refresh();
				spendable += r.info(false, 1).map(|i| i.1.amount_currently_spendable).unwrap_or(0);
			}
			let tip = w.node.height();
			let truth_spendable: u64 = truth.iter().filter(|x| !(x.is_coinbase && x.height + MATURITY > tip)).map(|x| x.value).sum();
			if spendable != truth_spendable {
				out.problems.push((
					"restore/spendable-total".into(),
					format!("restored wallet reports spendable {} over all accounts, the seed's mature unspent outputs sum to {}", spendable, truth_spendable),
					desc(json!({"restore_from": start})),
				));
			}
			// idempotence on the restored wallet
			r.set_account("default").unwrap();
			let before = view(r);
			let _ = r.scan(Some(start), false);
			if view(r) != before {
				out.problems.push(("idempotence/restored-wallet".into(), "a second scan changed the restored wallet".into(), desc(json!({"restore_from": start}))));
			}
		}
		drop(w);
	}
	// ---- repairs on the original wallet
	// (divergences, scan from the block of the divergence instead of from 1)
	let mut plans: Vec<(&Vec<Div>, bool)> = divsets.iter().map(|d| (d, false)).collect();
	for ds in divsets.iter() {
		// wrongly-unspent records are repaired by the scan's full output refresh, whatever the start height
		if ds.len() == 1 && ds[0] == Div::CancelAfterPost {
			plans.push((ds, true));
		}
		// dropping stale unconfirmed outputs does not depend on what the scanned range of the chain holds
		if ds.len() == 1 && ds[0] == Div::StaleUnconfirmed {
			plans.push((ds, true));
		}
	}
	for (ds, late_start) in plans.into_iter() {
		for delete_unconfirmed in [false, true].iter() {
			if !*delete_unconfirmed && ds.iter().any(|d| needs_delete_unconfirmed(*d)) {
				continue; // the statement promises these repairs only "when asked to drop pending transactions"
			}
			snap.restore(&dir);
			let w = World::open(&dir);
			w.node.page.store(page, Ordering::SeqCst);
			w.w("A").set_account("default").unwrap();
			let mut applied = vec![];
			for (i, d) in ds.iter().enumerate() {
				let nth = ds[..i].iter().filter(|x| matches!(x, Div::DeleteRecord | Div::UnspentToSpent | Div::UnspentToLockedDangling)).count();
				if inject(&w, *d, nth) {
					applied.push(*d);
				}
			}
			if applied.len() != ds.len() {
				drop(w);
				continue;
			}
			out.cases += 1;
			let a = w.w("A");
			if late_start {
				// the scanned range (the tip block only) holds no output of the wallet: an empty block by the miner
				let _ = w.mine_opts("M", false);
			}
			let start_h = if late_start { w.node.height() } else { 1 };
			let case = json!({"divergences": ds, "delete_unconfirmed": delete_unconfirmed, "late_start": late_start});
			let dname = format!("{}{}", ds.iter().map(|d| format!("{:?}", d)).collect::<Vec<_>>().join("+"), if late_start { "@late-start" } else { "" });
			match catch(|| a.scan(Some(start_h), *delete_unconfirmed)) {
				Err(p) => {
					let site = take_last_panic().map(|x| panic_site(&x.1)).unwrap_or_default();
					out.problems.push((format!("repair/scan-panics/{}", site), format!("scan after {} panicked: {}", dname, p), desc(case)));
					drop(w);
					continue;
				}
				Ok(Err(e)) => {
					out.problems.push((format!("repair/scan-error/{}", dname), format!("scan after {} failed: {}", dname, e), desc(case)));
					drop(w);
					continue;
				}
				Ok(Ok(())) => out.scans_ok += 1,
			}
			if *delete_unconfirmed {
				// "when asked to drop pending transactions": no stale unconfirmed output stays behind,
				// whatever range of the chain the scan covered
				if let Some(o) = a.outputs().into_iter().find(|o| o.status == OutputStatus::Unconfirmed && !o.is_coinbase) {
					out.problems.push((
						format!("repair/{}/unconfirmed-output-left", dname),
						format!("after {} and scan(delete_unconfirmed=true) the unconfirmed output {} (value {}) is still there", dname, o.key_id.to_bip_32_string(), o.value),
						desc(case.clone()),
					));
				}
			}
			let mut p = vec![];
			books_all_accounts(&w, "A", "A", &mut p);
			for (k, v) in p {
				out.problems.push((format!("repair/{}/{}", dname, k), format!("after {} and scan(delete_unconfirmed={}): {}", dname, delete_unconfirmed, v), desc(case.clone())));
			}
			// idempotence
			let before = view(a);
			match catch(|| a.scan(Some(start_h), *delete_unconfirmed)) {
				Ok(Ok(())) => {
					let after = view(a);
					if after != before {
						out.problems.push((format!("idempotence/{}", dname), format!("a second scan after {} changed the wallet again", dname), desc(case)));
					}
				}
				_ => out.problems.push((format!("idempotence/second-scan-fails/{}", dname), "second scan failed".into(), desc(case))),
			}
			drop(w);
		}
	}
	let _ = std::fs::remove_dir_all(&dir);
	out
}

/// a chain with more unspent outputs than one scan batch (1000)
fn long_chain(root: &str) -> Out {
	let dir = format!("{}/c16-long", root);
	let mut out = Out { cases: 0, scans_ok: 0, problems: vec![] };
	let mut w = World::create(&dir, &[("A", "A"), ("M", "M")]);
	for i in 0..1030 {
		w.mine(if i % 3 == 0 { "A" } else { "M" }).unwrap();
	}
	w.add_wallet("R", "A");
	let r = w.w("R");
	out.cases += 1;
	match catch(|| r.scan(Some(1), false)) {
		Ok(Ok(())) => out.scans_ok += 1,
		other => {
			out.problems.push(("restore/long-chain-scan-fails".into(), format!("{:?}", other.map(|x| x.map_err(|e| format!("{}", e)))), json!({"case": "long-chain"})));
			return out;
		}
	}
	let truth = chain_owned(&w.node, "A");
	let n = r.outputs().iter().filter(|o| o.status == OutputStatus::Unspent).count();
	if n != truth.len() {
		out.problems.push(("restore/long-chain-count".into(), format!("restored {} outputs across scan batches, the seed owns {}", n, truth.len()), json!({"case": "long-chain"})));
	}
	drop(w);
	let _ = std::fs::remove_dir_all(&dir);
	out
}

pub fn replay(payload: &Value) -> i32 {
	std::env::set_var("GWV_SHOW_PANICS", "1");
	let root = scratch_root();
	if payload["case"] == "long-chain" {
		let o = long_chain(&root);
		println!("{:?}", o.problems);
		return if o.problems.is_empty() { 0 } else { 1 };
	}
	let path: Vec<Op> = serde_json::from_value(payload["path"].clone()).unwrap();
	let base = payload["base"].as_u64().unwrap_or(0) as usize;
	let page = payload["page"].as_u64().unwrap_or(0);
	let divsets: Vec<Vec<Div>> = match payload["case"].get("divergences") {
		Some(d) => vec![serde_json::from_value(d.clone()).unwrap()],
		None => vec![],
	};
	let o = check_state(&root, "c16-replay", base, &path, page, &divsets, true);
	for p in o.problems.iter() {
		println!("{} — {}", p.0, p.1);
	}
	if o.problems.is_empty() { 0 } else { 1 }
}

pub fn run(_args: &[String]) -> i32 {
	let mut rep = Report::new("C16", "model_checking");
	let thorough = tier() == Tier::Thorough;
	let root = scratch_root();
	let ops = vec![
		Op::MineA0,
		Op::MineA1,
		Op::MineB,
		Op::SendA0B { use_all: false, change: 1 },
		Op::SendA0B { use_all: true, change: 2 },
		Op::SendBA0,
		Op::SendA1B,
		Op::InvoiceBA0,
		Op::SelfSendA0A1,
	];
	// chain states: the base states, every single op, every op followed by a mined block (so that
	// its transaction is on chain), thorough: every pair followed by a block
	let mut states: Vec<(usize, Vec<Op>)> = vec![];
	for base in 0..2 {
		states.push((base, vec![]));
		states.push((base, vec![Op::MineM, Op::RefreshA]));
		for o in ops.iter() {
			states.push((base, vec![o.clone(), Op::MineM]));
			if thorough {
				states.push((base, vec![o.clone()]));
				for p in ops.iter() {
					states.push((base, vec![o.clone(), Op::MineM, p.clone(), Op::MineM]));
				}
			}
		}
	}
	let mut divsets: Vec<Vec<Div>> = vec![vec![]];
	for d in DIVS.iter() {
		divsets.push(vec![*d]);
	}
	if thorough {
		for (i, d) in DIVS.iter().enumerate() {
			for e in DIVS.iter().skip(i) {
				if *e == Div::Reorg && *d != Div::Reorg {
					divsets.push(vec![*d, *e]);
				} else if *e != Div::Reorg {
					divsets.push(vec![*d, *e]);
				}
			}
		}
	}
	struct Job {
		tag: String,
		base: usize,
		path: Vec<Op>,
		page: u64,
		divs: Vec<Vec<Div>>,
		all_starts: bool,
	}
	let mut jobs: Vec<Job> = vec![];
	for (i, (base, path)) in states.iter().enumerate() {
		// divergence sets are spread over the states in quick; every state gets all of them in thorough
		let divs: Vec<Vec<Div>> = if thorough || i < 4 {
			divsets.clone()
		} else {
			divsets.iter().enumerate().filter(|(j, _)| j % 4 == i % 4).map(|(_, d)| d.clone()).collect()
		};
		jobs.push(Job { tag: format!("c16-{}", i), base: *base, path: path.clone(), page: 0, divs, all_starts: thorough || i < 6 });
	}
	// paging variants on a few states
	for (i, (base, path)) in states.iter().enumerate().filter(|(i, _)| i % 5 == 2 || thorough) {
		for page in [1u64, 2, 3].iter() {
			jobs.push(Job { tag: format!("c16-{}-p{}", i, page), base: *base, path: path.clone(), page: *page, divs: vec![vec![], vec![Div::DeleteRecord]], all_starts: false });
		}
	}
	let results = par_map(&jobs, workers(), |_, j| check_state(&root, &j.tag, j.base, &j.path, j.page, &j.divs, j.all_starts));
	let mut cases = 0;
	let mut scans_ok = 0;
	for r in results.iter() {
		cases += r.cases;
		scans_ok += r.scans_ok;
		for (k, w, payload) in r.problems.iter() {
			rep.add_finding(Finding { key: format!("C16/{}", k), what: format!("{} — state {}", w, payload), replay: payload.clone() });
		}
	}
	if thorough {
		let l = long_chain(&root);
		cases += l.cases;
		scans_ok += l.scans_ok;
		for (k, w, payload) in l.problems.iter() {
			rep.add_finding(Finding { key: format!("C16/{}", k), what: w.clone(), replay: payload.clone() });
		}
	}
	// replay-twice for findings
	let found: Vec<Finding> = rep.findings.lock().unwrap().clone();
	for f in found.iter() {
		if f.replay["case"] == "long-chain" {
			continue;
		}
		for _ in 0..2 {
			let path: Vec<Op> = serde_json::from_value(f.replay["path"].clone()).unwrap();
			let divs: Vec<Vec<Div>> = match f.replay["case"].get("divergences") {
				Some(d) => vec![serde_json::from_value(d.clone()).unwrap()],
				None => vec![],
			};
			let o = check_state(&root, "c16-again", f.replay["base"].as_u64().unwrap() as usize, &path, f.replay["page"].as_u64().unwrap(), &divs, true);
			if !o.problems.iter().any(|p| format!("C16/{}", p.0) == f.key) {
				return rep.finish(Some(format!("verdict not reproducible: {}", f.key)));
			}
		}
	}
	rep.cov("states", json!(jobs.len()));
	rep.cov("transitions", json!(cases));
	rep.cov("traces_validated_against_impl", json!(cases));
	rep.cov("evaluations", json!(cases));
	rep.cov("distinct_nontrivial", json!(scans_ok));
	rep.cov("rule", json!("one case = (chain/wallet state, restore start height | divergence set x delete_unconfirmed, page size); distinct by construction; non-trivial = the scan ran to completion so the truth oracle was evaluated"));
	rep.cov("exhaustive", json!(true));
	rep.cov("dimensions", json!({"chain_states": states.len(), "divergence_sets": divsets.len(), "page_sizes": [0,1,2,3], "jobs": jobs.len()}));
	rep.cov("samples", json!(jobs.iter().take(3).map(|j| json!({"base": j.base, "path": j.path, "page": j.page})).collect::<Vec<_>>()));
	rep.assume("chain truth = every UTXO whose range proof rewinds with the seed; 'right account' = parent path of the output's key");
	rep.assume("repairs of wrongly reserved / stale unconfirmed outputs are only required with delete_unconfirmed (as the statement says)");
	let vac = if scans_ok < 100 { Some(format!("vacuity guard: only {} scans completed", scans_ok)) } else { None };
	rep.finish(vac)
}
