//! C12 — secrets never leave the wallet in clear; signing nonces are never reused.
//! Four parts, each an exhaustive enumeration of a stated finite space of executions of the
//! real code:
//!  (a) seed file: seed sizes × passwords × wrong-password matrix / single-character-off
//!      variants through `DefaultLCProvider` + an independent decryption of the file;
//!  (b) every interruption point (LD_PRELOAD file-call interposer, subprocess per point) of
//!      `change_password` and `recover_from_mnemonic`;
//!  (c) leak scan of every file under the wallets' directories and of every message emitted,
//!      after every operation of every history of a two-slot transaction alphabet (BFS);
//!  (d) freshness of every public nonce / public excess contributed, over the same histories.

use crate::api::{Foreign, ForeignRpc};
use crate::common::*;
use crate::explore::*;
use crate::impls::DefaultLCProvider;
use crate::keychain::{mnemonic, ExtKeychain, Keychain, SwitchCommitmentType};
use crate::libwallet::api_impl::owner;
use crate::libwallet::{
	Error, IssueInvoiceTxArgs, NodeClient, NodeVersionInfo, Slate, SlateVersion, SlatepackArmor,
	VersionedSlate, WalletLCProvider,
};
use crate::util::secp::key::{PublicKey, SecretKey};
use crate::util::secp::pedersen;
use crate::util::{self, ToHex, ZeroingString};
use crate::world::*;
use easy_jsonrpc_mw::{Handler, MaybeReply};
use serde_json::{json, Value};
use std::collections::{BTreeMap, BTreeSet, HashMap};
use std::sync::atomic::{AtomicU64, Ordering};
use std::sync::Mutex as StdMutex;
use std::time::Duration;
use uuid::Uuid;

const SHIM_SRC: &str = include_str!("../../../shim/crashpoint.c");

// ---------------------------------------------------------------------------------------------
// byte scanner: many needles, one pass

#[derive(Clone, Debug)]
pub struct Needle {
	/// what secret this is, e.g. "A/slot0/sec_key=initial_sec_key", "A/seed", "A/mnemonic[3..6]"
	pub what: String,
	/// short secret class used in finding keys: field name(s), "seed", "mnemonic"
	pub class: String,
	/// encoding: raw | hex | HEX | json-array | words
	pub enc: &'static str,
	pub bytes: Vec<u8>,
}

pub struct Scanner {
	pub needles: Vec<Needle>,
	bitmap: Vec<u64>,
	by_prefix: HashMap<u16, Vec<usize>>,
}

impl Scanner {
	pub fn new(needles: Vec<Needle>) -> Scanner {
		let mut bitmap = vec![0u64; 1024];
		let mut by_prefix: HashMap<u16, Vec<usize>> = HashMap::new();
		for (i, n) in needles.iter().enumerate() {
			assert!(n.bytes.len() >= 2);
			let p = ((n.bytes[0] as u16) << 8) | n.bytes[1] as u16;
			bitmap[(p >> 6) as usize] |= 1u64 << (p & 63);
			by_prefix.entry(p).or_default().push(i);
		}
		Scanner { needles, bitmap, by_prefix }
	}

	/// first hit of every needle: (needle index, offset)
	pub fn scan(&self, hay: &[u8]) -> Vec<(usize, usize)> {
		let mut hits: Vec<(usize, usize)> = vec![];
		if hay.len() < 2 || self.needles.is_empty() {
			return hits;
		}
		let mut found = vec![false; self.needles.len()];
		let mut p: u16 = hay[0] as u16;
		for off in 0..hay.len() - 1 {
			p = (p << 8) | hay[off + 1] as u16;
			if self.bitmap[(p >> 6) as usize] & (1u64 << (p & 63)) == 0 {
				continue;
			}
			if let Some(c) = self.by_prefix.get(&p) {
				for &i in c {
					if found[i] {
						continue;
					}
					let n = &self.needles[i];
					if hay.len() - off >= n.bytes.len() && hay[off..off + n.bytes.len()] == n.bytes[..] {
						if n.enc == "json-array" {
							// whole numbers only: "12,34" must not match inside "112,345"
							let before = off > 0 && hay[off - 1].is_ascii_digit();
							let after = off + n.bytes.len() < hay.len() && hay[off + n.bytes.len()].is_ascii_digit();
							if before || after {
								continue;
							}
						}
						found[i] = true;
						hits.push((i, off));
					}
				}
			}
		}
		hits
	}
}

fn json_array_body(b: &[u8]) -> Vec<u8> {
	b.iter().map(|x| x.to_string()).collect::<Vec<_>>().join(",").into_bytes()
}

/// the searched encodings of one byte-string secret
pub fn secret_needles(what: &str, class: &str, b: &[u8]) -> Vec<Needle> {
	let hex = b.to_vec().to_hex();
	vec![
		Needle { what: what.into(), class: class.into(), enc: "raw", bytes: b.to_vec() },
		Needle { what: what.into(), class: class.into(), enc: "hex", bytes: hex.clone().into_bytes() },
		Needle { what: what.into(), class: class.into(), enc: "HEX", bytes: hex.to_uppercase().into_bytes() },
		Needle { what: what.into(), class: class.into(), enc: "json-array", bytes: json_array_body(b) },
	]
}

/// every run of 3 consecutive words of a recovery phrase
pub fn mnemonic_needles(what: &str, phrase: &str) -> Vec<Needle> {
	let words: Vec<&str> = phrase.split_whitespace().collect();
	let mut v = vec![];
	for i in 0..words.len().saturating_sub(2) {
		v.push(Needle {
			what: format!("{}/mnemonic[{}..{}]", what, i, i + 3),
			class: "mnemonic".into(),
			enc: "words",
			bytes: words[i..i + 3].join(" ").into_bytes(),
		});
	}
	v
}

/// name of the JSON field whose value starts at `off` (looks behind for `"name":` + `[` or `"`)
fn preceding_json_field(hay: &[u8], off: usize) -> Option<String> {
	let mut i = off;
	if i > 0 && (hay[i - 1] == b'[' || hay[i - 1] == b'"') {
		i -= 1;
	}
	if i < 3 || hay[i - 1] != b':' || hay[i - 2] != b'"' {
		return None;
	}
	let end = i - 2;
	let mut start = end;
	while start > 0 && end - start < 40 {
		let c = hay[start - 1];
		if c == b'"' {
			return std::str::from_utf8(&hay[start..end]).ok().map(|s| s.to_owned());
		}
		if !(c.is_ascii_alphanumeric() || c == b'_') {
			return None;
		}
		start -= 1;
	}
	None
}

// ---------------------------------------------------------------------------------------------
// lifecycle provider of the repository over a node client that is never called

#[derive(Clone)]
pub struct NoNode;

fn no_node<T>() -> Result<T, Error> {
	Err(Error::GenericError("C12: no node in this part".into()))
}

impl NodeClient for NoNode {
	fn node_url(&self) -> &str {
		"none"
	}
	fn set_node_url(&mut self, _node_url: &str) {}
	fn node_api_secret(&self) -> Option<String> {
		None
	}
	fn set_node_api_secret(&mut self, _s: Option<String>) {}
	fn post_tx(&self, _tx: &crate::core::core::Transaction, _fluff: bool) -> Result<(), Error> {
		no_node()
	}
	fn get_version_info(&mut self) -> Option<NodeVersionInfo> {
		None
	}
	fn get_chain_tip(&self) -> Result<(u64, String), Error> {
		no_node()
	}
	fn get_kernel(
		&mut self,
		_excess: &pedersen::Commitment,
		_min_height: Option<u64>,
		_max_height: Option<u64>,
	) -> Result<Option<(crate::core::core::TxKernel, u64, u64)>, Error> {
		no_node()
	}
	fn get_outputs_from_node(
		&self,
		_wallet_outputs: Vec<pedersen::Commitment>,
	) -> Result<std::collections::HashMap<pedersen::Commitment, (String, u64, u64)>, Error> {
		no_node()
	}
	fn get_outputs_by_pmmr_index(
		&self,
		_start_height: u64,
		_end_height: Option<u64>,
		_max_outputs: u64,
	) -> Result<(u64, u64, Vec<(pedersen::Commitment, pedersen::RangeProof, bool, u64, u64)>), Error> {
		no_node()
	}
	fn height_range_to_pmmr_indices(&self, _start_height: u64, _end_height: Option<u64>) -> Result<(u64, u64), Error> {
		no_node()
	}
}

pub type LC = DefaultLCProvider<'static, NoNode, ExtKeychain>;

fn new_lc(top: &str) -> LC {
	let mut lc: LC = DefaultLCProvider::new(NoNode);
	lc.set_top_level_directory(top).unwrap();
	lc
}

fn zs(s: &str) -> ZeroingString {
	ZeroingString::from(s)
}

fn seed_path(top: &str) -> String {
	format!("{}/wallet_data/wallet.seed", top)
}

/// deterministic entropy of `len` bytes
fn entropy_for(len: usize, tag: &str) -> Vec<u8> {
	blake2_rfc::blake2b::blake2b(len, b"gwverif-c12", format!("{}-{}", tag, len).as_bytes())
		.as_bytes()
		.to_vec()
}

const SEED_LENS: [usize; 5] = [16, 20, 24, 28, 32];

fn base_passwords() -> Vec<(&'static str, String)> {
	let long: String = (0..1024usize).map(|i| (b'!' + ((i * 7 + i / 94) % 94) as u8) as char).collect();
	vec![
		("empty", String::new()),
		("ascii", "correct horse 7!".to_owned()),
		("unicode", "пароль-密码-🔑-é".to_owned()),
		("1KiB", long),
	]
}

/// single-character-off neighbours of a password: (class, variant)
fn variants(pw: &str, all_positions: bool) -> Vec<(&'static str, String)> {
	let chars: Vec<char> = pw.chars().collect();
	let n = chars.len();
	let positions: Vec<usize> = if n <= 64 || all_positions {
		(0..n).collect()
	} else {
		vec![0, 1, n / 2 - 1, n / 2, n - 2, n - 1]
	};
	let mut out: Vec<(&'static str, String)> = vec![];
	let mut seen: BTreeSet<String> = BTreeSet::new();
	seen.insert(pw.to_owned());
	let mut push = |class: &'static str, s: String, out: &mut Vec<(&'static str, String)>| {
		if seen.insert(s.clone()) {
			out.push((class, s));
		}
	};
	for &i in positions.iter() {
		let mut d = chars.clone();
		d.remove(i);
		push("delete-char", d.into_iter().collect(), &mut out);
		let mut s = chars.clone();
		s[i] = if chars[i] == 'x' { 'y' } else { 'x' };
		push("substitute-char", s.into_iter().collect(), &mut out);
		if let Some(c) = std::char::from_u32(chars[i] as u32 + 1) {
			let mut s = chars.clone();
			s[i] = c;
			push("substitute-adjacent-codepoint", s.into_iter().collect(), &mut out);
		}
		let mut ins = chars.clone();
		ins.insert(i, 'x');
		push("insert-char", ins.into_iter().collect(), &mut out);
	}
	push("insert-char", format!("{}x", pw), &mut out);
	push("insert-char", format!("{} ", pw), &mut out);
	push("insert-char", format!(" {}", pw), &mut out);
	push("case", pw.to_uppercase(), &mut out);
	push("case", pw.to_lowercase(), &mut out);
	push("append-nul", format!("{}\0", pw), &mut out);
	out
}

/// HMAC pads keys shorter than its block (128 bytes for SHA-512) with zero bytes, so for
/// PBKDF2-HMAC a password and the same password followed by NUL bytes are the same key.
fn hmac_zero_pad_equivalent(pw: &str, var: &str) -> bool {
	let (a, b) = (pw.as_bytes(), var.as_bytes());
	b.len() <= 128 && b.len() > a.len() && b.starts_with(a) && b[a.len()..].iter().all(|x| *x == 0)
}

/// PBKDF2-HMAC-SHA512, written out (RFC 8018 §5.2), one output block
fn pbkdf2_sha512(pw: &[u8], salt: &[u8], iters: u32) -> [u8; 64] {
	use hmac::{Hmac, Mac};
	type H = Hmac<sha2::Sha512>;
	let base = <H as Mac>::new_from_slice(pw).expect("hmac key");
	let mut m = base.clone();
	m.update(salt);
	m.update(&1u32.to_be_bytes());
	let mut u: Vec<u8> = m.finalize().into_bytes().to_vec();
	let mut t = [0u8; 64];
	t.copy_from_slice(&u);
	for _ in 1..iters {
		let mut m = base.clone();
		m.update(&u);
		u = m.finalize().into_bytes().to_vec();
		for i in 0..64 {
			t[i] ^= u[i];
		}
	}
	t
}

/// Independent reading of a wallet.seed file: JSON {encrypted_seed, salt, nonce} (hex),
/// key = PBKDF2-HMAC-SHA512(password, salt, 100)[..32], ChaCha20-Poly1305 open, empty AAD.
pub fn indep_decrypt(file: &[u8], pw: &str) -> Result<Vec<u8>, String> {
	let v: Value = serde_json::from_slice(file).map_err(|e| format!("json: {}", e))?;
	let field = |n: &str| -> Result<Vec<u8>, String> {
		let s = v[n].as_str().ok_or_else(|| format!("no field {}", n))?;
		util::from_hex(s).map_err(|_| format!("field {} not hex", n))
	};
	let mut ct = field("encrypted_seed")?;
	let salt = field("salt")?;
	let nonce = field("nonce")?;
	if nonce.len() != 12 {
		return Err("nonce length".into());
	}
	let key = pbkdf2_sha512(pw.as_bytes(), &salt, 100);
	let mut n = [0u8; 12];
	n.copy_from_slice(&nonce);
	let k = ring::aead::UnboundKey::new(&ring::aead::CHACHA20_POLY1305, &key[..32]).map_err(|_| "key".to_owned())?;
	let k = ring::aead::LessSafeKey::new(k);
	let pt = k
		.open_in_place(ring::aead::Nonce::assume_unique_for_key(n), ring::aead::Aad::from(&[]), &mut ct)
		.map_err(|_| "authentication failed".to_owned())?;
	Ok(pt.to_vec())
}

/// seed through the public API: get_mnemonic -> entropy
fn api_seed(lc: &LC, pw: &str) -> Result<Vec<u8>, String> {
	match catch(|| lc.get_mnemonic(None, zs(pw))) {
		Err(p) => Err(format!("PANIC {}", p)),
		Ok(Err(e)) => Err(format!("{}", e)),
		Ok(Ok(m)) => mnemonic::to_entropy(&m).map_err(|e| format!("mnemonic returned does not parse: {:?}", e)),
	}
}

#[derive(Default, Debug)]
pub struct PartOut {
	pub evals: u64,
	pub hist: BTreeMap<String, u64>,
	/// (key without property prefix, what)
	pub problems: Vec<(String, String)>,
	pub samples: Vec<Value>,
}

impl PartOut {
	fn bump(&mut self, k: &str) {
		*self.hist.entry(k.to_owned()).or_insert(0) += 1;
	}
	fn problem(&mut self, k: impl Into<String>, w: impl Into<String>) {
		let k = k.into();
		if !self.problems.iter().any(|p| p.0 == k) {
			self.problems.push((k, w.into()));
		}
	}
	fn merge(&mut self, o: PartOut) {
		self.evals += o.evals;
		for (k, v) in o.hist {
			*self.hist.entry(k).or_insert(0) += v;
		}
		for (k, w) in o.problems {
			self.problem(k, w);
		}
		for s in o.samples {
			if self.samples.len() < 4 {
				self.samples.push(s);
			}
		}
	}
}

// ---------------------------------------------------------------------------------------------
// part (a): the seed file

/// one attempt to read a seed file with a password, through the API and independently
fn attempt(out: &mut PartOut, lc: &LC, file: &[u8], pw: &str, ctx: &str) -> Result<Vec<u8>, ()> {
	let a = api_seed(lc, pw);
	let i = indep_decrypt(file, pw);
	out.evals += 2;
	if let Err(e) = &a {
		if e.starts_with("PANIC") {
			let site = take_last_panic().map(|x| panic_site(&x.1)).unwrap_or_default();
			out.problem(format!("seed-file/panic/{}", site), format!("{}: get_mnemonic panicked: {}", ctx, e));
		}
	}
	match (&a, &i) {
		(Ok(x), Ok(y)) if x == y => Ok(x.clone()),
		(Err(_), Err(_)) => Err(()),
		_ => {
			out.problem(
				"seed-file/api-vs-independent-decryption",
				format!("{}: get_mnemonic gave {:?} but the independent PBKDF2-HMAC-SHA512(100)+ChaCha20-Poly1305 reading gave {:?}", ctx, a.as_ref().map(|s| s.to_hex()), i.as_ref().map(|s| s.to_hex())),
			);
			Err(())
		}
	}
}

/// oracle for one (file, password) pair; `right` = this is the password the file was last saved under
fn judge(out: &mut PartOut, r: &Result<Vec<u8>, ()>, seed: &[u8], right: bool, class: &str, inherent_equiv: bool, ctx: &str) {
	match (r, right) {
		(Ok(s), true) if s == seed => out.bump("right-password:opens-same-seed"),
		(Ok(s), true) => out.problem("seed-file/right-password-different-seed", format!("{}: opened to {} instead of {}", ctx, s.to_hex(), seed.to_vec().to_hex())),
		(Err(_), true) => out.problem("seed-file/right-password-rejected", format!("{}: the password the file was saved under does not open it", ctx)),
		(Err(_), false) => out.bump(&format!("wrong-password[{}]:error", class)),
		(Ok(s), false) if s != seed => out.problem(
			format!("seed-file/wrong-password-different-seed/{}", class),
			format!("{}: a wrong password opened the file to a DIFFERENT seed {}", ctx, s.to_hex()),
		),
		(Ok(_), false) if inherent_equiv => out.bump("wrong-password[append-nul]:opens-same-seed(HMAC zero-pad equivalent key; not asserted)"),
		(Ok(_), false) => out.problem(format!("seed-file/wrong-password-accepted/{}", class), format!("{}: a wrong password opened the file", ctx)),
	}
}

fn file_plaintext_check(out: &mut PartOut, file: &[u8], seed: &[u8], phrase: &str, ctx: &str) {
	let mut needles = secret_needles("seed", "seed", seed);
	needles.extend(mnemonic_needles("seed", phrase));
	let sc = Scanner::new(needles);
	out.evals += sc.needles.len() as u64;
	for (ni, off) in sc.scan(file) {
		let n = &sc.needles[ni];
		out.problem(format!("seed-file/plaintext/{}/{}", n.class, n.enc), format!("{}: wallet.seed contains {} ({}) at byte offset {}", ctx, n.what, n.enc, off));
	}
	// shape: exactly the three hex fields, ciphertext = seed length + 16-byte tag
	match serde_json::from_slice::<Value>(file) {
		Ok(v) => {
			let l = |n: &str| v[n].as_str().map(|s| s.len()).unwrap_or(0);
			if l("encrypted_seed") != 2 * (seed.len() + 16) || l("salt") != 16 || l("nonce") != 24 {
				out.bump("seed-file:unexpected-shape");
			} else {
				out.bump("seed-file:shape-ok");
			}
		}
		Err(_) => out.bump("seed-file:unexpected-shape"),
	}
}

fn root_key_of(k: &ExtKeychain) -> SecretKey {
	k.derive_key(0, &ExtKeychain::root_key_id(), SwitchCommitmentType::Regular).unwrap()
}

/// one case of part (a): seed length × password the wallet is created with
pub fn case_a(root: &str, seed_len: usize, pi: usize, thorough: bool) -> PartOut {
	let mut out = PartOut::default();
	let pws = base_passwords();
	let (plabel, pw) = (pws[pi].0, pws[pi].1.clone());
	let seed = entropy_for(seed_len, "a");
	let phrase = mnemonic::from_entropy(&seed).unwrap();
	let top = format!("{}/c12a-{}-{}", root, seed_len, pi);
	let _ = std::fs::remove_dir_all(&top);
	let ctx = format!("seed {} bytes, password '{}'", seed_len, plabel);
	let mut lc = new_lc(&top);
	out.evals += 1;
	match catch(|| lc.create_wallet(None, Some(zs(&phrase)), seed_len, zs(&pw), false)) {
		Ok(Ok(())) => out.bump("create_wallet:ok"),
		other => {
			out.problem("seed-file/create-failed", format!("{}: create_wallet failed: {:?}", ctx, other.map(|r| r.map_err(|e| e.to_string()))));
			return out;
		}
	}
	let sp = seed_path(&top);
	let original = std::fs::read(&sp).unwrap();
	file_plaintext_check(&mut out, &original, &seed, &phrase, &ctx);

	// base password matrix, through get_mnemonic, the independent reading and open_wallet
	for (qi, (qlabel, q)) in pws.iter().enumerate() {
		let c = format!("{}, tried '{}'", ctx, qlabel);
		let r = attempt(&mut out, &lc, &original, q, &c);
		judge(&mut out, &r, &seed, qi == pi, "other-base-password", false, &c);
		out.evals += 1;
		match catch(|| lc.open_wallet(None, zs(q), false, false)) {
			Err(p) => {
				let site = take_last_panic().map(|x| panic_site(&x.1)).unwrap_or_default();
				out.problem(format!("seed-file/panic/{}", site), format!("{}: open_wallet panicked: {}", c, p));
			}
			Ok(Ok(_)) => {
				let kc = lc.wallet_inst().unwrap().keychain(None).unwrap();
				let want = ExtKeychain::from_seed(&seed, crate::core::global::is_testnet()).unwrap();
				let same = root_key_of(&kc) == root_key_of(&want);
				if qi != pi {
					out.problem(
						if same { "seed-file/wrong-password-accepted/open_wallet".to_owned() } else { "seed-file/wrong-password-different-seed/open_wallet".to_owned() },
						format!("{}: open_wallet succeeded with a wrong password (same keychain: {})", c, same),
					);
				} else if !same {
					out.problem("seed-file/right-password-different-seed", format!("{}: open_wallet derived a different keychain", c));
				} else {
					out.bump("open_wallet:right-password:same-keychain");
				}
			}
			Ok(Err(_)) => {
				if qi == pi {
					out.problem("seed-file/right-password-rejected", format!("{}: open_wallet refused the right password", c));
				} else {
					out.bump("open_wallet:wrong-password:error");
				}
			}
		}
		let _ = lc.close_wallet(None);
	}

	// single-character-off neighbours of the right password
	for (class, v) in variants(&pw, thorough) {
		let c = format!("{}, tried variant {} ({} bytes)", ctx, class, v.len());
		let r = attempt(&mut out, &lc, &original, &v, &c);
		judge(&mut out, &r, &seed, false, class, hmac_zero_pad_equivalent(&pw, &v), &c);
	}

	// change_password to every other base password (from the original file each time)
	for (qi, (qlabel, q)) in pws.iter().enumerate() {
		if qi == pi {
			continue;
		}
		std::fs::write(&sp, &original).unwrap();
		let c = format!("{}, change_password -> '{}'", ctx, qlabel);
		// a wrong old password must not re-key the file
		out.evals += 1;
		match catch(|| lc.change_password(None, zs(q), zs("attacker"))) {
			Ok(Err(_)) => {
				if std::fs::read(&sp).ok().as_ref() == Some(&original) {
					out.bump("change_password:wrong-old-password:error-file-untouched");
				} else {
					out.problem("seed-file/change-password/wrong-old-password-changed-file", format!("{}: change_password with a wrong old password failed but modified wallet.seed", c));
				}
			}
			Ok(Ok(())) => out.problem("seed-file/change-password/wrong-old-password-accepted", format!("{}: change_password accepted a wrong old password", c)),
			Err(p) => out.problem("seed-file/change-password/panic", format!("{}: panicked {}", c, p)),
		}
		std::fs::write(&sp, &original).unwrap();
		out.evals += 1;
		match catch(|| lc.change_password(None, zs(&pw), zs(q))) {
			Ok(Ok(())) => out.bump("change_password:ok"),
			other => {
				out.problem("seed-file/change-password/failed", format!("{}: {:?}", c, other.map(|r| r.map_err(|e| e.to_string()))));
				continue;
			}
		}
		let now = std::fs::read(&sp).unwrap();
		file_plaintext_check(&mut out, &now, &seed, &phrase, &c);
		for (ri, (rlabel, r)) in pws.iter().enumerate() {
			let c2 = format!("{}, then tried '{}'", c, rlabel);
			let res = attempt(&mut out, &lc, &now, r, &c2);
			judge(&mut out, &res, &seed, ri == qi, if ri == pi { "previous-password" } else { "other-base-password" }, false, &c2);
		}
		let leftovers: Vec<String> = std::fs::read_dir(format!("{}/wallet_data", top))
			.unwrap()
			.map(|e| e.unwrap().file_name().to_str().unwrap().to_owned())
			.filter(|n| n.starts_with("wallet.seed.bak"))
			.collect();
		out.bump(if leftovers.is_empty() { "change_password:no-backup-left" } else { "change_password:backup-left(not asserted)" });
		for l in leftovers {
			let _ = std::fs::remove_file(format!("{}/wallet_data/{}", top, l));
		}
	}

	// recover_from_mnemonic: same phrase under a new password, and a phrase of another seed
	let qi = (pi + 1) % pws.len();
	let q = &pws[qi].1;
	for other in [false, true].iter() {
		for l in std::fs::read_dir(format!("{}/wallet_data", top)).unwrap() {
			let n = l.unwrap().file_name().to_str().unwrap().to_owned();
			if n.starts_with("wallet.seed.bak") {
				let _ = std::fs::remove_file(format!("{}/wallet_data/{}", top, n));
			}
		}
		std::fs::write(&sp, &original).unwrap();
		let new_seed = if *other { entropy_for(SEED_LENS[(SEED_LENS.iter().position(|x| *x == seed_len).unwrap() + 1) % 5], "other") } else { seed.clone() };
		let new_phrase = mnemonic::from_entropy(&new_seed).unwrap();
		let c = format!("{}, recover_from_mnemonic({}) under '{}'", ctx, if *other { "another seed" } else { "same phrase" }, pws[qi].0);
		out.evals += 1;
		match catch(|| lc.recover_from_mnemonic(zs(&new_phrase), zs(q))) {
			Ok(Ok(())) => out.bump("recover_from_mnemonic:ok"),
			other => {
				out.problem("seed-file/recover/failed", format!("{}: {:?}", c, other.map(|r| r.map_err(|e| e.to_string()))));
				continue;
			}
		}
		let now = std::fs::read(&sp).unwrap();
		file_plaintext_check(&mut out, &now, &new_seed, &new_phrase, &c);
		for (ri, (rlabel, r)) in pws.iter().enumerate() {
			let c2 = format!("{}, then tried '{}'", c, rlabel);
			let res = attempt(&mut out, &lc, &now, r, &c2);
			judge(&mut out, &res, &new_seed, ri == qi, if ri == pi { "previous-password" } else { "other-base-password" }, false, &c2);
		}
		// the replaced file must still hold the original seed under the original password
		let bak = format!("{}/wallet_data/wallet.seed.bak", top);
		out.evals += 1;
		match std::fs::read(&bak).ok().map(|b| indep_decrypt(&b, &pw)) {
			Some(Ok(s)) if s == seed => out.bump("recover_from_mnemonic:backup-holds-original"),
			x => out.problem("seed-file/recover/original-not-in-backup", format!("{}: wallet.seed.bak does not open to the original seed with the original password: {:?}", c, x.map(|r| r.map(|s| s.to_hex())))),
		}
	}
	if out.samples.is_empty() {
		out.samples.push(json!({"part": "a", "seed_bytes": seed_len, "password": plabel, "file_bytes": original.len(), "attempts": out.evals}));
	}
	let _ = std::fs::remove_dir_all(&top);
	out
}

// ---------------------------------------------------------------------------------------------
// part (b): interruptions of change_password / recover_from_mnemonic

#[derive(Clone, Debug, Serialize, Deserialize)]
pub struct ScenB {
	/// change_password | recover_same | recover_other
	pub op: String,
	/// stale wallet.seed.bak* files present beforehand (forces .bak.N naming)
	pub n_bak: usize,
	pub old: usize,
	pub new: usize,
	pub seed_len: usize,
}

/// compile the interposer into the scratch dir; Err = cannot compile
pub fn build_shim(root: &str) -> Result<String, String> {
	let src = format!("{}/crashpoint.c", root);
	let so = format!("{}/crashpoint.so", root);
	std::fs::write(&src, SHIM_SRC).map_err(|e| e.to_string())?;
	let o = std::process::Command::new("cc")
		.args(&["-shared", "-fPIC", "-O1", "-o", &so, &src, "-ldl"])
		.output()
		.map_err(|e| format!("cannot run cc: {}", e))?;
	if !o.status.success() {
		return Err(format!("cc failed: {}", String::from_utf8_lossy(&o.stderr)));
	}
	Ok(so)
}

fn hexs(s: &str) -> String {
	let h = s.as_bytes().to_vec().to_hex();
	if h.is_empty() {
		"-".to_owned()
	} else {
		h
	}
}

fn unhexs(s: &str) -> String {
	if s == "-" {
		String::new()
	} else {
		String::from_utf8(util::from_hex(s).unwrap()).unwrap()
	}
}

/// `gwv c12 child <op> <top> <old hex> <new hex> <mnemonic hex>` — runs under the interposer
fn child_main(args: &[String]) -> i32 {
	let op = &args[1];
	let top = &args[2];
	let old = unhexs(&args[3]);
	let new = unhexs(&args[4]);
	let phrase = unhexs(&args[5]);
	let lc = new_lc(top);
	let r = if op == "change_password" {
		lc.change_password(None, zs(&old), zs(&new))
	} else {
		lc.recover_from_mnemonic(zs(&phrase), zs(&new))
	};
	match r {
		Ok(()) => 0,
		Err(e) => {
			println!("child: {} failed: {}", op, e);
			3
		}
	}
}

struct BaseB {
	top: String,
	seed: Vec<u8>,
	new_seed: Vec<u8>,
	new_phrase: String,
	old: String,
	new: String,
	stale: Vec<u8>,
}

fn prepare_b(dir: &str, sc: &ScenB) -> BaseB {
	let _ = std::fs::remove_dir_all(dir);
	let pws = base_passwords();
	let (old, new) = (pws[sc.old].1.clone(), pws[sc.new].1.clone());
	let seed = entropy_for(sc.seed_len, "b");
	let top = format!("{}/top", dir);
	new_lc(&top)
		.create_wallet(None, Some(zs(&mnemonic::from_entropy(&seed).unwrap())), sc.seed_len, zs(&old), false)
		.unwrap();
	// stale backups: ANOTHER seed sealed under the old password
	let stale_seed = entropy_for(sc.seed_len, "stale");
	let stale_top = format!("{}/stale", dir);
	new_lc(&stale_top)
		.create_wallet(None, Some(zs(&mnemonic::from_entropy(&stale_seed).unwrap())), sc.seed_len, zs(&old), false)
		.unwrap();
	let stale = std::fs::read(seed_path(&stale_top)).unwrap();
	for i in 0..sc.n_bak {
		let name = if i == 0 { "wallet.seed.bak".to_owned() } else { format!("wallet.seed.bak.{}", i) };
		std::fs::write(format!("{}/wallet_data/{}", top, name), &stale).unwrap();
	}
	let _ = std::fs::remove_dir_all(&stale_top);
	let new_seed = if sc.op == "recover_other" { entropy_for(sc.seed_len, "recovered") } else { seed.clone() };
	BaseB {
		top,
		new_phrase: mnemonic::from_entropy(&new_seed).unwrap(),
		seed,
		new_seed,
		old,
		new,
		stale,
	}
}

fn run_child(so: &str, b: &BaseB, sc: &ScenB, k: u64, short: bool, log: Option<&str>) -> Result<i32, String> {
	run_child_mode(so, b, sc, k, short, None, log)
}

/// `fail`: Some("once" | "from") = the k-th write call (every write from the k-th call on) returns ENOSPC
fn run_child_mode(so: &str, b: &BaseB, sc: &ScenB, k: u64, short: bool, fail: Option<&str>, log: Option<&str>) -> Result<i32, String> {
	let exe = std::env::current_exe().map_err(|e| e.to_string())?;
	let mut c = std::process::Command::new(exe);
	c.args(&["c12", "child", &sc.op, &b.top, &hexs(&b.old), &hexs(&b.new), &hexs(&b.new_phrase)])
		.env("LD_PRELOAD", so)
		.env("GWV_CP_DIR", &b.top)
		.env("GWV_CP_K", k.to_string())
		.env("GWV_CP_SHORT", if short { "1" } else { "0" });
	match fail {
		Some(f) => c.env("GWV_CP_FAIL", f),
		None => c.env_remove("GWV_CP_FAIL"),
	};
	match log {
		Some(l) => c.env("GWV_CP_LOG", l),
		None => c.env_remove("GWV_CP_LOG"),
	};
	let o = c.output().map_err(|e| format!("spawn: {}", e))?;
	o.status.code().ok_or_else(|| format!("child killed by a signal: {}", String::from_utf8_lossy(&o.stderr)))
}

/// which (file, password) pairs give which seed after a run; API and independent reading must agree
fn examine(out: &mut PartOut, dir: &str, b: &BaseB, ctx: &str) -> (Vec<String>, Vec<String>) {
	let mut orig_sources = vec![];
	let mut new_sources = vec![];
	let wd = format!("{}/wallet_data", b.top);
	let mut names: Vec<String> = std::fs::read_dir(&wd)
		.unwrap()
		.map(|e| e.unwrap().file_name().to_str().unwrap().to_owned())
		.filter(|n| n.starts_with("wallet.seed"))
		.collect();
	names.sort();
	for n in names {
		let bytes = std::fs::read(format!("{}/{}", wd, n)).unwrap();
		if bytes == b.stale {
			continue; // a backup that was there before the operation (holds another seed)
		}
		// through the API: the file under test becomes wallet.seed of a probe directory
		let probe = format!("{}/probe", dir);
		let _ = std::fs::remove_dir_all(&probe);
		std::fs::create_dir_all(format!("{}/wallet_data", probe)).unwrap();
		std::fs::write(seed_path(&probe), &bytes).unwrap();
		let lc = new_lc(&probe);
		let mut pws = vec![("old", b.old.clone())];
		if b.new != b.old {
			pws.push(("new", b.new.clone()));
		}
		for (plabel, pw) in pws {
			let c = format!("{}: file {} with the {} password", ctx, n, plabel);
			if let Ok(s) = attempt(out, &lc, &bytes, &pw, &c) {
				if s == b.seed {
					orig_sources.push(format!("{}:{}", norm_name(&n), plabel));
				}
				if s == b.new_seed {
					new_sources.push(format!("{}:{}", norm_name(&n), plabel));
				}
				if s != b.seed && s != b.new_seed {
					out.problem("interrupt/different-seed", format!("{} opened to an unrelated seed {}", c, s.to_hex()));
				}
			}
		}
	}
	(orig_sources, new_sources)
}

fn norm_name(n: &str) -> String {
	// wallet.seed.bak.2 -> wallet.seed.bak.N
	if n.starts_with("wallet.seed.bak.") {
		"wallet.seed.bak.N".to_owned()
	} else {
		n.to_owned()
	}
}

/// one run of part (b): k = 0 is the uninterrupted run
pub fn run_b(so: &str, dir: &str, sc: &ScenB, k: u64, short: bool, kind: &str) -> Result<PartOut, String> {
	let mut out = PartOut::default();
	let b = prepare_b(dir, sc);
	let code = run_child(so, &b, sc, k, short, None)?;
	out.evals += 1;
	let ctx = format!("{:?} interrupted {} mutating file call #{} ({})", sc, if short { "after a short write in" } else { "before" }, k, kind);
	let crash_label = format!("{}:{}", if short { "short" } else { "before" }, kind);
	if k == 0 || kind == "none" {
		if code != 0 {
			return Err(format!("uninterrupted child of {:?} exited with {}", sc, code));
		}
	} else if code != 77 {
		return Err(format!("child of {:?} at k={} exited with {} instead of 77", sc, k, code));
	}
	let (orig, newer) = examine(&mut out, dir, &b, &ctx);
	let mut o = orig.clone();
	o.sort();
	if code == 0 {
		// completed: the file opens with the new password only, to the expected seed
		out.bump(&format!("completed:{}:original-seed-in[{}]", sc.op, o.join(",")));
		if !newer.iter().any(|s| s == "wallet.seed:new" || (b.new == b.old && s == "wallet.seed:old")) {
			out.problem(format!("interrupt/{}/completed-but-new-password-does-not-open", sc.op), format!("{}: wallet.seed does not open with the new password after a completed run", ctx));
		}
		if b.new != b.old && orig.iter().chain(newer.iter()).any(|s| s == "wallet.seed:old") {
			out.problem(format!("interrupt/{}/old-password-still-opens", sc.op), format!("{}: wallet.seed still opens with the old password after a completed run", ctx));
		}
	} else {
		out.bump(&format!("crashed:{}:{}:original-seed-in[{}]", sc.op, crash_label, o.join(",")));
	}
	if orig.is_empty() {
		out.problem(
			format!("interrupt/{}/original-seed-unrecoverable/{}", sc.op, crash_label),
			format!("{}: no wallet.seed / wallet.seed.bak* file opens to the original seed with the old or the new password", ctx),
		);
	}
	let _ = std::fs::remove_dir_all(dir);
	Ok(out)
}

/// one run of part (b) with a failing (ENOSPC) write instead of a kill: the operation returns (with
/// an error or not) and the original seed must still be recoverable
pub fn run_b_fail(so: &str, dir: &str, sc: &ScenB, k: u64, mode: &str, kind: &str) -> Result<PartOut, String> {
	let mut out = PartOut::default();
	let b = prepare_b(dir, sc);
	let code = run_child_mode(so, &b, sc, k, false, Some(mode), None)?;
	out.evals += 1;
	if code == 77 {
		return Err(format!("child of {:?} was killed in fail mode", sc));
	}
	let ctx = format!("{:?} with write call #{} ({}) failing with ENOSPC ({}); the operation returned exit code {}", sc, k, kind, mode, code);
	let (orig, newer) = examine(&mut out, dir, &b, &ctx);
	let mut o = orig.clone();
	o.sort();
	out.bump(&format!("write-failed:{}:{}:{}:original-seed-in[{}]", sc.op, mode, if code == 0 { "returned-ok" } else { "returned-error" }, o.join(",")));
	if orig.is_empty() {
		out.problem(
			format!("interrupt/{}/original-seed-unrecoverable/write-error-{}:{}", sc.op, mode, kind),
			format!("{}: no wallet.seed / wallet.seed.bak* file opens to the original seed with the old or the new password", ctx),
		);
	}
	if code == 0 && !newer.iter().any(|s| s == "wallet.seed:new" || (b.new == b.old && s == "wallet.seed:old")) {
		out.problem(format!("interrupt/{}/reported-success-after-failed-write", sc.op), format!("{}: the operation reported success but wallet.seed does not open with the new password", ctx));
	}
	let _ = std::fs::remove_dir_all(dir);
	Ok(out)
}

/// enumerate every crash point of one scenario
fn scenario_b(so: &str, dir: &str, sc: &ScenB) -> Result<(PartOut, u64, Vec<String>), String> {
	// uninterrupted run with the call log
	let b = prepare_b(dir, sc);
	let log = format!("{}/calls.log", dir);
	let code = run_child(so, &b, sc, 0, false, Some(&log))?;
	if code != 0 {
		return Err(format!("logged clean run of {:?} exited with {}", sc, code));
	}
	let calls: Vec<String> = std::fs::read_to_string(&log)
		.map_err(|e| format!("no call log (interposer inactive?): {}", e))?
		.lines()
		.map(|l| {
			let mut it = l.split(' ');
			let _n = it.next();
			let kind = it.next().unwrap_or("?");
			let path = it.next().unwrap_or("?");
			format!("{}({})", kind, norm_name(path.rsplit('/').next().unwrap_or("?")))
		})
		.collect();
	if calls.is_empty() {
		return Err(format!("interposer saw no mutating file call in {:?}", sc));
	}
	let mut out = run_b(so, dir, sc, 0, false, "none")?;
	let mut crashed = 0;
	for (i, kind) in calls.iter().enumerate() {
		let k = i as u64 + 1;
		out.merge(run_b(so, dir, sc, k, false, kind)?);
		crashed += 1;
		if kind.starts_with("write") || kind.starts_with("pwrite") {
			out.merge(run_b(so, dir, sc, k, true, kind)?);
			crashed += 1;
			// the same write returning ENOSPC (once; and the disk staying full)
			out.merge(run_b_fail(so, dir, sc, k, "once", kind)?);
			out.merge(run_b_fail(so, dir, sc, k, "from", kind)?);
			crashed += 2;
		}
	}
	// one past the last call: the run must complete
	out.merge(run_b(so, dir, sc, calls.len() as u64 + 1, false, "none")?);
	Ok((out, crashed, calls))
}

fn scenarios_b(thorough: bool) -> Vec<ScenB> {
	let mut v = vec![];
	let pairs: Vec<(usize, usize)> = if thorough {
		let mut p = vec![];
		for a in 0..4 {
			for b in 0..4 {
				p.push((a, b)); // includes new == old
			}
		}
		p
	} else {
		vec![(1, 2), (0, 3), (3, 0)]
	};
	let lens: Vec<usize> = if thorough { vec![16, 32] } else { vec![32] };
	for op in ["change_password", "recover_same", "recover_other"].iter() {
		for n_bak in 0..3 {
			for (old, new) in pairs.iter() {
				for l in lens.iter() {
					v.push(ScenB { op: op.to_string(), n_bak, old: *old, new: *new, seed_len: *l });
				}
			}
		}
	}
	v
}

// ---------------------------------------------------------------------------------------------
// parts (c) and (d): histories

const G: u64 = 1_000_000_000;
const AMOUNT: u64 = 20 * G;

#[derive(Clone, Copy, Debug, Serialize, Deserialize, PartialEq)]
pub enum Kind {
	Send,
	LateSend,
	SelfSend,
	Invoice,
	SelfInvoice,
}

const KINDS: [Kind; 5] = [Kind::Send, Kind::LateSend, Kind::SelfSend, Kind::Invoice, Kind::SelfInvoice];

impl Kind {
	fn initiator(&self) -> &'static str {
		match self {
			Kind::Invoice => "B",
			_ => "A",
		}
	}
	fn responder(&self) -> &'static str {
		match self {
			Kind::Send | Kind::LateSend => "B",
			_ => "A",
		}
	}
	fn is_invoice(&self) -> bool {
		matches!(self, Kind::Invoice | Kind::SelfInvoice)
	}
	fn payer(&self) -> &'static str {
		if self.is_invoice() {
			self.responder()
		} else {
			self.initiator()
		}
	}
}

#[derive(Clone, Debug, Serialize, Deserialize, PartialEq)]
pub enum Op {
	/// initiator builds the first slate (init_send_tx / issue_invoice_tx)
	Init { slot: usize, kind: Kind },
	/// counterparty step: foreign receive_tx (JSON-RPC) / owner process_invoice_tx
	Respond { slot: usize },
	/// payer locks its outputs (tx_lock_outputs)
	Lock { slot: usize },
	/// initiator finalizes: owner finalize_tx / foreign finalize_tx (JSON-RPC)
	Finalize { slot: usize },
	Cancel { slot: usize, responder: bool },
	/// post the finalized transaction, mine a block, refresh both wallets
	PostMine { slot: usize },
	/// the counterparty posts the initiator's own first slate back to the initiator's foreign
	/// finalize_tx (wrong state: refused); the refusal is a message handed to a peer too
	EchoFinalize { slot: usize },
	/// (invoices) the issuer makes out a second invoice, with a fresh nonce and excess, under the slate id of
	/// the first one, and the payer processes it: whatever it answers must not carry the nonce it used before
	/// under another signature
	RespondTwin { slot: usize },
}

#[derive(Clone, Debug, Serialize, Deserialize)]
struct Slot {
	kind: Kind,
	id: String,
	s1: String,
	s2: Option<String>,
	s3_tx: Option<String>,
	lock_ok: u32,
	respond_ok: u32,
	fin_ok: u32,
	cancel_i: bool,
	cancel_r: bool,
	posted: bool,
}

/// one public (nonce, excess) pair a wallet put into a slate or holds in a stored context
#[derive(Clone, Debug, Serialize, Deserialize, PartialEq)]
struct Rec {
	w: String,
	slate: String,
	nonce: String,
	xs: String,
	src: String,
	/// the partial signature that went out with the nonce, if any
	#[serde(default)]
	part: String,
}

fn slots(w: &World) -> Vec<Option<Slot>> {
	serde_json::from_value(w.meta.extra["slots"].clone()).unwrap_or_else(|_| vec![None, None])
}
fn set_slots(w: &mut World, s: &[Option<Slot>]) {
	w.meta.extra["slots"] = serde_json::to_value(s).unwrap();
}
fn recs(w: &World) -> Vec<Rec> {
	serde_json::from_value(w.meta.extra["emitted"].clone()).unwrap_or_default()
}
fn set_recs(w: &mut World, r: &[Rec]) {
	w.meta.extra["emitted"] = serde_json::to_value(r).unwrap();
}
fn past_ids(w: &World) -> Vec<String> {
	serde_json::from_value(w.meta.extra["past_ids"].clone()).unwrap_or_default()
}

fn slot_ids(w: &World) -> Vec<Uuid> {
	slots(w).iter().map(|s| s.as_ref().map(|s| Uuid::parse_str(&s.id).unwrap()).unwrap_or_else(Uuid::nil)).collect()
}

// global evidence counters of parts (c) and (d)
static FILES_SCANNED: AtomicU64 = AtomicU64::new(0);
static FILE_BYTES: AtomicU64 = AtomicU64::new(0);
static MSGS_SCANNED: AtomicU64 = AtomicU64::new(0);
static MSG_BYTES: AtomicU64 = AtomicU64::new(0);
static NEEDLE_EVALS: AtomicU64 = AtomicU64::new(0);
static CTX_SEEN: AtomicU64 = AtomicU64::new(0);
static PAIRS: AtomicU64 = AtomicU64::new(0);
static RECS_MAX: AtomicU64 = AtomicU64::new(0);
lazy_static::lazy_static! {
	static ref HIST: StdMutex<BTreeMap<String, u64>> = StdMutex::new(BTreeMap::new());
}
lazy_static::lazy_static! {
	static ref INIT_CACHE: StdMutex<HashMap<usize, Snapshot>> = StdMutex::new(HashMap::new());
}
fn hist(k: &str) {
	*HIST.lock().unwrap().entry(k.to_owned()).or_insert(0) += 1;
}

struct CtxSecret {
	wallet: String,
	slot: usize,
	/// field names holding this value, e.g. ["sec_key", "initial_sec_key"]
	fields: Vec<&'static str>,
	bytes: Vec<u8>,
}

/// the secrets of every stored (pending) context of every wallet, un-masked by get_private_context
fn context_secrets(w: &World) -> Vec<CtxSecret> {
	let mut v: Vec<CtxSecret> = vec![];
	for wl in w.wallets.iter() {
		for (si, id) in slot_ids(w).iter().enumerate() {
			if id.is_nil() {
				continue;
			}
			if let Ok(c) = wl.get_context(id) {
				CTX_SEEN.fetch_add(1, Ordering::Relaxed);
				let items: [(&'static str, &SecretKey); 4] = [
					("sec_key", &c.sec_key),
					("sec_nonce", &c.sec_nonce),
					("initial_sec_key", &c.initial_sec_key),
					("initial_sec_nonce", &c.initial_sec_nonce),
				];
				for (f, k) in items.iter() {
					let b = k.0.to_vec();
					match v.iter_mut().find(|x| x.wallet == wl.name && x.slot == si && x.bytes == b) {
						Some(x) => x.fields.push(f),
						None => v.push(CtxSecret { wallet: wl.name.clone(), slot: si, fields: vec![f], bytes: b }),
					}
				}
			}
		}
	}
	v
}

fn needles_for(w: &World, secrets: &[&CtxSecret]) -> Vec<Needle> {
	let mut n = vec![];
	for s in secrets {
		let class = s.fields.join("=");
		n.extend(secret_needles(&format!("{}/slot{}/{}", s.wallet, s.slot, class), &class, &s.bytes));
	}
	for wl in w.wallets.iter() {
		n.extend(secret_needles(&format!("{}/seed", wl.name), "seed", &seed_for(&wl.seed_name)));
		n.extend(mnemonic_needles(&wl.name, &mnemonic_for(&wl.seed_name)));
	}
	n
}

fn walk_files(dir: &str, rel: &str, out: &mut Vec<(String, Vec<u8>)>) {
	let mut entries: Vec<_> = match std::fs::read_dir(format!("{}/{}", dir, rel)) {
		Ok(r) => r.map(|e| e.unwrap()).collect(),
		Err(_) => return,
	};
	entries.sort_by_key(|e| e.file_name());
	for e in entries {
		let r = if rel.is_empty() { e.file_name().to_str().unwrap().to_owned() } else { format!("{}/{}", rel, e.file_name().to_str().unwrap()) };
		if e.file_type().unwrap().is_dir() {
			walk_files(dir, &r, out);
		} else {
			out.push((r, std::fs::read(e.path()).unwrap_or_default()));
		}
	}
}

/// file class for finding keys: uuid file names are generalised
fn file_class(rel: &str) -> String {
	if rel.starts_with("saved_txs/") {
		"saved_txs/*.grintx".to_owned()
	} else {
		rel.to_owned()
	}
}

fn excerpt(hay: &[u8], off: usize) -> String {
	let a = off.saturating_sub(28);
	let b = (off + 24).min(hay.len());
	hay[a..b].iter().map(|c| if c.is_ascii_graphic() || *c == b' ' { *c as char } else { '.' }).collect()
}

/// every file under every wallet's directory against the secrets of the contexts pending NOW
fn scan_files(w: &World, out: &mut StepOut) {
	let secrets = context_secrets(w);
	let refs: Vec<&CtxSecret> = secrets.iter().collect();
	let sc = Scanner::new(needles_for(w, &refs));
	for wl in w.wallets.iter() {
		// <world>/w_X holds wallet_data (db/, saved_txs/, wallet.seed)
		let top = format!("{}/w_{}", w.dir, wl.name);
		let mut files = vec![];
		walk_files(&top, "", &mut files);
		for (rel, bytes) in files.iter() {
			FILES_SCANNED.fetch_add(1, Ordering::Relaxed);
			FILE_BYTES.fetch_add(bytes.len() as u64, Ordering::Relaxed);
			NEEDLE_EVALS.fetch_add(sc.needles.len() as u64, Ordering::Relaxed);
			for (ni, off) in sc.scan(bytes) {
				let n = &sc.needles[ni];
				let rel_in = rel.trim_start_matches("wallet_data/");
				let field = preceding_json_field(bytes, off).unwrap_or_else(|| n.class.clone());
				hist(&format!("disk-hit:{}:{}:{}", file_class(rel_in), field, n.enc));
				out.problem(
					format!("leak/disk/{}/{}/{}", file_class(rel_in), field, n.enc),
					format!(
						"wallet {}: file {} ({} bytes) contains {} in {} form at byte offset {} (stored under JSON field {:?}; context: …{}…)",
						wl.name, rel, bytes.len(), n.what, n.enc, off, preceding_json_field(bytes, off), excerpt(bytes, off)
					),
				);
			}
		}
	}
}

/// messages a wallet emitted in this step against the secrets pending before or after it
fn scan_messages(w: &World, before: &[CtxSecret], msgs: &[(String, Vec<u8>)], out: &mut StepOut) {
	let after = context_secrets(w);
	let mut refs: Vec<&CtxSecret> = before.iter().collect();
	for a in after.iter() {
		if !before.iter().any(|b| b.wallet == a.wallet && b.slot == a.slot && b.bytes == a.bytes) {
			refs.push(a);
		}
	}
	let sc = Scanner::new(needles_for(w, &refs));
	for (label, bytes) in msgs {
		MSGS_SCANNED.fetch_add(1, Ordering::Relaxed);
		MSG_BYTES.fetch_add(bytes.len() as u64, Ordering::Relaxed);
		NEEDLE_EVALS.fetch_add(sc.needles.len() as u64, Ordering::Relaxed);
		hist(&format!("message:{}", label));
		for (ni, off) in sc.scan(bytes) {
			let n = &sc.needles[ni];
			out.problem(
				format!("leak/message/{}/{}/{}", label, n.class, n.enc),
				format!("{} ({} bytes) contains {} in {} form at byte offset {} (…{}…)", label, bytes.len(), n.what, n.enc, off, excerpt(bytes, off)),
			);
		}
	}
}

/// the forms in which a slate leaves the wallet `actor`
fn emitted_forms(w: &World, actor: &str, what: &str, slate: &Slate, msgs: &mut Vec<(String, Vec<u8>)>) {
	msgs.push((format!("{}:slate-v4-json", what), slate_to_json(slate).into_bytes()));
	let a = w.w(actor);
	match owner::create_slatepack_message(a.inst.clone(), a.mask(), slate, Some(0), vec![]) {
		Ok(armored) => {
			if let Ok(bin) = SlatepackArmor::decode(armored.as_bytes()) {
				msgs.push((format!("{}:slatepack-binary", what), bin));
			}
			msgs.push((format!("{}:slatepack-armored", what), armored.into_bytes()));
		}
		Err(e) => hist(&format!("slatepack-error:{}", err_label(&e))),
	}
}

fn sigs_of(slate_json: &str) -> Vec<(String, String)> {
	sigs3_of(slate_json).into_iter().map(|x| (x.0, x.1)).collect()
}

fn sigs3_of(slate_json: &str) -> Vec<(String, String, String)> {
	let v: Value = serde_json::from_str(slate_json).unwrap_or(Value::Null);
	v["sigs"]
		.as_array()
		.map(|a| a.iter().map(|s| (s["nonce"].as_str().unwrap_or("").to_owned(), s["xs"].as_str().unwrap_or("").to_owned(), s["part"].as_str().unwrap_or("").to_owned())).collect())
		.unwrap_or_default()
}

fn pub_hex(k: &SecretKey) -> String {
	let secp = util::static_secp_instance();
	let secp = secp.lock();
	PublicKey::from_secret_key(&secp, k).map(|p| p.serialize_vec(&secp, true).to_vec().to_hex()).unwrap_or_default()
}

fn push_rec(r: &mut Vec<Rec>, x: Rec) {
	if !r.iter().any(|y| y.w == x.w && y.slate == x.slate && y.nonce == x.nonce && y.xs == x.xs && (y.part == x.part || x.part.is_empty())) {
		r.push(x);
	}
}

/// (d): entries a wallet contributed to DIFFERENT slates must differ in nonce and in excess
fn freshness_violations(r: &[Rec]) -> Vec<(String, String)> {
	let mut v = vec![];
	let mut pairs = 0u64;
	for i in 0..r.len() {
		for j in i + 1..r.len() {
			if r[i].w == r[j].w && r[i].slate == r[j].slate && !r[i].nonce.is_empty() && r[i].nonce == r[j].nonce && !r[i].part.is_empty() && !r[j].part.is_empty() && r[i].part != r[j].part {
				// one nonce, two different partial signatures: the secret key follows from the pair
				v.push(("nonce-reuse/two-signatures-under-one-nonce".to_owned(), format!("wallet {} handed out two different partial signatures made with public nonce {} for slate {} ({} and {})", r[i].w, r[i].nonce, r[i].slate, r[i].src, r[j].src)));
			}
			if r[i].w != r[j].w || r[i].slate == r[j].slate {
				continue;
			}
			pairs += 1;
			let mut srcs = vec![r[i].src.clone(), r[j].src.clone()];
			srcs.sort();
			if !r[i].nonce.is_empty() && r[i].nonce == r[j].nonce {
				v.push((format!("nonce-reuse/{}", srcs.join("~")), format!("wallet {} used public nonce {} in slate {} ({}) and in slate {} ({})", r[i].w, r[i].nonce, r[i].slate, r[i].src, r[j].slate, r[j].src)));
			}
			if !r[i].xs.is_empty() && r[i].xs == r[j].xs {
				v.push((format!("excess-reuse/{}", srcs.join("~")), format!("wallet {} used public blind excess {} in slate {} ({}) and in slate {} ({})", r[i].w, r[i].xs, r[i].slate, r[i].src, r[j].slate, r[j].src)));
			}
		}
	}
	PAIRS.fetch_add(pairs, Ordering::Relaxed);
	RECS_MAX.fetch_max(r.len() as u64, Ordering::Relaxed);
	v
}

fn err_label(e: &Error) -> String {
	let s = format!("{:?}", e);
	let name: String = s.chars().take_while(|c| c.is_alphanumeric()).collect();
	format!("err:{}", name)
}

fn foreign_rpc(w: &WalletH, method: &str, slate: &Slate) -> (Result<Slate, String>, String) {
	let api: Foreign<'static, HLC, crate::node::DirectClient, ExtKeychain> = Foreign::new(w.inst.clone(), w.mask.clone(), None, false);
	let vs = VersionedSlate::into_version(slate.clone(), SlateVersion::V4).unwrap();
	let params = if method == "receive_tx" { json!([vs, null, null]) } else { json!([vs]) };
	let req = json!({"jsonrpc": "2.0", "method": method, "id": 1, "params": params});
	match <dyn ForeignRpc>::handle_request(&api, req) {
		MaybeReply::Reply(r) => {
			let raw = r.to_string();
			let res = match r["result"].get("Ok") {
				Some(v) => serde_json::from_value::<VersionedSlate>(v.clone()).map(Slate::from).map_err(|e| format!("reply not a slate: {}", e)),
				None => {
					let e = &r["result"]["Err"];
					let name = e.as_object().and_then(|o| o.keys().next().cloned()).or_else(|| e.as_str().map(|s| s.to_owned())).unwrap_or_else(|| "rpc".to_owned());
					Err(format!("err:{}", name))
				}
			};
			(res, raw)
		}
		MaybeReply::DontReply => (Err("err:noreply".into()), String::new()),
	}
}

pub struct M {
	/// 0: fresh funded wallets; 1: after a completed+mined send and invoice (history on disk)
	pub base: usize,
	pub nslots: usize,
}

impl M {
	fn apply(&self, w: &mut World, op: &Op, out: &mut StepOut) {
		let mut sl = slots(w);
		let mut rs = recs(w);
		let before = context_secrets(w);
		let mut msgs: Vec<(String, Vec<u8>)> = vec![];
		// (actor, flow label, slate before the actor's step, slate after it)
		let mut contributed: Option<(String, String, Option<String>, Slate)> = None;
		match op {
			Op::Init { slot, kind } => {
				let ini = w.w(kind.initiator());
				let r = if kind.is_invoice() {
					ini.issue_invoice(IssueInvoiceTxArgs { amount: AMOUNT, ..Default::default() })
				} else {
					let mut args = default_args(AMOUNT);
					if *kind == Kind::LateSend {
						args.late_lock = Some(true);
					}
					ini.init_send(args)
				};
				match r {
					Ok(s1) => {
						emitted_forms(w, kind.initiator(), "init", &s1, &mut msgs);
						sl[*slot] = Some(Slot {
							kind: *kind,
							id: s1.id.to_string(),
							s1: slate_to_json(&s1),
							s2: None,
							s3_tx: None,
							lock_ok: 0,
							respond_ok: 0,
							fin_ok: 0,
							cancel_i: false,
							cancel_r: false,
							posted: false,
						});
						contributed = Some((kind.initiator().into(), format!("{:?}:initiator", kind), None, s1));
						out.label = "ok".into();
					}
					Err(e) => out.label = err_label(&e),
				}
			}
			Op::Respond { slot } => {
				let s = sl[*slot].as_mut().unwrap();
				let s1 = slate_from_json(&s.s1);
				let resp = w.w(s.kind.responder());
				let r: Result<Slate, String> = if s.kind.is_invoice() {
					resp.process_invoice(&s1, default_args(0)).map_err(|e| err_label(&e))
				} else {
					let (r, raw) = foreign_rpc(resp, "receive_tx", &s1);
					msgs.push(("respond:foreign-rpc-reply".into(), raw.into_bytes()));
					r
				};
				match r {
					Ok(s2) => {
						emitted_forms(w, s.kind.responder(), "respond", &s2, &mut msgs);
						s.respond_ok += 1;
						s.s2 = Some(slate_to_json(&s2));
						contributed = Some((s.kind.responder().into(), format!("{:?}:responder", s.kind), Some(s.s1.clone()), s2));
						out.label = "ok".into();
					}
					Err(e) => out.label = e,
				}
			}
			Op::RespondTwin { slot } => {
				let s = sl[*slot].as_mut().unwrap();
				let first = slate_from_json(&s.s1);
				let ini = w.w(s.kind.initiator());
				let resp = w.w(s.kind.responder());
				let twin = ini.issue_invoice(IssueInvoiceTxArgs { amount: first.amount, ..Default::default() });
				match twin {
					Ok(mut t) => {
						t.id = first.id;
						match resp.process_invoice(&t, default_args(0)) {
							Ok(s2) => {
								emitted_forms(w, s.kind.responder(), "respond-twin", &s2, &mut msgs);
								contributed = Some((s.kind.responder().into(), format!("{:?}:responder-twin", s.kind), Some(slate_to_json(&t)), s2));
								out.label = "ok".into();
							}
							Err(e) => out.label = err_label(&e),
						}
					}
					Err(e) => out.label = err_label(&e),
				}
			}
			Op::Lock { slot } => {
				let s = sl[*slot].as_mut().unwrap();
				let slate = slate_from_json(if s.kind.is_invoice() { s.s2.as_ref().unwrap() } else { &s.s1 });
				match w.w(s.kind.payer()).lock(&slate) {
					Ok(()) => {
						s.lock_ok += 1;
						out.label = "ok".into();
					}
					Err(e) => out.label = err_label(&e),
				}
			}
			Op::Finalize { slot } => {
				let s = sl[*slot].as_mut().unwrap();
				let s2 = slate_from_json(s.s2.as_ref().unwrap());
				let ini = w.w(s.kind.initiator());
				let r: Result<Slate, String> = if s.kind.is_invoice() {
					let (r, raw) = foreign_rpc(ini, "finalize_tx", &s2);
					msgs.push(("finalize:foreign-rpc-reply".into(), raw.into_bytes()));
					r
				} else {
					ini.finalize(&s2).map_err(|e| err_label(&e))
				};
				match r {
					Ok(s3) => {
						emitted_forms(w, s.kind.initiator(), "finalize", &s3, &mut msgs);
						s.fin_ok += 1;
						s.s3_tx = s3.tx_or_err().ok().map(tx_to_hex);
						contributed = Some((s.kind.initiator().into(), format!("{:?}:initiator", s.kind), s.s2.clone(), s3));
						out.label = "ok".into();
					}
					Err(e) => out.label = e,
				}
			}
			Op::EchoFinalize { slot } => {
				let s = sl[*slot].as_mut().unwrap();
				let s1 = slate_from_json(&s.s1);
				let ini = w.w(s.kind.initiator());
				let (r, raw) = foreign_rpc(ini, "finalize_tx", &s1);
				msgs.push(("echo-finalize:foreign-rpc-reply".into(), raw.into_bytes()));
				out.label = match r {
					Ok(_) => "ok".into(),
					Err(e) => e,
				};
			}
			Op::Cancel { slot, responder } => {
				let s = sl[*slot].as_mut().unwrap();
				let who = if *responder { s.kind.responder() } else { s.kind.initiator() };
				match w.w(who).cancel(None, Some(Uuid::parse_str(&s.id).unwrap())) {
					Ok(()) => {
						if *responder {
							s.cancel_r = true
						} else {
							s.cancel_i = true
						}
						out.label = "ok".into();
					}
					Err(e) => out.label = err_label(&e),
				}
			}
			Op::PostMine { slot } => {
				let s = sl[*slot].as_mut().unwrap();
				if s.s3_tx.is_none() {
					out.label = "skip:not-finalized".into();
					return;
				}
				let tx = tx_from_hex(s.s3_tx.as_ref().unwrap());
				let in_pool = w.node.mempool.lock().unwrap().iter().any(|t| t.kernels() == tx.kernels());
				let posted = if in_pool { Ok(()) } else { w.w("A").post(&tx) };
				w.mine("M").unwrap();
				let _ = w.w("A").refresh();
				let _ = w.w("B").refresh();
				s.posted = true;
				out.label = match posted {
					Ok(()) => "ok".into(),
					Err(e) => err_label(&e),
				};
			}
		}
		// (d) what the acting wallet added to the slate, and the public images of every stored context
		if let Some((actor, flow, input, output)) = contributed {
			let before_sigs = input.map(|j| sigs_of(&j)).unwrap_or_default();
			for (nonce, xs, part) in sigs3_of(&slate_to_json(&output)) {
				if !before_sigs.iter().any(|b| b.0 == nonce && b.1 == xs) {
					hist(&format!("contribution:{}", flow));
					push_rec(&mut rs, Rec { w: actor.clone(), slate: output.id.to_string(), nonce, xs, src: flow.clone(), part });
				}
			}
		}
		let ids = sl.iter().map(|s| s.as_ref().map(|s| (s.id.clone(), s.kind))).collect::<Vec<_>>();
		for wl in w.wallets.iter() {
			for x in ids.iter().flatten() {
				if let Ok(c) = wl.get_context(&Uuid::parse_str(&x.0).unwrap()) {
					push_rec(&mut rs, Rec { w: wl.name.clone(), slate: x.0.clone(), nonce: pub_hex(&c.sec_nonce), xs: pub_hex(&c.sec_key), src: format!("{:?}:stored-context", x.1), part: String::new() });
					push_rec(&mut rs, Rec { w: wl.name.clone(), slate: x.0.clone(), nonce: pub_hex(&c.initial_sec_nonce), xs: pub_hex(&c.initial_sec_key), src: format!("{:?}:stored-context-initial", x.1), part: String::new() });
				}
			}
		}
		set_slots(w, &sl);
		set_recs(w, &rs);
		// (c) what was emitted in this step
		scan_messages(w, &before, &msgs, out);
	}
}

impl M {
	fn build_init(&self, dir: &str) {
		let w = World::create(dir, &[("A", "A"), ("B", "B"), ("M", "M")]);
		w.close();
		// a seed file written by the repository's lifecycle provider, so that the scanned
		// directories are complete wallet directories (the harness opens the store directly)
		for n in ["A", "B", "M"].iter() {
			let tmp = format!("{}/seedtmp_{}", dir, n);
			new_lc(&tmp).create_wallet(None, Some(zs(&mnemonic_for(n))), 32, zs(crate::dwallet::PASSWORD), false).unwrap();
			std::fs::copy(seed_path(&tmp), format!("{}/wallet.seed", WalletH::data_dir(dir, n))).unwrap();
			std::fs::remove_dir_all(&tmp).unwrap();
		}
		let mut w = World::open(dir);
		w.mine_n("A", if self.base == 0 { 3 } else { 5 });
		w.mine_n("M", 3);
		w.w("A").refresh().unwrap();
		w.w("B").refresh().unwrap();
		let empty: Vec<Option<Slot>> = (0..self.nslots).map(|_| None).collect();
		set_slots(&mut w, &empty);
		set_recs(&mut w, &[]);
		if self.base == 1 {
			let mut past = vec![];
			for kind in [Kind::Send, Kind::Invoice].iter() {
				for op in [Op::Init { slot: 0, kind: *kind }, Op::Respond { slot: 0 }, Op::Lock { slot: 0 }, Op::Finalize { slot: 0 }, Op::PostMine { slot: 0 }].iter() {
					let mut out = StepOut::default();
					self.apply(&mut w, op, &mut out);
					assert_eq!(out.label, "ok", "base history step {:?}", op);
				}
				past.push(slots(&w)[0].as_ref().unwrap().id.clone());
				set_slots(&mut w, &empty);
			}
			w.meta.extra["past_ids"] = json!(past);
		}
		w.close();
	}
}

impl Model for M {
	type Op = Op;

	fn init(&self, dir: &str) {
		// the initial world of a base is built once per process and copied afterwards
		if let Some(snap) = INIT_CACHE.lock().unwrap().get(&self.base) {
			snap.restore(dir);
			return;
		}
		self.build_init(dir);
		INIT_CACHE.lock().unwrap().insert(self.base, Snapshot::capture(dir));
	}

	fn ops(&self, w: &World) -> Vec<Op> {
		let mut v = vec![];
		let sl = slots(w);
		for (i, s) in sl.iter().enumerate() {
			match s {
				None => {
					if sl.iter().take(i).all(|x| x.is_some()) {
						for k in KINDS.iter() {
							v.push(Op::Init { slot: i, kind: *k });
						}
					}
				}
				Some(s) => {
					if s.s3_tx.is_none() {
						v.push(Op::Respond { slot: i });
					}
					if s.kind == Kind::Invoice && s.s3_tx.is_none() && s.respond_ok > 0 {
						v.push(Op::RespondTwin { slot: i });
					}
					if !s.kind.is_invoice() || s.s2.is_some() {
						v.push(Op::Lock { slot: i });
					}
					if s.s2.is_some() {
						v.push(Op::Finalize { slot: i });
					}
					if s.s3_tx.is_none() && !s.cancel_i {
						v.push(Op::EchoFinalize { slot: i });
					}
					v.push(Op::Cancel { slot: i, responder: false });
					if s.kind.initiator() != s.kind.responder() && s.s2.is_some() {
						v.push(Op::Cancel { slot: i, responder: true });
					}
					if s.s3_tx.is_some() && !s.posted {
						v.push(Op::PostMine { slot: i });
					}
				}
			}
		}
		v
	}

	fn step(&self, w: &mut World, op: &Op, out: &mut StepOut) {
		self.apply(w, op, out);
		if std::env::var("GWV_C12_TRACE").is_ok() {
			eprintln!("  {:?} -> {}", op, out.label);
		}
	}

	fn check(&self, w: &World, out: &mut StepOut) {
		scan_files(w, out);
		for (k, what) in freshness_violations(&recs(w)) {
			out.problem(k, what);
		}
	}

	fn project(&self, w: &World) -> Value {
		let mut ids = slot_ids(w);
		for p in past_ids(w) {
			ids.push(Uuid::parse_str(&p).unwrap());
		}
		let opts = ProjOpts { slots: ids, heights: false, canon_ids: true };
		let slot_v: Vec<Value> = slots(w)
			.iter()
			.map(|s| match s {
				None => Value::Null,
				Some(s) => json!({"kind": s.kind, "s2": s.s2.is_some(), "s3": s.s3_tx.is_some(), "lock": s.lock_ok.min(2), "resp": s.respond_ok.min(2), "fin": s.fin_ok.min(2), "ci": s.cancel_i, "cr": s.cancel_r, "posted": s.posted}),
			})
			.collect();
		json!({
			"A": project_wallet(w.w("A"), &opts),
			"B": project_wallet(w.w("B"), &opts),
			"slots": slot_v,
			"height": w.node.height(),
			"pool": w.node.mempool_len(),
		})
	}
}

// ---------------------------------------------------------------------------------------------
// scripted complete flows: every ordered pair of flow kinds, interleaved step by step

/// the complete flow of one kind as chunks; coin selection and locking stay adjacent so that
/// two interleaved flows do not compete for the same coin
fn canonical(kind: Kind, slot: usize) -> Vec<Vec<Op>> {
	match kind {
		Kind::LateSend => vec![vec![Op::Init { slot, kind }], vec![Op::Respond { slot }], vec![Op::Finalize { slot }], vec![Op::PostMine { slot }]],
		Kind::Send | Kind::SelfSend => vec![vec![Op::Init { slot, kind }, Op::Lock { slot }], vec![Op::Respond { slot }], vec![Op::Finalize { slot }], vec![Op::PostMine { slot }]],
		Kind::Invoice | Kind::SelfInvoice => vec![vec![Op::Init { slot, kind }], vec![Op::Respond { slot }, Op::Lock { slot }], vec![Op::Finalize { slot }], vec![Op::PostMine { slot }]],
	}
}

fn scripts(ordered: bool) -> Vec<Vec<Op>> {
	let mut v = vec![];
	for (ia, a) in KINDS.iter().enumerate() {
		for (ib, b) in KINDS.iter().enumerate() {
			if !ordered && ib < ia {
				continue;
			}
			let (pa, pb) = (canonical(*a, 0), canonical(*b, 1));
			let mut p = vec![];
			for i in 0..pa.len() {
				p.extend(pa[i].iter().cloned());
				p.extend(pb[i].iter().cloned());
			}
			v.push(p);
		}
	}
	v
}

struct ScriptOut {
	labels: Vec<String>,
	/// (key, what, length of the path prefix that shows it)
	problems: Vec<(String, String, usize)>,
}

fn run_script(m: &M, dir: &str, path: &[Op]) -> ScriptOut {
	let _ = std::fs::remove_dir_all(dir);
	m.init(dir);
	let mut so = ScriptOut { labels: vec![], problems: vec![] };
	let mut w = World::open(dir);
	for (i, op) in path.iter().enumerate() {
		let mut out = StepOut::default();
		let r = catch(|| {
			m.step(&mut w, op, &mut out);
			m.check(&w, &mut out);
		});
		if let Err(p) = r {
			let site = take_last_panic().map(|x| panic_site(&x.1)).unwrap_or_default();
			out.problem(format!("panic/{}", site), format!("operation {:?} panicked: {}", op, p));
			out.label = "panic".into();
		}
		so.labels.push(format!("{}:{}", format!("{:?}", op).split(' ').next().unwrap_or(""), out.label));
		for (k, what) in out.problems {
			if !so.problems.iter().any(|x| x.0 == k) {
				so.problems.push((k, what, i + 1));
			}
		}
		if out.label == "panic" {
			break;
		}
	}
	w.close();
	let _ = std::fs::remove_dir_all(dir);
	so
}

// ---------------------------------------------------------------------------------------------
// controls (the detectors must be able to fire), replay, run

/// (c) control: the needles match the way a Context really serialises; (d) control: two slates
/// built with the repository's deterministic test RNG are reported as a nonce reuse
fn controls(root: &str) -> Result<Value, String> {
	let dir = format!("{}/c12-control", root);
	let m = M { base: 0, nslots: 2 };
	m.init(&dir);
	let w = World::open(&dir);
	let a = w.w("A");
	let s = a.init_send(default_args(AMOUNT)).map_err(|e| format!("control init_send: {}", e))?;
	let c = a.get_context(&s.id).map_err(|e| format!("control context: {}", e))?;
	let plain = serde_json::to_vec(&c).unwrap();
	let mut needles = vec![];
	needles.extend(secret_needles("k", "sec_key", &c.sec_key.0));
	needles.extend(secret_needles("n", "sec_nonce", &c.sec_nonce.0));
	let sc = Scanner::new(needles);
	let hits = sc.scan(&plain);
	let json_hits: Vec<Option<String>> = hits.iter().filter(|h| sc.needles[h.0].enc == "json-array").map(|h| preceding_json_field(&plain, h.1)).collect();
	if json_hits.len() != 2 || json_hits[0].as_deref() != Some("sec_key") || json_hits[1].as_deref() != Some("sec_nonce") {
		return Err(format!("scanner control: an un-masked serialised Context was not recognised ({:?})", json_hits));
	}
	let mut synthetic = vec![0u8; 100];
	synthetic.extend_from_slice(&c.sec_key.0);
	synthetic.extend_from_slice(c.sec_nonce.0.to_vec().to_hex().as_bytes());
	let h2 = sc.scan(&synthetic);
	if h2.len() != 2 {
		return Err(format!("scanner control: raw/hex forms not found ({} hits)", h2.len()));
	}
	// (d): deterministic test RNG => same nonce and excess in two different slates
	let mut rs = vec![];
	for i in 0..2 {
		let s = a.with(|b| owner::init_send_tx(b, a.mask(), default_args(AMOUNT + i), true)).map_err(|e| format!("control test-rng init: {}", e))?;
		for (nonce, xs) in sigs_of(&slate_to_json(&s)) {
			push_rec(&mut rs, Rec { w: "A".into(), slate: s.id.to_string(), nonce, xs, src: "control".into(), part: String::new() });
		}
	}
	let v = freshness_violations(&rs);
	if !v.iter().any(|x| x.0.starts_with("nonce-reuse")) {
		return Err("freshness control: two slates built with use_test_rng=true were not reported as a nonce reuse".into());
	}
	drop(w);
	let _ = std::fs::remove_dir_all(&dir);
	Ok(json!({"scanner_recognises_serialised_context": true, "scanner_raw_and_hex": true, "test_rng_reuse_detected": v.iter().map(|x| x.0.clone()).collect::<Vec<_>>()}))
}

fn tag_of(base: usize) -> String {
	format!("c12h{}", base)
}

pub fn replay(payload: &Value) -> i32 {
	if payload["kind"] == "double-answer" {
		let root = scratch_root();
		let c: crate::props::c12_double::Case = serde_json::from_value(payload["case"].clone()).unwrap();
		let (_, _, _, _) = (0, 0, 0, 0);
		let based = format!("{}/c12e-replay-base", root);
		let _ = based;
		let (n, hist, problems, mach) = crate::props::c12_double::run_all(&root);
		println!("double-answer sweep ({} cases, requested {:?}): {:?} problems {:?} machinery {:?}", n, c, hist, problems.iter().map(|p| &p.0).collect::<Vec<_>>(), mach);
		return if problems.is_empty() { 0 } else { 1 };
	}
	std::env::set_var("GWV_SHOW_PANICS", "1");
	let root = scratch_root();
	let thorough = tier() == Tier::Thorough;
	match payload["part"].as_str() {
		Some("a") => {
			let o = case_a(&root, payload["seed_len"].as_u64().unwrap() as usize, payload["pw"].as_u64().unwrap() as usize, thorough || payload["thorough"].as_bool().unwrap_or(false));
			println!("part (a) case: {} evaluations, outcomes {:?}\nproblems: {:?}", o.evals, o.hist, o.problems);
			return if o.problems.is_empty() { 0 } else { 1 };
		}
		Some("b") => {
			let so = match build_shim(&root) {
				Ok(s) => s,
				Err(e) => {
					println!("cannot build the interposer: {}", e);
					return 2;
				}
			};
			let sc: ScenB = serde_json::from_value(payload["scenario"].clone()).unwrap();
			let k = payload["k"].as_u64().unwrap_or(0);
			let r = if k == 0 {
				// the finding names its interruption point in its text: re-run every interruption of the scenario
				scenario_b(&so, &format!("{}/c12b-replay", root), &sc).map(|x| x.0)
			} else {
				run_b(&so, &format!("{}/c12b-replay", root), &sc, k, payload["short"].as_bool().unwrap_or(false), payload["call"].as_str().unwrap_or("?"))
			};
			return match r {
				Ok(o) => {
					println!("part (b) run: outcomes {:?}\nproblems: {:?}", o.hist, o.problems);
					if o.problems.is_empty() { 0 } else { 1 }
				}
				Err(e) => {
					println!("machinery: {}", e);
					2
				}
			};
		}
		_ => {}
	}
	let base = payload["kind"].as_str().unwrap_or("c12h0").trim_start_matches("c12h").parse().unwrap_or(0);
	let path: Vec<Op> = serde_json::from_value(payload["path"].clone()).unwrap();
	let m = M { base, nslots: 2 };
	match run_path(&m, &format!("{}/c12-replay", root), &path) {
		Ok(p) => {
			println!("base {} path {:?}\nproblems at last step:", base, path);
			for x in p.iter() {
				println!("  {} — {}", x.0, x.1);
			}
			if p.is_empty() { 0 } else { 1 }
		}
		Err(e) => {
			println!("replay failed: {}", e);
			2
		}
	}
}

/// replay-twice rule for parts (a) and (b): re-run the case, the same key must come back
fn confirm(rep: &Report, problems: &[(String, String)], payload: &Value, rerun: &dyn Fn() -> Result<PartOut, String>) -> Option<String> {
	if problems.is_empty() {
		return None;
	}
	for _ in 0..2 {
		match rerun() {
			Ok(o) => {
				for (k, _) in problems {
					if !o.problems.iter().any(|p| &p.0 == k) {
						return Some(format!("finding {} did not reproduce on re-execution of {}", k, payload));
					}
				}
			}
			Err(e) => return Some(e),
		}
	}
	for (k, w) in problems {
		rep.add_finding(Finding { key: format!("C12/{}", k), what: w.clone(), replay: payload.clone() });
	}
	None
}

pub fn run(args: &[String]) -> i32 {
	if args.get(0).map(|s| s.as_str()) == Some("child") {
		return child_main(args);
	}
	if args.get(0).map(|s| s.as_str()) == Some("dev-run") {
		// gwv c12 dev-run <dir> '<json list of ops>': apply operations to the world kept in <dir>
		// (created if absent, never removed) — used to continue a history with another build
		let dir = &args[1];
		let path: Vec<Op> = serde_json::from_str(&args[2]).expect("ops json");
		let m = M { base: 0, nslots: 2 };
		if !std::path::Path::new(&format!("{}/meta.json", dir)).exists() {
			m.build_init(dir);
		}
		let mut w = World::open(dir);
		let mut bad = 0;
		for op in path.iter() {
			let mut out = StepOut::default();
			m.step(&mut w, op, &mut out);
			m.check(&w, &mut out);
			println!("{:?} -> {} ; problems: {:?}", op, out.label, out.problems.iter().map(|p| p.0.clone()).collect::<Vec<_>>());
			bad += out.problems.len();
		}
		w.close();
		return if bad == 0 { 0 } else { 1 };
	}
	let mut rep = Report::new("C12", "model_checking");
	let thorough = tier() == Tier::Thorough;
	let root = scratch_root();
	let only: Option<&str> = args.get(0).map(|s| s.as_str()); // gwv c12 [a|b|cd] for development
	let want = |p: &str| only.map(|o| o.contains(p)).unwrap_or(true);
	let t0 = std::time::Instant::now();

	// ---- (a)
	let mut a_total = PartOut::default();
	let mut a_cases = 0;
	if want("a") {
		let mut cases: Vec<(usize, usize)> = vec![];
		for l in SEED_LENS.iter() {
			for p in 0..4 {
				cases.push((*l, p));
			}
		}
		a_cases = cases.len();
		let outs = par_map(&cases, workers(), |_, (l, p)| case_a(&root, *l, *p, true));
		for ((l, p), o) in cases.iter().zip(outs.into_iter()) {
			let payload = json!({"part": "a", "seed_len": l, "pw": p, "thorough": true});
			if let Some(e) = confirm(&rep, &o.problems, &payload, &|| Ok(case_a(&root, *l, *p, true))) {
				return rep.finish(Some(e));
			}
			a_total.merge(o);
		}
		// cross-check of the hand-written PBKDF2 against ring's
		let mut k = [0u8; 32];
		ring::pbkdf2::derive(ring::pbkdf2::PBKDF2_HMAC_SHA512, std::num::NonZeroU32::new(100).unwrap(), b"saltsalt", "pässword".as_bytes(), &mut k);
		if k[..] != pbkdf2_sha512("pässword".as_bytes(), b"saltsalt", 100)[..32] {
			return rep.finish(Some("independent PBKDF2 disagrees with ring".into()));
		}
	}
	let t_a = t0.elapsed().as_secs_f64();

	// ---- (b)
	let mut b_total = PartOut::default();
	let mut b_crashed = 0u64;
	let mut b_scen = 0;
	let mut b_calls: BTreeMap<String, Vec<String>> = BTreeMap::new();
	if want("b") {
		let so = match build_shim(&root) {
			Ok(s) => s,
			Err(e) => return rep.finish(Some(format!("cannot build the LD_PRELOAD interposer: {}", e))),
		};
		let scs = scenarios_b(thorough);
		b_scen = scs.len();
		let outs = par_map(&scs, workers(), |i, sc| scenario_b(&so, &format!("{}/c12b-{}", root, i), sc));
		for (i, (sc, o)) in scs.iter().zip(outs.into_iter()).enumerate() {
			let (o, crashed, calls) = match o {
				Ok(x) => x,
				Err(e) => return rep.finish(Some(e)),
			};
			b_crashed += crashed;
			b_calls.entry(format!("{} with {} stale backups", sc.op, sc.n_bak)).or_insert(calls.clone());
			// a finding of (b) carries its own (k, short) in the outcome; re-run the whole scenario to confirm
			let payload = json!({"part": "b", "scenario": sc, "k": 0, "short": false, "call": "see what"});
			if let Some(e) = confirm(&rep, &o.problems, &payload, &|| scenario_b(&so, &format!("{}/c12b-r{}", root, i), sc).map(|x| x.0)) {
				return rep.finish(Some(e));
			}
			b_total.merge(o);
		}
	}
	let t_b = t0.elapsed().as_secs_f64() - t_a;

	// ---- (c) + (d)
	let mut cd = json!({});
	let mut cd_states = 0usize;
	let mut cd_trans = 0usize;
	let mut cd_mach: Option<String> = None;
	let mut cd_exhaustive = true;
	let mut samples_cd = vec![];
	let mut ctl = Value::Null;
	let mut script_ok_final: u64 = 0;
	let mut cd_times: BTreeMap<String, f64> = BTreeMap::new();
	if want("cd") {
		let te = std::time::Instant::now();
		ctl = match controls(&root) {
			Ok(v) => v,
			Err(e) => return rep.finish(Some(e)),
		};
		cd_times.insert("controls".to_owned(), te.elapsed().as_secs_f64());
		// the control's counters are not evidence
		for c in [&FILES_SCANNED, &FILE_BYTES, &MSGS_SCANNED, &MSG_BYTES, &NEEDLE_EVALS, &CTX_SEEN, &PAIRS, &RECS_MAX].iter() {
			c.store(0, Ordering::Relaxed);
		}
		HIST.lock().unwrap().clear();
		let plan: Vec<(usize, usize)> = if thorough { vec![(0, 5), (1, 4)] } else { vec![(0, 3)] };
		for (base, depth) in plan {
			let m = M { base, nslots: 2 };
			let caps = Caps { max_depth: depth, wall: Duration::from_secs(if thorough { 500 } else { 35 }), max_states: 200_000, min_depth: 2 };
			let te = std::time::Instant::now();
			let e = explore(&m, &tag_of(base), &caps);
			cd_times.insert(format!("bfs_base{}", base), te.elapsed().as_secs_f64());
			report_explored(&mut rep, "C12", &tag_of(base), &e);
			cd_states += e.states;
			cd_trans += e.transitions;
			if e.cap_hit.is_some() || e.completed_depth < depth {
				cd_exhaustive = false;
			}
			if cd_mach.is_none() {
				cd_mach = e.machinery_error.clone();
			}
			if samples_cd.len() < 3 {
				samples_cd.extend(e.sample_paths.iter().take(2).map(|p| json!({"part": "c+d", "base": base, "history": p})));
			}
			cd[format!("base{}", base)] = json!({"max_depth": depth, "completed_depth": e.completed_depth, "states": e.states, "transitions": e.transitions, "cap_hit": e.cap_hit});
		}
		// scripted complete flows, every ordered pair of kinds interleaved in the two slots
		let m0 = M { base: 0, nslots: 2 };
		let scr = scripts(thorough);
		let te = std::time::Instant::now();
		let outs = par_map(&scr, workers(), |i, p| run_script(&m0, &format!("{}/c12s-{}", root, i), p));
		cd_times.insert("scripts".to_owned(), te.elapsed().as_secs_f64());
		let mut label_hist: BTreeMap<String, u64> = BTreeMap::new();
		for (p, o) in scr.iter().zip(outs.into_iter()) {
			cd_trans += o.labels.len();
			cd_states += o.labels.len();
			for l in o.labels.iter() {
				*label_hist.entry(l.clone()).or_insert(0) += 1;
			}
			for (k, what, n) in o.problems {
				let key = format!("C12/{}", k);
				if rep.findings.lock().unwrap().iter().any(|f| f.key == key) {
					continue;
				}
				let prefix = p[..n].to_vec();
				for r in 0..2 {
					match run_path(&m0, &format!("{}/c12s-replay{}", root, r), &prefix) {
						Ok(ps) if ps.iter().any(|x| x.0 == k) => {}
						other => return rep.finish(Some(format!("finding {} did not reproduce when {:?} was replayed: {:?}", k, prefix, other))),
					}
				}
				rep.add_finding(Finding { key, what: format!("{} — after {:?}", what, prefix), replay: json!({"kind": tag_of(0), "path": prefix}) });
			}
		}
		if samples_cd.len() < 4 {
			samples_cd.push(json!({"part": "c+d", "base": 0, "scripted_history": scr[8]}));
		}
		script_ok_final = label_hist.iter().filter(|(k, _)| k.starts_with("Finalize") && k.ends_with(":ok")).map(|(_, v)| *v).sum();
		cd["scripted_complete_flows"] = json!({"histories": scr.len(), "rule": "every pair (k1,k2) (thorough: ordered, 25; quick: unordered, 15) of {Send,LateSend,SelfSend,Invoice,SelfInvoice}: the complete flows init/lock/respond/finalize/post+mine of k1 (slot 0) and k2 (slot 1), interleaved step by step", "outcomes": label_hist});
	}
	let t_cd = t0.elapsed().as_secs_f64() - t_a - t_b;
	let h = HIST.lock().unwrap().clone();
	let ld = |c: &AtomicU64| c.load(Ordering::Relaxed);

	let evals = a_total.evals + b_total.evals + cd_trans as u64;
	rep.cov("states", json!(a_cases as u64 + b_scen as u64 + cd_states as u64));
	rep.cov("transitions", json!(evals));
	rep.cov("traces_validated_against_impl", json!(evals));
	rep.cov("evaluations", json!(evals));
	let distinct = a_total.hist.len() + b_total.hist.len() + cd_states;
	rep.cov("distinct_nontrivial", json!(distinct));
	rep.cov("rule", json!("distinct_nontrivial = distinct outcome classes of parts (a) and (b) (password class × result; operation × crash call × where the original seed is recoverable from) + distinct reachable world states of the BFS of parts (c)/(d)"));
	rep.cov("exhaustive", json!(cd_exhaustive));
	rep.cov("part_a_seed_file", json!({
		"cases": a_cases, "seed_bytes": SEED_LENS, "passwords": base_passwords().iter().map(|p| format!("{} ({} bytes)", p.0, p.1.len())).collect::<Vec<_>>(),
		"variants_per_password": base_passwords().iter().map(|p| variants(&p.1, true).len()).collect::<Vec<_>>(),
		"variant_positions": "every character position of every password (both tiers)",
		"evaluations": a_total.evals, "outcomes": a_total.hist, "wall_s": t_a,
	}));
	rep.cov("part_b_interruptions", json!({
		"scenarios": b_scen, "dimensions": {"operation": ["change_password", "recover_same(phrase)", "recover_other(phrase)"], "stale_backups": [0, 1, 2], "password_pairs(old,new)": if thorough { 16 } else { 3 }, "seed_bytes": if thorough { vec![16, 32] } else { vec![32] }},
		"interrupted_runs": b_crashed, "evaluations": b_total.evals, "mutating_calls_per_operation": b_calls, "outcomes": b_total.hist, "wall_s": t_b,
		"interposition": "LD_PRELOAD shim/crashpoint.c compiled at run time; every run is a subprocess `gwv c12 child …` of this binary",
	}));
	rep.cov("part_c_leak_scan", json!({
		"histories": cd, "files_scanned": ld(&FILES_SCANNED), "file_bytes_scanned": ld(&FILE_BYTES), "messages_scanned": ld(&MSGS_SCANNED), "message_bytes_scanned": ld(&MSG_BYTES),
		"needle_x_haystack_evaluations": ld(&NEEDLE_EVALS), "stored_contexts_read": ld(&CTX_SEEN),
		"encodings": ["raw", "hex", "HEX", "json-array(decimal bytes)", "3 consecutive mnemonic words"],
		"by_kind": h.iter().filter(|(k, _)| !k.starts_with("contribution")).collect::<BTreeMap<_, _>>(),
	}));
	rep.cov("part_d_freshness", json!({
		"pairs_compared": ld(&PAIRS), "max_records_in_one_history": ld(&RECS_MAX),
		"contributions_by_flow_and_role": h.iter().filter(|(k, _)| k.starts_with("contribution")).collect::<BTreeMap<_, _>>(),
		"limit": "decides that no flow reaches a deterministic or repeated nonce/excess path; says nothing about the quality of thread_rng",
	}));
	rep.cov("controls", ctl);
	rep.cov("wall_s_parts", json!({"a": t_a, "b": t_b, "cd": t_cd, "cd_breakdown": cd_times}));
	let mut samples = a_total.samples.clone();
	samples.extend(b_total.hist.keys().take(2).map(|k| json!({"part": "b", "outcome": k})));
	samples.extend(samples_cd);
	rep.cov("samples", json!(samples));
	rep.assume("(a) small scope: 5 seed sizes × 4 passwords; wrong passwords = the other base passwords + every single-character deletion/substitution/insertion (see variant_positions) + case change");
	rep.assume("(a) not asserted: a password followed by NUL bytes (total ≤128 bytes) opens the file to the SAME seed — HMAC zero-pads short keys, so PBKDF2-HMAC maps both strings to one key; inherent to the KDF named by the property, counted in outcomes");
	rep.assume("(b) a crash is a process death immediately before a mutating libc file call (open for writing, write, rename, unlink, mkdir, fsync, ftruncate) or after a half-length write; page-cache loss (power failure without fsync) is not modelled");
	rep.assume("(c) secrets searched: sec_key, sec_nonce, initial_sec_key, initial_sec_nonce of every context stored at that moment (files) or stored immediately before/after the step (messages), the 32-byte seeds, any 3 consecutive words of the recovery phrases; bytes of a context that has been deleted and still sit in free LMDB pages are not asserted");
	rep.assume("(c)/(d) histories: two slate slots, wallets A (funded) and B, flows Send, LateSend, SelfSend, Invoice, SelfInvoice; operations init/respond/lock/finalize/cancel/post+mine, no enabledness pruning beyond 'the slate needed exists'");

	if let Some(e) = cd_mach {
		return rep.finish(Some(e));
	}
	// (e) one initiation answered twice
	if want("e") {
		let (n, hist_e, problems, mach) = crate::props::c12_double::run_all(&root);
		rep.cov("e_double_answer", json!({"cases": n, "outcomes": hist_e}));
		for (k, w, payload) in problems {
			rep.add_finding(Finding { key: k, what: w, replay: payload });
		}
		if let Some(e) = mach {
			return rep.finish(Some(e));
		}
	}
	// vacuity guards
	let mut vac = None;
	if want("a") {
		let ok_right = a_total.hist.get("right-password:opens-same-seed").cloned().unwrap_or(0);
		let wrong_err: u64 = a_total.hist.iter().filter(|(k, _)| k.starts_with("wrong-password") && k.ends_with(":error")).map(|(_, v)| *v).sum();
		if ok_right < 100 || wrong_err < 1000 {
			vac = Some(format!("vacuity guard (a): {} right-password openings, {} wrong-password errors", ok_right, wrong_err));
		}
	}
	if want("b") && vac.is_none() {
		let srcs: BTreeSet<&str> = b_total.hist.keys().filter(|k| k.starts_with("crashed")).map(|k| k.rsplit("original-seed-in").next().unwrap()).collect();
		if b_crashed < 50 || srcs.len() < 3 {
			vac = Some(format!("vacuity guard (b): {} interrupted runs, {} distinct recovery sources", b_crashed, srcs.len()));
		}
	}
	if want("cd") && vac.is_none() {
		let flows = h.keys().filter(|k| k.starts_with("contribution")).count();
		let want_final = 2 * scripts(thorough).len() as u64;
		if script_ok_final < want_final {
			vac = Some(format!("vacuity guard (c/d): only {} of {} scripted flows finalized", script_ok_final, want_final));
		} else if cd_states < 100 || ld(&CTX_SEEN) < 100 || ld(&PAIRS) < 100 || flows < 8 || ld(&MSGS_SCANNED) < 100 {
			vac = Some(format!("vacuity guard (c/d): states={} contexts={} pairs={} flow-roles={} messages={}", cd_states, ld(&CTX_SEEN), ld(&PAIRS), flows, ld(&MSGS_SCANNED)));
		}
	}
	rep.finish(vac)
}
