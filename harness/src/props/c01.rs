//! C01 — sender-side transaction construction conserves value.
//! E1: exhaustive small-scope enumeration of wallets (≤3/≤4 outputs over value and
//! eligibility alphabets) × critical amounts × change counts × max_outputs × strategy ×
//! amount-includes-fee, (a) on the real selection functions (via verif_hooks) and
//! (b) through the public send / late-lock / invoice paths, against an arithmetic
//! reference model.

use crate::common::*;
use crate::core::global;
use crate::core::libtx::proof::ProofBuilder;
use crate::core::libtx::tx_fee;
use crate::inject::BUDGET_MSG;
use crate::keychain::{ExtKeychain, Identifier, Keychain};
use crate::libwallet::verif_hooks::selection;
use crate::libwallet::{InitTxArgs, IssueInvoiceTxArgs, OutputData, OutputStatus, Slate};
use crate::node::Stub;
use crate::world::*;
use serde_json::{json, Value};
use std::collections::{BTreeMap, BTreeSet};

const H: u64 = 20; // chain height seen by the wallet
const VALUES: [u64; 5] = [20, 47, 48, 100, 250];

#[derive(Clone, Copy, Debug, PartialEq, Eq, PartialOrd, Ord)]
enum Class {
	Eligible,
	Locked,
	Spent,
	Reverted,
	UnconfPlain,
	UnconfCoinbase,
	/// a reward candidate that never made it on chain and whose lock height has passed
	UnconfCoinbasePastLock,
	ImmatureCb,
	ConfMinus1,
	ConfExact,
	OtherAcct,
}

const CLASSES: [Class; 11] = [
	Class::Eligible,
	Class::Locked,
	Class::Spent,
	Class::Reverted,
	Class::UnconfPlain,
	Class::UnconfCoinbase,
	Class::UnconfCoinbasePastLock,
	Class::ImmatureCb,
	Class::ConfMinus1,
	Class::ConfExact,
	Class::OtherAcct,
];

#[derive(Clone, Debug)]
struct OutSpec {
	value: u64,
	class: Class,
}

fn child_of(parent: &Identifier, n: u32) -> Identifier {
	let mut p = parent.to_path();
	p.depth += 1;
	p.path[p.depth as usize - 1] = grin_keychain::ChildNumber::from(n);
	Identifier::from_path(&p)
}

fn other_parent() -> Identifier {
	ExtKeychain::derive_key_id(2, 1, 0, 0, 0)
}

fn default_parent() -> Identifier {
	ExtKeychain::derive_key_id(2, 0, 0, 0, 0)
}

fn materialize(i: usize, o: &OutSpec, min_conf: u64) -> OutputData {
	let parent = if o.class == Class::OtherAcct {
		other_parent()
	} else {
		default_parent()
	};
	let key_id = child_of(&parent, 100 + i as u32);
	let (status, height, lock_height, cb) = match o.class {
		Class::Eligible | Class::OtherAcct => (OutputStatus::Unspent, 5, 0, false),
		Class::Locked => (OutputStatus::Locked, 5, 0, false),
		Class::Spent => (OutputStatus::Spent, 5, 0, false),
		Class::Reverted => (OutputStatus::Reverted, 5, 0, false),
		Class::UnconfPlain => (OutputStatus::Unconfirmed, H, 0, false),
		Class::UnconfCoinbase => (OutputStatus::Unconfirmed, H, H + 3, true),
		Class::UnconfCoinbasePastLock => (OutputStatus::Unconfirmed, H - 5, H - 2, true),
		Class::ImmatureCb => (OutputStatus::Unspent, H - 1, H + 2, true),
		Class::ConfMinus1 => (OutputStatus::Unspent, H + 2 - min_conf, 0, false),
		Class::ConfExact => (OutputStatus::Unspent, H + 1 - min_conf, 0, false),
	};
	OutputData {
		root_key_id: parent,
		key_id,
		n_child: 100 + i as u32,
		commit: None,
		mmr_index: None,
		value: o.value,
		status,
		height,
		lock_height,
		is_coinbase: cb,
		tx_log_entry: None,
	}
}

/// reference rule: may the output be selected as an input of the default account?
/// returns (must_not, description)
fn must_not_select(o: &OutputData, min_conf: u64) -> Option<&'static str> {
	must_not_select_from(o, min_conf, &default_parent())
}

/// the same rule for a payment whose source is the given account
fn must_not_select_from(o: &OutputData, min_conf: u64, src: &Identifier) -> Option<&'static str> {
	if o.root_key_id != *src {
		return Some("other-account");
	}
	match o.status {
		OutputStatus::Locked => return Some("locked"),
		OutputStatus::Spent => return Some("spent"),
		OutputStatus::Reverted => return Some("reverted"),
		OutputStatus::Unconfirmed => {
			if o.is_coinbase {
				return Some("unconfirmed-coinbase");
			}
			if min_conf > 0 {
				return Some("unconfirmed");
			}
			return None; // unconfirmed plain output with 0 required confirmations: either way
		}
		OutputStatus::Unspent => {}
	}
	if o.lock_height > H {
		return Some("immature");
	}
	let confs = if o.height > H { 0 } else { 1 + H - o.height };
	if confs < min_conf {
		return Some("too-few-confirmations");
	}
	None
}

#[derive(Clone, Debug)]
struct Params {
	amount: u64,
	includes_fee: bool,
	max_outputs: usize,
	change_n: usize,
	use_all: bool,
	min_conf: u64,
}

fn params_json(p: &Params) -> Value {
	json!({"amount": p.amount.to_string(), "amount_includes_fee": p.includes_fee, "max_outputs": p.max_outputs,
		"num_change_outputs": p.change_n, "use_all": p.use_all, "minimum_confirmations": p.min_conf})
}

fn msg_class(m: &str) -> String {
	// strip digits so that variable numbers do not split a key
	let mut s: String = m.chars().filter(|c| !c.is_ascii_digit()).collect();
	s.truncate(80);
	s.replace("  ", " ").trim().to_owned()
}

/// verdict of one direct call: Ok(kind) with kind in {"ok","err"} or a (key, what)
fn check_direct(w: &WalletH, before: &[OutputData], p: &Params) -> Result<&'static str, (String, String)> {
	w.inj.lock().unwrap().budget = Some(400);
	let parent = default_parent();
	let res = catch(|| {
		w.with(|b| {
			selection::select_send_tx::<_, _, _, ProofBuilder<ExtKeychain>>(
				b,
				None,
				p.amount,
				p.includes_fee,
				H,
				p.min_conf,
				p.max_outputs,
				p.change_n,
				p.use_all,
				&parent,
				false,
			)
			.map(|(_parts, coins, change, fee)| (coins, change, fee))
		})
	});
	w.inj.lock().unwrap().budget = None;
	let after = w.outputs();
	let res = match res {
		Err(msg) => {
			let lp = take_last_panic();
			if msg == BUDGET_MSG {
				return Err((
					"C01/livelock/select_send_tx".to_owned(),
					"selection loops without progress (backend call budget of 400 exhausted)".to_owned(),
				));
			}
			let site = lp.map(|x| panic_site(&x.1)).unwrap_or_default();
			return Err((
				format!("C01/panic/{}/{}", site, msg_class(&msg)),
				format!("selection panicked: {}", msg),
			));
		}
		Ok(r) => r,
	};
	match res {
		Err(_) => {
			if after != before {
				return Err((
					"C01/persisted-on-error/select_send_tx".to_owned(),
					"selection returned an error but changed the output table".to_owned(),
				));
			}
			Ok("err")
		}
		Ok((coins, change, fee)) => {
			if after != before {
				return Err((
					"C01/output-table-changed/select_send_tx".to_owned(),
					"selection (which reserves nothing) changed the output table".to_owned(),
				));
			}
			// inputs are wallet outputs, distinct, spendable
			let mut seen = BTreeSet::new();
			for c in coins.iter() {
				if !before.iter().any(|o| o == c) {
					return Err(("C01/input-not-in-wallet".to_owned(), "selected an input that is not a wallet record".to_owned()));
				}
				if !seen.insert(c.key_id.to_bip_32_string()) {
					return Err(("C01/duplicate-input".to_owned(), "the same output selected twice".to_owned()));
				}
				if let Some(why) = must_not_select(c, p.min_conf) {
					return Err((
						format!("C01/ineligible-input/{}", why),
						format!("selected an output that is not spendable ({})", why),
					));
				}
			}
			let total: u128 = coins.iter().map(|c| c.value as u128).sum();
			let ch: u128 = change.iter().map(|c| c.0 as u128).sum();
			let expect: u128 = if p.includes_fee {
				if (p.amount as u128) < fee as u128 {
					return Err(("C01/includes-fee/amount-below-fee".to_owned(), "accepted an amount smaller than the fee with amount-includes-fee".to_owned()));
				}
				p.amount as u128 + ch
			} else {
				p.amount as u128 + fee as u128 + ch
			};
			if total != expect {
				let dir = if total > expect { "value-lost" } else { "value-created" };
				return Err((
					format!("C01/conservation/select_send_tx/{}", dir),
					format!("inputs {} != amount {} + fee {} + change {} (includes_fee={})", total, p.amount, fee, ch, p.includes_fee),
				));
			}
			let min_fee = tx_fee(coins.len(), change.len() + 1, 1);
			if fee < min_fee {
				return Err((
					"C01/fee-below-minimum/select_send_tx".to_owned(),
					format!("fee {} below the minimum {} for {} inputs, {} outputs", fee, min_fee, coins.len(), change.len() + 1),
				));
			}
			if change.iter().any(|c| c.0 == 0) {
				return Err(("C01/zero-value-change".to_owned(), "created a change output of value zero".to_owned()));
			}
			// change keys distinct
			let ks: BTreeSet<String> = change.iter().map(|c| c.1.to_bip_32_string()).collect();
			if ks.len() != change.len() {
				return Err(("C01/duplicate-change-key".to_owned(), "two change outputs share a key path".to_owned()));
			}
			Ok("ok")
		}
	}
}

fn multisets(max_n: usize) -> Vec<Vec<u64>> {
	let mut res = vec![vec![]];
	fn rec(start: usize, cur: &mut Vec<u64>, max_n: usize, res: &mut Vec<Vec<u64>>) {
		if cur.len() == max_n {
			return;
		}
		for i in start..VALUES.len() {
			cur.push(VALUES[i]);
			res.push(cur.clone());
			rec(i, cur, max_n, res);
			cur.pop();
		}
	}
	rec(0, &mut vec![], max_n, &mut res);
	res.sort_by_key(|v| (v.len(), v.clone()));
	res
}

fn critical_amounts(values: &[u64], change_ns: &[usize]) -> Vec<u64> {
	let mut set = BTreeSet::new();
	set.insert(0u64);
	set.insert(1);
	set.insert(u64::MAX);
	let n = values.len();
	for mask in 1u32..(1 << n) {
		let mut s: u64 = 0;
		let mut cnt = 0;
		for i in 0..n {
			if mask & (1 << i) != 0 {
				s += values[i];
				cnt += 1;
			}
		}
		set.insert(s);
		set.insert(s + 1);
		let mut fees = BTreeSet::new();
		for ins in 1..=cnt.max(1) {
			fees.insert(tx_fee(ins, 1, 1));
			for k in change_ns {
				fees.insert(tx_fee(ins, k + 1, 1));
			}
		}
		for f in fees.iter() {
			set.insert(u64::MAX - f);
			for k in change_ns {
				for d in 0..=(k * k + 1) as u64 {
					if let Some(a) = s.checked_sub(*f).and_then(|x| x.checked_sub(d)) {
						set.insert(a);
					}
					// with amount-includes-fee the boundary is at S - d
					if let Some(a) = s.checked_sub(d) {
						set.insert(a);
					}
				}
			}
		}
	}
	set.into_iter().collect()
}

struct DirectStats {
	calls: u64,
	ok: u64,
	err: u64,
	findings: Vec<Finding>,
}

fn setup_wallet(dir: &str, outs: &[OutSpec], min_conf: u64) -> World {
	let w = World::create(dir, &[("A", "A"), ("B", "B")]);
	{
		let a = w.w("A");
		let _ = a.create_account("acct1");
		a.with(|b| {
			let mut recs = vec![];
			for (i, o) in outs.iter().enumerate() {
				let mut d = materialize(i, o, min_conf);
				d.commit = b.calc_commit_for_cache(None, d.value, &d.key_id).unwrap();
				recs.push(d);
			}
			let mut batch = b.batch(None).unwrap();
			for d in recs {
				batch.save(d).unwrap();
			}
			batch.save_last_confirmed_height(&default_parent(), H).unwrap();
			batch.commit().unwrap();
		});
	}
	set_stub(&w);
	w
}

/// the stub node agrees with the wallet's books: Unspent and Locked records are in the
/// UTXO set at their recorded height, everything else is not (so the refresh every send
/// starts with changes nothing and selection is judged on the records as written)
fn set_stub(w: &World) {
	let a = w.w("A");
	let mut m = std::collections::HashMap::new();
	for o in a.outputs() {
		if o.status == OutputStatus::Unspent || o.status == OutputStatus::Locked {
			m.insert(a.commit_of(&o), (o.height, 1 + o.n_child as u64));
		}
	}
	*w.node.stub.lock().unwrap() = Some(Stub {
		height: H,
		unspent: Some(m),
	});
}

fn run_direct_config(
	dir: &str,
	outs: &[OutSpec],
	amounts: &[u64],
	change_ns: &[usize],
	max_outs: &[usize],
	min_confs: &[u64],
) -> DirectStats {
	global::set_local_accept_fee_base(1);
	let mut st = DirectStats {
		calls: 0,
		ok: 0,
		err: 0,
		findings: vec![],
	};
	for min_conf in min_confs {
		let w = setup_wallet(dir, outs, *min_conf);
		let a = w.w("A");
		let before = a.outputs();
		for amount in amounts {
			for includes_fee in [false, true].iter() {
				for mo in max_outs {
					for cn in change_ns {
						for use_all in [true, false].iter() {
							let p = Params {
								amount: *amount,
								includes_fee: *includes_fee,
								max_outputs: *mo,
								change_n: *cn,
								use_all: *use_all,
								min_conf: *min_conf,
							};
							st.calls += 1;
							match check_direct(a, &before, &p) {
								Ok("ok") => st.ok += 1,
								Ok(_) => st.err += 1,
								Err((key, what)) => {
									if st.findings.iter().any(|f| f.key == key) {
										continue;
									}
									// replay twice
									let mut same = true;
									for _ in 0..2 {
										match check_direct(a, &before, &p) {
											Err((k2, _)) if k2 == key => {}
											_ => same = false,
										}
									}
									let desc = json!({"kind": "direct", "outputs": outs.iter().map(|o| json!({"value": o.value, "class": format!("{:?}", o.class)})).collect::<Vec<_>>(), "params": params_json(&p)});
									st.findings.push(Finding {
										key: if same { key } else { format!("__nondeterministic__{}", key) },
										what: format!("{} — wallet {:?}, {}", what, outs.iter().map(|o| (o.value, o.class)).collect::<Vec<_>>(), params_json(&p)),
										replay: desc,
									});
								}
							}
						}
					}
				}
			}
		}
		w.close();
	}
	st
}

// ------------------------------------------------------------------------------------------
// (b) public API paths

#[derive(Clone, Copy, Debug, PartialEq)]
enum Flow {
	Send,
	LateLock,
	/// late-locked send whose source account loses spendable outputs (another send reserves
	/// them) between initiation, when the fee is fixed, and finalization, when inputs are selected
	LateLockShrunk,
	Invoice,
	Estimate,
	/// a send whose source is the second account, named in the arguments while the default account is active
	SendNamed,
	/// a send is initiated (inputs chosen, nothing reserved yet); before its outputs are locked every chosen
	/// input gets the given status in the store (spent by a confirmed transaction of the same seed, reserved by
	/// another transaction, reorganised away) or is removed (scan with delete); then tx_lock_outputs runs
	LockAfter(Gone),
}

#[derive(Clone, Copy, Debug, PartialEq)]
enum Gone {
	Spent,
	Locked,
	Reverted,
	Removed,
}
const GONE: [Gone; 4] = [Gone::Spent, Gone::Locked, Gone::Reverted, Gone::Removed];

fn store_view(w: &WalletH, slots: &[uuid::Uuid]) -> Value {
	let mut v = project_wallet(
		w,
		&ProjOpts {
			slots: slots.to_vec(),
			heights: false, canon_ids: false },
	);
	// a bumped derivation index reserves no funds: not compared
	if let Some(accts) = v["accounts"].as_array_mut() {
		for a in accts.iter_mut() {
			a["child_index"] = json!(0);
		}
	}
	v
}

fn check_api(world: &World, flow: Flow, p: &Params) -> Result<&'static str, (String, String)> {
	let a = world.w("A");
	let b = world.w("B");
	a.inj.lock().unwrap().budget = Some(3000);
	let args = InitTxArgs {
		amount: p.amount,
		amount_includes_fee: Some(p.includes_fee),
		minimum_confirmations: p.min_conf,
		max_outputs: p.max_outputs as u32,
		num_change_outputs: p.change_n as u32,
		selection_strategy_is_use_all: p.use_all,
		late_lock: Some(flow == Flow::LateLock || flow == Flow::LateLockShrunk),
		estimate_only: Some(flow == Flow::Estimate),
		src_acct_name: if flow == Flow::SendNamed { Some("acct1".to_owned()) } else { None },
		..Default::default()
	};
	let src_parent = if flow == Flow::SendNamed { other_parent() } else { default_parent() };
	let fname = format!("{:?}", flow);
	let mut slate_ids = vec![];
	// LateLockShrunk: initiation, the recipient's reply and the competing reservation happen
	// first; the operation under test is the finalization against the shrunken account
	let mut pending: Option<(Slate, u64)> = None;
	if flow == Flow::LateLockShrunk {
		let pre = catch(|| -> Result<(Slate, u64), crate::libwallet::Error> {
			let s1 = a.init_send(args.clone())?;
			let s2 = b.receive(&s1, None)?;
			let mut other = default_args(1);
			other.minimum_confirmations = p.min_conf;
			let o1 = a.init_send(other)?;
			a.lock(&o1)?;
			Ok((s2, s1.amount))
		});
		match pre {
			Ok(Ok(x)) => pending = Some(x),
			_ => {
				// initiation refused (covered by the LateLock flow) or nothing left to reserve
				let _ = take_last_panic();
				a.inj.lock().unwrap().budget = None;
				return Ok("pre-err");
			}
		}
	}
	let mut initiated: Option<Slate> = None;
	if let Flow::LockAfter(g) = flow {
		let pre = catch(|| -> Result<Slate, crate::libwallet::Error> {
			let s1 = a.init_send(args.clone())?;
			let ctx = a.get_context(&s1.id)?;
			a.with(|b| -> Result<(), crate::libwallet::Error> {
				let mut recs = vec![];
				for (id, mmr, _) in ctx.input_ids.iter() {
					recs.push(b.get(id, mmr)?);
				}
				let mut batch = b.batch(None)?;
				for mut o in recs {
					match g {
						Gone::Spent => o.status = OutputStatus::Spent,
						Gone::Locked => o.status = OutputStatus::Locked,
						Gone::Reverted => o.status = OutputStatus::Reverted,
						Gone::Removed => {
							batch.delete(&o.key_id, &o.mmr_index)?;
							continue;
						}
					}
					batch.save(o)?;
				}
				batch.commit()
			})?;
			Ok(s1)
		});
		match pre {
			Ok(Ok(s1)) => {
				slate_ids.push(s1.id);
				initiated = Some(s1);
			}
			_ => {
				let _ = take_last_panic();
				a.inj.lock().unwrap().budget = None;
				return Ok("pre-err");
			}
		}
	}
	let before = store_view(a, &slate_ids);
	let before_outs = a.outputs();
	let r = catch(|| -> Result<Option<(uuid::Uuid, u64)>, crate::libwallet::Error> {
		match flow {
			Flow::LockAfter(_) => {
				let s1 = initiated.clone().unwrap();
				a.lock(&s1)?;
				Ok(Some((s1.id, s1.amount)))
			}
			Flow::Estimate => {
				a.init_send(args.clone())?;
				Ok(None)
			}
			Flow::Send | Flow::SendNamed => {
				let s1 = a.init_send(args.clone())?;
				Ok(Some((s1.id, s1.amount)))
			}
			Flow::LateLock => {
				let s1 = a.init_send(args.clone())?;
				let s2 = b.receive(&s1, None)?;
				let _s3 = a.finalize(&s2)?;
				Ok(Some((s1.id, s1.amount)))
			}
			Flow::LateLockShrunk => {
				let (s2, amount) = pending.clone().unwrap();
				let _s3 = a.finalize(&s2)?;
				Ok(Some((s2.id, amount)))
			}
			Flow::Invoice => {
				let i1 = b.issue_invoice(IssueInvoiceTxArgs {
					amount: p.amount,
					..Default::default()
				})?;
				// the payer's options go in as given: the amount of an invoice is the issuer's, so
				// "amount includes fee" must not change what is paid
				let ar = args.clone();
				let _i2 = a.process_invoice(&i1, ar)?;
				Ok(Some((i1.id, p.amount)))
			}
		}
	});
	a.inj.lock().unwrap().budget = None;
	let r = match r {
		Err(msg) => {
			let lp = take_last_panic();
			if msg == BUDGET_MSG {
				return Err((format!("C01/livelock/{}", fname), "operation loops without progress (backend call budget exhausted)".to_owned()));
			}
			let site = lp.map(|x| panic_site(&x.1)).unwrap_or_default();
			return Err((format!("C01/panic/{}/{}", site, msg_class(&msg)), format!("{} panicked: {}", fname, msg)));
		}
		Ok(r) => r,
	};
	match r {
		Err(_) | Ok(None) => {
			// error (or estimate): nothing that reserves funds may be persisted
			let after = store_view(a, &slate_ids);
			if after != before {
				return Err((
					format!("C01/persisted-on-error/{}", fname),
					format!("{} returned {} but changed the wallet store", fname, if flow == Flow::Estimate { "an estimate" } else { "an error" }),
				));
			}
			Ok(if flow == Flow::Estimate { "estimate" } else { "err" })
		}
		Ok(Some((id, _))) if matches!(flow, Flow::LockAfter(_)) => {
			// the reservation was made: every output it reserved must have been spendable when it was made
			let t = a.txs().into_iter().find(|t| t.tx_slate_id == Some(id));
			let reserved: Vec<OutputData> = a.outputs().into_iter().filter(|o| o.status == OutputStatus::Locked && t.as_ref().map(|t| o.tx_log_entry == Some(t.id)).unwrap_or(false)).collect();
			for o in reserved.iter() {
				match before_outs.iter().find(|x| x.key_id == o.key_id) {
					None => return Err((format!("C01/input-not-in-wallet/{}", fname), "tx_lock_outputs reserved an output that was not a wallet record".to_owned())),
					Some(x) => {
						if let Some(why) = must_not_select(x, p.min_conf) {
							return Err((
								format!("C01/ineligible-input-at-lock/{}", why),
								format!("tx_lock_outputs reserved an output that was not spendable when the reservation was made ({}): the payment is built from funds the account does not have", why),
							));
						}
					}
				}
			}
			Ok("ok")
		}
		Ok(Some((id, slate_amount))) => {
			slate_ids.push(id);
			// the facts of the agreed transaction
			let (inputs, change, amount, fee): (Vec<(Identifier, u64)>, Vec<u64>, u64, u64) = match flow {
				Flow::LateLock | Flow::LateLockShrunk => {
					// context is consumed by finalize: read the log entry + locked outputs
					let t = a.txs().into_iter().find(|t| t.tx_slate_id == Some(id)).ok_or((
						"C01/no-log-entry/LateLock".to_owned(),
						"late-locked send finalized but no log entry exists".to_owned(),
					))?;
					let outs = a.outputs();
					let ins: Vec<(Identifier, u64)> = outs.iter().filter(|o| o.status == OutputStatus::Locked && o.tx_log_entry == Some(t.id)).map(|o| (o.key_id.clone(), o.value)).collect();
					let ch: Vec<u64> = outs.iter().filter(|o| o.status == OutputStatus::Unconfirmed && o.tx_log_entry == Some(t.id) && !before_outs.iter().any(|x| x.key_id == o.key_id)).map(|o| o.value).collect();
					(ins, ch, slate_amount, t.fee.map(|f| f.fee()).unwrap_or(0))
				}
				_ => {
					let ctx = a.get_context(&id).map_err(|e| ("C01/no-context".to_owned(), format!("no stored context after success: {}", e)))?;
					(
						ctx.input_ids.iter().map(|i| (i.0.clone(), i.2)).collect(),
						ctx.output_ids.iter().map(|i| i.2).collect(),
						ctx.amount,
						ctx.fee.map(|f| f.fee()).unwrap_or(0),
					)
				}
			};
			let agreed = if p.includes_fee && flow != Flow::Invoice { p.amount.checked_sub(fee) } else { Some(p.amount) };
			if Some(amount) != agreed || (flow != Flow::Invoice && slate_amount != amount) {
				return Err((
					format!("C01/amount-mismatch/{}", fname),
					format!("agreed amount {:?}, context amount {}, slate amount {}", agreed, amount, slate_amount),
				));
			}
			for (id, v) in inputs.iter() {
				match before_outs.iter().find(|o| o.key_id == *id) {
					None => return Err((format!("C01/input-not-in-wallet/{}", fname), "context input is not a wallet record".to_owned())),
					Some(o) => {
						if o.value != *v {
							return Err((format!("C01/input-value-mismatch/{}", fname), "context input value differs from the wallet record".to_owned()));
						}
						if let Some(why) = must_not_select_from(o, p.min_conf, &src_parent) {
							return Err((format!("C01/ineligible-input/{}", why), format!("{} selected an output that is not spendable ({})", fname, why)));
						}
					}
				}
			}
			let total: u128 = inputs.iter().map(|i| i.1 as u128).sum();
			let ch: u128 = change.iter().map(|c| *c as u128).sum();
			let expect = amount as u128 + fee as u128 + ch;
			if total != expect {
				let dir = if total > expect { "value-lost" } else { "value-created" };
				return Err((
					format!("C01/conservation/{}/{}", fname, dir),
					format!("inputs {} != amount {} + fee {} + change {}", total, amount, fee, ch),
				));
			}
			let min_fee = tx_fee(inputs.len(), change.len() + 1, 1);
			if fee < min_fee {
				return Err((format!("C01/fee-below-minimum/{}", fname), format!("fee {} < minimum {}", fee, min_fee)));
			}
			Ok("ok")
		}
	}
}

fn run_api_config(dir: &str, outs: &[OutSpec], cases: &[(Flow, Params)]) -> DirectStats {
	global::set_local_accept_fee_base(1);
	let mut st = DirectStats {
		calls: 0,
		ok: 0,
		err: 0,
		findings: vec![],
	};
	// group by min_conf (wallet materialisation depends on it)
	let mut by_mc: BTreeMap<u64, Vec<&(Flow, Params)>> = BTreeMap::new();
	for c in cases {
		by_mc.entry(c.1.min_conf).or_default().push(c);
	}
	for (mc, cs) in by_mc {
		let base = format!("{}-base", dir);
		let w = setup_wallet(&base, outs, mc);
		w.close();
		let snap = Snapshot::capture(&base);
		// the world stays open across cases that end in an error with an unchanged store
		// (the common case); it is rebuilt from the snapshot after every success or finding
		let mut open: Option<World> = None;
		for (flow, p) in cs {
			let fresh = |open: &mut Option<World>| {
				if let Some(w) = open.take() {
					w.close();
				}
				snap.restore(dir);
				let w = World::open(dir);
				set_stub(&w);
				*open = Some(w);
			};
			if open.is_none() {
				fresh(&mut open);
			}
			st.calls += 1;
			let r = check_api(open.as_ref().unwrap(), *flow, p);
			match r {
				Ok("ok") => {
					st.ok += 1;
					fresh(&mut open);
				}
				Ok(_) => {
					st.err += 1;
					if *flow == Flow::LateLockShrunk {
						// the preparatory steps changed the store
						fresh(&mut open);
					}
				}
				Err((key, what)) => {
					if !st.findings.iter().any(|f| f.key == key) {
						let mut same = true;
						for _ in 0..2 {
							fresh(&mut open);
							match check_api(open.as_ref().unwrap(), *flow, p) {
								Err((k2, _)) if k2 == key => {}
								_ => same = false,
							}
						}
						st.findings.push(Finding {
							key: if same { key } else { format!("__nondeterministic__{}", key) },
							what: format!("{} — wallet {:?}, flow {:?}, {}", what, outs.iter().map(|o| (o.value, o.class)).collect::<Vec<_>>(), flow, params_json(p)),
							replay: json!({"kind": "api", "flow": format!("{:?}", flow), "outputs": outs.iter().map(|o| json!({"value": o.value, "class": format!("{:?}", o.class)})).collect::<Vec<_>>(), "params": params_json(p)}),
						});
					}
					fresh(&mut open);
				}
			}
		}
		if let Some(w) = open.take() {
			w.close();
		}
		let _ = std::fs::remove_dir_all(&base);
	}
	st
}

fn parse_outs(v: &Value) -> Vec<OutSpec> {
	v.as_array()
		.unwrap()
		.iter()
		.map(|o| OutSpec {
			value: o["value"].as_u64().unwrap(),
			class: *CLASSES.iter().find(|c| format!("{:?}", c) == o["class"].as_str().unwrap()).unwrap(),
		})
		.collect()
}

fn parse_params(v: &Value) -> Params {
	Params {
		amount: v["amount"].as_str().unwrap().parse().unwrap(),
		includes_fee: v["amount_includes_fee"].as_bool().unwrap(),
		max_outputs: v["max_outputs"].as_u64().unwrap() as usize,
		change_n: v["num_change_outputs"].as_u64().unwrap() as usize,
		use_all: v["use_all"].as_bool().unwrap(),
		min_conf: v["minimum_confirmations"].as_u64().unwrap(),
	}
}

pub fn replay(payload: &Value) -> i32 {
	global::set_local_accept_fee_base(1);
	std::env::set_var("GWV_SHOW_PANICS", "1");
	let outs = parse_outs(&payload["outputs"]);
	let p = parse_params(&payload["params"]);
	let dir = format!("{}/c01-replay", scratch_root());
	let w = setup_wallet(&dir, &outs, p.min_conf);
	let r = if payload["kind"] == "direct" {
		let before = w.w("A").outputs();
		check_direct(w.w("A"), &before, &p)
	} else {
		let flow = match payload["flow"].as_str().unwrap() {
			"Send" => Flow::Send,
			"LateLock" => Flow::LateLock,
			"LateLockShrunk" => Flow::LateLockShrunk,
			"Invoice" => Flow::Invoice,
			"SendNamed" => Flow::SendNamed,
			"LockAfter(Spent)" => Flow::LockAfter(Gone::Spent),
			"LockAfter(Locked)" => Flow::LockAfter(Gone::Locked),
			"LockAfter(Reverted)" => Flow::LockAfter(Gone::Reverted),
			"LockAfter(Removed)" => Flow::LockAfter(Gone::Removed),
			_ => Flow::Estimate,
		};
		check_api(&w, flow, &p)
	};
	println!("verdict: {:?}", r);
	if r.is_err() {
		1
	} else {
		0
	}
}

pub fn run(_args: &[String]) -> i32 {
	let mut rep = Report::new("C01", "model_checking");
	let thorough = tier() == Tier::Thorough;
	let root = scratch_root();
	global::set_local_accept_fee_base(1);
	let change_ns: Vec<usize> = vec![0, 1, 2, 3, 4];
	let max_outs: Vec<usize> = vec![0, 1, 2, 3, 500];

	// (i) arithmetic scope
	let msets = multisets(if thorough { 4 } else { 3 });
	let mut jobs: Vec<(usize, Vec<OutSpec>, Vec<u64>)> = vec![];
	for vals in msets.iter() {
		let outs: Vec<OutSpec> = vals.iter().map(|v| OutSpec { value: *v, class: Class::Eligible }).collect();
		// chunks of amounts so that the workers share the load evenly
		for chunk in critical_amounts(vals, &change_ns).chunks(40) {
			jobs.push((jobs.len(), outs.clone(), chunk.to_vec()));
		}
	}
	// largest jobs first
	jobs.sort_by_key(|j| std::cmp::Reverse(j.1.len()));
	let n_amounts: usize = jobs.iter().map(|j| j.2.len()).sum();
	let t_i = std::time::Instant::now();
	let res_i = par_map(&jobs, workers(), |_, (i, outs, amounts)| {
		run_direct_config(&format!("{}/c01-i-{}", root, i), outs, amounts, &change_ns, &max_outs, &[1])
	});

	let t_i = t_i.elapsed().as_secs_f64();
	// (ii) eligibility scope: 3 outputs of distinct values, every class assignment
	let el_vals = [100u64, 250, 600];
	let mut el_jobs: Vec<(usize, Vec<OutSpec>, Vec<u64>)> = vec![];
	let mut idx = 0;
	for c0 in CLASSES.iter() {
		for c1 in CLASSES.iter() {
			for c2 in CLASSES.iter() {
				let outs = vec![
					OutSpec { value: el_vals[0], class: *c0 },
					OutSpec { value: el_vals[1], class: *c1 },
					OutSpec { value: el_vals[2], class: *c2 },
				];
				// amounts that force each subset to be needed: sum - fee(1 change) for each subset, and a small one
				let mut am = BTreeSet::new();
				am.insert(1u64);
				for mask in 1u32..8 {
					let mut s = 0;
					let mut n = 0;
					for i in 0..3 {
						if mask & (1 << i) != 0 {
							s += el_vals[i];
							n += 1;
						}
					}
					am.insert(s - tx_fee(n, 2, 1) - 1);
					am.insert(s - tx_fee(n, 1, 1));
				}
				el_jobs.push((idx, outs, am.into_iter().collect()));
				idx += 1;
			}
		}
	}
	let t_ii = std::time::Instant::now();
	let res_ii = par_map(&el_jobs, workers(), |_, (i, outs, amounts)| {
		run_direct_config(&format!("{}/c01-ii-{}", root, i), outs, amounts, &[1, 2], &[2, 500], &[0, 1, 10])
	});

	let t_ii = t_ii.elapsed().as_secs_f64();
	// (b) API paths on a sub-grid
	let api_wallets: Vec<Vec<OutSpec>> = {
		let mut v: Vec<Vec<OutSpec>> = vec![
			vec![],
			vec![OutSpec { value: 100, class: Class::Eligible }],
			vec![OutSpec { value: 47, class: Class::Eligible }, OutSpec { value: 48, class: Class::Eligible }, OutSpec { value: 250, class: Class::Eligible }],
			vec![OutSpec { value: 100, class: Class::Eligible }, OutSpec { value: 250, class: Class::Locked }, OutSpec { value: 600, class: Class::ImmatureCb }],
			vec![OutSpec { value: 100, class: Class::UnconfPlain }, OutSpec { value: 250, class: Class::OtherAcct }, OutSpec { value: 600, class: Class::Eligible }],
			vec![OutSpec { value: 100, class: Class::Reverted }, OutSpec { value: 250, class: Class::ConfMinus1 }, OutSpec { value: 600, class: Class::UnconfCoinbase }],
			// two accounts with outputs of their own
			vec![OutSpec { value: 100, class: Class::OtherAcct }, OutSpec { value: 250, class: Class::OtherAcct }, OutSpec { value: 600, class: Class::Eligible }],
		];
		if thorough {
			for c in CLASSES.iter() {
				v.push(vec![OutSpec { value: 100, class: Class::Eligible }, OutSpec { value: 250, class: *c }, OutSpec { value: 600, class: Class::Eligible }]);
			}
			v.push(vec![OutSpec { value: 20, class: Class::Eligible }, OutSpec { value: 47, class: Class::Eligible }, OutSpec { value: 100, class: Class::Eligible }, OutSpec { value: 250, class: Class::Eligible }]);
		}
		v
	};
	let mut api_jobs: Vec<(usize, Vec<OutSpec>, Vec<(Flow, Params)>)> = vec![];
	for (i, outs) in api_wallets.iter().enumerate() {
		let vals: Vec<u64> = outs.iter().map(|o| o.value).collect();
		let total: u64 = vals.iter().sum();
		let mut amounts: BTreeSet<u64> = BTreeSet::new();
		for a in [0u64, 1, 30, u64::MAX, u64::MAX - 46].iter() {
			amounts.insert(*a);
		}
		if total > 0 {
			let n = vals.len();
			amounts.insert(total);
			amounts.insert(total - tx_fee(n, 1, 1));
			amounts.insert(total - tx_fee(n, 2, 1));
			amounts.insert(total.saturating_sub(tx_fee(n, 2, 1) + 1));
			amounts.insert(total.saturating_sub(tx_fee(n, 3, 1) + 1));
			amounts.insert(total.saturating_sub(tx_fee(n, 4, 1) + 8));
			amounts.insert(vals[0].saturating_sub(tx_fee(1, 2, 1) + 5));
			// whole outputs: the first pick covers the amount but not the fee, and selection runs again
			for v in vals.iter() {
				amounts.insert(*v);
			}
			if n >= 2 {
				amounts.insert(vals[0] + vals[1]);
			}
		}
		let mut cases = vec![];
		let mut flows = vec![Flow::Send, Flow::LateLock, Flow::LateLockShrunk, Flow::Invoice, Flow::Estimate];
		if outs.iter().any(|o| o.class == Class::OtherAcct) {
			flows.push(Flow::SendNamed);
		}
		for g in GONE.iter() {
			flows.push(Flow::LockAfter(*g));
		}
		for flow in flows.iter() {
			for amount in amounts.iter() {
				for includes_fee in [false, true].iter() {
					if *includes_fee && matches!(flow, Flow::LockAfter(_)) {
						continue;
					}
					for cn in (if thorough { vec![0usize, 1, 2, 3] } else { vec![0usize, 1, 3] }).iter() {
						for mo in (if thorough { vec![0usize, 1, 2, 500] } else { vec![2usize, 500] }).iter() {
							for use_all in [true, false].iter() {
								if !thorough && !*use_all && *mo == 500 && *cn == 3 {
									continue;
								}
								for mc in (if thorough { vec![0u64, 1, 10] } else { vec![1u64, 0] }).iter() {
									if *mc != 1 && !outs.iter().any(|o| o.class != Class::Eligible) {
										continue;
									}
									cases.push((*flow, Params { amount: *amount, includes_fee: *includes_fee, max_outputs: *mo, change_n: *cn, use_all: *use_all, min_conf: *mc }));
								}
							}
						}
					}
				}
			}
		}
		// split into chunks so that workers share the load
		for (ci, chunk) in cases.chunks(30).enumerate() {
			api_jobs.push((i * 1000 + ci, outs.clone(), chunk.to_vec()));
		}
	}
	let t_b = std::time::Instant::now();
	let res_b = par_map(&api_jobs, workers(), |_, (i, outs, cases)| {
		run_api_config(&format!("{}/c01-b-{}", root, i), outs, cases)
	});

	let t_b = t_b.elapsed().as_secs_f64();
	rep.cov("phase_wall_s", json!({"arithmetic": t_i, "eligibility": t_ii, "api": t_b}));
	let mut calls = [0u64; 3];
	let mut oks = [0u64; 3];
	let mut errs = [0u64; 3];
	for (k, rs) in [&res_i, &res_ii, &res_b].iter().enumerate() {
		for r in rs.iter() {
			calls[k] += r.calls;
			oks[k] += r.ok;
			errs[k] += r.err;
			for f in r.findings.iter() {
				if f.key.starts_with("__nondeterministic__") {
					return rep.finish(Some(format!("verdict not reproducible: {}", f.what)));
				}
				rep.add_finding(f.clone());
			}
		}
	}
	let total: u64 = calls.iter().sum();
	rep.cov("states", json!(total));
	rep.cov("transitions", json!(total));
	rep.cov("traces_validated_against_impl", json!(total));
	rep.cov("evaluations", json!(total));
	rep.cov("distinct_nontrivial", json!(oks.iter().sum::<u64>()));
	rep.cov("rule", json!("every element of the product (wallet multiset × critical amounts × includes-fee × max_outputs × change count × strategy [× min_conf]) is one call of the real code; all elements are distinct by construction; non-trivial = the wallet agreed to build the payment (Ok), so the conservation oracle was evaluated"));
	rep.cov("exhaustive", json!(true));
	rep.cov("dimensions", json!({
		"arithmetic": {"wallet_multisets": msets.len(), "max_outputs_per_wallet": if thorough {4} else {3}, "value_alphabet": VALUES, "critical_amounts_total": n_amounts,
			"change_counts": change_ns, "max_outputs": max_outs, "strategies": 2, "includes_fee": 2, "calls": calls[0], "ok": oks[0], "err": errs[0]},
		"eligibility": {"class_assignments": el_jobs.len(), "classes": CLASSES.iter().map(|c| format!("{:?}", c)).collect::<Vec<_>>(), "min_conf": [0,1,10], "calls": calls[1], "ok": oks[1], "err": errs[1]},
		"api": {"wallets": api_wallets.len(), "flows": ["Send","LateLock","LateLockShrunk","Invoice","Estimate","SendNamed","LockAfter(Spent)","LockAfter(Locked)","LockAfter(Reverted)","LockAfter(Removed)"], "calls": calls[2], "ok": oks[2], "err_or_estimate": errs[2]},
	}));
	rep.cov("samples", json!([
		{"wallet": [47,48,250], "amount": 250+48-67-2, "num_change_outputs": 2, "note": "critical amount S - fee - d"},
		{"wallet": ["100:Eligible","250:Locked","600:ImmatureCb"], "flow": "Send", "amount": 30},
		{"wallet": [100], "flow": "Invoice", "amount": 100 - 46},
	]));
	rep.assume("fee base 1 (thread-local accept_fee_base) so that fees are of the same magnitude as the output values; the code path is identical for the default base");
	rep.assume("small-scope: wallets of at most 3 (quick) / 4 (thorough) outputs over a 5-value alphabet; API paths use a stub node answering 'every queried output is unspent' at height 20");
	let vac = if oks[0] < 1000 || oks[1] < 1000 || oks[2] < 50 || errs[0] < 1000 {
		Some(format!("vacuity guard: ok={:?} err={:?}", oks, errs))
	} else {
		None
	};
	rep.finish(vac)
}
