//! C05 — cancelling an unconfirmed transaction is an exact rollback.
//! Exhaustive sweep over every pending-transaction kind × change count × exchange stage ×
//! other pending transactions × addressing × min_conf, each on a real two-wallet world:
//! snapshot before creation (S0), before cancel (S1), after cancel (S2); oracle is the
//! exact diff specification of the statement.

use crate::common::*;
use crate::core::libtx::tx_fee;
use crate::libwallet::{IssueInvoiceTxArgs, OutputData, OutputStatus, TxLogEntry, TxLogEntryType};
use crate::world::*;
use serde_json::{json, Value};
use std::collections::BTreeMap;
use uuid::Uuid;

const G: u64 = 1_000_000_000;

#[derive(Clone, Copy, Debug, PartialEq, Serialize, Deserialize)]
enum Kind {
	Sent,
	Received,
	InvoicePayer,
	InvoiceIssuer,
	LateLocked,
	SelfSendSentSide,
	SelfSendReceivedSide,
	SentSpendingUnconfirmed, // min_conf = 0, input is an unconfirmed change output
}

#[derive(Clone, Copy, Debug, PartialEq, Serialize, Deserialize)]
enum Stage {
	Early,  // sent: after lock; received: after receive; payer: after lock; issuer: after issue; late: after init
	Mid,    // counterparty has done its step
	Final,  // finalized, not posted
}

#[derive(Clone, Copy, Debug, PartialEq, Serialize, Deserialize)]
enum Addr {
	LogId,
	SlateId,
}

#[derive(Clone, Debug, Serialize, Deserialize)]
struct Scenario {
	kind: Kind,
	change_n: u32,
	stage: Stage,
	others: u32, // 0: none, 1: another pending sent in same account, 2: + a pending received + one in another account
	addr: Addr,
	/// wallet A is first replaced by a copy restored from its seed by a chain scan (its outputs
	/// then carry an MMR index, which is part of their storage key)
	#[serde(default)]
	restored: bool,
}

#[derive(Clone, Debug, Serialize, Deserialize)]
enum Refusal {
	Confirmed,
	/// mined, but the wallet has not refreshed since (with / without a change output; the
	/// no-change send is confirmed by the kernel lookup only)
	MinedNotRefreshed { change: bool },
	/// the recipient cancels a payment that is mined but not yet refreshed
	MinedNotRefreshedReceived,
	AlreadyCancelled,
	Coinbase,
	UnknownId,
	OtherAccountId,
}

fn base_world(dir: &str) {
	let w = World::create(dir, &[("A", "A"), ("B", "B"), ("M", "M")]);
	w.w("A").create_account("acct1").unwrap();
	w.mine_n("A", 5);
	w.w("A").set_account("acct1").unwrap();
	w.mine_n("A", 2);
	w.w("A").set_account("default").unwrap();
	w.mine_n("B", 3);
	w.mine_n("M", 3);
	for n in ["A", "B"].iter() {
		w.w(n).refresh().unwrap();
	}
	w.w("A").set_account("acct1").unwrap();
	w.w("A").refresh().unwrap();
	w.w("A").set_account("default").unwrap();
	w.close();
}

/// key -> (status, value, log entry, is_coinbase, owning account path)
type Recs = BTreeMap<String, (String, u64, Option<u32>, bool, String)>;

fn recs(outs: &[OutputData]) -> Recs {
	outs.iter()
		.map(|o| {
			(
				format!("{}#{:?}", o.key_id.to_bip_32_string(), o.mmr_index),
				(status_str(&o.status).to_owned(), o.value, o.tx_log_entry, o.is_coinbase, o.root_key_id.to_bip_32_string()),
			)
		})
		.collect()
}

fn entry_key(t: &TxLogEntry) -> String {
	format!("{}#{}", t.parent_key_id.to_bip_32_string(), t.id)
}

struct Snap {
	outs: Recs,
	txs: BTreeMap<String, Value>,
	info1: Value,
	info10: Value,
	info0: Value,
	ctxs: Value,
}

fn snap(w: &WalletH, slots: &[Uuid]) -> Snap {
	let opts = ProjOpts {
		slots: slots.to_vec(),
		heights: false, canon_ids: false };
	let p = project_wallet(w, &opts);
	let txs = w
		.txs()
		.iter()
		.map(|t| (entry_key(t), project_tx(t, &opts, None)))
		.collect();
	let info = |mc: u64| {
		let i = w.info(false, mc).unwrap().1;
		json!({"total": i.total, "awaiting_finalization": i.amount_awaiting_finalization, "awaiting_confirmation": i.amount_awaiting_confirmation,
			"immature": i.amount_immature, "spendable": i.amount_currently_spendable, "locked": i.amount_locked, "reverted": i.amount_reverted})
	};
	Snap {
		outs: recs(&w.outputs()),
		txs,
		info1: info(1),
		info10: info(10),
		info0: info(0),
		ctxs: p["contexts"].clone(),
	}
}

/// what coin selection can reach: the fee (it grows with the number of inputs) of an estimate that takes
/// every eligible output, for 0, 1 and 10 required confirmations
fn selection_probe(w: &WalletH) -> Value {
	let mut v = vec![];
	for mc in [0u64, 1, 10].iter() {
		let mut args = default_args(G);
		args.minimum_confirmations = *mc;
		args.selection_strategy_is_use_all = true;
		args.estimate_only = Some(true);
		v.push(match catch(|| w.init_send(args)) {
			Ok(Ok(s)) => json!({"min_conf": mc, "fee": s.fee_fields.fee()}),
			Ok(Err(e)) => json!({"min_conf": mc, "err": format!("{}", e).chars().take(40).collect::<String>()}),
			Err(p) => json!({"min_conf": mc, "panic": p}),
		});
	}
	json!(v)
}

fn exact_amount(n_inputs: usize) -> u64 {
	// spends n whole 60-grin coinbase outputs with no change
	60 * G * n_inputs as u64 - tx_fee(n_inputs, 1, 1)
}

/// create the "other" pending transactions (before S0)
fn make_others(w: &World, n: u32, slots: &mut Vec<Uuid>) {
	let a = w.w("A");
	let b = w.w("B");
	if n >= 1 {
		let s = a.init_send(default_args(5 * G)).unwrap();
		a.lock(&s).unwrap();
		slots.push(s.id);
		// a reward candidate handed out to a miner, block not (yet) mined: an Unconfirmed output
		// that belongs to no log entry at all
		let bf = crate::libwallet::BlockFees { fees: 0, key_id: None, height: w.node.height() + 1 };
		a.with(|x| crate::libwallet::api_impl::foreign::build_coinbase(x, None, &bf, false)).unwrap();
	}
	if n >= 2 {
		// pending received by A (from B)
		let s = b.init_send(default_args(3 * G)).unwrap();
		b.lock(&s).unwrap();
		let _ = a.receive(&s, None).unwrap();
		slots.push(s.id);
		// pending sent from A's other account
		let mut args = default_args(4 * G);
		args.src_acct_name = Some("acct1".to_owned());
		let s = a.init_send(args).unwrap();
		a.lock(&s).unwrap();
		slots.push(s.id);
	}
}

/// returns (target wallet name, slate id, expected entry type)
fn create_target(w: &World, sc: &Scenario) -> Result<(String, Uuid, TxLogEntryType), String> {
	let a = w.w("A");
	let b = w.w("B");
	let e = |x: crate::libwallet::Error| format!("{}", x);
	let amount = |base: u64| if sc.change_n == 0 { exact_amount(1) } else { base };
	let mut args = default_args(amount(20 * G));
	args.num_change_outputs = sc.change_n.max(1);
	match sc.kind {
		Kind::Sent => {
			let s1 = a.init_send(args).map_err(e)?;
			a.lock(&s1).map_err(e)?;
			if sc.stage != Stage::Early {
				let s2 = b.receive(&s1, None).map_err(e)?;
				if sc.stage == Stage::Final {
					a.finalize(&s2).map_err(e)?;
				}
			}
			Ok(("A".into(), s1.id, TxLogEntryType::TxSent))
		}
		Kind::Received => {
			// B is the target (receives from A)
			let s1 = a.init_send(args).map_err(e)?;
			a.lock(&s1).map_err(e)?;
			let s2 = b.receive(&s1, None).map_err(e)?;
			if sc.stage == Stage::Final {
				a.finalize(&s2).map_err(e)?;
			}
			Ok(("B".into(), s1.id, TxLogEntryType::TxReceived))
		}
		Kind::InvoicePayer => {
			let i1 = b
				.issue_invoice(IssueInvoiceTxArgs { amount: amount(20 * G), ..Default::default() })
				.map_err(e)?;
			let mut pa = default_args(0);
			pa.num_change_outputs = sc.change_n.max(1);
			let i2 = a.process_invoice(&i1, pa).map_err(e)?;
			a.lock(&i2).map_err(e)?;
			if sc.stage == Stage::Final {
				b.foreign_finalize(&i2, false).map_err(e)?;
			}
			Ok(("A".into(), i1.id, TxLogEntryType::TxSent))
		}
		Kind::InvoiceIssuer => {
			let i1 = b
				.issue_invoice(IssueInvoiceTxArgs { amount: amount(20 * G), ..Default::default() })
				.map_err(e)?;
			if sc.stage != Stage::Early {
				let mut pa = default_args(0);
				pa.num_change_outputs = sc.change_n.max(1);
				let i2 = a.process_invoice(&i1, pa).map_err(e)?;
				a.lock(&i2).map_err(e)?;
				if sc.stage == Stage::Final {
					b.foreign_finalize(&i2, false).map_err(e)?;
				}
			}
			Ok(("B".into(), i1.id, TxLogEntryType::TxReceived))
		}
		Kind::LateLocked => {
			args.late_lock = Some(true);
			let s1 = a.init_send(args).map_err(e)?;
			if sc.stage != Stage::Early {
				let s2 = b.receive(&s1, None).map_err(e)?;
				if sc.stage == Stage::Final {
					a.finalize(&s2).map_err(e)?;
				}
			}
			Ok(("A".into(), s1.id, TxLogEntryType::TxSent))
		}
		Kind::SelfSendSentSide | Kind::SelfSendReceivedSide => {
			let s1 = a.init_send(args).map_err(e)?;
			a.lock(&s1).map_err(e)?;
			let s2 = a.receive(&s1, Some("acct1")).map_err(e)?;
			if sc.stage == Stage::Final {
				a.finalize(&s2).map_err(e)?;
			}
			let t = if sc.kind == Kind::SelfSendSentSide { TxLogEntryType::TxSent } else { TxLogEntryType::TxReceived };
			Ok(("A".into(), s1.id, t))
		}
		Kind::SentSpendingUnconfirmed => {
			// handled by caller (needs the unconfirmed output to exist before S0)
			let mut a2 = default_args(amount(20 * G));
			a2.minimum_confirmations = 0;
			a2.num_change_outputs = sc.change_n.max(1);
			a2.selection_strategy_is_use_all = true;
			let s1 = a.init_send(a2).map_err(e)?;
			a.lock(&s1).map_err(e)?;
			if sc.stage != Stage::Early {
				let s2 = b.receive(&s1, None).map_err(e)?;
				if sc.stage == Stage::Final {
					a.finalize(&s2).map_err(e)?;
				}
			}
			Ok(("A".into(), s1.id, TxLogEntryType::TxSent))
		}
	}
}

fn cancelled_type(t: &str) -> &'static str {
	match t {
		"TxSent" => "TxSentCancelled",
		_ => "TxReceivedCancelled",
	}
}

/// run one scenario; Ok(label) or Err(key, what)
/// replace wallet A of the world in `dir` by a wallet restored from the same seed with a full scan
fn restore_a_in_place(dir: &str) {
	let mut w = World::open(dir);
	w.add_wallet("R", "A");
	w.w("R").scan(None, false).unwrap();
	w.meta.wallets.remove("R");
	w.close();
	let a = WalletH::data_dir(dir, "A");
	let r = WalletH::data_dir(dir, "R");
	std::fs::remove_dir_all(&a).unwrap();
	std::fs::rename(&r, &a).unwrap();
}

fn run_scenario(dir: &str, base: &Snapshot, sc: &Scenario) -> Result<String, (String, String)> {
	base.restore(dir);
	if sc.restored {
		restore_a_in_place(dir);
	}
	let w = World::open(dir);
	let r = run_scenario_inner(&w, sc);
	w.close();
	r
}

fn run_scenario_inner(w: &World, sc: &Scenario) -> Result<String, (String, String)> {
	let mut slots = vec![];
	make_others(w, sc.others, &mut slots);
	if sc.kind == Kind::SentSpendingUnconfirmed {
		// a first pending send of A that leaves an Unconfirmed change output
		let a = w.w("A");
		let s = a.init_send(default_args(7 * G)).unwrap();
		a.lock(&s).unwrap();
		slots.push(s.id);
	}
	let kname = format!("{:?}", sc.kind);
	// S0
	let probe0 = selection_probe(w.w("A"));
	let s0a = snap(w.w("A"), &slots);
	let s0b = snap(w.w("B"), &slots);
	let (tname, slate_id, ttype) = match create_target(w, sc) {
		Ok(x) => x,
		Err(e) => return Ok(format!("setup-refused:{}", e.chars().take(30).collect::<String>())),
	};
	slots.push(slate_id);
	let t = w.w(&tname);
	if sc.kind == Kind::SelfSendReceivedSide {
		t.set_account("acct1").unwrap();
	}
	// A transaction of ANOTHER account that carries the same numeric log id as the target
	// (log ids are per account): issue invoices into acct1 until its next id reaches the
	// target's, then a pending send from acct1 takes exactly that id
	if sc.others >= 1 && tname == "A" && sc.kind != Kind::SelfSendReceivedSide {
		let parent = t.with(|b| b.parent_key_id());
		// (a wallet restored from its seed has no account of that label: nothing to align there)
		let target = t.txs().into_iter().find(|e| e.tx_slate_id == Some(slate_id) && e.tx_type == ttype && e.parent_key_id == parent);
		let has_acct1 = target.is_some() && t.set_account("acct1").is_ok();
		if let (true, Some(target)) = (has_acct1, target) {
			let p1 = t.with(|b| b.parent_key_id());
			loop {
				let next = t.txs().iter().filter(|e| e.parent_key_id == p1).map(|e| e.id + 1).max().unwrap_or(0);
				if next >= target.id {
					break;
				}
				let i = t.issue_invoice(IssueInvoiceTxArgs { amount: G, ..Default::default() }).unwrap();
				slots.push(i.id);
			}
			let next = t.txs().iter().filter(|e| e.parent_key_id == p1).map(|e| e.id + 1).max().unwrap_or(0);
			if next == target.id {
				if let Ok(s) = t.init_send(default_args(2 * G)) {
					if t.lock(&s).is_ok() {
						slots.push(s.id);
					}
				}
			}
			t.set_account("default").unwrap();
			// keep the target's slate last in the slot list (its context is the one excluded below)
			slots.retain(|x| *x != slate_id);
			slots.push(slate_id);
		}
	}
	// S1
	let s1 = snap(t, &slots);
	let other_name = if tname == "A" { "B" } else { "A" };
	let s1_other = snap(w.w(other_name), &slots);
	// find the entry
	let parent = t.with(|b| b.parent_key_id());
	let entry: Option<TxLogEntry> = t
		.txs()
		.into_iter()
		.find(|e| e.tx_slate_id == Some(slate_id) && e.tx_type == ttype && e.parent_key_id == parent);
	let (tx_id, sl_id) = match sc.addr {
		Addr::LogId => (entry.as_ref().map(|e| e.id), None),
		Addr::SlateId => (None, Some(slate_id)),
	};
	if sc.addr == Addr::LogId && entry.is_none() {
		// nothing logged yet (late lock before finalize): a cancel by slate id is exercised instead
		return Ok("no-entry-yet".into());
	}
	let res = catch(|| t.cancel(tx_id, sl_id));
	let res = match res {
		Err(p) => {
			let site = take_last_panic().map(|x| panic_site(&x.1)).unwrap_or_default();
			return Err((format!("C05/panic/{}/{}", site, kname), format!("cancel panicked: {}", p)));
		}
		Ok(r) => r,
	};
	let s2 = snap(t, &slots);
	let s2_other = snap(w.w(other_name), &slots);
	if s2_other.outs != s1_other.outs || s2_other.txs != s1_other.txs {
		return Err((format!("C05/other-wallet-changed/{}", kname), "cancel changed the counterparty wallet".to_owned()));
	}
	match res {
		Err(e) => {
			// refused: nothing may change
			if s2.outs != s1.outs || s2.txs != s1.txs || s2.ctxs != s1.ctxs {
				return Err((format!("C05/refused-cancel-changed-state/{}", kname), format!("cancel returned {} but changed the wallet", e)));
			}
			if entry.is_some() {
				// a cancellable pending transaction could not be cancelled: reported as outcome, see DESIGN (not asserted)
				return Ok(format!("refused-cancellable:{:?}:{:?}", sc.addr, sc.kind));
			}
			Ok("refused-no-entry".into())
		}
		Ok(()) => {
			let entry = match entry {
				Some(e) => e,
				None => return Err((format!("C05/cancel-ok-without-entry/{}", kname), "cancel succeeded although no log entry existed".to_owned())),
			};
			let ek = entry_key(&entry);
			// expected outputs
			let s0 = if tname == "A" { &s0a } else { &s0b };
			let mut expect = s1.outs.clone();
			for (k, (st, _v, log, _cb, root)) in s1.outs.iter() {
				// the outputs of a transaction are those of its account that point to its log entry
				if *log == Some(entry.id) && *root == entry.parent_key_id.to_bip_32_string() {
					if st == "Locked" {
						match s0.outs.get(k) {
							Some(orig) => {
								let e = expect.get_mut(k).unwrap();
								e.0 = orig.0.clone();
							}
							None => {
								expect.remove(k);
							}
						}
					} else if st == "Unconfirmed" {
						expect.remove(k);
					}
				}
			}
			// compare ignoring the back-pointer of restored inputs
			let strip = |r: &Recs| -> BTreeMap<String, (String, u64, bool)> { r.iter().map(|(k, v)| (k.clone(), (v.0.clone(), v.1, v.3))).collect() };
			if strip(&s2.outs) != strip(&expect) {
				// classify
				let got = strip(&s2.outs);
				let exp = strip(&expect);
				let mut class = "other".to_owned();
				let mut detail = String::new();
				for (k, v) in exp.iter() {
					match got.get(k) {
						None => {
							class = "output-missing".into();
							detail = format!("{} expected {:?} but the record is gone", k, v);
							break;
						}
						Some(g) if g != v => {
							class = format!("status-{}-expected-{}", g.0, v.0);
							detail = format!("{}: {:?}, expected {:?}", k, g, v);
							break;
						}
						_ => {}
					}
				}
				if detail.is_empty() {
					for (k, v) in got.iter() {
						if !exp.contains_key(k) {
							class = "output-left-behind".into();
							detail = format!("{} {:?} should have been removed", k, v);
							break;
						}
					}
				}
				return Err((format!("C05/rollback/outputs/{}/{}", kname, class), format!("after cancel: {}", detail)));
			}
			// log: only this entry changes, to the cancelled variant
			for (k, v1) in s1.txs.iter() {
				let v2 = match s2.txs.get(k) {
					Some(v) => v,
					None => return Err((format!("C05/rollback/log-entry-removed/{}", kname), format!("entry {} disappeared", k))),
				};
				if *k == ek {
					let mut e1 = v1.clone();
					e1["type"] = json!(cancelled_type(v1["type"].as_str().unwrap()));
					if *v2 != e1 {
						return Err((format!("C05/rollback/entry/{}", kname), format!("cancelled entry is {} expected {}", v2, e1)));
					}
				} else if v1 != v2 {
					return Err((format!("C05/other-transaction-affected/{}", kname), format!("entry {} changed from {} to {}", k, v1, v2)));
				}
			}
			if s2.txs.len() != s1.txs.len() {
				return Err((format!("C05/rollback/log-entry-added/{}", kname), "cancel added a log entry".to_owned()));
			}
			// other transactions' contexts untouched
			let others_ctx = |c: &Value| -> Vec<Value> {
				c.as_array().unwrap().iter().filter(|x| x["slot"].as_u64().unwrap() as usize != slots.len() - 1).cloned().collect()
			};
			if others_ctx(&s2.ctxs) != others_ctx(&s1.ctxs) {
				return Err((format!("C05/other-transaction-affected/context/{}", kname), "a stored context of another transaction changed".to_owned()));
			}
			// balances back to the pre-creation figures
			if sc.kind == Kind::SelfSendReceivedSide {
				// figures of acct1 before creation were not snapshotted separately; outputs diff above covers it
			} else if s2.info1 != s0.info1 || s2.info10 != s0.info10 || s2.info0 != s0.info0 {
				return Err((
					format!("C05/rollback/balances/{}", kname),
					format!("summary after cancel {} / {} / {} differs from before creation {} / {} / {}", s2.info1, s2.info10, s2.info0, s0.info1, s0.info10, s0.info0),
				));
			}
			// and the released inputs can be selected again, at every confirmation requirement
			if tname == "A" && sc.kind != Kind::SelfSendReceivedSide {
				t.set_account("default").unwrap();
				let probe2 = selection_probe(t);
				if probe2 != probe0 {
					return Err((
						format!("C05/rollback/selection/{}", kname),
						format!("an estimate that takes every eligible output gives {} after the cancel, {} before the transaction was created", probe2, probe0),
					));
				}
			}
			Ok(format!("cancelled:{:?}", sc.kind))
		}
	}
}

fn run_refusal(dir: &str, base: &Snapshot, r: &Refusal) -> Result<String, (String, String)> {
	base.restore(dir);
	let w = World::open(dir);
	let a = w.w("A");
	let b = w.w("B");
	let rname = format!("{:?}", r);
	let mut slots = vec![];
	let (tx_id, slate_id): (Option<u32>, Option<Uuid>) = match r {
		Refusal::Confirmed => {
			let s1 = a.init_send(default_args(10 * G)).unwrap();
			a.lock(&s1).unwrap();
			let s2 = b.receive(&s1, None).unwrap();
			let s3 = a.finalize(&s2).unwrap();
			a.post(s3.tx_or_err().unwrap()).unwrap();
			w.mine("M").unwrap();
			a.refresh().unwrap();
			slots.push(s1.id);
			(None, Some(s1.id))
		}
		Refusal::MinedNotRefreshed { change } => {
			let amount = if *change { 10 * G } else { exact_amount(1) };
			let s1 = a.init_send(default_args(amount)).unwrap();
			a.lock(&s1).unwrap();
			let s2 = b.receive(&s1, None).unwrap();
			let s3 = a.finalize(&s2).unwrap();
			a.post(s3.tx_or_err().unwrap()).unwrap();
			w.mine("M").unwrap();
			slots.push(s1.id);
			(None, Some(s1.id))
		}
		Refusal::MinedNotRefreshedReceived => {
			let s1 = b.init_send(default_args(7 * G)).unwrap();
			b.lock(&s1).unwrap();
			let s2 = a.receive(&s1, None).unwrap();
			let s3 = b.finalize(&s2).unwrap();
			b.post(s3.tx_or_err().unwrap()).unwrap();
			w.mine("M").unwrap();
			slots.push(s1.id);
			(None, Some(s1.id))
		}
		Refusal::AlreadyCancelled => {
			let s1 = a.init_send(default_args(10 * G)).unwrap();
			a.lock(&s1).unwrap();
			a.cancel(None, Some(s1.id)).unwrap();
			slots.push(s1.id);
			(None, Some(s1.id))
		}
		Refusal::Coinbase => {
			let id = a.txs().iter().find(|t| t.tx_type == TxLogEntryType::ConfirmedCoinbase && t.parent_key_id == a.with(|x| x.parent_key_id())).map(|t| t.id);
			(id, None)
		}
		Refusal::UnknownId => (Some(4242), None),
		Refusal::OtherAccountId => {
			// pending tx in acct1, addressed while default is active
			let mut args = default_args(4 * G);
			args.src_acct_name = Some("acct1".to_owned());
			let s = a.init_send(args).unwrap();
			a.lock(&s).unwrap();
			slots.push(s.id);
			(None, Some(s.id))
		}
	};
	let s1 = snap(a, &slots);
	let res = catch(|| a.cancel(tx_id, slate_id));
	let s2 = snap(a, &slots);
	// a transaction that is mined but not yet seen: the refused cancel may bring the wallet up to
	// date (it refreshes first), nothing more — the state must equal what a refresh alone leaves
	let not_refreshed = match r {
		Refusal::MinedNotRefreshed { .. } | Refusal::MinedNotRefreshedReceived => true,
		_ => false,
	};
	let s1 = if not_refreshed {
		let _ = a.refresh();
		snap(a, &slots)
	} else {
		s1
	};
	w.close();
	match res {
		Err(p) => Err((format!("C05/panic/refusal/{}", rname), format!("cancel panicked: {}", p))),
		Ok(Ok(())) => Err((format!("C05/refusal/accepted/{}", rname), format!("cancel of a {} transaction succeeded", rname))),
		Ok(Err(_)) => {
			if s2.outs != s1.outs || s2.txs != s1.txs || s2.ctxs != s1.ctxs {
				Err((format!("C05/refused-cancel-changed-state/{}", rname), "refused cancel changed the wallet".to_owned()))
			} else {
				Ok(format!("refused:{}", rname))
			}
		}
	}
}

fn scenarios(thorough: bool) -> Vec<Scenario> {
	let mut v = vec![];
	let kinds = [
		Kind::Sent,
		Kind::Received,
		Kind::InvoicePayer,
		Kind::InvoiceIssuer,
		Kind::LateLocked,
		Kind::SelfSendSentSide,
		Kind::SelfSendReceivedSide,
		Kind::SentSpendingUnconfirmed,
	];
	for kind in kinds.iter() {
		for change_n in [1u32, 0, 2].iter() {
			for stage in [Stage::Early, Stage::Mid, Stage::Final].iter() {
				for others in [0u32, 1, 2].iter() {
					for addr in [Addr::LogId, Addr::SlateId].iter() {
						if !thorough {
							// quick: all kinds × stages × addressing with (change 1, others 0|2) and (change 0|2, others 0)
							let keep = (*change_n == 1 && *others != 1) || (*change_n != 1 && *others == 0 && *addr == Addr::LogId);
							if !keep {
								continue;
							}
						}
						if *kind == Kind::SentSpendingUnconfirmed && *change_n == 0 {
							continue;
						}
						v.push(Scenario { kind: *kind, change_n: *change_n, stage: *stage, others: *others, addr: *addr, restored: false });
						// the same on a wallet restored from its seed (accounts other than the default one are
						// restored under generated labels: scenarios that name "acct1" are left out)
						if *others < 2 && matches!(kind, Kind::Sent | Kind::InvoicePayer | Kind::LateLocked) && *stage != Stage::Mid {
							v.push(Scenario { kind: *kind, change_n: *change_n, stage: *stage, others: *others, addr: *addr, restored: true });
						}
					}
				}
			}
		}
	}
	v
}

pub fn replay(payload: &Value) -> i32 {
	std::env::set_var("GWV_SHOW_PANICS", "1");
	let dir = format!("{}/c05-replay", scratch_root());
	let based = format!("{}/c05-replay-base", scratch_root());
	base_world(&based);
	let base = Snapshot::capture(&based);
	let r = if payload["kind"] == "refusal" {
		let r: Refusal = serde_json::from_value(payload["refusal"].clone()).unwrap();
		run_refusal(&dir, &base, &r)
	} else {
		let sc: Scenario = serde_json::from_value(payload["scenario"].clone()).unwrap();
		run_scenario(&dir, &base, &sc)
	};
	println!("verdict: {:?}", r);
	if r.is_err() { 1 } else { 0 }
}

pub fn run(_args: &[String]) -> i32 {
	let mut rep = Report::new("C05", "model_checking");
	let thorough = tier() == Tier::Thorough;
	let root = scratch_root();
	let based = format!("{}/c05-base", root);
	base_world(&based);
	let base = Snapshot::capture(&based);
	let scs = scenarios(thorough);
	let results = par_map(&scs, workers(), |i, sc| {
		let dir = format!("{}/c05-{}", root, i);
		let r = run_scenario(&dir, &base, sc);
		let r = match r {
			Err((k, w)) => {
				// replay twice
				let mut same = true;
				for _ in 0..2 {
					match run_scenario(&dir, &base, sc) {
						Err((k2, _)) if k2 == k => {}
						_ => same = false,
					}
				}
				if same { Err((k, w)) } else { Err((format!("__nondeterministic__{}", k), w)) }
			}
			ok => ok,
		};
		let _ = std::fs::remove_dir_all(&dir);
		r
	});
	let refusals = vec![Refusal::Confirmed, Refusal::MinedNotRefreshed { change: true }, Refusal::MinedNotRefreshed { change: false }, Refusal::MinedNotRefreshedReceived, Refusal::AlreadyCancelled, Refusal::Coinbase, Refusal::UnknownId, Refusal::OtherAccountId];
	let rres = par_map(&refusals, workers(), |i, r| {
		let dir = format!("{}/c05-r{}", root, i);
		let x = run_refusal(&dir, &base, r);
		let _ = std::fs::remove_dir_all(&dir);
		x
	});
	let mut hist: BTreeMap<String, u64> = BTreeMap::new();
	let mut cancelled = 0u64;
	let mut samples = vec![];
	for (sc, r) in scs.iter().zip(results.iter()) {
		match r {
			Ok(l) => {
				if l.starts_with("cancelled") {
					cancelled += 1;
					if samples.len() < 4 {
						samples.push(json!({"scenario": sc, "outcome": l}));
					}
				}
				*hist.entry(l.clone()).or_insert(0) += 1;
			}
			Err((k, w)) => {
				if k.starts_with("__nondeterministic__") {
					return rep.finish(Some(format!("verdict not reproducible: {} {}", k, w)));
				}
				*hist.entry("violation".into()).or_insert(0) += 1;
				rep.add_finding(Finding { key: k.clone(), what: format!("{} — scenario {:?}", w, sc), replay: json!({"kind": "scenario", "scenario": sc}) });
			}
		}
	}
	for (rf, r) in refusals.iter().zip(rres.iter()) {
		match r {
			Ok(l) => *hist.entry(l.clone()).or_insert(0) += 1,
			Err((k, w)) => rep.add_finding(Finding { key: k.clone(), what: format!("{} — {:?}", w, rf), replay: json!({"kind": "refusal", "refusal": rf}) }),
		}
	}
	let n = (scs.len() + refusals.len()) as u64;
	rep.cov("states", json!(n * 3));
	rep.cov("transitions", json!(n));
	rep.cov("traces_validated_against_impl", json!(n));
	rep.cov("evaluations", json!(n));
	rep.cov("distinct_nontrivial", json!(cancelled));
	rep.cov("rule", json!("one scenario = (kind, change count, stage, other pending txs, addressing); all distinct by construction; non-trivial = the cancel succeeded, so the exact-diff oracle (outputs, log, contexts, balances at min_conf 0/1/10) was evaluated"));
	rep.cov("exhaustive", json!(true));
	rep.cov("dimensions", json!({"kinds": 8, "change_counts": [1,0,2], "stages": 3, "others": [0,1,2], "addressing": 2, "scenarios": scs.len(), "refusals": refusals.len()}));
	rep.cov("outcomes", json!(hist));
	rep.cov("samples", json!(samples));
	rep.assume("a cancel that is refused for a cancellable transaction (e.g. by slate id when a self-send has two entries with that slate id) is reported as an outcome, not as a violation: the statement describes what a cancel does, not that it is always accepted");
	let vac = if cancelled < 20 { Some(format!("vacuity guard: only {} successful cancels", cancelled)) } else { None };
	rep.finish(vac)
}
