//! C14 — a masked wallet does nothing without the right token.
//!
//! E1: the complete matrix  wallet state × `api::Owner` call shape × token  on a wallet opened
//! through the repository's `DefaultLCProvider` with `create_mask = true`. Every cell is one
//! execution of the real method on a private copy of the state; the stored state is compared
//! key by key (raw LMDB dump + stored tx files) before and after.
//! Plus: masked/unmasked differential over a fixed history, and "closed wallet refuses".

use crate::api::Owner;
use crate::common::*;
use crate::core::core::OutputFeatures;
use crate::dwallet::{self, DInst, DLC};
use crate::keychain::ExtKeychain;
use crate::libwallet::api_impl::foreign;
use crate::libwallet::mwixnet::MixnetReqCreationParams;
use crate::libwallet::{
	Error, IssueInvoiceTxArgs, PaymentProof, RetrieveTxQueryArgs, Slate,
};
use crate::node::{DirectClient, Node};
use crate::util::secp::key::SecretKey;
use crate::util::secp::pedersen::Commitment;
use crate::util::{from_hex, static_secp_instance, ToHex, ZeroingString};
use crate::world::{
	catch, default_args, hash_value, raw_dump, scratch_root, slate_from_json, slate_to_json,
	ProjOpts, Snapshot,
};
use serde_json::{json, Value};
use std::collections::{BTreeMap, BTreeSet};
use std::sync::atomic::Ordering;
use std::sync::Arc;
use std::time::{Duration, Instant};

type Own = Owner<DLC, DirectClient, ExtKeychain>;

const GRIN: u64 = 1_000_000_000;

// ------------------------------------------------------------------------------------------
// call shapes

/// (name, guarded). Guarded class fixed in DESIGN.md §3 C14: methods that derive keys, sign,
/// build outputs, reveal secrets or write the store.
const SHAPES: [(&str, bool); 36] = [
	("accounts", false),
	("create_account_path", true),
	("set_active_account", true),
	("retrieve_outputs", false),
	("retrieve_outputs+refresh", true),
	("retrieve_txs", false),
	("retrieve_txs+refresh", true),
	("query_txs", false),
	("query_txs+refresh", true),
	("retrieve_summary_info", false),
	("retrieve_summary_info+refresh", true),
	("init_send_tx", true),
	("issue_invoice_tx", true),
	("process_invoice_tx", true),
	("tx_lock_outputs", true),
	("finalize_tx", true),
	("post_tx", false),
	("cancel_tx", true),
	("get_stored_tx", false),
	("get_rewind_hash", true),
	("scan", true),
	("node_height", false),
	("start_updater", false),
	("get_slatepack_address", true),
	("get_slatepack_secret_key", true),
	("create_slatepack_message", false),
	("create_slatepack_message+sender", true),
	("slate_from_slatepack_message", false),
	("slate_from_slatepack_message+secret", true),
	("decode_slatepack_message", false),
	("decode_slatepack_message+secret", true),
	("retrieve_payment_proof", false),
	("retrieve_payment_proof+refresh", true),
	("verify_payment_proof", true),
	("build_output", true),
	("create_mwixnet_req", true),
];

/// quick: the five wrong tokens of the statement; thorough: additionally every single-bit
/// neighbour of the right token (guarded shapes only)
const TOKENS: [&str; 6] = [
	"right",
	"absent",
	"random",
	"right^bit0",
	"right^bit255",
	"other-wallet",
];

const STATES: [&str; 5] = [
	"fresh",
	"funded",
	"pending-send",
	"pending-receive",
	"issued-invoice",
];

fn h32(tag: &[u8], n: u64) -> [u8; 32] {
	let h = blake2_rfc::blake2b::blake2b(32, tag, &n.to_le_bytes());
	let mut r = [0u8; 32];
	r.copy_from_slice(h.as_bytes());
	r
}

fn sk(bytes: &[u8]) -> Option<SecretKey> {
	let secp_inst = static_secp_instance();
	let secp = secp_inst.lock();
	SecretKey::from_slice(&secp, bytes).ok()
}

fn make_token(kind: &str, right: &SecretKey, other: &SecretKey) -> Option<SecretKey> {
	match kind {
		"right" => Some(right.clone()),
		"absent" => None,
		"random" => sk(&h32(b"c14-random-token", 0)),
		"other-wallet" => Some(other.clone()),
		k if k.starts_with("right^bit") => {
			// bit 0 = least significant bit of the last byte, bit 255 = top bit of the first
			let n: usize = k["right^bit".len()..].parse().unwrap();
			let mut b = right.0;
			b[31 - n / 8] ^= 1u8 << (n % 8);
			Some(sk(&b).expect("flipped token is a valid scalar"))
		}
		_ => unreachable!(),
	}
}

/// arguments available in a state (prepared by the state builder with the right token)
#[derive(Serialize, Deserialize, Clone, Default, Debug)]
struct Args {
	slate_any: Option<String>,
	lock_slate: Option<String>,
	finalize_slate: Option<String>,
	post_slate: Option<String>,
	invoice_slate: Option<String>,
	cancel_tx_id: Option<u32>,
	stored_tx_id: Option<u32>,
	proof_tx_id: Option<u32>,
	proof: Option<Value>,
	commit: Option<String>,
	msg_plain: Option<String>,
	msg_enc: Option<String>,
}

fn synthetic_proof() -> Value {
	// the example of the owner_rpc documentation: well-formed, not of this chain
	json!({
		"amount": "60000000000",
		"excess": "09eac5f5872fa5e08e0c29fd900f1b8f77ff3ad1d0d1c46aeb202cbf92363fe0af",
		"recipient_address": "slatepack10qlk22rxjap2ny8qltc2tl996kenxr3hhwuu6hrzs6tdq08yaqgqnlumr7",
		"recipient_sig": "02868f2d2b983981f8f98043701687a8531ed2de564ea3df48e9e7e0229ccbe8359efe506896df2efbe3528e977252c50e4a41ca3cc9896e7c5a30bbb1d33604",
		"sender_address": "slatepack1xtxavwfgs48ckf3gk8wwgcndmn0nt4tvkl8a7ltyejjcy2mc6nfskdvkdu",
		"sender_sig": "c511764f3f61ed3d1cbca9514df8bc6811fad5662b1cb0e0587b9c9e49db9f33183cce71af6cb24b507fabf525a2bc405c6e84e63a60334edff0b451ae5e6102"
	})
}

fn slate_arg(s: &Option<String>) -> Slate {
	match s {
		Some(j) => slate_from_json(j),
		None => Slate::blank(2, false),
	}
}

fn query_all() -> RetrieveTxQueryArgs {
	RetrieveTxQueryArgs {
		min_id: None,
		max_id: None,
		limit: None,
		exclude_cancelled: None,
		include_outstanding_only: None,
		include_confirmed_only: None,
		include_sent_only: None,
		include_received_only: None,
		include_coinbase_only: None,
		include_reverted_only: None,
		min_amount: None,
		max_amount: None,
		min_creation_timestamp: None,
		max_creation_timestamp: None,
		min_confirmed_timestamp: None,
		max_confirmed_timestamp: None,
		sort_field: None,
		sort_order: None,
	}
}

/// wait until the updater thread has entered `Updater::run` (it sets the flag first thing)
fn wait_updater_started(o: &Own) {
	let t0 = Instant::now();
	while !o.updater_running.load(Ordering::Relaxed) && t0.elapsed() < Duration::from_secs(5) {
		std::thread::sleep(Duration::from_millis(1));
	}
}

/// one call of one shape; the returned value is a small random-free summary
fn call(shape: &str, o: &Own, t: Option<&SecretKey>, a: &Args) -> Result<Value, Error> {
	match shape {
		"accounts" => o.accounts(t).map(|v| json!(v.len())),
		"create_account_path" => o
			.create_account_path(t, "c14-new")
			.map(|i| json!(i.to_bip_32_string())),
		"set_active_account" => o.set_active_account(t, "default").map(|_| Value::Null),
		"retrieve_outputs" => o
			.retrieve_outputs(t, true, false, None)
			.map(|r| json!([r.0, r.1.len()])),
		"retrieve_outputs+refresh" => o
			.retrieve_outputs(t, true, true, None)
			.map(|r| json!([r.0, r.1.len()])),
		"retrieve_txs" => o
			.retrieve_txs(t, false, None, None, None)
			.map(|r| json!([r.0, r.1.len()])),
		"retrieve_txs+refresh" => o
			.retrieve_txs(t, true, None, None, None)
			.map(|r| json!([r.0, r.1.len()])),
		"query_txs" => o
			.retrieve_txs(t, false, None, None, Some(query_all()))
			.map(|r| json!([r.0, r.1.len()])),
		"query_txs+refresh" => o
			.retrieve_txs(t, true, None, None, Some(query_all()))
			.map(|r| json!([r.0, r.1.len()])),
		"retrieve_summary_info" => o
			.retrieve_summary_info(t, false, 1)
			.map(|r| json!([r.0, r.1.total])),
		"retrieve_summary_info+refresh" => o
			.retrieve_summary_info(t, true, 1)
			.map(|r| json!([r.0, r.1.total])),
		"init_send_tx" => o
			.init_send_tx(t, default_args(2 * GRIN))
			.map(|s| json!(format!("{:?}", s.state))),
		"issue_invoice_tx" => o
			.issue_invoice_tx(
				t,
				IssueInvoiceTxArgs {
					amount: 3 * GRIN,
					..Default::default()
				},
			)
			.map(|s| json!(format!("{:?}", s.state))),
		"process_invoice_tx" => o
			.process_invoice_tx(t, &slate_arg(&a.invoice_slate), default_args(0))
			.map(|s| json!(format!("{:?}", s.state))),
		"tx_lock_outputs" => o
			.tx_lock_outputs(t, &slate_arg(&a.lock_slate))
			.map(|_| Value::Null),
		"finalize_tx" => o
			.finalize_tx(t, &slate_arg(&a.finalize_slate))
			.map(|s| json!(format!("{:?}", s.state))),
		"post_tx" => o
			.post_tx(t, &slate_arg(&a.post_slate), false)
			.map(|_| Value::Null),
		"cancel_tx" => o
			.cancel_tx(t, Some(a.cancel_tx_id.unwrap_or(0)), None)
			.map(|_| Value::Null),
		"get_stored_tx" => o
			.get_stored_tx(t, Some(a.stored_tx_id.unwrap_or(0)), None)
			.map(|s| json!(s.is_some())),
		"get_rewind_hash" => o.get_rewind_hash(t).map(|h| json!(h)),
		"scan" => o.scan(t, None, false).map(|_| Value::Null),
		"node_height" => o.node_height(t).map(|r| json!([r.height, r.updated_from_node])),
		"start_updater" => {
			let r = o.start_updater(t, Duration::from_millis(5));
			if r.is_ok() {
				wait_updater_started(o);
			}
			let _ = o.stop_updater();
			// let the thread leave its loop (it sleeps `frequency` between checks of the flag)
			std::thread::sleep(Duration::from_millis(25));
			r.map(|_| Value::Null)
		}
		"get_slatepack_address" => o
			.get_slatepack_address(t, 0)
			.map(|a| json!(format!("{}", a))),
		"get_slatepack_secret_key" => o
			.get_slatepack_secret_key(t, 0)
			.map(|k| json!(k.as_bytes().to_vec().to_hex().len())),
		"create_slatepack_message" => o
			.create_slatepack_message(t, &slate_arg(&a.slate_any), None, vec![])
			.map(|m| json!(m.len() > 0)),
		"create_slatepack_message+sender" => o
			.create_slatepack_message(t, &slate_arg(&a.slate_any), Some(0), vec![])
			.map(|m| json!(m.len() > 0)),
		"slate_from_slatepack_message" => o
			.slate_from_slatepack_message(t, a.msg_plain.clone().unwrap_or_default(), vec![])
			.map(|s| json!(format!("{:?}", s.state))),
		"slate_from_slatepack_message+secret" => o
			.slate_from_slatepack_message(t, a.msg_enc.clone().unwrap_or_default(), vec![0])
			.map(|s| json!(format!("{:?}", s.state))),
		"decode_slatepack_message" => o
			.decode_slatepack_message(t, a.msg_plain.clone().unwrap_or_default(), vec![])
			.map(|s| json!(s.payload.len() > 0)),
		"decode_slatepack_message+secret" => o
			.decode_slatepack_message(t, a.msg_enc.clone().unwrap_or_default(), vec![0])
			.map(|s| json!(s.payload.len() > 0)),
		"retrieve_payment_proof" => o
			.retrieve_payment_proof(t, false, Some(a.proof_tx_id.unwrap_or(0)), None)
			.map(|p| json!(p.amount)),
		"retrieve_payment_proof+refresh" => o
			.retrieve_payment_proof(t, true, Some(a.proof_tx_id.unwrap_or(0)), None)
			.map(|p| json!(p.amount)),
		"verify_payment_proof" => {
			let p: PaymentProof =
				serde_json::from_value(a.proof.clone().unwrap_or_else(synthetic_proof)).unwrap();
			o.verify_payment_proof(t, &p).map(|r| json!([r.0, r.1]))
		}
		"build_output" => o
			.build_output(t, OutputFeatures::Plain, GRIN)
			.map(|b| json!(b.key_id.to_bip_32_string())),
		"create_mwixnet_req" => {
			let params = MixnetReqCreationParams {
				server_keys: vec![
					sk(&h32(b"c14-mix", 1)).unwrap(),
					sk(&h32(b"c14-mix", 2)).unwrap(),
				],
				fee_per_hop: 50_000_000,
			};
			let c = match &a.commit {
				Some(h) => Commitment::from_vec(from_hex(h).unwrap()),
				None => Commitment::from_vec(vec![9u8; 33]),
			};
			o.create_mwixnet_req(t, &params, &c, false)
				.map(|r| json!(r.onion.enc_payloads.len()))
		}
		_ => unreachable!("unknown shape {}", shape),
	}
}

fn err_kind(e: &Error) -> String {
	if let Error::InvalidKeychainMask = e {
		return "InvalidKeychainMask".to_owned();
	}
	let d = format!("{:?}", e);
	let k: String = d
		.chars()
		.take_while(|c| c.is_alphanumeric() || *c == '_')
		.collect();
	k
}

fn is_mask_error(e: &Error) -> bool {
	if let Error::InvalidKeychainMask = e {
		return true;
	}
	// possibly wrapped into a message-carrying variant
	let s = format!("{} {:?}", e, e);
	s.contains("Supplied Keychain Mask Token is incorrect") || s.contains("InvalidKeychainMask")
}

// ------------------------------------------------------------------------------------------
// worlds

struct Ctx {
	dir: String,
	node: Arc<Node>,
	a: DInst,
	a_mask: Option<SecretKey>,
	b: DInst,
	b_mask: Option<SecretKey>,
}

fn a_top(dir: &str) -> String {
	format!("{}/A", dir)
}
fn a_data(dir: &str) -> String {
	format!("{}/A/wallet_data", dir)
}

impl Ctx {
	fn create(dir: &str, seed_a: &str, seed_b: &str) {
		let _ = std::fs::remove_dir_all(dir);
		std::fs::create_dir_all(dir).unwrap();
		let node = Node::open(dir);
		let a = dwallet::new_inst(&a_top(dir), &node);
		dwallet::create(&a, seed_a);
		let b = dwallet::new_inst(&format!("{}/B", dir), &node);
		dwallet::create(&b, seed_b);
	}

	fn open(dir: &str, a_masked: bool) -> Ctx {
		Ctx::open_on(dir, Node::open(dir), a_masked)
	}

	/// open the wallets of `dir` on an already opened chain
	fn open_on(dir: &str, node: Arc<Node>, a_masked: bool) -> Ctx {
		let a = dwallet::new_inst(&a_top(dir), &node);
		let a_mask = dwallet::open(&a, a_masked).unwrap();
		let b = dwallet::new_inst(&format!("{}/B", dir), &node);
		let b_mask = dwallet::open(&b, true).unwrap();
		Ctx {
			dir: dir.to_owned(),
			node,
			a,
			a_mask,
			b,
			b_mask,
		}
	}

	fn owner_a(&self) -> Own {
		Owner::new(self.a.clone(), None)
	}

	fn ta(&self) -> Option<&SecretKey> {
		self.a_mask.as_ref()
	}
	fn tb(&self) -> Option<&SecretKey> {
		self.b_mask.as_ref()
	}

	fn mine_a(&self, n: usize) {
		for _ in 0..n {
			dwallet::mine_to(&self.a, &self.node, self.ta()).unwrap();
		}
	}
	fn mine_b(&self, n: usize) {
		for _ in 0..n {
			dwallet::mine_to(&self.b, &self.node, self.tb()).unwrap();
		}
	}

	fn b_receive(&self, s: &Slate) -> Result<Slate, Error> {
		dwallet::with(&self.b, |w| foreign::receive_tx(w, self.tb(), s, None, false)).unwrap()
	}
	fn a_receive(&self, s: &Slate) -> Result<Slate, Error> {
		dwallet::with(&self.a, |w| foreign::receive_tx(w, self.ta(), s, None, false)).unwrap()
	}

	/// close both wallets and wait until no background thread holds wallet A
	fn close(self) -> Result<(), String> {
		let Ctx { a, b, node, .. } = self;
		let t0 = Instant::now();
		while Arc::strong_count(&a) > 1 {
			if t0.elapsed() > Duration::from_secs(10) {
				return Err("wallet A still referenced by a background thread after 10 s".into());
			}
			std::thread::sleep(Duration::from_millis(1));
		}
		dwallet::close(&a).map_err(|e| format!("{}", e))?;
		dwallet::close(&b).map_err(|e| format!("{}", e))?;
		drop(a);
		drop(b);
		drop(node);
		Ok(())
	}
}

fn store_hash(dir: &str) -> u64 {
	use std::hash::{Hash, Hasher};
	let d = raw_dump(&a_data(dir));
	let mut h = std::collections::hash_map::DefaultHasher::new();
	d.hash(&mut h);
	// the seed file is part of the stored state
	std::fs::read(format!("{}/wallet.seed", a_data(dir)))
		.unwrap_or_default()
		.hash(&mut h);
	h.finish()
}

fn tx_id_of(o: &Own, t: Option<&SecretKey>, slate: &Slate) -> Option<u32> {
	o.retrieve_txs(t, false, None, Some(slate.id), None)
		.ok()
		.and_then(|r| r.1.first().map(|e| e.id))
}

/// One wallet state of the matrix: the chain is opened once and shared (no call shape mines
/// a block; post_tx only reaches the harness mempool), the wallet directories are restored
/// into a private directory for every cell.
struct State {
	name: String,
	node: Arc<Node>,
	wallets: Snapshot,
	args: Args,
	base_hash: u64,
}

fn split_state(root: &str, idx: usize, name: &str, world: &Snapshot, args: &Args) -> State {
	let chain: Vec<(String, Vec<u8>)> = world
		.files
		.iter()
		.filter(|f| f.0.starts_with(".grin"))
		.cloned()
		.collect();
	let wallets: Vec<(String, Vec<u8>)> = world
		.files
		.iter()
		.filter(|f| !f.0.starts_with(".grin"))
		.cloned()
		.collect();
	let cdir = format!("{}/c14-chain-{}", root, idx);
	Snapshot {
		files: Arc::new(chain),
	}
	.restore(&cdir);
	let node = Node::open(&cdir);
	let wallets = Snapshot {
		files: Arc::new(wallets),
	};
	let d = format!("{}/c14-h{}", root, idx);
	wallets.restore(&d);
	let base_hash = store_hash(&d);
	let _ = std::fs::remove_dir_all(&d);
	State {
		name: name.to_owned(),
		node,
		wallets,
		args: args.clone(),
		base_hash,
	}
}

fn make_states(root: &str) -> Vec<State> {
	build_states(root)
		.iter()
		.enumerate()
		.map(|(i, (n, w, a))| split_state(root, i, n, w, a))
		.collect()
}

/// Build the five states; returns (name, snapshot of the world directory, args)
fn build_states(root: &str) -> Vec<(String, Snapshot, Args)> {
	let dir = format!("{}/c14-build", root);
	let mut out = vec![];
	Ctx::create(&dir, "c14-A", "c14-B");

	// ---- fresh
	{
		let c = Ctx::open(&dir, true);
		let ob = Owner::new(c.b.clone(), None);
		let oa = c.owner_a();
		let blank = Slate::blank(2, false);
		let addr_a = oa.get_slatepack_address(c.ta(), 0).unwrap();
		let inv = ob
			.issue_invoice_tx(
				c.tb(),
				IssueInvoiceTxArgs {
					amount: 2 * GRIN,
					..Default::default()
				},
			)
			.unwrap();
		let args = Args {
			invoice_slate: Some(slate_to_json(&inv)),
			msg_plain: Some(ob.create_slatepack_message(c.tb(), &inv, None, vec![]).unwrap()),
			msg_enc: Some(
				ob.create_slatepack_message(c.tb(), &inv, Some(0), vec![addr_a])
					.unwrap(),
			),
			slate_any: Some(slate_to_json(&inv)),
			..Default::default()
		};
		let _ = blank;
		drop(oa);
		drop(ob);
		c.close().unwrap();
		out.push(("fresh".to_owned(), Snapshot::capture(&dir), args));
	}

	// ---- funded: matured coinbases, one confirmed payment to B with a payment proof,
	//      one block the wallet has not seen yet
	let funded_args;
	{
		let c = Ctx::open(&dir, true);
		let oa = c.owner_a();
		let ob = Owner::new(c.b.clone(), None);
		c.mine_a(6);
		c.mine_b(4);
		c.mine_a(3);
		oa.retrieve_summary_info(c.ta(), true, 1).unwrap();
		ob.retrieve_summary_info(c.tb(), true, 1).unwrap();
		let addr_b = ob.get_slatepack_address(c.tb(), 0).unwrap();
		let addr_a = oa.get_slatepack_address(c.ta(), 0).unwrap();
		let mut sa = default_args(2 * GRIN);
		sa.payment_proof_recipient_address = Some(addr_b);
		let s1 = oa.init_send_tx(c.ta(), sa).unwrap();
		oa.tx_lock_outputs(c.ta(), &s1).unwrap();
		let s2 = c.b_receive(&s1).unwrap();
		let s3 = oa.finalize_tx(c.ta(), &s2).unwrap();
		oa.post_tx(c.ta(), &s3, false).unwrap();
		c.mine_a(1);
		oa.retrieve_summary_info(c.ta(), true, 1).unwrap();
		ob.retrieve_summary_info(c.tb(), true, 1).unwrap();
		let proof_tx = tx_id_of(&oa, c.ta(), &s1).unwrap();
		let proof = oa
			.retrieve_payment_proof(c.ta(), false, Some(proof_tx), None)
			.unwrap();
		c.mine_a(1);
		let inv = ob
			.issue_invoice_tx(
				c.tb(),
				IssueInvoiceTxArgs {
					amount: 2 * GRIN,
					..Default::default()
				},
			)
			.unwrap();
		let outs = oa.retrieve_outputs(c.ta(), false, false, None).unwrap().1;
		let commit = outs
			.iter()
			.find(|o| {
				o.output.status == crate::libwallet::OutputStatus::Unspent && o.output.is_coinbase
			})
			.map(|o| o.commit.0.to_vec().to_hex())
			.unwrap();
		funded_args = Args {
			invoice_slate: Some(slate_to_json(&inv)),
			msg_plain: Some(ob.create_slatepack_message(c.tb(), &inv, None, vec![]).unwrap()),
			msg_enc: Some(
				ob.create_slatepack_message(c.tb(), &inv, Some(0), vec![addr_a])
					.unwrap(),
			),
			slate_any: Some(slate_to_json(&s3)),
			post_slate: None,
			stored_tx_id: Some(proof_tx),
			proof_tx_id: Some(proof_tx),
			proof: Some(serde_json::to_value(&proof).unwrap()),
			commit: Some(commit),
			..Default::default()
		};
		drop(oa);
		drop(ob);
		c.close().unwrap();
		out.push(("funded".to_owned(), Snapshot::capture(&dir), funded_args.clone()));
	}
	let funded = out[1].1.clone();

	// ---- pending send: one send locked and answered by B (to finalize / cancel),
	//      one send initiated but not yet locked
	{
		funded.restore(&dir);
		let c = Ctx::open(&dir, true);
		let oa = c.owner_a();
		let s1 = oa.init_send_tx(c.ta(), default_args(2 * GRIN)).unwrap();
		oa.tx_lock_outputs(c.ta(), &s1).unwrap();
		let s2 = c.b_receive(&s1).unwrap();
		let cancel = tx_id_of(&oa, c.ta(), &s1).unwrap();
		let u1 = oa.init_send_tx(c.ta(), default_args(3 * GRIN)).unwrap();
		let mut args = funded_args.clone();
		args.finalize_slate = Some(slate_to_json(&s2));
		args.lock_slate = Some(slate_to_json(&u1));
		args.cancel_tx_id = Some(cancel);
		args.slate_any = Some(slate_to_json(&s1));
		drop(oa);
		c.close().unwrap();
		out.push(("pending-send".to_owned(), Snapshot::capture(&dir), args));
	}

	// ---- pending receive: B pays A; finalized by B, not posted
	{
		funded.restore(&dir);
		let c = Ctx::open(&dir, true);
		let oa = c.owner_a();
		let ob = Owner::new(c.b.clone(), None);
		let r1 = ob.init_send_tx(c.tb(), default_args(2 * GRIN)).unwrap();
		ob.tx_lock_outputs(c.tb(), &r1).unwrap();
		let r2 = c.a_receive(&r1).unwrap();
		let r3 = ob.finalize_tx(c.tb(), &r2).unwrap();
		let mut args = funded_args.clone();
		args.post_slate = Some(slate_to_json(&r3));
		args.cancel_tx_id = tx_id_of(&oa, c.ta(), &r1);
		args.slate_any = Some(slate_to_json(&r2));
		assert!(args.cancel_tx_id.is_some());
		drop(oa);
		drop(ob);
		c.close().unwrap();
		out.push(("pending-receive".to_owned(), Snapshot::capture(&dir), args));
	}

	// ---- issued invoice: A invoices B; B has paid into the slate and locked
	{
		funded.restore(&dir);
		let c = Ctx::open(&dir, true);
		let oa = c.owner_a();
		let ob = Owner::new(c.b.clone(), None);
		let i1 = oa
			.issue_invoice_tx(
				c.ta(),
				IssueInvoiceTxArgs {
					amount: 3 * GRIN,
					..Default::default()
				},
			)
			.unwrap();
		let i2 = ob.process_invoice_tx(c.tb(), &i1, default_args(0)).unwrap();
		ob.tx_lock_outputs(c.tb(), &i2).unwrap();
		let mut args = funded_args.clone();
		args.finalize_slate = Some(slate_to_json(&i2));
		args.cancel_tx_id = tx_id_of(&oa, c.ta(), &i1);
		args.slate_any = Some(slate_to_json(&i1));
		assert!(args.cancel_tx_id.is_some());
		drop(oa);
		drop(ob);
		c.close().unwrap();
		out.push(("issued-invoice".to_owned(), Snapshot::capture(&dir), args));
	}
	let _ = std::fs::remove_dir_all(&dir);
	out
}

// ------------------------------------------------------------------------------------------
// matrix cells

#[derive(Clone, Debug)]
struct CellOut {
	/// "Ok" | error kind | "panic"
	outcome: String,
	detail: String,
	mask_error: bool,
	store_changed: bool,
	panic_site: Option<String>,
	machinery: Option<String>,
}

fn run_cell(st: &State, dir: &str, shape: &str, token: &str) -> CellOut {
	let args = &st.args;
	let base_hash = st.base_hash;
	st.wallets.restore(dir);
	let c = Ctx::open_on(dir, st.node.clone(), true);
	let right = c.a_mask.clone().unwrap();
	let other = c.b_mask.clone().unwrap();
	let tok = make_token(token, &right, &other);
	let o = c.owner_a();
	let r = catch(|| call(shape, &o, tok.as_ref(), args));
	let (outcome, detail, mask_error, panic_site_v) = match &r {
		Ok(Ok(v)) => ("Ok".to_owned(), v.to_string(), false, None),
		Ok(Err(e)) => (err_kind(e), format!("{}", e), is_mask_error(e), None),
		Err(p) => {
			let site = take_last_panic().map(|x| panic_site(&x.1)).unwrap_or_default();
			("panic".to_owned(), p.clone(), false, Some(site))
		}
	};
	drop(o);
	let machinery = c.close().err();
	let store_changed = if machinery.is_none() {
		store_hash(dir) != base_hash
	} else {
		false
	};
	let _ = std::fs::remove_dir_all(dir);
	CellOut {
		outcome,
		detail: detail.chars().take(160).collect(),
		mask_error,
		store_changed,
		panic_site: panic_site_v,
		machinery,
	}
}

/// verdict of one wrong-token cell given the right-token reference of the same (state, shape)
fn verdict(shape: &str, guarded: bool, token: &str, cell: &CellOut, reference: &CellOut) -> Option<(String, String)> {
	if cell.outcome == "panic" {
		return Some((
			format!("C14/panic/{}/{}", cell.panic_site.clone().unwrap_or_default(), shape),
			format!("{} with token {} panicked: {}", shape, token, cell.detail),
		));
	}
	if cell.store_changed {
		return Some((
			format!("C14/store-changed/{}/{}", shape, if cell.outcome == "Ok" { "ok" } else { "err" }),
			format!(
				"{} with a wrong token ({}) changed the stored wallet state (result: {} {})",
				shape, token, cell.outcome, cell.detail
			),
		));
	}
	if guarded {
		if cell.outcome == "Ok" {
			return Some((
				format!("C14/guarded-succeeded/{}", shape),
				format!("{} succeeded with a wrong token ({}): {}", shape, token, cell.detail),
			));
		}
		// The call is refused. If the same call with the right token succeeds in this state,
		// the refusal must be the invalid-mask error; if the call fails with the right token
		// too (e.g. nothing to spend), an earlier argument/state check may legitimately win.
		if reference.outcome == "Ok" && !cell.mask_error {
			return Some((
				format!("C14/wrong-error-kind/{}/{}", shape, cell.outcome),
				format!(
					"{} with a wrong token ({}) failed with {} ({}) instead of the invalid-mask error, although the same call succeeds with the right token",
					shape, token, cell.outcome, cell.detail
				),
			));
		}
	}
	None
}

// ------------------------------------------------------------------------------------------
// differential: masked (right token) vs unmasked wallet, same seed, same history

fn diff_history(dir: &str, masked: bool) -> Result<Vec<(String, Value, Value)>, String> {
	Ctx::create(dir, "c14-A", "c14-B");
	let c = Ctx::open(dir, masked);
	if masked != c.a_mask.is_some() {
		return Err("mask presence does not follow create_mask".into());
	}
	let oa = c.owner_a();
	let ob = Owner::new(c.b.clone(), None);
	let mut slots: Vec<uuid::Uuid> = vec![];
	let mut trace: Vec<(String, Value, Value)> = vec![];
	let data = a_data(dir);
	let t = c.a_mask.clone();
	let t = t.as_ref();
	let res = |r: Result<Value, Error>| -> Value {
		match r {
			Ok(v) => json!({ "Ok": v }),
			Err(e) => json!({ "Err": err_kind(&e) }),
		}
	};
	macro_rules! step {
		($name:expr, $r:expr) => {{
			let rv: Value = $r;
			let opts = ProjOpts {
				slots: slots.clone(),
				heights: true, canon_ids: false };
			let p = dwallet::with(&c.a, |b| dwallet::project_backend(b, &data, t, &opts)).unwrap();
			trace.push(($name.to_owned(), rv, p));
		}};
	}
	let info = |o: &Own, refresh: bool| -> Result<Value, Error> {
		o.retrieve_summary_info(t, refresh, 1).map(|r| {
			json!({"validated": r.0, "total": r.1.total, "spendable": r.1.amount_currently_spendable,
				"immature": r.1.amount_immature, "locked": r.1.amount_locked,
				"awaiting_conf": r.1.amount_awaiting_confirmation, "awaiting_final": r.1.amount_awaiting_finalization,
				"height": r.1.last_confirmed_height})
		})
	};
	// one refresh per mined block: a refresh that confirms several new coinbase outputs at once
	// numbers their log entries in HashMap order, which is not a function of the history
	for _ in 0..5 {
		c.mine_a(1);
		info(&oa, true).map_err(|e| format!("refresh: {}", e))?;
	}
	c.mine_b(4);
	for _ in 0..3 {
		c.mine_a(1);
		info(&oa, true).map_err(|e| format!("refresh: {}", e))?;
	}
	step!("mine", Value::Null);
	step!("refresh", res(info(&oa, true)));
	ob.retrieve_summary_info(c.tb(), true, 1).map_err(|e| format!("{}", e))?;
	// standard send with payment proof
	let addr_b = ob.get_slatepack_address(c.tb(), 0).map_err(|e| format!("{}", e))?;
	let mut sa = default_args(2 * GRIN);
	sa.payment_proof_recipient_address = Some(addr_b);
	let s1 = oa.init_send_tx(t, sa).map_err(|e| format!("init_send: {}", e))?;
	slots.push(s1.id);
	step!("init_send_tx", json!(format!("{:?}", s1.state)));
	step!("tx_lock_outputs", res(oa.tx_lock_outputs(t, &s1).map(|_| Value::Null)));
	let s2 = c.b_receive(&s1).map_err(|e| format!("receive: {}", e))?;
	let s3 = oa.finalize_tx(t, &s2).map_err(|e| format!("finalize: {}", e))?;
	step!("finalize_tx", json!(format!("{:?}", s3.state)));
	step!("post_tx", res(oa.post_tx(t, &s3, false).map(|_| Value::Null)));
	c.mine_a(1);
	step!("refresh-after-send", res(info(&oa, true)));
	step!(
		"retrieve_payment_proof",
		res(oa
			.retrieve_payment_proof(t, false, None, Some(s1.id))
			.map(|p| json!({"amount": p.amount, "sender": format!("{}", p.sender_address), "recipient": format!("{}", p.recipient_address)})))
	);
	// invoice flow
	let i1 = oa
		.issue_invoice_tx(
			t,
			IssueInvoiceTxArgs {
				amount: 3 * GRIN,
				..Default::default()
			},
		)
		.map_err(|e| format!("issue_invoice: {}", e))?;
	slots.push(i1.id);
	step!("issue_invoice_tx", json!(format!("{:?}", i1.state)));
	let i2 = ob
		.process_invoice_tx(c.tb(), &i1, default_args(0))
		.map_err(|e| format!("process_invoice: {}", e))?;
	ob.tx_lock_outputs(c.tb(), &i2).map_err(|e| format!("{}", e))?;
	let i3 = oa.finalize_tx(t, &i2).map_err(|e| format!("finalize invoice: {}", e))?;
	step!("finalize_tx(invoice)", json!(format!("{:?}", i3.state)));
	step!("post_tx(invoice)", res(oa.post_tx(t, &i3, false).map(|_| Value::Null)));
	c.mine_a(1);
	step!("refresh-after-invoice", res(info(&oa, true)));
	// a send that is cancelled
	let c1 = oa
		.init_send_tx(t, default_args(GRIN))
		.map_err(|e| format!("init_send 2: {}", e))?;
	slots.push(c1.id);
	step!("init_send_tx(2)", json!(format!("{:?}", c1.state)));
	step!("tx_lock_outputs(2)", res(oa.tx_lock_outputs(t, &c1).map(|_| Value::Null)));
	step!("cancel_tx", res(oa.cancel_tx(t, None, Some(c1.id)).map(|_| Value::Null)));
	// receive from B
	let r1 = ob
		.init_send_tx(c.tb(), default_args(GRIN))
		.map_err(|e| format!("B init_send: {}", e))?;
	ob.tx_lock_outputs(c.tb(), &r1).map_err(|e| format!("{}", e))?;
	slots.push(r1.id);
	let r2 = c.a_receive(&r1).map_err(|e| format!("A receive: {}", e))?;
	step!("receive_tx", json!(format!("{:?}", r2.state)));
	let r3 = ob.finalize_tx(c.tb(), &r2).map_err(|e| format!("{}", e))?;
	ob.post_tx(c.tb(), &r3, false).map_err(|e| format!("{}", e))?;
	c.mine_a(1);
	step!("refresh-after-receive", res(info(&oa, true)));
	step!(
		"create_account_path",
		res(oa
			.create_account_path(t, "second")
			.map(|i| json!(i.to_bip_32_string())))
	);
	step!(
		"build_output",
		res(oa
			.build_output(t, OutputFeatures::Plain, GRIN)
			.map(|b| json!({"key": b.key_id.to_bip_32_string(), "commit": b.output.identifier.commit.0.to_vec().to_hex()})))
	);
	step!("scan", res(oa.scan(t, None, false).map(|_| Value::Null)));
	step!("info", res(info(&oa, false)));
	step!(
		"addresses",
		res(oa.get_slatepack_address(t, 0).map(|a| json!(format!("{}", a))))
	);
	step!("rewind_hash", res(oa.get_rewind_hash(t).map(|h| json!(h))));
	step!(
		"outputs",
		res(oa.retrieve_outputs(t, true, false, None).map(|r| {
			let mut v: Vec<String> = r.1.iter().map(|m| m.commit.0.to_vec().to_hex()).collect();
			v.sort();
			json!(v)
		}))
	);
	step!(
		"txs",
		res(oa.retrieve_txs(t, false, None, None, None).map(|r| {
			json!(r.1.iter().map(|e| json!([e.id, format!("{:?}", e.tx_type), e.confirmed, e.amount_credited.to_string(), e.amount_debited.to_string()])).collect::<Vec<_>>())
		}))
	);
	drop(oa);
	drop(ob);
	c.close()?;
	Ok(trace)
}

/// A second reference history with the wallet closed and opened again in the middle of two
/// transactions (a masked wallet gets a new token from every open_wallet): what was stored under the
/// first token must serve under the second exactly as it does on the unmasked wallet.
fn diff_history_reopen(dir: &str, masked: bool) -> Result<Vec<(String, Value, Value)>, String> {
	Ctx::create(dir, "c14-A", "c14-B");
	let data = a_data(dir);
	let res = |r: Result<Value, Error>| -> Value {
		match r {
			Ok(v) => json!({ "Ok": v }),
			Err(e) => json!({ "Err": err_kind(&e) }),
		}
	};
	let proj = |c: &Ctx, slots: &[uuid::Uuid]| -> Value {
		let opts = ProjOpts { slots: slots.to_vec(), heights: true, canon_ids: false };
		dwallet::with(&c.a, |b| dwallet::project_backend(b, &data, c.a_mask.as_ref(), &opts)).unwrap()
	};
	let mut trace: Vec<(String, Value, Value)> = vec![];
	let mut slots: Vec<uuid::Uuid> = vec![];
	// session 1: a send is initiated and reserved, an invoice is issued
	let (s1, i1) = {
		let c = Ctx::open(dir, masked);
		let oa = c.owner_a();
		let t = c.a_mask.clone();
		let t = t.as_ref();
		for _ in 0..4 {
			c.mine_a(1);
			oa.retrieve_summary_info(t, true, 1).map_err(|e| format!("refresh: {}", e))?;
		}
		c.mine_b(4);
		for _ in 0..3 {
			c.mine_a(1);
			oa.retrieve_summary_info(t, true, 1).map_err(|e| format!("refresh: {}", e))?;
		}
		let s1 = oa.init_send_tx(t, default_args(2 * GRIN)).map_err(|e| format!("init_send: {}", e))?;
		slots.push(s1.id);
		trace.push(("init_send_tx".into(), json!(format!("{:?}", s1.state)), proj(&c, &slots)));
		let r = res(oa.tx_lock_outputs(t, &s1).map(|_| Value::Null));
		trace.push(("tx_lock_outputs".into(), r, proj(&c, &slots)));
		let i1 = oa.issue_invoice_tx(t, IssueInvoiceTxArgs { amount: 3 * GRIN, ..Default::default() }).map_err(|e| format!("issue_invoice: {}", e))?;
		slots.push(i1.id);
		trace.push(("issue_invoice_tx".into(), json!(format!("{:?}", i1.state)), proj(&c, &slots)));
		drop(oa);
		c.close()?;
		(s1, i1)
	};
	// session 2 (new token for a masked wallet): both are completed
	let c = Ctx::open(dir, masked);
	let oa = c.owner_a();
	let ob = Owner::new(c.b.clone(), None);
	let t = c.a_mask.clone();
	let t = t.as_ref();
	trace.push(("reopened".into(), Value::Null, proj(&c, &slots)));
	ob.retrieve_summary_info(c.tb(), true, 1).map_err(|e| format!("{}", e))?;
	let s2 = c.b_receive(&s1).map_err(|e| format!("receive: {}", e))?;
	let r = oa.finalize_tx(t, &s2);
	let s3 = r.as_ref().ok().cloned();
	trace.push(("finalize_tx(after reopen)".into(), res(r.map(|s| json!(format!("{:?}", s.state)))), proj(&c, &slots)));
	if let Some(s3) = s3 {
		let r = res(oa.post_tx(t, &s3, false).map(|_| Value::Null));
		trace.push(("post_tx".into(), r, proj(&c, &slots)));
	}
	let i2 = ob.process_invoice_tx(c.tb(), &i1, default_args(0)).map_err(|e| format!("process_invoice: {}", e))?;
	ob.tx_lock_outputs(c.tb(), &i2).map_err(|e| format!("{}", e))?;
	let r = oa.finalize_tx(t, &i2);
	trace.push(("finalize_tx(invoice, after reopen)".into(), res(r.map(|s| json!(format!("{:?}", s.state)))), proj(&c, &slots)));
	c.mine_a(1);
	let r = res(oa.retrieve_summary_info(t, true, 1).map(|r| json!({"total": r.1.total, "spendable": r.1.amount_currently_spendable, "locked": r.1.amount_locked, "awaiting_final": r.1.amount_awaiting_finalization})));
	trace.push(("refresh".into(), r, proj(&c, &slots)));
	drop(oa);
	drop(ob);
	c.close()?;
	Ok(trace)
}

// ------------------------------------------------------------------------------------------
// closed wallet

struct ClosedOut {
	/// (shape, token, outcome)
	rows: Vec<(String, String, String)>,
	reopened_ok: bool,
	stale_refused: bool,
	store_changed: bool,
	machinery: Option<String>,
}

fn run_closed(st: &State, dir: &str) -> ClosedOut {
	let args = &st.args;
	let base_hash = st.base_hash;
	st.wallets.restore(dir);
	let c = Ctx::open_on(dir, st.node.clone(), true);
	let o = c.owner_a();
	let right = c.a_mask.clone().unwrap();
	o.close_wallet(None).unwrap();
	let mut rows = vec![];
	for (shape, _) in SHAPES.iter() {
		for (tn, tok) in [("right(stale)", Some(&right)), ("absent", None)].iter() {
			let r = catch(|| call(shape, &o, *tok, args));
			let outcome = match r {
				Ok(Ok(_)) => "Ok".to_owned(),
				Ok(Err(e)) => err_kind(&e),
				Err(_) => {
					let _ = take_last_panic();
					"panic".to_owned()
				}
			};
			rows.push(((*shape).to_owned(), (*tn).to_owned(), outcome));
		}
	}
	// reopen: a new mask is created; the new one works, the old one is now a wrong token
	let new_mask = o
		.open_wallet(None, ZeroingString::from(dwallet::PASSWORD), true)
		.ok()
		.and_then(|m| m);
	let reopened_ok = new_mask.is_some() && o.get_rewind_hash(new_mask.as_ref()).is_ok();
	let stale_refused = match o.get_rewind_hash(Some(&right)) {
		Err(e) => is_mask_error(&e),
		Ok(_) => false,
	};
	drop(o);
	let machinery = c.close().err();
	let store_changed = machinery.is_none() && store_hash(dir) != base_hash;
	let _ = std::fs::remove_dir_all(dir);
	ClosedOut {
		rows,
		reopened_ok,
		stale_refused,
		store_changed,
		machinery,
	}
}

// ------------------------------------------------------------------------------------------

pub fn replay(payload: &Value) -> i32 {
	init_global();
	let root = scratch_root();
	let states = make_states(&root);
	match payload["kind"].as_str().unwrap_or("") {
		"cell" => {
			let st = payload["state"].as_str().unwrap();
			let shape = payload["shape"].as_str().unwrap();
			let token = payload["token"].as_str().unwrap();
			let st = states.iter().find(|s| s.name == st).unwrap();
			let dir = format!("{}/c14-replay", root);
			let guarded = SHAPES.iter().find(|s| s.0 == shape).unwrap().1;
			let reference = run_cell(st, &dir, shape, "right");
			let cell = run_cell(st, &dir, shape, token);
			println!("reference (right token): {:?}", reference);
			println!("cell ({}): {:?}", token, cell);
			let v = verdict(shape, guarded, token, &cell, &reference);
			println!("verdict: {:?}", v);
			if v.is_some() {
				1
			} else {
				0
			}
		}
		"closed" => {
			let st = payload["state"].as_str().unwrap();
			let st = states.iter().find(|s| s.name == st).unwrap();
			let dir = format!("{}/c14-replay", root);
			let r = run_closed(st, &dir);
			let mut bad = false;
			for (shape, tok, outcome) in r.rows.iter() {
				let guarded = SHAPES.iter().find(|s| s.0 == shape).unwrap().1;
				if guarded && outcome == "Ok" {
					println!("closed wallet: {} with {} -> Ok", shape, tok);
					bad = true;
				}
			}
			println!("reopened_ok={} stale_refused={} store_changed={}", r.reopened_ok, r.stale_refused, r.store_changed);
			if bad || r.store_changed || !r.stale_refused {
				1
			} else {
				0
			}
		}
		"differential" | "differential-reopen" => {
			let reopen = payload["kind"] == "differential-reopen";
			let m = if reopen { diff_history_reopen(&format!("{}/c14-rm", root), true) } else { diff_history(&format!("{}/c14-rm", root), true) };
			let u = if reopen { diff_history_reopen(&format!("{}/c14-ru", root), false) } else { diff_history(&format!("{}/c14-ru", root), false) };
			match (m, u) {
				(Ok(m), Ok(u)) => {
					let mut bad = false;
					for (a, b) in m.iter().zip(u.iter()) {
						let same = a == b;
						println!("{}: {}", a.0, if same { "equal" } else { "DIFFERENT" });
						if !same {
							println!("  masked:   {} {}", a.1, a.2);
							println!("  unmasked: {} {}", b.1, b.2);
							bad = true;
						}
					}
					if bad {
						1
					} else {
						0
					}
				}
				(m, u) => {
					println!("history failed: masked {:?} unmasked {:?}", m.err(), u.err());
					1
				}
			}
		}
		_ => 2,
	}
}

/// threads spawned by the code under test (the updater) do not inherit the thread-local
/// chain type of the harness: set the process-wide one as the wallet binary does
fn init_global() {
	use crate::core::global;
	if !global::GLOBAL_CHAIN_TYPE.is_init() {
		global::init_global_chain_type(global::ChainTypes::AutomatedTesting);
	}
}

pub fn run(_args: &[String]) -> i32 {
	init_global();
	let mut rep = Report::new("C14", "model_checking");
	let root = scratch_root();
	let nworkers = workers();
	let states = make_states(&root);
	assert_eq!(states.len(), STATES.len());
	let thorough = tier() == Tier::Thorough;

	// ---- the matrix
	let mut cells: Vec<(usize, usize, usize)> = vec![];
	for si in 0..states.len() {
		for hi in 0..SHAPES.len() {
			for ti in 0..TOKENS.len() {
				cells.push((si, hi, ti));
			}
		}
	}
	let outs = par_map(&cells, nworkers, |i, (si, hi, ti)| {
		run_cell(
			&states[*si],
			&format!("{}/c14-c{}", root, i),
			SHAPES[*hi].0,
			TOKENS[*ti],
		)
	});
	let idx = |si: usize, hi: usize, ti: usize| (si * SHAPES.len() + hi) * TOKENS.len() + ti;
	let mut hist: BTreeMap<String, u64> = BTreeMap::new();
	let mut ref_ok: BTreeMap<String, Vec<String>> = BTreeMap::new();
	let mut samples = vec![];
	let mut pending: Vec<(String, String, Value)> = vec![];
	let mut strict_cells = 0u64;
	let mut distinct: BTreeSet<(usize, usize, String)> = BTreeSet::new();
	let mut table: Vec<Value> = vec![];
	for (i, (si, hi, ti)) in cells.iter().enumerate() {
		let o = &outs[i];
		if let Some(m) = &o.machinery {
			return rep.finish(Some(format!(
				"cell {}/{}/{}: {}",
				STATES[*si], SHAPES[*hi].0, TOKENS[*ti], m
			)));
		}
		let (shape, guarded) = SHAPES[*hi];
		let tk = TOKENS[*ti];
		let cls = if tk == "right" { "right" } else { "wrong" };
		*hist
			.entry(format!(
				"{}/{}/{}",
				cls,
				if guarded { "guarded" } else { "unguarded" },
				if o.outcome == "Ok" {
					"Ok"
				} else if o.mask_error {
					"Err(InvalidKeychainMask)"
				} else if o.outcome == "panic" {
					"panic"
				} else {
					"Err(other)"
				}
			))
			.or_insert(0) += 1;
		distinct.insert((*si, *hi, format!("{}{}", o.outcome, o.store_changed)));
		if tk == "right" {
			if o.outcome == "Ok" {
				ref_ok.entry(shape.to_owned()).or_default().push(STATES[*si].to_owned());
			}
			if o.outcome == "panic" {
				pending.push((
					format!("C14/panic/{}/{}", o.panic_site.clone().unwrap_or_default(), shape),
					format!("{} with the right token panicked in state {}: {}", shape, STATES[*si], o.detail),
					json!({"kind": "cell", "state": STATES[*si], "shape": shape, "token": tk}),
				));
			}
			table.push(json!({"state": STATES[*si], "shape": shape, "right": o.outcome,
				"wrong": TOKENS[1..].iter().enumerate().map(|(k, _)| {
					let w = &outs[idx(*si, *hi, k + 1)];
					format!("{}{}", w.outcome, if w.store_changed { "+STORE" } else { "" })
				}).collect::<Vec<_>>()}));
			continue;
		}
		let reference = &outs[idx(*si, *hi, 0)];
		if guarded && reference.outcome == "Ok" {
			strict_cells += 1;
		}
		if samples.len() < 6 && guarded && reference.outcome == "Ok" && *ti == (samples.len() % 5) + 1 && *si > 0 {
			samples.push(json!({"state": STATES[*si], "call": shape, "token": tk,
				"right_token_result": reference.outcome, "result": o.outcome, "detail": o.detail, "store_changed": o.store_changed}));
		}
		if let Some((k, w)) = verdict(shape, guarded, tk, o, reference) {
			pending.push((
				k,
				format!("{} [state {}]", w, STATES[*si]),
				json!({"kind": "cell", "state": STATES[*si], "shape": shape, "token": tk}),
			));
		}
	}

	// ---- thorough: every single-bit neighbour of the right token, guarded shapes
	let mut bit_cells = 0u64;
	let mut bit_hist: BTreeMap<String, u64> = BTreeMap::new();
	if thorough {
		let mut items: Vec<(usize, usize, usize)> = vec![];
		for si in 0..states.len() {
			for (hi, sh) in SHAPES.iter().enumerate() {
				if !sh.1 || outs[idx(si, hi, 0)].outcome != "Ok" {
					continue;
				}
				for bit in 1..255usize {
					items.push((si, hi, bit));
				}
			}
		}
		let bouts = par_map(&items, nworkers, |i, (si, hi, bit)| {
			run_cell(
				&states[*si],
				&format!("{}/c14-b{}", root, i),
				SHAPES[*hi].0,
				&format!("right^bit{}", bit),
			)
		});
		for ((si, hi, bit), o) in items.iter().zip(bouts.iter()) {
			if let Some(m) = &o.machinery {
				return rep.finish(Some(format!("bit cell: {}", m)));
			}
			bit_cells += 1;
			*bit_hist
				.entry(if o.mask_error { "Err(InvalidKeychainMask)".to_owned() } else { o.outcome.clone() })
				.or_insert(0) += 1;
			let tk = format!("right^bit{}", bit);
			if let Some((k, w)) = verdict(SHAPES[*hi].0, true, &tk, o, &outs[idx(*si, *hi, 0)]) {
				pending.push((
					k,
					format!("{} [state {}]", w, STATES[*si]),
					json!({"kind": "cell", "state": STATES[*si], "shape": SHAPES[*hi].0, "token": tk}),
				));
			}
		}
	}

	// ---- closed wallet
	let closed_items: Vec<usize> = (0..states.len()).collect();
	let closed = par_map(&closed_items, nworkers, |_, si| {
		run_closed(&states[*si], &format!("{}/c14-z{}", root, si))
	});
	let mut closed_hist: BTreeMap<String, u64> = BTreeMap::new();
	let mut closed_ok_unguarded: BTreeSet<String> = BTreeSet::new();
	let mut closed_calls = 0u64;
	for (si, r) in closed.iter().enumerate() {
		if let Some(m) = &r.machinery {
			return rep.finish(Some(format!("closed-wallet run in state {}: {}", STATES[si], m)));
		}
		for (shape, tok, outcome) in r.rows.iter() {
			closed_calls += 1;
			*closed_hist.entry(outcome.clone()).or_insert(0) += 1;
			let guarded = SHAPES.iter().find(|s| s.0 == shape).unwrap().1;
			if outcome == "Ok" {
				if guarded {
					pending.push((
						format!("C14/closed-wallet-succeeded/{}", shape),
						format!("{} succeeded on a closed wallet (token {}) [state {}]", shape, tok, STATES[si]),
						json!({"kind": "closed", "state": STATES[si]}),
					));
				} else {
					closed_ok_unguarded.insert(shape.clone());
				}
			}
			if outcome == "panic" {
				pending.push((
					format!("C14/closed-wallet-panic/{}", shape),
					format!("{} panicked on a closed wallet [state {}]", shape, STATES[si]),
					json!({"kind": "closed", "state": STATES[si]}),
				));
			}
		}
		if r.store_changed {
			pending.push((
				"C14/closed-wallet-store-changed".to_owned(),
				format!("calls on a closed wallet changed the stored state [state {}]", STATES[si]),
				json!({"kind": "closed", "state": STATES[si]}),
			));
		}
		if !r.reopened_ok {
			return rep.finish(Some(format!("wallet could not be reopened after close in state {}", STATES[si])));
		}
		if !r.stale_refused {
			pending.push((
				"C14/stale-token-accepted/get_rewind_hash".to_owned(),
				format!("after close + reopen the mask of the previous session is still accepted [state {}]", STATES[si]),
				json!({"kind": "closed", "state": STATES[si]}),
			));
		}
	}

	// ---- differential
	let dres = par_map(&[true, false], 2, |_, masked| {
		diff_history(&format!("{}/c14-d{}", root, if *masked { "m" } else { "u" }), *masked)
	});
	let (dm, du) = match (&dres[0], &dres[1]) {
		(Ok(m), Ok(u)) => (m, u),
		_ => {
			// a history that cannot run with one of the two wallets: which one?
			let m = dres[0].as_ref().err().cloned();
			let u = dres[1].as_ref().err().cloned();
			if m.is_some() != u.is_some() {
				rep.add_finding(Finding {
					key: "C14/differential/history-fails-on-one-side".to_owned(),
					what: format!("the reference history fails only {}: masked {:?}, unmasked {:?}", if m.is_some() { "on the masked wallet" } else { "on the unmasked wallet" }, m, u),
					replay: json!({"kind": "differential"}),
				});
				return rep.finish(None);
			}
			return rep.finish(Some(format!("differential history failed on both wallets: {:?} / {:?}", m, u)));
		}
	};
	let mut diff_steps = 0;
	let mut diff_distinct = BTreeSet::new();
	if dm.len() != du.len() {
		return rep.finish(Some("differential histories have different lengths".into()));
	}
	for (a, b) in dm.iter().zip(du.iter()) {
		diff_steps += 1;
		diff_distinct.insert(hash_value(&a.2));
		if a != b {
			let which = if a.1 != b.1 { "result" } else { "projection" };
			pending.push((
				format!("C14/differential/{}/{}", which, a.0),
				format!(
					"after step {} the masked wallet (right token) and the unmasked wallet with the same seed differ in {}: masked {} {} / unmasked {} {}",
					a.0, which, a.1, a.2, b.1, b.2
				)
				.chars()
				.take(900)
				.collect(),
				json!({"kind": "differential"}),
			));
			break;
		}
	}

	// ---- differential with a close / open in the middle of two transactions
	{
		let rres = par_map(&[true, false], 2, |_, masked| {
			diff_history_reopen(&format!("{}/c14-r{}", root, if *masked { "m" } else { "u" }), *masked)
		});
		match (&rres[0], &rres[1]) {
			(Ok(m), Ok(u)) => {
				if m.len() != u.len() {
					pending.push(("C14/differential-reopen/history-length".to_owned(), format!("the history with a reopen has {} steps on the masked wallet and {} on the unmasked one", m.len(), u.len()), json!({"kind": "differential-reopen"})));
				}
				for (a, b) in m.iter().zip(u.iter()) {
					diff_steps += 1;
					diff_distinct.insert(hash_value(&a.2));
					if a != b {
						let which = if a.1 != b.1 { "result" } else { "projection" };
						pending.push((
							format!("C14/differential-reopen/{}/{}", which, a.0),
							format!("after step {} of a history in which the wallet is closed and opened again, the masked wallet (right token of the new session) and the unmasked wallet with the same seed differ in {}: masked {} / unmasked {}", a.0, which, a.1, b.1).chars().take(900).collect(),
							json!({"kind": "differential-reopen"}),
						));
						break;
					}
				}
			}
			(m, u) => {
				let (m, u) = (m.as_ref().err().cloned(), u.as_ref().err().cloned());
				if m.is_some() != u.is_some() {
					pending.push(("C14/differential-reopen/history-fails-on-one-side".to_owned(), format!("the history with a reopen fails only on one side: masked {:?}, unmasked {:?}", m, u), json!({"kind": "differential-reopen"})));
				} else {
					return rep.finish(Some(format!("differential history with a reopen failed on both wallets: {:?} / {:?}", m, u)));
				}
			}
		}
	}

	// ---- findings: replay twice (same verdict key from a fresh execution)
	let mut seen = BTreeSet::new();
	for (key, what, rp) in pending.iter() {
		if !seen.insert(key.clone()) {
			continue;
		}
		for n in 0..2 {
			let again: Vec<String> = match rp["kind"].as_str().unwrap() {
				"cell" => {
					let si = STATES.iter().position(|s| *s == rp["state"].as_str().unwrap()).unwrap();
					let shape = rp["shape"].as_str().unwrap();
					let token = rp["token"].as_str().unwrap();
					let guarded = SHAPES.iter().find(|s| s.0 == shape).unwrap().1;
					let d = format!("{}/c14-r{}", root, n);
					let reference = run_cell(&states[si], &d, shape, "right");
					let cell = run_cell(&states[si], &d, shape, token);
					if token == "right" {
						if cell.outcome == "panic" {
							vec![format!("C14/panic/{}/{}", cell.panic_site.clone().unwrap_or_default(), shape)]
						} else {
							vec![]
						}
					} else {
						verdict(shape, guarded, token, &cell, &reference).map(|v| v.0).into_iter().collect()
					}
				}
				"closed" => {
					let si = STATES.iter().position(|s| *s == rp["state"].as_str().unwrap()).unwrap();
					let d = format!("{}/c14-r{}", root, n);
					let r = run_closed(&states[si], &d);
					let mut v = vec![];
					for (shape, _, outcome) in r.rows.iter() {
						let guarded = SHAPES.iter().find(|s| s.0 == shape).unwrap().1;
						if outcome == "Ok" && guarded {
							v.push(format!("C14/closed-wallet-succeeded/{}", shape));
						}
						if outcome == "panic" {
							v.push(format!("C14/closed-wallet-panic/{}", shape));
						}
					}
					if r.store_changed {
						v.push("C14/closed-wallet-store-changed".to_owned());
					}
					if !r.stale_refused {
						v.push("C14/stale-token-accepted/get_rewind_hash".to_owned());
					}
					v
				}
				"differential-reopen" => {
					let m = diff_history_reopen(&format!("{}/c14-rrm{}", root, n), true);
					let u = diff_history_reopen(&format!("{}/c14-rru{}", root, n), false);
					match (m, u) {
						(Ok(m), Ok(u)) => {
							let mut v: Vec<String> = m
								.iter()
								.zip(u.iter())
								.find(|(a, b)| a != b)
								.map(|(a, b)| format!("C14/differential-reopen/{}/{}", if a.1 != b.1 { "result" } else { "projection" }, a.0))
								.into_iter()
								.collect();
							if m.len() != u.len() {
								v.push("C14/differential-reopen/history-length".to_owned());
							}
							v
						}
						(m, u) => {
							if m.is_err() != u.is_err() {
								vec!["C14/differential-reopen/history-fails-on-one-side".to_owned()]
							} else {
								vec![]
							}
						}
					}
				}
				_ => {
					let m = diff_history(&format!("{}/c14-rm{}", root, n), true);
					let u = diff_history(&format!("{}/c14-ru{}", root, n), false);
					match (m, u) {
						(Ok(m), Ok(u)) => m
							.iter()
							.zip(u.iter())
							.find(|(a, b)| a != b)
							.map(|(a, b)| format!("C14/differential/{}/{}", if a.1 != b.1 { "result" } else { "projection" }, a.0))
							.into_iter()
							.collect(),
						_ => vec![],
					}
				}
			};
			if !again.contains(key) {
				return rep.finish(Some(format!("non-deterministic verdict for {}: replay gave {:?}", key, again)));
			}
		}
		rep.add_finding(Finding {
			key: key.clone(),
			what: what.clone(),
			replay: rp.clone(),
		});
	}

	// ---- evidence
	let guarded_n = SHAPES.iter().filter(|s| s.1).count();
	let guarded_never_ok: Vec<&str> = SHAPES
		.iter()
		.filter(|s| s.1 && !ref_ok.contains_key(s.0))
		.map(|s| s.0)
		.collect();
	let wrong_cells = cells.len() as u64 / TOKENS.len() as u64 * (TOKENS.len() as u64 - 1);
	rep.cov("states", json!(states.len()));
	rep.cov("transitions", json!(cells.len() as u64 + bit_cells + closed_calls + 2 * diff_steps as u64));
	rep.cov("traces_validated_against_impl", json!(cells.len() as u64 + bit_cells + closed.len() as u64 + 2));
	rep.cov("evaluations", json!(cells.len() as u64 + bit_cells + closed_calls + 2 * diff_steps as u64));
	rep.cov("matrix_cells", json!(cells.len()));
	rep.cov("single_bit_token_cells", json!(bit_cells));
	rep.cov("single_bit_token_outcomes", json!(bit_hist));
	rep.cov("wrong_token_cells", json!(wrong_cells));
	rep.cov("distinct_nontrivial", json!(strict_cells));
	rep.cov("rule", json!("wrong-token cells of guarded call shapes in states where the same call with the right token succeeds (so the refusal is attributable to the token alone and must be the invalid-mask error); all other wrong-token cells are checked for 'store unchanged' (and 'not Ok' when guarded)"));
	rep.cov("distinct_outcomes", json!(distinct.len()));
	rep.cov("dimensions", json!({"wallet_states": STATES, "call_shapes": SHAPES.len(), "guarded_shapes": guarded_n, "tokens": TOKENS, "owner_methods_with_token": 27}));
	rep.cov("call_shapes", json!(SHAPES.iter().map(|s| json!([s.0, if s.1 { "guarded" } else { "unguarded" }])).collect::<Vec<_>>()));
	rep.cov("outcome_histogram", json!(hist));
	rep.cov("right_token_succeeds_in", json!(ref_ok));
	rep.cov("guarded_shapes_never_succeeding_with_right_token", json!(guarded_never_ok));
	rep.cov("matrix", json!(table));
	rep.cov("closed_wallet_calls", json!(closed_calls));
	rep.cov("closed_wallet_outcomes", json!(closed_hist));
	rep.cov("closed_wallet_unguarded_shapes_still_ok", json!(closed_ok_unguarded));
	rep.cov("differential_steps", json!(diff_steps));
	rep.cov("differential_distinct_projections", json!(diff_distinct.len()));
	rep.cov("differential_step_names", json!(dm.iter().map(|s| s.0.clone()).collect::<Vec<_>>()));
	rep.cov("exhaustive", json!(true));
	rep.cov("samples", json!(samples));
	rep.assume("the keychain mask is the production thread_rng value of each open_wallet; tokens are derived from it, never compared across runs");
	rep.assume("guarded class as fixed in DESIGN.md §3 C14; a guarded call that fails with the right token too (argument/state check) may fail with any error under a wrong token, but must not succeed and must not write");
	rep.assume("start_updater: the background thread is waited for (flag set, stop requested, wallet handle released) before the store is compared");
	rep.assume("stored state = every key/value pair of the wallet's LMDB store, the stored transaction files and the seed file");
	let has_findings = !rep.findings.lock().unwrap().is_empty();
	let vac = if has_findings {
		None
	} else if !guarded_never_ok.is_empty() {
		Some(format!(
			"vacuity guard: guarded shapes that never succeed with the right token in any state: {:?}",
			guarded_never_ok
		))
	} else if strict_cells < 150 || diff_distinct.len() < 10 || distinct.len() < 60 {
		Some(format!(
			"vacuity guard: strict cells {}, distinct differential projections {}, distinct outcomes {}",
			strict_cells,
			diff_distinct.len(),
			distinct.len()
		))
	} else {
		None
	};
	rep.finish(vac)
}
