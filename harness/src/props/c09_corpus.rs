//! C09 — corpus of valid artefacts, all produced by the wallet code itself on a real World.

use crate::libwallet::api_impl::owner;
use crate::libwallet::{
	IssueInvoiceTxArgs, Slate, SlateVersion, Slatepack, SlatepackAddress,
	SlatepackBin, Slatepacker, SlatepackerArgs, VersionedBinSlate, VersionedSlate,
};
use crate::util::ToHex;
use crate::world::*;
use ed25519_dalek::SecretKey as DalekSecretKey;
use grin_wallet_util::byte_ser;
use grin_wallet_util::OnionV3Address;
use serde_json::{json, Value};
use std::convert::TryFrom;
use std::io::{Read, Write};
use uuid::Uuid;

#[derive(Clone, Copy, PartialEq, Eq, Debug, Hash, PartialOrd, Ord)]
pub enum Kind {
	Armor,
	SpBin,
	SpJson,
	SlateJson,
	SlateBin,
	SpAddr,
	OnionAddr,
	ProofJson,
	RpcForeign,
	RpcOwner,
}

impl Kind {
	pub fn name(&self) -> &'static str {
		match self {
			Kind::Armor => "armored-slatepack",
			Kind::SpBin => "binary-slatepack",
			Kind::SpJson => "json-slatepack",
			Kind::SlateJson => "v4-json-slate",
			Kind::SlateBin => "v4-binary-slate",
			Kind::SpAddr => "slatepack-address",
			Kind::OnionAddr => "onion-address",
			Kind::ProofJson => "payment-proof-json",
			Kind::RpcForeign => "foreign-rpc-request",
			Kind::RpcOwner => "owner-rpc-request",
		}
	}
	pub fn from_name(s: &str) -> Option<Kind> {
		for k in [
			Kind::Armor,
			Kind::SpBin,
			Kind::SpJson,
			Kind::SlateJson,
			Kind::SlateBin,
			Kind::SpAddr,
			Kind::OnionAddr,
			Kind::ProofJson,
			Kind::RpcForeign,
			Kind::RpcOwner,
		]
		.iter()
		{
			if k.name() == s {
				return Some(*k);
			}
		}
		None
	}
	pub fn text(&self) -> bool {
		!matches!(self, Kind::SpBin | Kind::SlateBin)
	}
}

#[derive(Clone)]
pub struct Artefact {
	pub name: String,
	pub kind: Kind,
	pub bytes: Vec<u8>,
	/// encrypted slatepacks: the decrypted plaintext (metadata ++ slate)
	pub plain: Option<Vec<u8>>,
	/// RPC requests: snapshot index and wallet name the request is addressed to
	pub snap: usize,
	pub wallet: &'static str,
	/// in the quick tier
	pub quick: bool,
}

pub struct Corpus {
	pub arts: Vec<Artefact>,
	pub snaps: Vec<Snapshot>,
	pub slots: Vec<Uuid>,
}

pub fn addr_of(w: &WalletH, idx: u32) -> SlatepackAddress {
	owner::get_slatepack_address(w.inst.clone(), w.mask(), idx).unwrap()
}

pub fn dec_key_of(w: &WalletH, idx: u32) -> DalekSecretKey {
	owner::get_slatepack_secret_key(w.inst.clone(), w.mask(), idx).unwrap()
}

/// age x25519 identity of an ed25519 slatepack key (same derivation as
/// Slatepack::try_decrypt_payload)
pub fn age_identity(dec_key: &DalekSecretKey) -> age::x25519::Identity {
	use bech32::ToBase32;
	use sha2::{Digest, Sha512};
	let mut b = [0u8; 32];
	b.copy_from_slice(&dec_key.as_bytes()[0..32]);
	let mut hasher = Sha512::new();
	hasher.update(b);
	let result = hasher.finalize();
	b.copy_from_slice(&result[0..32]);
	let x = x25519_dalek::StaticSecret::from(b);
	let s = bech32::encode("age-secret-key-", (&x).to_bytes().to_base32()).unwrap();
	s.parse().unwrap()
}

pub fn age_decrypt(payload: &[u8], dec_key: &DalekSecretKey) -> Vec<u8> {
	let key = age_identity(dec_key);
	let d = match age::Decryptor::new(payload).unwrap() {
		age::Decryptor::Recipients(d) => d,
		_ => panic!("not a recipients file"),
	};
	let mut out = vec![];
	let mut r = d
		.decrypt(std::iter::once(&key as &dyn age::Identity))
		.unwrap();
	r.read_to_end(&mut out).unwrap();
	out
}

/// age-encrypt `plain` to the given slatepack addresses, exactly as
/// Slatepack::try_encrypt_payload does
pub fn age_encrypt(plain: &[u8], recipients: &[SlatepackAddress]) -> Vec<u8> {
	let keys: Vec<Box<dyn age::Recipient>> = recipients
		.iter()
		.map(|a| {
			let k: age::x25519::Recipient = a.to_age_pubkey_str().unwrap().parse().unwrap();
			Box::new(k) as Box<dyn age::Recipient>
		})
		.collect();
	let enc = age::Encryptor::with_recipients(keys);
	let mut out = vec![];
	let mut w = enc.wrap_output(&mut out).unwrap();
	w.write_all(plain).unwrap();
	w.finish().unwrap();
	out
}

pub fn age_encrypt_passphrase(plain: &[u8]) -> Vec<u8> {
	let enc = age::Encryptor::with_user_passphrase(age::secrecy::Secret::new("c09".to_owned()));
	let mut out = vec![];
	let mut w = enc.wrap_output(&mut out).unwrap();
	w.write_all(plain).unwrap();
	w.finish().unwrap();
	out
}

pub fn base58check_armor(bin: &[u8]) -> Vec<u8> {
	use sha2::{Digest, Sha256};
	let h1 = Sha256::digest(bin);
	let h2 = Sha256::digest(&h1);
	let mut buf = h2[0..4].to_vec();
	buf.extend_from_slice(bin);
	let s = bs58::encode(buf).into_string();
	format!("BEGINSLATEPACK. {}. ENDSLATEPACK.", s).into_bytes()
}

/// Container of an (encrypted, mode 1) slatepack around a given age payload
pub fn wrap_bin(payload: Vec<u8>) -> Vec<u8> {
	let mut sp = Slatepack::default();
	sp.mode = 1;
	sp.payload = payload;
	byte_ser::to_bytes(&SlatepackBin(sp)).unwrap()
}

pub fn wrap_json(payload: Vec<u8>) -> Vec<u8> {
	let mut sp = Slatepack::default();
	sp.mode = 1;
	sp.payload = payload;
	serde_json::to_vec(&sp).unwrap()
}

fn vslate(s: &Slate) -> Value {
	serde_json::to_value(VersionedSlate::into_version(s.clone(), SlateVersion::V4).unwrap()).unwrap()
}

pub fn slate_bin(s: &Slate) -> Vec<u8> {
	let v = VersionedSlate::into_version(s.clone(), SlateVersion::V4).unwrap();
	let b = VersionedBinSlate::try_from(v).unwrap();
	byte_ser::to_bytes(&b).unwrap()
}

fn pack(
	slate: &Slate,
	sender: Option<SlatepackAddress>,
	recipients: Vec<SlatepackAddress>,
) -> Slatepack {
	Slatepacker::new(SlatepackerArgs {
		sender,
		recipients,
		dec_key: None,
	})
	.create_slatepack(slate)
	.unwrap()
}

pub fn build(dir: &str) -> Corpus {
	let w = World::create(dir, &[("A", "A"), ("B", "B"), ("C", "C")]);
	w.mine_n("A", 9);
	let a = w.w("A");
	let b = w.w("B");
	let c = w.w("C");
	a.refresh().unwrap();
	let addr_a = addr_of(a, 0);
	let addr_b = addr_of(b, 0);
	let addr_c = addr_of(c, 0);
	let key_b = dec_key_of(b, 0);
	let key_a = dec_key_of(a, 0);

	// ---- flows
	let s1 = a.init_send(default_args(1_000_000_000)).unwrap();
	a.lock(&s1).unwrap();
	let mut pa = default_args(1_500_000_000);
	pa.payment_proof_recipient_address = Some(addr_b.clone());
	let s1p = a.init_send(pa).unwrap();
	a.lock(&s1p).unwrap();
	// an initiated but not yet locked send (valid tx_lock_outputs request)
	let s1u = a.init_send(default_args(700_000_000)).unwrap();
	let i1 = b
		.issue_invoice(IssueInvoiceTxArgs {
			dest_acct_name: None,
			amount: 2_000_000_000,
			target_slate_version: None,
		})
		.unwrap();
	let slots = vec![s1.id, s1p.id, s1u.id, i1.id];
	w.close();
	let snap_m = Snapshot::capture(dir);
	let w = World::open(dir);
	let (a, b) = (w.w("A"), w.w("B"));
	let s2 = b.receive(&s1, None).unwrap();
	let s2p = b.receive(&s1p, None).unwrap();
	let i2 = a.process_invoice(&i1, default_args(2_000_000_000)).unwrap();
	a.lock(&i2).unwrap();
	w.close();
	let snap_n = Snapshot::capture(dir);
	let w = World::open(dir);
	let (a, b) = (w.w("A"), w.w("B"));
	let s3 = a.finalize(&s2).unwrap();
	let s3p = a.finalize(&s2p).unwrap();
	let i3 = b.finalize(&i2).unwrap();
	// the proof transaction goes on chain so that verify_payment_proof has a valid request
	a.post(s3p.tx_or_err().unwrap()).unwrap();
	w.mine("C").unwrap();
	let proof =
		owner::retrieve_payment_proof(a.inst.clone(), a.mask(), &None, false, None, Some(s1p.id))
			.unwrap();
	let rewind_hash = owner::get_rewind_hash(a.inst.clone(), a.mask()).unwrap();
	let some_commit = a
		.outputs()
		.iter()
		.find(|x| x.commit.is_some())
		.and_then(|x| x.commit.clone())
		.unwrap_or_default();
	w.close();
	let snap_p = Snapshot::capture(dir);

	let mut arts: Vec<Artefact> = vec![];
	let mut add = |name: &str, kind: Kind, bytes: Vec<u8>, plain: Option<Vec<u8>>, quick: bool| {
		arts.push(Artefact {
			name: name.to_owned(),
			kind,
			bytes,
			plain,
			snap: 0,
			wallet: "B",
			quick,
		});
	};

	// ---- slatepacks
	let plain_of = |sp: &Slatepack, k: &DalekSecretKey| Some(age_decrypt(&sp.payload, k));
	let packer = Slatepacker::new(SlatepackerArgs {
		sender: None,
		recipients: vec![],
		dec_key: None,
	});
	let sp = pack(&s1, None, vec![]);
	add("armor/plain/S1", Kind::Armor, packer.armor_slatepack(&sp).unwrap().into_bytes(), None, true);
	let sp = pack(&s2p, Some(addr_b.clone()), vec![]);
	add("armor/plain+sender/S2+proof", Kind::Armor, packer.armor_slatepack(&sp).unwrap().into_bytes(), None, false);
	add("bin/plain+sender/S2+proof", Kind::SpBin, byte_ser::to_bytes(&SlatepackBin(sp.clone())).unwrap(), None, true);
	let sp = pack(&s1p, Some(addr_a.clone()), vec![addr_b.clone()]);
	add("armor/enc1+sender/S1+proof", Kind::Armor, packer.armor_slatepack(&sp).unwrap().into_bytes(), plain_of(&sp, &key_b), true);
	add("bin/enc1+sender/S1+proof", Kind::SpBin, byte_ser::to_bytes(&SlatepackBin(sp.clone())).unwrap(), plain_of(&sp, &key_b), true);
	add("json/enc1+sender/S1+proof", Kind::SpJson, serde_json::to_vec(&sp).unwrap(), plain_of(&sp, &key_b), true);
	let sp = pack(&i1, None, vec![addr_c.clone(), addr_b.clone()]);
	add("armor/enc2/I1", Kind::Armor, packer.armor_slatepack(&sp).unwrap().into_bytes(), plain_of(&sp, &key_b), false);
	let sp = pack(&s2, Some(addr_b.clone()), vec![addr_a.clone(), addr_b.clone(), addr_c.clone()]);
	add("bin/enc3+sender/S2", Kind::SpBin, byte_ser::to_bytes(&SlatepackBin(sp.clone())).unwrap(), plain_of(&sp, &key_b), false);
	let sp = pack(&i1, Some(addr_b.clone()), vec![]);
	add("json/plain+sender/I1", Kind::SpJson, serde_json::to_vec(&sp).unwrap(), None, true);
	// message addressed to A (owner RPC slate_from_slatepack_message on wallet A)
	let sp_to_a = pack(&i1, Some(addr_b.clone()), vec![addr_a.clone()]);
	let armored_to_a = packer.armor_slatepack(&sp_to_a).unwrap();
	let _ = key_a;

	// ---- slates
	let slates: Vec<(&str, &Slate, bool)> = vec![
		("S1", &s1, true),
		("S2", &s2, true),
		("S3", &s3, false),
		("S1+proof", &s1p, false),
		("S2+proof", &s2p, true),
		("S3+proof", &s3p, false),
		("I1", &i1, true),
		("I2", &i2, false),
		("I3", &i3, false),
	];
	for (n, s, q) in slates.iter() {
		add(&format!("slate-json/{}", n), Kind::SlateJson, slate_to_json(s).into_bytes(), None, *q);
	}
	for (n, s, q) in slates.iter() {
		add(&format!("slate-bin/{}", n), Kind::SlateBin, slate_bin(s), None, *q);
	}

	// ---- addresses, proof
	let ab = String::try_from(&addr_b).unwrap();
	add("address/slatepack", Kind::SpAddr, ab.clone().into_bytes(), None, true);
	let onion = OnionV3Address::from(&addr_b);
	add("address/onion-v3", Kind::OnionAddr, onion.to_ov3_str().into_bytes(), None, true);
	add("address/onion-v3-http", Kind::OnionAddr, onion.to_http_str().into_bytes(), None, true);
	add("address/onion-hex", Kind::OnionAddr, onion.as_bytes().to_hex().into_bytes(), None, true);
	let proof_v = serde_json::to_value(&proof).unwrap();
	add("payment-proof", Kind::ProofJson, serde_json::to_vec(&proof).unwrap(), None, true);

	// ---- JSON-RPC requests
	let mut rpc = |name: &str, kind: Kind, snap: usize, wallet: &'static str, v: Value, quick: bool| {
		arts.push(Artefact {
			name: name.to_owned(),
			kind,
			bytes: serde_json::to_vec(&v).unwrap(),
			plain: None,
			snap,
			wallet,
			quick,
		});
	};
	let f = |m: &str, p: Value| json!({"jsonrpc": "2.0", "method": m, "id": 1, "params": p});
	// foreign listener (wallet B): one request per method
	rpc("foreign/check_version", Kind::RpcForeign, 0, "B", f("check_version", json!([])), true);
	rpc("foreign/build_coinbase", Kind::RpcForeign, 0, "B", f("build_coinbase", json!([{"fees": 0, "height": 10, "key_id": null}])), true);
	rpc("foreign/receive_tx(S1)", Kind::RpcForeign, 0, "B", f("receive_tx", json!([vslate(&s1), null, null])), true);
	rpc("foreign/receive_tx(S1+proof)", Kind::RpcForeign, 0, "B", f("receive_tx", json!([vslate(&s1p), null, null])), false);
	rpc("foreign/finalize_tx(I2)", Kind::RpcForeign, 1, "B", f("finalize_tx", json!([vslate(&i2)])), true);
	// owner listener (wallet A), decrypted bodies
	let o = |m: &str, mut p: Value| {
		p["token"] = Value::Null;
		json!({"jsonrpc": "2.0", "method": m, "id": 1, "params": p})
	};
	let init_args = |amount: u64, send_args: Value| {
		json!({
			"src_acct_name": null, "amount": amount.to_string(), "minimum_confirmations": 1,
			"max_outputs": 500, "num_change_outputs": 1, "selection_strategy_is_use_all": false,
			"target_slate_version": null, "payment_proof_recipient_address": null,
			"ttl_blocks": null, "send_args": send_args
		})
	};
	let sa = json!({"dest": ab, "post_tx": false, "fluff": false, "skip_tor": true});
	let mut own = |name: &str, snap: usize, v: Value, quick: bool| {
		rpc(&format!("owner/{}", name), Kind::RpcOwner, snap, "A", v, quick)
	};
	own("accounts", 0, o("accounts", json!({})), true);
	own("retrieve_txs", 0, o("retrieve_txs", json!({"refresh_from_node": false, "tx_id": null, "tx_slate_id": s1.id.to_string()})), true);
	own("query_txs", 0, o("query_txs", json!({"refresh_from_node": false, "query": {
		"min_id": 0, "max_id": 100, "min_amount": "0", "max_amount": "60000000000",
		"sort_field": "Id", "sort_order": "Asc", "exclude_cancelled": true, "limit": 5}})), false);
	own("retrieve_outputs", 0, o("retrieve_outputs", json!({"include_spent": false, "refresh_from_node": false, "tx_id": null})), false);
	own("retrieve_summary_info", 0, o("retrieve_summary_info", json!({"refresh_from_node": false, "minimum_confirmations": 1})), false);
	own("init_send_tx", 0, o("init_send_tx", json!({"args": init_args(300_000_000, Value::Null)})), true);
	own("init_send_tx+send_args", 0, o("init_send_tx", json!({"args": init_args(300_000_000, sa.clone())})), false);
	own("issue_invoice_tx", 0, o("issue_invoice_tx", json!({"args": {"amount": "100000000", "dest_acct_name": null, "target_slate_version": null}})), false);
	own("process_invoice_tx(I1)", 0, o("process_invoice_tx", json!({"slate": vslate(&i1), "args": init_args(0, Value::Null)})), true);
	own("process_invoice_tx(I1)+send_args", 0, o("process_invoice_tx", json!({"slate": vslate(&i1), "args": init_args(0, sa.clone())})), true);
	own("tx_lock_outputs(S1)", 0, o("tx_lock_outputs", json!({"slate": vslate(&s1u)})), false);
	own("cancel_tx", 0, o("cancel_tx", json!({"tx_id": null, "tx_slate_id": s1.id.to_string()})), false);
	own("create_slatepack_message", 0, o("create_slatepack_message", json!({"slate": vslate(&s1), "sender_index": 0, "recipients": [ab]})), false);
	own("slate_from_slatepack_message", 0, o("slate_from_slatepack_message", json!({"message": armored_to_a, "secret_indices": [0]})), true);
	own("decode_slatepack_message", 0, o("decode_slatepack_message", json!({"message": armored_to_a, "secret_indices": [0]})), false);
	own("get_slatepack_address", 0, o("get_slatepack_address", json!({"derivation_index": 0})), false);
	own("get_slatepack_secret_key", 0, o("get_slatepack_secret_key", json!({"derivation_index": 0})), false);
	own("build_output", 0, o("build_output", json!({"features": "Plain", "amount": "60000000000"})), false);
	own("get_stored_tx", 0, o("get_stored_tx", json!({"id": null, "slate_id": s1.id.to_string()})), false);
	own("scan_rewind_hash", 0, json!({"jsonrpc": "2.0", "method": "scan_rewind_hash", "id": 1, "params": {"rewind_hash": rewind_hash, "start_height": 1}}), false);
	own("init_secure_api", 0, json!({"jsonrpc": "2.0", "method": "init_secure_api", "id": 1, "params": {"ecdh_pubkey": "03b3c18c9a38783d105e238953b1638b021ba7456d87a5c085b3bdb75777b4c490"}}), false);
	own("create_mwixnet_req", 0, o("create_mwixnet_req", json!({
		"commitment": some_commit,
		"fee_per_hop": "5000000", "lock_output": false,
		"server_keys": ["97444ae673bb92c713c1a2f7b8882ffbfc1c67401a280a775dce1a8651584332", "0c9414341f2140ed34a5a12a6479bf5a6404820d001ab81d9d3e8cc38f049b4e"]})), false);
	own("finalize_tx(S2)", 1, o("finalize_tx", json!({"slate": vslate(&s2)})), true);
	own("finalize_tx(S2+proof)", 1, o("finalize_tx", json!({"slate": vslate(&s2p)})), false);
	own("post_tx(S3)", 2, o("post_tx", json!({"slate": vslate(&s3), "fluff": false})), false);
	own("retrieve_payment_proof", 2, o("retrieve_payment_proof", json!({"refresh_from_node": false, "tx_id": null, "tx_slate_id": s1p.id.to_string()})), false);
	own("verify_payment_proof", 2, o("verify_payment_proof", json!({"proof": proof_v})), true);

	Corpus {
		arts,
		snaps: vec![snap_m, snap_n, snap_p],
		slots,
	}
}

// ---------------------------------------------------------------------------------------------
// snapshots inside replay files (zero runs compressed)

fn enc_bytes(b: &[u8]) -> String {
	let mut s = String::new();
	let mut i = 0;
	while i < b.len() {
		if b[i] == 0 {
			let mut j = i;
			while j < b.len() && b[j] == 0 {
				j += 1;
			}
			if j - i >= 8 {
				s.push_str(&format!("({})", j - i));
				i = j;
				continue;
			}
		}
		s.push_str(&format!("{:02x}", b[i]));
		i += 1;
	}
	s
}

fn dec_bytes(s: &str) -> Vec<u8> {
	let c = s.as_bytes();
	let mut out = vec![];
	let mut i = 0;
	while i < c.len() {
		if c[i] == b'(' {
			let j = i + c[i..].iter().position(|x| *x == b')').unwrap();
			let n: usize = s[i + 1..j].parse().unwrap();
			out.resize(out.len() + n, 0);
			i = j + 1;
		} else {
			out.push(u8::from_str_radix(&s[i..i + 2], 16).unwrap());
			i += 2;
		}
	}
	out
}

pub fn snapshot_to_json(s: &Snapshot) -> Value {
	Value::Array(
		s.files
			.iter()
			.map(|(p, d)| json!([p, enc_bytes(d)]))
			.collect(),
	)
}

pub fn snapshot_from_json(v: &Value) -> Snapshot {
	let files = v
		.as_array()
		.unwrap()
		.iter()
		.map(|e| {
			(
				e[0].as_str().unwrap().to_owned(),
				dec_bytes(e[1].as_str().unwrap()),
			)
		})
		.collect();
	Snapshot {
		files: std::sync::Arc::new(files),
	}
}
