//! C07 — the foreign API can only add funds, exactly once per slate.
//! E2: BFS over all sequences of ≤2 (quick) / ≤3 (thorough) requests from a ~45-request
//! alphabet on the real grin_wallet_api::Foreign (direct and through the JSON-RPC
//! handler), from 4 base states of the target wallet; oracle = full store diff.

use crate::api::{Foreign, ForeignCheckMiddlewareFn, ForeignRpc};
use crate::common::*;
use crate::explore::*;
use crate::keychain::{ExtKeychain, Identifier, Keychain};
use crate::libwallet::{
	BlockFees, Error, IssueInvoiceTxArgs, NodeVersionInfo, OutputStatus, Slate, SlateState,
	SlateVersion, TxLogEntryType, VersionedSlate, GRIN_BLOCK_HEADER_VERSION,
};
use crate::world::*;
use easy_jsonrpc_mw::{Handler, MaybeReply};
use serde_json::{json, Value};
use std::collections::BTreeMap;
use std::time::Duration;
use uuid::Uuid;

const G: u64 = 1_000_000_000;

/// same as controller::check_middleware (private there)
fn check_middleware(
	name: ForeignCheckMiddlewareFn,
	node_version_info: Option<NodeVersionInfo>,
	slate: Option<&Slate>,
) -> Result<(), Error> {
	match name {
		ForeignCheckMiddlewareFn::BuildCoinbase => Ok(()),
		_ => {
			let mut bhv = 3;
			if let Some(n) = node_version_info {
				bhv = n.block_header_version;
			}
			if let Some(s) = slate {
				if bhv > 4 && s.version_info.block_header_version < GRIN_BLOCK_HEADER_VERSION {
					return Err(Error::Compatibility("incompatible".into()));
				}
			}
			Ok(())
		}
	}
}

#[derive(Clone, Debug, Serialize, Deserialize, PartialEq)]
pub enum CbKey {
	None,
	Unknown,
	UnconfirmedCandidate,
	ConfirmedOutput,
	LockedOutput,
	UnconfirmedPlain,
}

#[derive(Clone, Debug, Serialize, Deserialize, PartialEq)]
pub enum RSlate {
	/// a fresh honest S1 from wallet B (index into the pre-made list)
	Honest(usize),
	/// the S1 of the transaction the target itself initiated (echoed back)
	OwnOutgoing,
	/// the S1 the target has already received in the base state
	AlreadyReceived,
	/// the I1 the target issued
	OwnInvoice,
}

#[derive(Clone, Debug, Serialize, Deserialize, PartialEq)]
pub enum RMut {
	None,
	Amount0,
	Amount1,
	AmountMax,
	TtlExpired,
	TtlAhead,
	State(u8),
	NoParticipants,
	DupParticipant,
	ProofToTarget,
	ProofToOther,
	DestUnknown,
	DestAcct1,
	/// destination acct1 named while a third, never-used account is the active one
	DestAcct1ViaFresh,
	RAddr,
	FeeZero,
	KernelFeatures(u8),
	/// the sender's participant entry carries a partial signature that does not verify: the request is
	/// refused late, after the recipient's output and log entry have been written
	BadPartSig,
	/// the same, naming acct1 (whose next log id equals the id of the pending transaction of the default account)
	BadPartSigDestAcct1,
}

#[derive(Clone, Debug, Serialize, Deserialize, PartialEq)]
pub enum FSlate {
	ValidS2,
	ValidI2,
	UnrelatedS2,
	OwnS1,
}

#[derive(Clone, Debug, Serialize, Deserialize, PartialEq)]
pub enum FMut {
	None,
	SigBitFlip,
	SigMissing,
	State(u8),
	AmountPlus1,
	DropRecipient,
	/// the request claims a cutoff height that has passed (the field is the peer's to set)
	TtlExpired,
}

#[derive(Clone, Debug, Serialize, Deserialize, PartialEq)]
pub enum Req {
	CheckVersion { rpc: bool },
	Coinbase { key: CbKey, rpc: bool },
	/// the same request for a block height below the named output's own height (the field is the caller's)
	CoinbaseLowHeight { key: CbKey },
	Receive { slate: RSlate, m: RMut, rpc: bool },
	Finalize { slate: FSlate, m: FMut, rpc: bool },
}

fn state_of(n: u8) -> SlateState {
	match n {
		0 => SlateState::Unknown,
		1 => SlateState::Standard1,
		2 => SlateState::Standard2,
		3 => SlateState::Standard3,
		4 => SlateState::Invoice1,
		5 => SlateState::Invoice2,
		_ => SlateState::Invoice3,
	}
}

fn alphabet() -> Vec<Req> {
	let mut v = vec![Req::CheckVersion { rpc: false }, Req::CheckVersion { rpc: true }];
	for k in [CbKey::None, CbKey::Unknown, CbKey::UnconfirmedCandidate, CbKey::ConfirmedOutput, CbKey::LockedOutput, CbKey::UnconfirmedPlain].iter() {
		v.push(Req::Coinbase { key: k.clone(), rpc: *k == CbKey::ConfirmedOutput });
	}
	for k in [CbKey::ConfirmedOutput, CbKey::LockedOutput, CbKey::UnconfirmedCandidate].iter() {
		v.push(Req::CoinbaseLowHeight { key: k.clone() });
	}
	v.push(Req::Receive { slate: RSlate::Honest(0), m: RMut::None, rpc: false });
	v.push(Req::Receive { slate: RSlate::Honest(1), m: RMut::None, rpc: true });
	for m in [
		RMut::Amount0,
		RMut::Amount1,
		RMut::AmountMax,
		RMut::TtlExpired,
		RMut::TtlAhead,
		RMut::State(0),
		RMut::State(2),
		RMut::State(3),
		RMut::State(4),
		RMut::State(5),
		RMut::State(6),
		RMut::NoParticipants,
		RMut::DupParticipant,
		RMut::ProofToTarget,
		RMut::ProofToOther,
		RMut::DestUnknown,
		RMut::DestAcct1,
		RMut::DestAcct1ViaFresh,
		RMut::RAddr,
		RMut::FeeZero,
		RMut::KernelFeatures(1),
		RMut::KernelFeatures(2),
		RMut::KernelFeatures(3),
		RMut::BadPartSig,
		RMut::BadPartSigDestAcct1,
	]
	.iter()
	{
		v.push(Req::Receive { slate: RSlate::Honest(2), m: m.clone(), rpc: matches!(m, RMut::State(_)) });
	}
	v.push(Req::Receive { slate: RSlate::OwnOutgoing, m: RMut::None, rpc: false });
	v.push(Req::Receive { slate: RSlate::AlreadyReceived, m: RMut::None, rpc: false });
	v.push(Req::Receive { slate: RSlate::AlreadyReceived, m: RMut::DestAcct1, rpc: false });
	v.push(Req::Receive { slate: RSlate::OwnInvoice, m: RMut::None, rpc: false });
	for (s, m) in [
		(FSlate::UnrelatedS2, FMut::None),
		(FSlate::OwnS1, FMut::None),
		(FSlate::ValidS2, FMut::SigBitFlip),
		(FSlate::ValidS2, FMut::SigMissing),
		(FSlate::ValidS2, FMut::State(1)),
		(FSlate::ValidS2, FMut::State(5)),
		(FSlate::ValidS2, FMut::AmountPlus1),
		(FSlate::ValidS2, FMut::DropRecipient),
		(FSlate::ValidI2, FMut::SigBitFlip),
		(FSlate::ValidI2, FMut::SigMissing),
		(FSlate::ValidI2, FMut::State(2)),
		(FSlate::ValidI2, FMut::DropRecipient),
		(FSlate::ValidS2, FMut::TtlExpired),
		(FSlate::ValidI2, FMut::TtlExpired),
		(FSlate::OwnS1, FMut::TtlExpired),
	]
	.iter()
	{
		v.push(Req::Finalize { slate: s.clone(), m: m.clone(), rpc: *m == FMut::SigMissing });
	}
	// the exempted requests (valid counter-signed replies), as controls
	v.push(Req::Finalize { slate: FSlate::ValidS2, m: FMut::None, rpc: false });
	v.push(Req::Finalize { slate: FSlate::ValidI2, m: FMut::None, rpc: true });
	v
}

#[derive(Clone, Debug, Serialize, Deserialize, Default)]
struct Art {
	honest: Vec<String>,
	own_s1: Option<String>,
	own_s2: Option<String>,
	received_s1: Option<String>,
	own_i1: Option<String>,
	own_i2: Option<String>,
	unrelated_s2: Option<String>,
	cb_candidate: Option<String>,
	/// (slate id, account) pairs successfully received
	received: Vec<(String, String)>,
}

fn art(w: &World) -> Art {
	serde_json::from_value(w.meta.extra["art"].clone()).unwrap()
}

pub struct M {
	pub base: usize,
}

fn id_hex(id: &Identifier) -> String {
	crate::util::ToHex::to_hex(&id.to_bytes().to_vec())
}

fn id_from_hex(h: &str) -> Identifier {
	Identifier::from_hex(h).unwrap()
}

/// everything the wallet stores, exact (no projection): outputs, log entries, contexts of all
/// known slate ids, per-account indices
#[derive(PartialEq, Clone, Debug)]
struct Full {
	outs: BTreeMap<String, Value>,
	txs: BTreeMap<String, Value>,
	ctxs: BTreeMap<String, Value>,
	child_idx: BTreeMap<String, u32>,
	log_idx: BTreeMap<String, u32>,
}

fn known_ids(a: &Art) -> Vec<Uuid> {
	let mut ids = vec![];
	for s in a.honest.iter().chain(a.own_s1.iter()).chain(a.received_s1.iter()).chain(a.own_i1.iter()).chain(a.unrelated_s2.iter()) {
		ids.push(slate_from_json(s).id);
	}
	ids
}

fn full(w: &WalletH, ids: &[Uuid]) -> Full {
	let outs = w
		.outputs()
		.iter()
		.map(|o| (format!("{}#{:?}", o.key_id.to_bip_32_string(), o.mmr_index), serde_json::to_value(o).unwrap()))
		.collect();
	let txs = w
		.txs()
		.iter()
		.map(|t| (format!("{}#{}", t.parent_key_id.to_bip_32_string(), t.id), serde_json::to_value(t).unwrap()))
		.collect();
	let mut ctxs = BTreeMap::new();
	for id in ids {
		if let Ok(c) = w.get_context(id) {
			ctxs.insert(id.to_string(), serde_json::to_value(&c).unwrap());
		}
	}
	let mut child_idx = BTreeMap::new();
	let mut log_idx = BTreeMap::new();
	let accts: Vec<Identifier> = w.with(|b| b.acct_path_iter().map(|m| m.path).collect());
	for p in accts {
		let (c, l) = w.with(|b| {
			let c = b.current_child_index(&p).unwrap();
			let l = {
				let mut batch = b.batch_no_mask().unwrap();
				batch.next_tx_log_id(&p).unwrap()
			};
			(c, l)
		});
		child_idx.insert(p.to_bip_32_string(), c);
		log_idx.insert(p.to_bip_32_string(), l);
	}
	Full { outs, txs, ctxs, child_idx, log_idx }
}

impl Model for M {
	type Op = Req;

	fn init(&self, dir: &str) {
		let mut w = World::create(dir, &[("A", "A"), ("B", "B"), ("M", "M")]);
		w.w("A").create_account("acct1").unwrap();
		// acct1 holds outputs of its own; "fresh" never derived a key. The two funded accounts have the same
		// number of log entries, so that the pending transaction of a base state and the next entry of the
		// other account carry the same numeric log id (ids are counted per account)
		w.w("A").create_account("fresh").unwrap();
		w.w("A").set_account("acct1").unwrap();
		w.mine_n("A", 4);
		w.w("A").set_account("default").unwrap();
		w.mine_n("A", 4);
		w.mine_n("B", 5);
		w.mine_n("M", 3);
		// (log entries of rewards are written by the refresh of the account that holds them)
		w.w("A").set_account("acct1").unwrap();
		w.w("A").refresh().unwrap();
		w.w("A").set_account("default").unwrap();
		w.w("A").refresh().unwrap();
		w.w("B").refresh().unwrap();
		let mut art = Art::default();
		{
			let a = w.w("A");
			let b = w.w("B");
			// a coinbase candidate of A that is still unconfirmed
			let bf = BlockFees { fees: 0, key_id: None, height: w.node.height() + 1 };
			let cb = a.with(|x| crate::libwallet::api_impl::foreign::build_coinbase(x, None, &bf, false)).unwrap();
			art.cb_candidate = Some(id_hex(&cb.key_id.unwrap()));
			// honest S1s from B
			for i in 0..3 {
				let s = b.init_send(default_args((2 + i) * G)).unwrap();
				b.lock(&s).unwrap();
				art.honest.push(slate_to_json(&s));
			}
			// an unrelated valid S2 (B -> M exchange reply), unknown to A
			{
				let s = b.init_send(default_args(G)).unwrap();
				b.lock(&s).unwrap();
				let s2 = w.w("M").receive(&s, None).unwrap();
				art.unrelated_s2 = Some(slate_to_json(&s2));
			}
			if self.base == 1 {
				// pending outgoing send of A, validly answered by B
				let s1 = a.init_send(default_args(7 * G)).unwrap();
				a.lock(&s1).unwrap();
				let s2 = b.receive(&s1, None).unwrap();
				art.own_s1 = Some(slate_to_json(&s1));
				art.own_s2 = Some(slate_to_json(&s2));
			}
			if self.base == 2 {
				// pending incoming
				let s = b.init_send(default_args(6 * G)).unwrap();
				b.lock(&s).unwrap();
				let _ = a.receive(&s, None).unwrap();
				art.received_s1 = Some(slate_to_json(&s));
				art.received.push((s.id.to_string(), "default".into()));
			}
			if self.base == 4 {
				// an incoming payment that has been finalised, mined and seen confirmed by A
				let s = b.init_send(default_args(6 * G)).unwrap();
				b.lock(&s).unwrap();
				let s2 = a.receive(&s, None).unwrap();
				let s3 = b.finalize(&s2).unwrap();
				b.post(s3.tx_or_err().unwrap()).unwrap();
				w.mine("M").unwrap();
				a.refresh().unwrap();
				art.received_s1 = Some(slate_to_json(&s));
				art.received.push((s.id.to_string(), "default".into()));
			}
			if self.base == 3 {
				// issued invoice, validly paid by B
				let i1 = a.issue_invoice(IssueInvoiceTxArgs { amount: 3 * G, ..Default::default() }).unwrap();
				let i2 = b.process_invoice(&i1, default_args(0)).unwrap();
				b.lock(&i2).unwrap();
				art.own_i1 = Some(slate_to_json(&i1));
				art.own_i2 = Some(slate_to_json(&i2));
			}
		}
		w.meta.extra["art"] = serde_json::to_value(&art).unwrap();
		w.close();
	}

	fn ops(&self, w: &World) -> Vec<Req> {
		let a = art(w);
		alphabet()
			.into_iter()
			.filter(|r| match r {
				Req::Receive { slate: RSlate::OwnOutgoing, .. } => a.own_s1.is_some(),
				Req::Receive { slate: RSlate::AlreadyReceived, .. } => a.received_s1.is_some(),
				Req::Receive { slate: RSlate::OwnInvoice, .. } => a.own_i1.is_some(),
				Req::Finalize { slate: FSlate::ValidS2, .. } | Req::Finalize { slate: FSlate::OwnS1, .. } => a.own_s2.is_some(),
				Req::Finalize { slate: FSlate::ValidI2, .. } => a.own_i2.is_some(),
				Req::Coinbase { key: CbKey::LockedOutput, .. } | Req::CoinbaseLowHeight { key: CbKey::LockedOutput } => a.own_s1.is_some(),
				Req::Coinbase { key: CbKey::UnconfirmedPlain, .. } => a.received_s1.is_some() || !a.received.is_empty(),
				_ => true,
			})
			.collect()
	}

	fn step(&self, w: &mut World, req: &Req, out: &mut StepOut) {
		let low_height = matches!(req, Req::CoinbaseLowHeight { .. });
		let req_owned;
		let req: &Req = if let Req::CoinbaseLowHeight { key } = req {
			req_owned = Req::Coinbase { key: key.clone(), rpc: false };
			&req_owned
		} else {
			req
		};
		let mut ar = art(w);
		let ids = known_ids(&ar);
		let t = w.w("A");
		let before = full(t, &ids);
		let info_before = t.info(false, 1).unwrap().1;
		let api = Foreign::new(t.inst.clone(), None, Some(check_middleware), false);
		// the amount field of a reply is not part of what the counterparty signs (compact replies carry
		// amount 0 and the wallet restores it from its own context): a reply with only that field altered
		// is still a validly counter-signed reply, i.e. the exempted request
		let is_control = matches!(
			req,
			Req::Finalize { m: FMut::None, slate: FSlate::ValidS2, .. }
				| Req::Finalize { m: FMut::None, slate: FSlate::ValidI2, .. }
				| Req::Finalize { m: FMut::AmountPlus1, slate: FSlate::ValidS2, .. }
		);
		// ---- build and send the request
		enum Outcome {
			Ok(Option<Slate>),
			Err(String),
		}
		let mut in_slate: Option<Slate> = None;
		let mut dest: Option<String> = None;
		let outcome: Outcome = match req {
			Req::CoinbaseLowHeight { .. } => unreachable!(),
			Req::CheckVersion { rpc } => {
				if *rpc {
					rpc_call(&api, json!({"jsonrpc": "2.0", "method": "check_version", "id": 1, "params": []}))
						.map(|_| Outcome::Ok(None))
						.unwrap_or_else(Outcome::Err)
				} else {
					match api.check_version() {
						Ok(_) => Outcome::Ok(None),
						Err(e) => Outcome::Err(format!("{}", e)),
					}
				}
			}
			Req::Coinbase { key, rpc } => {
				let outs = t.outputs();
				let default_parent = ExtKeychain::derive_key_id(2, 0, 0, 0, 0);
				let key_id: Option<Identifier> = match key {
					CbKey::None => None,
					CbKey::Unknown => {
						let mut p = default_parent.to_path();
						p.depth += 1;
						p.path[2] = grin_keychain::ChildNumber::from(999);
						Some(Identifier::from_path(&p))
					}
					CbKey::UnconfirmedCandidate => ar.cb_candidate.as_ref().map(|h| id_from_hex(h)),
					CbKey::ConfirmedOutput => outs.iter().find(|o| o.status == OutputStatus::Unspent).map(|o| o.key_id.clone()),
					CbKey::LockedOutput => outs.iter().find(|o| o.status == OutputStatus::Locked).map(|o| o.key_id.clone()),
					CbKey::UnconfirmedPlain => outs.iter().find(|o| o.status == OutputStatus::Unconfirmed && !o.is_coinbase).map(|o| o.key_id.clone()),
				};
				if *key != CbKey::None && key_id.is_none() {
					out.label = "n/a".into();
					return;
				}
				let bf = BlockFees { fees: 0, key_id, height: if low_height { 1 } else { w.node.height() + 1 } };
				if *rpc {
					rpc_call(&api, json!({"jsonrpc": "2.0", "method": "build_coinbase", "id": 1, "params": [bf]}))
						.map(|_| Outcome::Ok(None))
						.unwrap_or_else(Outcome::Err)
				} else {
					match api.build_coinbase(&bf) {
						Ok(_) => Outcome::Ok(None),
						Err(e) => Outcome::Err(format!("{}", e)),
					}
				}
			}
			Req::Receive { slate, m, rpc } => {
				let src = match slate {
					RSlate::Honest(i) => ar.honest[*i].clone(),
					RSlate::OwnOutgoing => ar.own_s1.clone().unwrap(),
					RSlate::AlreadyReceived => ar.received_s1.clone().unwrap(),
					RSlate::OwnInvoice => ar.own_i1.clone().unwrap(),
				};
				let mut s = slate_from_json(&src);
				let mut r_addr = None;
				match m {
					RMut::None => {}
					RMut::Amount0 => s.amount = 0,
					RMut::Amount1 => s.amount = 1,
					RMut::AmountMax => s.amount = u64::MAX,
					RMut::TtlExpired => s.ttl_cutoff_height = 1,
					RMut::TtlAhead => s.ttl_cutoff_height = 1_000_000,
					RMut::State(n) => s.state = state_of(*n),
					RMut::NoParticipants => s.participant_data.clear(),
					RMut::DupParticipant => {
						let p = s.participant_data[0].clone();
						s.participant_data.push(p);
					}
					RMut::ProofToTarget | RMut::ProofToOther => {
						let who = if *m == RMut::ProofToTarget { "A" } else { "M" };
						let pk = |who: &str| {
							let kc = keychain_for(who);
							let sk = crate::libwallet::address::address_from_derivation_path(&kc, &ExtKeychain::derive_key_id(2, 0, 0, 0, 0), 0).unwrap();
							let d = ed25519_dalek::SecretKey::from_bytes(&sk.0).unwrap();
							let p: ed25519_dalek::PublicKey = (&d).into();
							p
						};
						let mut v4 = crate::libwallet::slate_versions::v4::SlateV4::from(&s);
						v4.proof = Some(crate::libwallet::slate_versions::v4::PaymentInfoV4 { saddr: pk("B"), raddr: pk(who), rsig: None });
						s = Slate::from(v4);
					}
					RMut::DestUnknown => dest = Some("nope".into()),
					RMut::DestAcct1 => dest = Some("acct1".into()),
					RMut::DestAcct1ViaFresh => {
						dest = Some("acct1".into());
						t.set_account("fresh").unwrap();
					}
					RMut::BadPartSig | RMut::BadPartSigDestAcct1 => {
						if let Some(p) = s.participant_data.get_mut(0) {
							p.part_sig = Some(crate::util::secp::Signature::from_raw_data(&[3u8; 64]).unwrap());
						}
						if *m == RMut::BadPartSigDestAcct1 {
							dest = Some("acct1".into());
						}
					}
					RMut::RAddr => r_addr = Some("http://127.0.0.1:1".to_owned()),
					RMut::FeeZero => s.fee_fields = grin_core::core::FeeFields::zero(),
					RMut::KernelFeatures(n) => {
						s.kernel_features = *n;
						if *n >= 2 {
							let mut v4 = crate::libwallet::slate_versions::v4::SlateV4::from(&s);
							v4.feat = *n;
							v4.feat_args = Some(crate::libwallet::slate_versions::v4::KernelFeaturesArgsV4 { lock_hgt: 3 });
							s = Slate::from(v4);
						}
					}
				}
				in_slate = Some(s.clone());
				if *rpc {
					let vs = VersionedSlate::into_version(s.clone(), SlateVersion::V4).unwrap();
					match rpc_call(&api, json!({"jsonrpc": "2.0", "method": "receive_tx", "id": 1, "params": [vs, dest, r_addr]})) {
						Ok(v) => match serde_json::from_value::<VersionedSlate>(v) {
							Ok(vs) => Outcome::Ok(Some(Slate::from(vs))),
							Err(e) => Outcome::Err(format!("reply not a slate: {}", e)),
						},
						Err(e) => Outcome::Err(e),
					}
				} else {
					match api.receive_tx(&s, dest.as_ref().map(|x| x.as_str()), r_addr) {
						Ok(r) => Outcome::Ok(Some(r)),
						Err(e) => Outcome::Err(format!("{}", e)),
					}
				}
			}
			Req::Finalize { slate, m, rpc } => {
				let src = match slate {
					FSlate::ValidS2 => ar.own_s2.clone().unwrap(),
					FSlate::ValidI2 => ar.own_i2.clone().unwrap(),
					FSlate::UnrelatedS2 => ar.unrelated_s2.clone().unwrap(),
					FSlate::OwnS1 => ar.own_s1.clone().unwrap(),
				};
				let mut s = slate_from_json(&src);
				match m {
					FMut::None => {}
					FMut::SigBitFlip => {
						for p in s.participant_data.iter_mut() {
							if let Some(sig) = p.part_sig.as_mut() {
								let mut raw = [0u8; 64];
								raw.copy_from_slice(&sig.as_ref()[..64]);
								raw[40] ^= 1;
								*sig = crate::util::secp::Signature::from_raw_data(&raw).unwrap();
							}
						}
					}
					FMut::SigMissing => {
						for p in s.participant_data.iter_mut() {
							p.part_sig = None;
						}
					}
					FMut::State(n) => s.state = state_of(*n),
					FMut::AmountPlus1 => s.amount += 1,
					FMut::DropRecipient => {
						s.participant_data.clear();
					}
					FMut::TtlExpired => s.ttl_cutoff_height = 1,
				}
				in_slate = Some(s.clone());
				if *rpc {
					let vs = VersionedSlate::into_version(s.clone(), SlateVersion::V4).unwrap();
					match rpc_call(&api, json!({"jsonrpc": "2.0", "method": "finalize_tx", "id": 1, "params": [vs]})) {
						Ok(v) => match serde_json::from_value::<VersionedSlate>(v) {
							Ok(vs) => Outcome::Ok(Some(Slate::from(vs))),
							Err(e) => Outcome::Err(format!("reply not a slate: {}", e)),
						},
						Err(e) => Outcome::Err(e),
					}
				} else {
					match api.finalize_tx(&s, false) {
						Ok(r) => Outcome::Ok(Some(r)),
						Err(e) => Outcome::Err(format!("{}", e)),
					}
				}
			}
		};
		drop(api);
		t.set_account("default").unwrap();
		// ---- oracle
		let after = full(t, &ids);
		let info_after = t.info(false, 1).unwrap().1;
		let kind = match req {
			Req::CheckVersion { .. } => "check_version",
			Req::Coinbase { .. } => {
				if low_height {
					"build_coinbase@height-1"
				} else {
					"build_coinbase"
				}
			}
			Req::CoinbaseLowHeight { .. } => "build_coinbase@height-1",
			Req::Receive { .. } => "receive_tx",
			Req::Finalize { .. } => "finalize_tx",
		};
		out.label = match &outcome {
			Outcome::Ok(_) => "ok".into(),
			Outcome::Err(e) => format!("err:{}", e.split(|c: char| !c.is_alphanumeric() && c != ' ').next().unwrap_or("").chars().take(24).collect::<String>()),
		};
		if is_control {
			if let Outcome::Ok(_) = outcome {
				// the exempted request consumed the exchange: artefacts are spent
				match req {
					Req::Finalize { slate: FSlate::ValidS2, .. } => {}
					_ => {}
				}
			}
			w.meta.extra["art"] = serde_json::to_value(&ar).unwrap();
			return;
		}
		// generic: nothing existing may change or disappear; contexts untouched
		let mclass = format!("{:?}", req).chars().take(60).collect::<String>();
		for (k, v) in before.outs.iter() {
			match after.outs.get(k) {
				None => {
					out.problem(format!("existing-output-deleted/{}/{}", kind, req_class(req)), format!("{}: output record {} ({}) disappeared", mclass, k, v["status"]));
					break;
				}
				Some(v2) if v2 != v => {
					let replaced_candidate = kind.starts_with("build_coinbase") && v["status"] == "Unconfirmed" && v["is_coinbase"] == true;
					if !replaced_candidate {
						out.problem(
							format!("existing-output-changed/{}/{}", kind, req_class(req)),
							format!("{}: output record {} changed from {} to {}", mclass, k, v, v2),
						);
						break;
					}
				}
				_ => {}
			}
		}
		for (k, v) in before.txs.iter() {
			if after.txs.get(k) != Some(v) {
				out.problem(format!("existing-log-entry-changed/{}/{}", kind, req_class(req)), format!("{}: log entry {} changed or disappeared", mclass, k));
				break;
			}
		}
		if before.ctxs != after.ctxs {
			out.problem(format!("context-consumed-or-changed/{}/{}", kind, req_class(req)), format!("{}: a stored private context changed", mclass));
		}
		if info_after.amount_currently_spendable < info_before.amount_currently_spendable || info_after.amount_locked > info_before.amount_locked {
			out.problem(format!("spendable-decreased/{}/{}", kind, req_class(req)), format!("{}: spendable {} -> {}, locked {} -> {}", mclass, info_before.amount_currently_spendable, info_after.amount_currently_spendable, info_before.amount_locked, info_after.amount_locked));
		}
		for (k, v) in before.child_idx.iter() {
			if after.child_idx.get(k).map(|x| x < v).unwrap_or(true) {
				out.problem(format!("key-index-decreased/{}", kind), "a key derivation index went backwards".to_owned());
			}
		}
		let new_outs: Vec<(&String, &Value)> = after.outs.iter().filter(|(k, _)| !before.outs.contains_key(*k)).collect();
		let new_txs: Vec<(&String, &Value)> = after.txs.iter().filter(|(k, _)| !before.txs.contains_key(*k)).collect();
		match (&outcome, req) {
			(Outcome::Err(_), Req::Receive { .. })
				if new_outs.len() <= 1
					&& new_txs.len() <= 1
					&& !(new_outs.is_empty() && new_txs.is_empty())
					&& new_outs.iter().all(|(_, o)| o["status"] == "Unconfirmed" && o["is_coinbase"] == false)
					&& new_txs.iter().all(|(_, t)| t["tx_type"] == "TxReceived" || t["tx_type"] == "TxReceivedCancelled") =>
			{
				// A receive that is refused late (the sender's partial signature is checked after the recipient's
				// output and log entry have been written) leaves the footprint of a successful one behind. The
				// statement constrains existing records, reservations and the spendable balance, all checked
				// above; it does not say that a refused receive adds nothing, so this is counted, not flagged.
				out.label = format!("{}+receive-footprint", out.label);
			}
			(Outcome::Err(_), _) | (Outcome::Ok(_), Req::CheckVersion { .. }) => {
				if !new_outs.is_empty() || !new_txs.is_empty() {
					out.problem(format!("refused-request-added-records/{}/{}", kind, req_class(req)), format!("{}: returned {} but added {} outputs / {} log entries", mclass, out.label, new_outs.len(), new_txs.len()));
				}
			}
			(Outcome::Ok(_), Req::CoinbaseLowHeight { .. }) => unreachable!(),
			(Outcome::Ok(_), Req::Coinbase { .. }) => {
				if !new_txs.is_empty() || new_outs.len() > 1 {
					out.problem("coinbase-added-too-much", format!("{}: added {} outputs / {} log entries", mclass, new_outs.len(), new_txs.len()));
				}
				for (_, o) in new_outs.iter() {
					if o["status"] != "Unconfirmed" || o["is_coinbase"] != true {
						out.problem("coinbase-output-shape", format!("{}: new record is {}", mclass, o));
					}
				}
			}
			(Outcome::Ok(reply), Req::Receive { .. }) => {
				let s = in_slate.as_ref().unwrap();
				let acct = match dest.as_ref().map(|x| x.as_str()) {
					Some("acct1") => "acct1",
					_ => "default",
				};
				if ar.received.iter().any(|(i, a)| *i == s.id.to_string() && a == acct) {
					out.problem("replay/receive-accepted-twice", format!("{}: slate {} was received by account {} before and accepted again", mclass, s.id, acct));
				}
				if new_outs.len() != 1 || new_txs.len() != 1 {
					out.problem(format!("receive-diff/{}", req_class(req)), format!("{}: a successful receive added {} outputs and {} log entries", mclass, new_outs.len(), new_txs.len()));
				} else {
					let o = new_outs[0].1;
					let e = new_txs[0].1;
					if o["status"] != "Unconfirmed" || o["is_coinbase"] != false || o["value"].as_str().map(|x| x.to_owned()).or(o["value"].as_u64().map(|x| x.to_string())) != Some(s.amount.to_string()) {
						out.problem(format!("receive-output-shape/{}", req_class(req)), format!("{}: new output {} for slate amount {}", mclass, o, s.amount));
					}
					if e["tx_type"] != "TxReceived" || e["confirmed"] != false {
						out.problem(format!("receive-entry-shape/{}", req_class(req)), format!("{}: new entry {}", mclass, e));
					}
					let acct_path = if acct == "acct1" { "m/1/0" } else { "m/0/0" };
					let opath = Identifier::from_hex(o["root_key_id"].as_str().unwrap()).unwrap().to_bip_32_string();
					let epath = Identifier::from_hex(e["parent_key_id"].as_str().unwrap()).unwrap().to_bip_32_string();
					if opath != epath || (dest.as_ref().map(|x| x.as_str()) == Some("acct1") && opath != acct_path) {
						out.problem(format!("receive-wrong-account/{}", req_class(req)), format!("{}: output in {}, entry in {}, destination {}", mclass, opath, epath, acct_path));
					}
				}
				if let Some(r) = reply {
					if r.participant_data.len() != 1 {
						out.problem("reply-participants", format!("{}: reply carries {} participant entries", mclass, r.participant_data.len()));
					} else if s.participant_data.iter().any(|p| p.public_blind_excess == r.participant_data[0].public_blind_excess) {
						out.problem("reply-echoes-sender-data", format!("{}: reply carries the sender's participant entry", mclass));
					}
				}
				ar.received.push((s.id.to_string(), acct.to_owned()));
			}
			(Outcome::Ok(_), Req::Finalize { .. }) => {
				out.problem(format!("finalize-accepted-invalid-reply/{}", req_class(req)), format!("{}: finalize_tx succeeded for a reply that is not a validly counter-signed reply to a transaction this wallet initiated", mclass));
			}
		}
		w.meta.extra["art"] = serde_json::to_value(&ar).unwrap();
	}

	fn check(&self, _w: &World, _out: &mut StepOut) {}

	fn project(&self, w: &World) -> Value {
		let ar = art(w);
		let ids = known_ids(&ar);
		let opts = ProjOpts { slots: ids, heights: true, canon_ids: true };
		json!({"A": project_wallet(w.w("A"), &opts), "pool": w.node.mempool_len(), "received": ar.received})
	}
}

fn req_class(r: &Req) -> String {
	match r {
		Req::CheckVersion { .. } => "-".into(),
		Req::Coinbase { key, .. } | Req::CoinbaseLowHeight { key } => format!("{:?}", key),
		Req::Receive { slate, m, .. } => format!("{:?}:{:?}", slate, m).replace("Honest(0)", "Honest").replace("Honest(1)", "Honest").replace("Honest(2)", "Honest"),
		Req::Finalize { slate, m, .. } => format!("{:?}:{:?}", slate, m),
	}
}

fn rpc_call<'a>(
	api: &Foreign<'static, HLC, crate::node::DirectClient, ExtKeychain>,
	req: Value,
) -> Result<Value, String> {
	match <dyn ForeignRpc>::handle_request(api, req) {
		MaybeReply::Reply(r) => {
			if let Some(e) = r.get("error") {
				return Err(format!("rpc error {}", e));
			}
			match r["result"].get("Ok") {
				Some(v) => Ok(v.clone()),
				None => Err(format!("{}", r["result"]["Err"])),
			}
		}
		MaybeReply::DontReply => Err("no reply".into()),
	}
}

pub fn replay(payload: &Value) -> i32 {
	std::env::set_var("GWV_SHOW_PANICS", "1");
	let path: Vec<Req> = serde_json::from_value(payload["path"].clone()).unwrap();
	let base = payload["kind"].as_str().unwrap_or("base0").trim_start_matches("base").parse().unwrap_or(0);
	let m = M { base };
	let dir = format!("{}/c07-replay", scratch_root());
	match run_path(&m, &dir, &path) {
		Ok(p) => {
			println!("base state {} path {:?}\nproblems at last step: {:?}", base, path, p);
			if p.is_empty() { 0 } else { 1 }
		}
		Err(e) => {
			println!("replay failed: {}", e);
			2
		}
	}
}

pub fn run(_args: &[String]) -> i32 {
	let mut rep = Report::new("C07", "model_checking");
	let thorough = tier() == Tier::Thorough;
	let mut states = 0;
	let mut transitions = 0;
	let mut mach = None;
	let mut all_labels: BTreeMap<String, u64> = BTreeMap::new();
	let mut samples = vec![];
	let mut exhaustive = true;
	for base in 0..5 {
		let m = M { base };
		let caps = Caps {
			max_depth: if thorough { 3 } else { 2 },
			wall: Duration::from_secs(if thorough { 900 } else { 25 }),
			max_states: 100_000,
			min_depth: 2,
		};
		let tag = format!("base{}", base);
		let e = explore(&m, &format!("c07-{}", tag), &caps);
		report_explored(&mut rep, "C07", &tag, &e);
		states += e.states;
		transitions += e.transitions;
		for (k, v) in e.labels.iter() {
			*all_labels.entry(k.clone()).or_insert(0) += v;
		}
		if e.cap_hit.is_some() {
			exhaustive = false;
		}
		if samples.len() < 4 {
			samples.extend(e.sample_paths.iter().take(1).map(|p| json!({"base": base, "path": p})));
		}
		if e.machinery_error.is_some() {
			mach = e.machinery_error.clone();
		}
	}
	rep.cov("states", json!(states));
	rep.cov("transitions", json!(transitions));
	rep.cov("traces_validated_against_impl", json!(transitions));
	rep.cov("evaluations", json!(transitions));
	rep.cov("distinct_nontrivial", json!(states));
	rep.cov("rule", json!("BFS over request sequences from 4 base states of the target wallet; every request is a real call of grin_wallet_api::Foreign (direct or through the JSON-RPC handler); distinct_nontrivial = distinct reachable wallet states"));
	rep.cov("exhaustive", json!(exhaustive));
	rep.cov("alphabet_size", json!(alphabet().len()));
	rep.cov("samples", json!(samples));
	let ok: u64 = all_labels.iter().filter(|(k, _)| k.ends_with(":ok")).map(|(_, v)| *v).sum();
	let err: u64 = all_labels.iter().filter(|(k, _)| k.contains(":err")).map(|(_, v)| *v).sum();
	rep.cov("ok_calls", json!(ok));
	rep.cov("refused_calls", json!(err));
	rep.assume("attacker-crafted slates are mutations of honest slates from a real second wallet; the exempted requests (valid counter-signed replies) are in the alphabet as controls and excluded from the no-change oracle");
	if mach.is_none() && (ok < 50 || err < 100 || states < 20) {
		mach = Some(format!("vacuity guard: ok={} err={} states={}", ok, err, states));
	}
	rep.finish(mach)
}

#[allow(dead_code)]
fn _t(_: TxLogEntryType) {}
