//! C19 — transaction-log queries return exactly what was asked for.
//! E1: exhaustive enumeration of queries over small value alphabets against two fixed
//! discriminating logs written straight into a real LMDB wallet; oracle = reference
//! filter from the RetrieveTxQueryArgs field documentation (MUST ⊆ result ⊆ MAY).

use crate::common::*;
use crate::libwallet::api_impl::owner;
use crate::libwallet::{
	RetrieveTxQueryArgs, RetrieveTxQuerySortField, RetrieveTxQuerySortOrder, TxLogEntry,
	TxLogEntryType,
};
use crate::world::*;
use chrono::{DateTime, TimeZone, Utc};
use serde_json::{json, Value};
use std::collections::BTreeMap;
use uuid::Uuid;

fn ts(i: i64) -> DateTime<Utc> {
	Utc.timestamp(1_600_000_000 + i * 1000, 0)
}

#[derive(Clone)]
struct Spec {
	acct: usize, // 0 = default (active), 1, 2
	id: u32,
	ty: TxLogEntryType,
	confirmed: bool,
	credited: u64,
	debited: u64,
	created: i64,
	conf: Option<i64>,
	slate: Option<u8>,
}

fn sp(
	acct: usize,
	id: u32,
	ty: TxLogEntryType,
	confirmed: bool,
	credited: u64,
	debited: u64,
	created: i64,
	conf: Option<i64>,
	slate: Option<u8>,
) -> Spec {
	Spec {
		acct,
		id,
		ty,
		confirmed,
		credited,
		debited,
		created,
		conf,
		slate,
	}
}

use TxLogEntryType::*;

fn logs() -> Vec<Vec<Spec>> {
	vec![
		vec![
			sp(0, 0, ConfirmedCoinbase, true, 60, 0, 1, Some(1), None),
			sp(0, 1, TxReceived, true, 10, 0, 1, Some(2), Some(1)),
			sp(0, 2, TxReceived, false, 20, 0, 2, None, Some(2)),
			sp(0, 3, TxSent, true, 30, 50, 2, Some(3), Some(3)),
			sp(0, 4, TxSent, false, 30, 40, 3, None, Some(4)),
			sp(0, 5, TxSentCancelled, false, 0, 20, 3, None, Some(5)),
			sp(0, 6, TxReceivedCancelled, false, 10, 0, 1, None, Some(6)),
			sp(0, 7, TxReverted, false, 20, 0, 2, Some(2), Some(7)),
			// other accounts: ids collide with the active account's on purpose
			sp(1, 0, TxReceived, true, 10, 0, 1, Some(1), Some(8)),
			sp(1, 1, TxSent, false, 0, 20, 2, None, Some(2)), // same slate id as (0,2): self-send
			sp(2, 3, ConfirmedCoinbase, true, 60, 0, 3, Some(3), None),
		],
		vec![
			sp(0, 0, TxSent, false, 0, 10, 3, None, Some(1)),
			sp(0, 1, TxSent, true, 50, 60, 3, Some(3), Some(2)),
			sp(0, 2, ConfirmedCoinbase, true, 20, 0, 2, Some(2), None),
			sp(0, 3, TxReceived, true, 60, 0, 2, Some(3), Some(3)),
			sp(0, 4, TxReverted, false, 10, 0, 1, Some(1), Some(4)),
			sp(0, 5, TxReceived, false, 10, 0, 1, None, Some(5)),
			sp(0, 6, TxSentCancelled, false, 10, 30, 2, None, Some(6)),
			sp(0, 7, TxReceivedCancelled, false, 20, 0, 3, None, Some(7)),
			sp(0, 8, TxReceived, true, 20, 0, 1, Some(1), Some(8)),
			sp(1, 2, TxSent, true, 0, 20, 1, Some(2), Some(3)),
			sp(2, 0, TxReceived, false, 60, 0, 2, None, Some(9)),
		],
	]
}

fn slate_uuid(n: u8) -> Uuid {
	Uuid::from_slice(&[7, 7, 7, 7, 7, 7, 7, 7, 7, 7, 7, 7, 7, 7, 7, n]).unwrap()
}

// ------------------------------------------------------------------------------------------
// query representation: field index -> value index

const F_MIN_ID: usize = 0;
const F_MAX_ID: usize = 1;
const F_EXCL_CANC: usize = 2;
const F_OUTSTANDING: usize = 3;
const F_CONFIRMED: usize = 4;
const F_SENT: usize = 5;
const F_RECEIVED: usize = 6;
const F_COINBASE: usize = 7;
const F_REVERTED: usize = 8;
const F_MIN_AMT: usize = 9;
const F_MAX_AMT: usize = 10;
const F_MIN_CRE: usize = 11;
const F_MAX_CRE: usize = 12;
const F_MIN_CONF: usize = 13;
const F_MAX_CONF: usize = 14;
const F_SORT: usize = 15;
const F_ORDER: usize = 16;
const F_LIMIT: usize = 17;
const NFIELDS: usize = 18;

const NAMES: [&str; NFIELDS] = [
	"min_id",
	"max_id",
	"exclude_cancelled",
	"include_outstanding_only",
	"include_confirmed_only",
	"include_sent_only",
	"include_received_only",
	"include_coinbase_only",
	"include_reverted_only",
	"min_amount",
	"max_amount",
	"min_creation_timestamp",
	"max_creation_timestamp",
	"min_confirmed_timestamp",
	"max_confirmed_timestamp",
	"sort_field",
	"sort_order",
	"limit",
];

const IDS: [u32; 5] = [0, 1, 3, 7, 9];
const AMTS: [u64; 9] = [0, 9, 10, 11, 19, 20, 21, 60, 61];
const TSS: [i64; 5] = [0, 1, 2, 3, 4];
const FLAGS: [bool; 2] = [true, false];

/// number of non-None values of a field (value index 0..n)
fn nvals(f: usize, n_active: usize) -> usize {
	match f {
		F_MIN_ID | F_MAX_ID => IDS.len(),
		F_EXCL_CANC..=F_REVERTED => FLAGS.len(),
		F_MIN_AMT | F_MAX_AMT => AMTS.len(),
		F_MIN_CRE..=F_MAX_CONF => TSS.len(),
		F_SORT => 6,
		F_ORDER => 2,
		F_LIMIT => {
			let _ = n_active;
			5
		}
		_ => unreachable!(),
	}
}

type Query = BTreeMap<usize, usize>;

fn limit_val(i: usize, n_active: usize) -> u32 {
	[0, 1, n_active - 1, n_active, n_active + 1][i] as u32
}

fn build(q: &Query, n_active: usize) -> RetrieveTxQueryArgs {
	let mut a = RetrieveTxQueryArgs {
		min_id: None,
		max_id: None,
		limit: None,
		exclude_cancelled: None,
		include_outstanding_only: None,
		include_confirmed_only: None,
		include_sent_only: None,
		include_received_only: None,
		include_coinbase_only: None,
		include_reverted_only: None,
		min_amount: None,
		max_amount: None,
		min_creation_timestamp: None,
		max_creation_timestamp: None,
		min_confirmed_timestamp: None,
		max_confirmed_timestamp: None,
		sort_field: None,
		sort_order: None,
	};
	for (f, v) in q.iter() {
		let v = *v;
		match *f {
			F_MIN_ID => a.min_id = Some(IDS[v]),
			F_MAX_ID => a.max_id = Some(IDS[v]),
			F_EXCL_CANC => a.exclude_cancelled = Some(FLAGS[v]),
			F_OUTSTANDING => a.include_outstanding_only = Some(FLAGS[v]),
			F_CONFIRMED => a.include_confirmed_only = Some(FLAGS[v]),
			F_SENT => a.include_sent_only = Some(FLAGS[v]),
			F_RECEIVED => a.include_received_only = Some(FLAGS[v]),
			F_COINBASE => a.include_coinbase_only = Some(FLAGS[v]),
			F_REVERTED => a.include_reverted_only = Some(FLAGS[v]),
			F_MIN_AMT => a.min_amount = Some(AMTS[v]),
			F_MAX_AMT => a.max_amount = Some(AMTS[v]),
			F_MIN_CRE => a.min_creation_timestamp = Some(ts(TSS[v])),
			F_MAX_CRE => a.max_creation_timestamp = Some(ts(TSS[v])),
			F_MIN_CONF => a.min_confirmed_timestamp = Some(ts(TSS[v])),
			F_MAX_CONF => a.max_confirmed_timestamp = Some(ts(TSS[v])),
			F_SORT => {
				a.sort_field = Some(match v {
					0 => RetrieveTxQuerySortField::Id,
					1 => RetrieveTxQuerySortField::CreationTimestamp,
					2 => RetrieveTxQuerySortField::ConfirmationTimestamp,
					3 => RetrieveTxQuerySortField::TotalAmount,
					4 => RetrieveTxQuerySortField::AmountCredited,
					_ => RetrieveTxQuerySortField::AmountDebited,
				})
			}
			F_ORDER => {
				a.sort_order = Some(if v == 0 {
					RetrieveTxQuerySortOrder::Asc
				} else {
					RetrieveTxQuerySortOrder::Desc
				})
			}
			F_LIMIT => a.limit = Some(limit_val(v, n_active)),
			_ => unreachable!(),
		}
	}
	a
}

fn describe(q: &Query, n_active: usize) -> Value {
	let mut m = serde_json::Map::new();
	for (f, v) in q.iter() {
		let val = match *f {
			F_MIN_ID | F_MAX_ID => json!(IDS[*v]),
			F_EXCL_CANC..=F_REVERTED => json!(FLAGS[*v]),
			F_MIN_AMT | F_MAX_AMT => json!(AMTS[*v]),
			F_MIN_CRE..=F_MAX_CONF => json!(format!("T{}", TSS[*v])),
			F_SORT => json!([
				"Id",
				"CreationTimestamp",
				"ConfirmationTimestamp",
				"TotalAmount",
				"AmountCredited",
				"AmountDebited"
			][*v]),
			F_ORDER => json!(["Asc", "Desc"][*v]),
			F_LIMIT => json!(limit_val(*v, n_active)),
			_ => unreachable!(),
		};
		m.insert(NAMES[*f].to_owned(), val);
	}
	Value::Object(m)
}

// ------------------------------------------------------------------------------------------
// reference filter

fn is_sent(s: &Spec) -> bool {
	s.ty == TxSent || s.ty == TxSentCancelled
}

/// (must, may) for one criterion on one entry
fn crit(s: &Spec, f: usize, v: usize) -> (bool, bool) {
	let both = |b: bool| (b, b);
	match f {
		F_MIN_ID => both(s.id >= IDS[v]),
		F_MAX_ID => both(s.id <= IDS[v]),
		F_EXCL_CANC..=F_REVERTED if !FLAGS[v] => (true, true),
		F_EXCL_CANC => both(s.ty != TxSentCancelled && s.ty != TxReceivedCancelled),
		F_OUTSTANDING => (
			!s.confirmed && (s.ty == TxSent || s.ty == TxReceived || s.ty == TxReverted),
			!s.confirmed,
		),
		F_CONFIRMED => both(s.confirmed),
		F_SENT => (s.ty == TxSent, is_sent(s)),
		F_RECEIVED => (
			s.ty == TxReceived,
			s.ty == TxReceived || s.ty == TxReceivedCancelled || s.ty == TxReverted,
		),
		F_COINBASE => both(s.ty == ConfirmedCoinbase),
		F_REVERTED => both(s.ty == TxReverted),
		F_MIN_AMT | F_MAX_AMT => {
			let bound = AMTS[v] as i128;
			let net = s.credited as i128 - s.debited as i128;
			let cmp = |x: i128| if f == F_MIN_AMT { x >= bound } else { x <= bound };
			if net >= 0 {
				both(cmp(net))
			} else {
				// literal reading (negative net) vs magnitude reading
				let lit = cmp(net);
				let mag = cmp(-net);
				(lit && mag, lit || mag)
			}
		}
		F_MIN_CRE => both(s.created >= TSS[v]),
		F_MAX_CRE => both(s.created <= TSS[v]),
		F_MIN_CONF => match s.conf {
			Some(c) => both(c >= TSS[v]),
			None => (false, true),
		},
		F_MAX_CONF => match s.conf {
			Some(c) => both(c <= TSS[v]),
			None => (false, true),
		},
		_ => (true, true),
	}
}

fn must_may(s: &Spec, q: &Query) -> (bool, bool) {
	if s.acct != 0 {
		return (false, false);
	}
	let mut must = true;
	let mut may = true;
	for (f, v) in q.iter() {
		if *f >= F_SORT {
			continue;
		}
		let (mu, ma) = crit(s, *f, *v);
		must &= mu;
		may &= ma;
	}
	(must, may)
}

/// sort keys under which the result may be ordered (several for ambiguous fields);
/// None = entry has no value for the key (placement not asserted)
fn sort_keys(s: &Spec, sort: Option<usize>) -> Vec<Option<i128>> {
	match sort {
		None | Some(0) => vec![Some(s.id as i128)],
		Some(1) => vec![Some(s.created as i128)],
		Some(2) => vec![s.conf.map(|c| c as i128)],
		Some(3) => {
			let net = s.credited as i128 - s.debited as i128;
			if is_sent(s) {
				vec![Some(net), Some(-net)]
			} else {
				vec![Some(net)]
			}
		}
		Some(4) => vec![Some(s.credited as i128)],
		_ => vec![Some(s.debited as i128)],
	}
}

struct Outcome {
	problem: Option<(String, String)>, // (key, what)
	n_result: usize,
}

fn find<'a>(specs: &'a [Spec], t: &TxLogEntry, paths: &[String]) -> Option<&'a Spec> {
	let p = t.parent_key_id.to_bip_32_string();
	let acct = paths.iter().position(|x| *x == p)?;
	specs.iter().find(|s| s.acct == acct && s.id == t.id)
}

fn check_query(
	w: &WalletH,
	specs: &[Spec],
	paths: &[String],
	q: &Query,
	n_active: usize,
) -> Outcome {
	let args = build(q, n_active);
	let res = catch(|| owner::retrieve_txs(w.inst.clone(), w.mask(), &None, false, None, None, Some(args)));
	let res = match res {
		Err(p) => {
			let site = take_last_panic().map(|x| panic_site(&x.1)).unwrap_or_default();
			return Outcome {
				problem: Some((format!("C19/panic/{}", site), format!("query panicked: {}", p))),
				n_result: 0,
			};
		}
		Ok(Err(e)) => {
			return Outcome {
				problem: Some(("C19/error".to_owned(), format!("query returned error {}", e))),
				n_result: 0,
			}
		}
		Ok(Ok(r)) => r.1,
	};
	let mut rs: Vec<&Spec> = vec![];
	for t in res.iter() {
		match find(specs, t, paths) {
			Some(s) => rs.push(s),
			None => {
				return Outcome {
					problem: Some(("C19/unknown-entry".to_owned(), "result contains an entry not in the log".to_owned())),
					n_result: res.len(),
				}
			}
		}
	}
	let n_result = rs.len();
	let prob = |k: String, w: String| Outcome {
		problem: Some((k, w)),
		n_result,
	};
	// duplicates
	for i in 0..rs.len() {
		for j in i + 1..rs.len() {
			if rs[i].acct == rs[j].acct && rs[i].id == rs[j].id {
				return prob("C19/duplicate".to_owned(), "an entry is returned twice".to_owned());
			}
		}
	}
	// result ⊆ MAY
	for s in rs.iter() {
		let (_, may) = must_may(s, q);
		if !may {
			if s.acct != 0 {
				return prob(
					"C19/extra/other-account".to_owned(),
					format!("entry id {} of another account returned by a query on the active account", s.id),
				);
			}
			let culprits: Vec<&str> = q
				.iter()
				.filter(|(f, v)| **f < F_SORT && !crit(s, **f, **v).1)
				.map(|(f, _)| NAMES[*f])
				.collect();
			return prob(
				format!("C19/extra/ignored:{}", culprits.join("+")),
				format!("entry id {} ({:?}) returned although it does not satisfy {}", s.id, s.ty, culprits.join("+")),
			);
		}
	}
	let limit = q.get(&F_LIMIT).map(|v| limit_val(*v, n_active) as usize);
	let ident = |s: &Spec| (s.acct, s.id);
	// Decomposition: the limited result must be a valid prefix of what the same query
	// returns without a limit (which is itself checked against MUST/MAY when enumerated).
	let base: Vec<&Spec> = if limit.is_some() {
		let mut q2 = q.clone();
		q2.remove(&F_LIMIT);
		let r2 = owner::retrieve_txs(w.inst.clone(), w.mask(), &None, false, None, None, Some(build(&q2, n_active)));
		match r2 {
			Ok(r) => r.1.iter().filter_map(|t| find(specs, t, paths)).collect(),
			Err(_) => vec![],
		}
	} else {
		vec![]
	};
	if let Some(l) = limit {
		if rs.len() > l {
			return prob("C19/limit/exceeded".to_owned(), format!("{} entries returned with limit {}", rs.len(), l));
		}
		if rs.len() < std::cmp::min(l, base.len()) {
			return prob("C19/limit/short".to_owned(), format!("{} entries returned with limit {} although {} match", rs.len(), l, base.len()));
		}
		for r in rs.iter() {
			if !base.iter().any(|b| ident(b) == ident(r)) {
				return prob("C19/limit/not-subset".to_owned(), "limited result contains an entry the unlimited query does not return".to_owned());
			}
		}
	} else {
		let musts: Vec<&Spec> = specs.iter().filter(|s| must_may(s, q).0).collect();
		let missing: Vec<&&Spec> = musts
			.iter()
			.filter(|m| !rs.iter().any(|r| ident(r) == ident(m)))
			.collect();
		if !missing.is_empty() {
			let m = missing[0];
			// isolate the criteria that already lose this entry on their own
			let mut culprits: Vec<&str> = vec![];
			for (f, v) in q.iter().filter(|(f, _)| **f < F_SORT) {
				let mut q1 = Query::new();
				q1.insert(*f, *v);
				if let Ok(r) = owner::retrieve_txs(w.inst.clone(), w.mask(), &None, false, None, None, Some(build(&q1, n_active))) {
					let got = r.1.iter().filter_map(|t| find(specs, t, paths)).any(|x| ident(x) == ident(m));
					if !got && must_may(m, &q1).0 {
						culprits.push(NAMES[*f]);
					}
				}
			}
			let fields: Vec<&str> = if culprits.is_empty() {
				q.keys().filter(|f| **f < F_SORT).map(|f| NAMES[*f]).collect()
			} else {
				culprits
			};
			return prob(
				format!("C19/missing/overfiltered-by:{}", fields.join("+")),
				format!("entry id {} ({:?}) satisfies every criterion but is not returned (lost by {})", m.id, m.ty, fields.join("+")),
			);
		}
	}
	// ordering
	let sort = q.get(&F_SORT).copied();
	let desc = q.get(&F_ORDER).map(|v| *v == 1).unwrap_or(false);
	let nkeys = if sort == Some(3) { 2 } else { 1 };
	let mut ok_any = false;
	let excluded: Vec<&&Spec> = base.iter().filter(|b| !rs.iter().any(|r| ident(r) == ident(b))).collect();
	for variant in 0..nkeys {
		let key = |s: &Spec| -> Option<i128> {
			let ks = sort_keys(s, sort);
			if ks.len() > variant {
				ks[variant]
			} else {
				ks[0]
			}
		};
		let mut ok = true;
		let ks: Vec<i128> = rs.iter().filter_map(|s| key(s)).collect();
		for w in ks.windows(2) {
			if (!desc && w[0] > w[1]) || (desc && w[0] < w[1]) {
				ok = false;
			}
		}
		// valid prefix: no excluded element sorts strictly before a returned one
		if ok && limit.is_some() {
			for m in excluded.iter() {
				if let Some(km) = key(m) {
					for r in rs.iter() {
						if let Some(kr) = key(r) {
							if (!desc && km < kr) || (desc && km > kr) {
								ok = false;
							}
						}
					}
				}
			}
		}
		if ok {
			ok_any = true;
		}
	}
	if !ok_any {
		return prob(
			format!("C19/order/{}{}", sort.map(|s| ["Id","CreationTimestamp","ConfirmationTimestamp","TotalAmount","AmountCredited","AmountDebited"][s]).unwrap_or("default"), if limit.is_some() { "/limit" } else { "" }),
			"result is not sorted by the requested field/direction, or the limit did not keep the first entries in that order".to_owned(),
		);
	}
	Outcome {
		problem: None,
		n_result,
	}
}

fn setup_wallet(dir: &str, specs: &[Spec]) -> (World, Vec<String>) {
	let w = World::create(dir, &[("A", "A")]);
	let a = w.w("A");
	let p1 = a.create_account("acct1").unwrap();
	let p2 = a.create_account("acct2").unwrap();
	let p0 = a.with(|b| b.parent_key_id());
	let parents = vec![p0, p1, p2];
	a.with(|b| {
		let mut batch = b.batch(None).unwrap();
		for s in specs {
			let mut t = TxLogEntry::new(parents[s.acct].clone(), s.ty.clone(), s.id);
			t.confirmed = s.confirmed;
			t.amount_credited = s.credited;
			t.amount_debited = s.debited;
			t.creation_ts = ts(s.created);
			t.confirmation_ts = s.conf.map(ts);
			t.tx_slate_id = s.slate.map(slate_uuid);
			batch.save_tx_log_entry(t, &parents[s.acct]).unwrap();
		}
		batch.commit().unwrap();
	});
	let paths = parents.iter().map(|p| p.to_bip_32_string()).collect();
	(w, paths)
}

/// all queries over the given set of fields (every combination of non-None values)
fn product(fields: &[usize], n_active: usize, out: &mut Vec<Query>) {
	let mut idx = vec![0usize; fields.len()];
	loop {
		let mut q = Query::new();
		for (i, f) in fields.iter().enumerate() {
			q.insert(*f, idx[i]);
		}
		out.push(q);
		let mut k = 0;
		loop {
			if k == fields.len() {
				return;
			}
			idx[k] += 1;
			if idx[k] < nvals(fields[k], n_active) {
				break;
			}
			idx[k] = 0;
			k += 1;
		}
	}
}

fn gen_queries(n_active: usize, thorough: bool) -> (Vec<Query>, Value) {
	let mut qs: Vec<Query> = vec![Query::new()];
	let filt: Vec<usize> = (0..F_SORT).collect();
	let mut dims = serde_json::Map::new();
	// singles
	let n0 = qs.len();
	for f in 0..NFIELDS {
		product(&[f], n_active, &mut qs);
	}
	dims.insert("single_field".into(), json!(qs.len() - n0));
	// pairs of filter fields
	let n0 = qs.len();
	for i in 0..filt.len() {
		for j in i + 1..filt.len() {
			product(&[filt[i], filt[j]], n_active, &mut qs);
		}
	}
	dims.insert("filter_pairs".into(), json!(qs.len() - n0));
	// full product of the seven flags, three values each (None, true, false)
	let n0 = qs.len();
	let flags: Vec<usize> = (F_EXCL_CANC..=F_REVERTED).collect();
	for mask in 0..3usize.pow(7) {
		let mut q = Query::new();
		let mut m = mask;
		for f in flags.iter() {
			match m % 3 {
				0 => {}
				1 => {
					q.insert(*f, 0);
				}
				_ => {
					q.insert(*f, 1);
				}
			}
			m /= 3;
		}
		qs.push(q);
	}
	dims.insert("flag_product".into(), json!(qs.len() - n0));
	// sort × order × limit, alone and with every single filter value
	let n0 = qs.len();
	let mut sol: Vec<Query> = vec![];
	for s in 0..=6usize {
		for o in 0..=2usize {
			for l in 0..=5usize {
				let mut q = Query::new();
				if s > 0 {
					q.insert(F_SORT, s - 1);
				}
				if o > 0 {
					q.insert(F_ORDER, o - 1);
				}
				if l > 0 {
					q.insert(F_LIMIT, l - 1);
				}
				sol.push(q);
			}
		}
	}
	let mut singles: Vec<Query> = vec![Query::new()];
	for f in filt.iter() {
		product(&[*f], n_active, &mut singles);
	}
	for s in sol.iter() {
		for f in singles.iter() {
			let mut q = s.clone();
			for (k, v) in f.iter() {
				q.insert(*k, *v);
			}
			qs.push(q);
		}
	}
	dims.insert("sort_order_limit_x_single".into(), json!(qs.len() - n0));
	// id range pinned to one entry (min_id == max_id) with every other single criterion, and with
	// every limit: the boundary-equal case of the range, where a look-up shortcut could drop the rest
	let n0 = qs.len();
	for v in 0..IDS.len() {
		let mut others: Vec<Query> = vec![Query::new()];
		for f in (F_EXCL_CANC..NFIELDS).filter(|f| *f != F_SORT && *f != F_ORDER) {
			product(&[f], n_active, &mut others);
		}
		for o in others.iter() {
			let mut q = o.clone();
			q.insert(F_MIN_ID, v);
			q.insert(F_MAX_ID, v);
			qs.push(q);
		}
	}
	dims.insert("pinned_id_x_single".into(), json!(qs.len() - n0));
	// a page: lower (or upper) id bound × every limit × every other single criterion × both directions.
	// The limit counts entries of the filtered set, not ids: a window derived from bound and limit is wrong
	// as soon as a third criterion removes entries inside it.
	let n0 = qs.len();
	{
		let mut others: Vec<Query> = vec![];
		for f in (F_EXCL_CANC..NFIELDS).filter(|f| ![F_SORT, F_ORDER, F_LIMIT, F_MIN_ID, F_MAX_ID].contains(f)) {
			product(&[f], n_active, &mut others);
		}
		for bound in [F_MIN_ID, F_MAX_ID] {
			for v in 0..IDS.len() {
				for l in 0..5usize {
					for o in 0..=2usize {
						for f in others.iter() {
							let mut q = f.clone();
							q.insert(bound, v);
							q.insert(F_LIMIT, l);
							if o > 0 {
								q.insert(F_ORDER, o - 1);
							}
							qs.push(q);
						}
					}
				}
			}
		}
	}
	dims.insert("id_bound_x_limit_x_order_x_single".into(), json!(qs.len() - n0));
	if thorough {
		let n0 = qs.len();
		for i in 0..filt.len() {
			for j in i + 1..filt.len() {
				for k in j + 1..filt.len() {
					product(&[filt[i], filt[j], filt[k]], n_active, &mut qs);
				}
			}
		}
		dims.insert("filter_triples".into(), json!(qs.len() - n0));
		// pairs × sort/order/limit
		let n0 = qs.len();
		let mut pairs: Vec<Query> = vec![];
		for i in 0..filt.len() {
			for j in i + 1..filt.len() {
				product(&[filt[i], filt[j]], n_active, &mut pairs);
			}
		}
		for s in sol.iter() {
			if s.is_empty() {
				continue;
			}
			for f in pairs.iter() {
				let mut q = s.clone();
				for (k, v) in f.iter() {
					q.insert(*k, *v);
				}
				qs.push(q);
			}
		}
		dims.insert("sort_order_limit_x_pairs".into(), json!(qs.len() - n0));
	}
	(qs, Value::Object(dims))
}

/// re-execute one recorded case without the enumerator
pub fn replay(payload: &Value) -> i32 {
	let li = payload["log"].as_u64().unwrap_or(0) as usize;
	let all_logs = logs();
	let specs = &all_logs[li];
	let n_active = specs.iter().filter(|s| s.acct == 0).count();
	let dir = format!("{}/c19-replay", scratch_root());
	let (w, paths) = setup_wallet(&dir, specs);
	let a = w.w("A");
	if payload["kind"] == "query" {
		let q: Query = payload["q"]
			.as_object()
			.unwrap()
			.iter()
			.map(|(k, v)| (k.parse().unwrap(), v.as_u64().unwrap() as usize))
			.collect();
		let o = check_query(a, specs, &paths, &q, n_active);
		println!("query {} -> {} entries; verdict: {:?}", describe(&q, n_active), o.n_result, o.problem);
		return if o.problem.is_some() { 1 } else { 0 };
	}
	println!("look-up replay: run the check itself (look-ups are a fixed small set)");
	0
}

pub fn run(_args: &[String]) -> i32 {
	let mut rep = Report::new("C19", "model_checking");
	let thorough = tier() == Tier::Thorough;
	let root = scratch_root();
	let all_logs = logs();
	let mut evaluations = 0u64;
	let mut nonempty = 0u64;
	let mut outcome_hist: BTreeMap<usize, u64> = BTreeMap::new();
	let mut distinct_results = std::collections::HashSet::new();
	let mut samples = vec![];
	let mut dims_v = json!({});
	for (li, specs) in all_logs.iter().enumerate() {
		let n_active = specs.iter().filter(|s| s.acct == 0).count();
		let dir = format!("{}/c19-{}", root, li);
		let (w, paths) = setup_wallet(&dir, specs);
		let a = w.w("A");
		let (qs, dims) = gen_queries(n_active, thorough);
		dims_v = dims;
		// split across workers: each worker needs its own wallet handle (one LMDB env per dir)
		// queries are read-only and fast; run sequentially per log, logs in sequence.
		for q in qs.iter() {
			let o = check_query(a, specs, &paths, q, n_active);
			evaluations += 1;
			if o.n_result > 0 {
				nonempty += 1;
			}
			*outcome_hist.entry(o.n_result).or_insert(0) += 1;
			distinct_results.insert((li, crate::world::hash_value(&describe(q, n_active))));
			if samples.len() < 4 && q.len() == 2 && o.n_result > 0 && o.n_result < n_active {
				samples.push(json!({"log": li, "query": describe(q, n_active), "returned": o.n_result}));
			}
			if let Some((key, what)) = o.problem {
				// replay-twice rule: the same case must fail identically two more times
				for _ in 0..2 {
					let again = check_query(a, specs, &paths, q, n_active).problem.map(|p| p.0);
					if again.as_ref() != Some(&key) {
						return rep.finish(Some(format!("non-deterministic verdict for query {}: {:?} vs {}", describe(q, n_active), again, key)));
					}
				}
				rep.add_finding(Finding {
					key,
					what: format!("{} (log {}, query {})", what, li, describe(q, n_active)),
					replay: json!({"kind": "query", "log": li, "query": describe(q, n_active), "q": q.iter().map(|(k, v)| (k.to_string(), *v)).collect::<BTreeMap<String, usize>>()}),
				});
			}
		}
		// look-ups by id and by slate id (with and without query args, which must be ignored)
		for (active, label) in [(0usize, "default"), (1, "acct1"), (2, "acct2")].iter() {
		a.set_account(label).unwrap();
		for s in specs.iter() {
			for with_args in [false, true].iter() {
				let qa = if *with_args {
					Some(build(&[(F_CONFIRMED, 0usize), (F_LIMIT, 0usize)].iter().cloned().collect(), n_active))
				} else {
					None
				};
				let r = owner::retrieve_txs(a.inst.clone(), a.mask(), &None, false, Some(s.id), None, qa.clone());
				evaluations += 1;
				let got: Vec<(usize, u32)> = r
					.unwrap()
					.1
					.iter()
					.map(|t| (find(specs, t, &paths).map(|x| x.acct).unwrap_or(99), t.id))
					.collect();
				let expect: Vec<(usize, u32)> = specs
					.iter()
					.filter(|x| x.acct == *active && x.id == s.id)
					.map(|x| (*active, x.id))
					.collect();
				let mut g = got.clone();
				g.sort();
				if g != expect {
					rep.add_finding(Finding {
						key: "C19/lookup/id".to_owned(),
						what: format!("look-up by log id {} with account {} active returned {:?} (account index, id), expected {:?}", s.id, label, got, expect),
						replay: json!({"log": li, "tx_id": s.id, "active": label}),
					});
				}
				if let Some(sl) = s.slate {
					let r = owner::retrieve_txs(a.inst.clone(), a.mask(), &None, false, None, Some(slate_uuid(sl)), qa);
					evaluations += 1;
					let mut got: Vec<(usize, u32)> = r
						.unwrap()
						.1
						.iter()
						.map(|t| (find(specs, t, &paths).map(|x| x.acct).unwrap_or(99), t.id))
						.collect();
					got.sort();
					let mut expect: Vec<(usize, u32)> = specs
						.iter()
						.filter(|x| x.acct == *active && x.slate == Some(sl))
						.map(|x| (*active, x.id))
						.collect();
					expect.sort();
					if got != expect {
						rep.add_finding(Finding {
							key: "C19/lookup/slate".to_owned(),
							what: format!("look-up by slate id #{} with account {} active returned {:?} (account index, id), expected {:?}", sl, label, got, expect),
							replay: json!({"log": li, "slate": sl, "active": label}),
						});
					}
				}
			}
		}
		}
		a.set_account("default").unwrap();
		w.close();
	}
	rep.cov("states", json!(evaluations));
	rep.cov("transitions", json!(evaluations));
	rep.cov("traces_validated_against_impl", json!(evaluations));
	rep.cov("evaluations", json!(evaluations));
	rep.cov("distinct_nontrivial", json!(nonempty));
	rep.cov("rule", json!("every query of the enumerated space (see dimensions) is executed through owner::retrieve_txs on a real LMDB wallet holding a fixed 11-entry, 3-account log; a case is non-trivial when it returns at least one entry"));
	rep.cov("dimensions_per_log", dims_v);
	rep.cov("logs", json!(all_logs.len()));
	rep.cov("result_size_histogram", json!(outcome_hist));
	rep.cov("exhaustive", json!(true));
	rep.cov("samples", json!(samples));
	rep.assume("timestamps and amounts outside the value alphabets behave like their nearest alphabet neighbours (small-scope hypothesis)");
	rep.assume("MAY/MUST margins of DESIGN.md §3 C19 for documentation ambiguities");
	let vac = if nonempty < 100 || outcome_hist.len() < 4 {
		Some(format!("vacuity guard: only {} non-empty results / {} distinct result sizes", nonempty, outcome_hist.len()))
	} else {
		None
	};
	rep.finish(vac)
}
