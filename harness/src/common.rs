//! Shared plumbing: panic capture, evidence writer, known findings, replay files, tiers.

use serde_json::{json, Value};
use std::cell::RefCell;
use std::collections::BTreeMap;
use std::sync::Mutex;
use std::time::Instant;

thread_local! {
	/// (message, file:line) of the last panic on this thread
	pub static LAST_PANIC: RefCell<Option<(String, String)>> = RefCell::new(None);
}

pub fn install_panic_hook() {
	std::panic::set_hook(Box::new(|info| {
		if info
			.payload()
			.downcast_ref::<crate::inject::CrashSentinel>()
			.is_some()
		{
			return;
		}
		let msg = if let Some(s) = info.payload().downcast_ref::<&str>() {
			(*s).to_owned()
		} else if let Some(s) = info.payload().downcast_ref::<String>() {
			s.clone()
		} else {
			"non-string panic".to_owned()
		};
		let loc = info
			.location()
			.map(|l| format!("{}:{}", l.file(), l.line()))
			.unwrap_or_default();
		if std::env::var("GWV_SHOW_PANICS").is_ok() {
			eprintln!("panic: {} at {}", msg, loc);
		}
		LAST_PANIC.with(|p| *p.borrow_mut() = Some((msg, loc)));
	}));
}

pub fn take_last_panic() -> Option<(String, String)> {
	LAST_PANIC.with(|p| p.borrow_mut().take())
}

/// strip the registry / repo prefix and the line number from a panic location so that
/// finding keys do not move with unrelated edits
pub fn panic_site(loc: &str) -> String {
	let file = loc.rsplitn(2, ':').last().unwrap_or(loc);
	let f = if let Some(i) = file.find("/repo/") {
		&file[i + 6..]
	} else if let Some(i) = file.find("/registry/src/") {
		let rest = &file[i + 14..];
		match rest.find('/') {
			Some(j) => &rest[j + 1..],
			None => rest,
		}
	} else {
		file
	};
	f.to_owned()
}

#[derive(Clone, Copy, PartialEq, Debug)]
pub enum Tier {
	Quick,
	Thorough,
}

pub fn tier() -> Tier {
	match std::env::var("VERIF_TIER").as_ref().map(|s| s.as_str()) {
		Ok("thorough") => Tier::Thorough,
		_ => Tier::Quick,
	}
}

pub fn seed() -> i64 {
	std::env::var("VERIF_SEED")
		.ok()
		.and_then(|s| s.parse().ok())
		.unwrap_or(0)
}

pub fn workers() -> usize {
	std::env::var("GWV_WORKERS")
		.ok()
		.and_then(|s| s.parse().ok())
		.unwrap_or(16)
}

/// A violation candidate produced by a property check
#[derive(Clone, Debug)]
pub struct Finding {
	/// stable key: <property>/<clause>/<site>/<class>
	pub key: String,
	/// human description
	pub what: String,
	/// replay payload (written to /verif/replays/<file>)
	pub replay: Value,
}

pub struct Report {
	pub property: String,
	pub level: String,
	pub start: Instant,
	pub coverage: BTreeMap<String, Value>,
	pub assumptions: Vec<String>,
	pub findings: Mutex<Vec<Finding>>,
}

#[derive(Deserialize, Debug, Clone)]
pub struct KnownEntry {
	pub property: String,
	pub key: String,
	pub status: String,
	pub what: String,
}

pub fn verif_root() -> String {
	std::env::var("VERIF_ROOT").unwrap_or_else(|_| "/verif".to_owned())
}

pub fn load_known() -> Vec<KnownEntry> {
	let p = format!("{}/known_findings.json", verif_root());
	match std::fs::read(&p) {
		Ok(b) => {
			let v: Value = serde_json::from_slice(&b).expect("known_findings.json parse");
			serde_json::from_value(v["findings"].clone()).expect("known_findings.json entries")
		}
		Err(_) => vec![],
	}
}

impl Report {
	pub fn new(property: &str, level: &str) -> Report {
		Report {
			property: property.to_owned(),
			level: level.to_owned(),
			start: Instant::now(),
			coverage: BTreeMap::new(),
			assumptions: vec![],
			findings: Mutex::new(vec![]),
		}
	}

	pub fn cov(&mut self, k: &str, v: Value) {
		self.coverage.insert(k.to_owned(), v);
	}

	pub fn assume(&mut self, s: &str) {
		self.assumptions.push(s.to_owned());
	}

	pub fn add_finding(&self, f: Finding) {
		let mut l = self.findings.lock().unwrap();
		// keep the first (simplest-first enumeration) finding per key
		if !l.iter().any(|x| x.key == f.key) {
			l.push(f);
		}
	}

	/// Write evidence, print KNOWN-FINDING / VIOLATION lines, return exit code.
	/// `machinery_error` forces exit 2 (vacuity guard etc.) unless violations were reported (exit 1).
	pub fn finish(mut self, machinery_error: Option<String>) -> i32 {
		let known = load_known();
		let findings = self.findings.lock().unwrap().clone();
		let mut violations = 0;
		let mut known_matched = vec![];
		let root = verif_root();
		let _ = std::fs::create_dir_all(format!("{}/replays", root));
		let _ = std::fs::create_dir_all(format!("{}/evidence", root));
		for f in findings.iter() {
			let is_known = known
				.iter()
				.any(|k| k.property == self.property && k.key == f.key && k.status == "known");
			if is_known {
				println!("KNOWN-FINDING: property={} {} [{}]", self.property, f.what, f.key);
				known_matched.push(f.key.clone());
				// replayable artefact of the known finding too (committed copies live in findings/)
				let fname = format!("{}/replays/known-{}-{:016x}.json", root, self.property, crate::world::hash_value(&json!(f.key)));
				let body = json!({"property": self.property, "key": f.key, "what": f.what, "replay": f.replay});
				let _ = std::fs::write(&fname, serde_json::to_vec_pretty(&body).unwrap());
			} else {
				violations += 1;
				let fname = format!(
					"{}/replays/{}-{:016x}.json",
					root,
					self.property,
					crate::world::hash_value(&json!(f.key))
				);
				let body = json!({"property": self.property, "key": f.key, "what": f.what, "replay": f.replay});
				std::fs::write(&fname, serde_json::to_vec_pretty(&body).unwrap()).unwrap();
				println!("VIOLATION property={} replay={}", self.property, fname);
				println!("  key: {}", f.key);
				println!("  what: {}", f.what);
			}
		}
		let wall = self.start.elapsed().as_secs_f64();
		self.coverage
			.insert("known_findings_matched".to_owned(), json!(known_matched));
		self.coverage.insert(
			"finding_keys".to_owned(),
			json!(findings.iter().map(|f| f.key.clone()).collect::<Vec<_>>()),
		);
		if let Some(e) = &machinery_error {
			self.coverage
				.insert("machinery_error".to_owned(), json!(e));
		}
		let ev = json!({
			"property_id": self.property,
			"tier": match tier() { Tier::Quick => "quick", Tier::Thorough => "thorough" },
			"seed": seed(),
			"level": self.level,
			"coverage": self.coverage,
			"assumptions": self.assumptions,
			"wall_s": wall,
			"violations": violations,
		});
		std::fs::write(
			format!("{}/evidence/{}.json", root, self.property),
			serde_json::to_vec_pretty(&ev).unwrap(),
		)
		.unwrap();
		if let Some(e) = machinery_error {
			if violations > 0 {
				// reproduced violations stand on their own: a guard that trips next to them (counts
				// shifted by the very behaviour that is reported) is a note, not the verdict
				println!("NOTE property={} machinery guard also tripped: {}", self.property, e);
				return 1;
			}
			println!("MACHINERY property={} {}", self.property, e);
			return 2;
		}
		if violations > 0 {
			1
		} else {
			println!(
				"OK property={} wall_s={:.1} known_findings={}",
				self.property,
				wall,
				known_matched.len()
			);
			0
		}
	}
}

/// Run `f` over `items` on `n` worker threads (each initialised for the chain type),
/// collecting results in input order.
pub fn par_map<T: Send + Sync, R: Send>(
	items: &[T],
	n: usize,
	f: impl Fn(usize, &T) -> R + Send + Sync,
) -> Vec<R> {
	use std::sync::atomic::{AtomicUsize, Ordering};
	let next = AtomicUsize::new(0);
	let results: Mutex<Vec<Option<R>>> = Mutex::new((0..items.len()).map(|_| None).collect());
	std::thread::scope(|s| {
		for _ in 0..n.max(1) {
			s.spawn(|| {
				crate::node::thread_init();
				loop {
					let i = next.fetch_add(1, Ordering::SeqCst);
					if i >= items.len() {
						break;
					}
					let r = f(i, &items[i]);
					results.lock().unwrap()[i] = Some(r);
				}
			});
		}
	});
	results
		.into_inner()
		.unwrap()
		.into_iter()
		.map(|r| r.unwrap())
		.collect()
}
