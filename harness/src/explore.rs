//! E2 — explicit-state exploration of histories on real worlds.
//! Level-synchronous BFS: a state is a world snapshot (chain dir + wallet dirs + meta),
//! a transition applies one operation by calling the real API, states are deduplicated
//! by the hash of a canonical projection. Deterministic: successors are merged in
//! (parent index, op index) order, so counts are identical from run to run.

use crate::common::*;
use crate::world::*;
use serde_json::{json, Value};
use std::collections::{BTreeMap, HashMap};
use std::time::{Duration, Instant};

#[derive(Default)]
pub struct StepOut {
	/// outcome label of the transition, e.g. "ok", "err:NotEnoughFunds"
	pub label: String,
	/// violations detected (key, what)
	pub problems: Vec<(String, String)>,
}

impl StepOut {
	pub fn problem(&mut self, key: impl Into<String>, what: impl Into<String>) {
		self.problems.push((key.into(), what.into()));
	}
}

pub trait Model: Sync {
	type Op: Clone + Send + Sync + serde::Serialize + serde::de::DeserializeOwned + std::fmt::Debug;
	/// build the initial world at `dir` and close it
	fn init(&self, dir: &str);
	/// operations offered in a state (simplest first)
	fn ops(&self, w: &World) -> Vec<Self::Op>;
	/// apply one operation through the real API; check transition postconditions
	fn step(&self, w: &mut World, op: &Self::Op, out: &mut StepOut);
	/// state invariants, evaluated in every reached state
	fn check(&self, w: &World, out: &mut StepOut);
	/// canonical projection used for deduplication
	fn project(&self, w: &World) -> Value;
}

pub struct Caps {
	pub max_depth: usize,
	pub wall: Duration,
	pub max_states: usize,
	/// levels up to this depth are always completed, however long they take: the wall cap only stops deeper
	/// levels (so that what a run is guaranteed to cover does not depend on how busy the machine is)
	pub min_depth: usize,
}

pub struct PathFinding<Op> {
	pub key: String,
	pub what: String,
	pub path: Vec<Op>,
}

pub struct Explored<Op> {
	pub states: usize,
	pub transitions: usize,
	pub completed_depth: usize,
	pub cap_hit: Option<String>,
	pub labels: BTreeMap<String, u64>,
	pub states_per_depth: Vec<usize>,
	pub findings: Vec<PathFinding<Op>>,
	pub sample_paths: Vec<Vec<Op>>,
	pub machinery_error: Option<String>,
	/// same-instance pass: histories re-run on one world kept open, their length bound, and whether the
	/// pass was cut short by its wall cap
	pub same_instance_paths: usize,
	pub same_instance_len: usize,
	pub same_instance_cap_hit: bool,
}

/// Set by the replay front end for findings of the same-instance pass: `run_path` then keeps one
/// world open for the whole path (and compares the final state with the one reached when every
/// handle is reopened between steps).
pub static SAME_INSTANCE_REPLAY: std::sync::atomic::AtomicBool = std::sync::atomic::AtomicBool::new(false);

/// length of the histories of the same-instance pass
fn same_instance_len() -> usize {
	if let Ok(v) = std::env::var("GWV_SAME_LEN") {
		if let Ok(n) = v.parse() {
			return n;
		}
	}
	if tier() == Tier::Thorough {
		3
	} else {
		2
	}
}

/// Run `path` from the initial snapshot on ONE world instance that stays open (no handle is dropped or
/// reopened between operations, unless the model itself does so to model a restart). Returns the problems
/// of every step (keys prefixed) and the hash of the final projection.
fn run_same_instance<M: Model>(m: &M, init: &Snapshot, dir: &str, path: &[M::Op]) -> Result<(Vec<(String, String)>, u64), String> {
	init.restore(dir);
	let mut w = World::open(dir);
	let mut problems = vec![];
	for (i, op) in path.iter().enumerate() {
		let mut out = StepOut::default();
		let r = catch(|| {
			m.step(&mut w, op, &mut out);
			m.check(&w, &mut out);
		});
		if let Err(p) = r {
			let site = take_last_panic().map(|x| panic_site(&x.1)).unwrap_or_default();
			drop(w);
			let _ = std::fs::remove_dir_all(dir);
			if i + 1 == path.len() {
				problems.push((format!("same-instance/panic/{}", site), format!("operation {:?} panicked on a wallet instance kept open: {}", op, p)));
				return Ok((problems, 0));
			}
			return Err(format!("panic in the middle of a same-instance path at step {}", i));
		}
		for (k, what) in out.problems {
			problems.push((format!("same-instance/{}", k), format!("{} (on a wallet instance kept open across the whole history)", what)));
		}
	}
	let h = hash_value(&m.project(&w));
	w.close();
	let _ = std::fs::remove_dir_all(dir);
	Ok((problems, h))
}

/// reopen-mode run of a path from a snapshot: hash of the final projection
fn run_reopened<M: Model>(m: &M, init: &Snapshot, dir: &str, path: &[M::Op]) -> Result<u64, String> {
	init.restore(dir);
	for (i, op) in path.iter().enumerate() {
		let mut w = World::open(dir);
		let mut out = StepOut::default();
		if catch(|| m.step(&mut w, op, &mut out)).is_err() {
			let _ = take_last_panic();
			drop(w);
			return Err(format!("panic at step {} of the reopened run", i));
		}
		w.close();
	}
	let w = World::open(dir);
	let h = hash_value(&m.project(&w));
	w.close();
	let _ = std::fs::remove_dir_all(dir);
	Ok(h)
}

const SAME_DIFFERS: &str = "same-instance/state-differs-from-reopened";

fn same_instance_verdict<M: Model>(m: &M, init: &Snapshot, dir: &str, path: &[M::Op], reopened_hash: Option<u64>) -> Result<Vec<(String, String)>, String> {
	let (mut problems, h) = run_same_instance(m, init, &format!("{}-s", dir), path)?;
	let hr = match reopened_hash {
		Some(h) => h,
		None => run_reopened(m, init, &format!("{}-r", dir), path)?,
	};
	if h != 0 && h != hr {
		problems.push((
			SAME_DIFFERS.to_owned(),
			"the history leaves another wallet state when it runs on one wallet instance kept open than when the wallet is reopened between operations: the instance acts on state it keeps in memory".to_owned(),
		));
	}
	Ok(problems)
}

struct Node<Op> {
	snap: Snapshot,
	path: Vec<Op>,
}

struct Succ<Op> {
	parent: usize,
	op_idx: usize,
	op: Op,
	label: String,
	problems: Vec<(String, String)>,
	hash: Option<u64>,
	snap: Option<Snapshot>,
}

/// run init + path in a fresh directory; returns problems seen at the LAST step (and state)
pub fn run_path<M: Model>(m: &M, dir: &str, path: &[M::Op]) -> Result<Vec<(String, String)>, String> {
	let _ = std::fs::remove_dir_all(dir);
	m.init(dir);
	if SAME_INSTANCE_REPLAY.load(std::sync::atomic::Ordering::SeqCst) {
		let init = Snapshot::capture(dir);
		let _ = std::fs::remove_dir_all(dir);
		return same_instance_verdict(m, &init, dir, path, None);
	}
	let mut last = vec![];
	for (i, op) in path.iter().enumerate() {
		let mut w = World::open(dir);
		let mut out = StepOut::default();
		let r = catch(|| {
			m.step(&mut w, op, &mut out);
			m.check(&w, &mut out);
		});
		if let Err(p) = r {
			let site = take_last_panic().map(|x| panic_site(&x.1)).unwrap_or_default();
			out.problem(format!("panic/{}", site), format!("operation {:?} panicked: {}", op, p));
			drop(w);
			if i + 1 == path.len() {
				return Ok(out.problems);
			}
			return Err(format!("panic in the middle of a replayed path at step {}", i));
		}
		w.close();
		if i + 1 == path.len() {
			last = out.problems;
		}
	}
	Ok(last)
}

pub fn explore<M: Model>(m: &M, tag: &str, caps: &Caps) -> Explored<M::Op> {
	let start = Instant::now();
	let root = scratch_root();
	let nworkers = workers();
	let mut res = Explored {
		states: 0,
		transitions: 0,
		completed_depth: 0,
		cap_hit: None,
		labels: BTreeMap::new(),
		states_per_depth: vec![],
		findings: vec![],
		sample_paths: vec![],
		machinery_error: None,
		same_instance_paths: 0,
		same_instance_len: same_instance_len(),
		same_instance_cap_hit: false,
	};
	// initial state
	let init_dir = format!("{}/{}-init", root, tag);
	m.init(&init_dir);
	let (h0, problems0) = {
		let w = World::open(&init_dir);
		let mut out = StepOut::default();
		m.check(&w, &mut out);
		let h = hash_value(&m.project(&w));
		w.close();
		(h, out.problems)
	};
	for (k, what) in problems0 {
		res.findings.push(PathFinding { key: k, what, path: vec![] });
	}
	let mut visited: HashMap<u64, usize> = HashMap::new();
	visited.insert(h0, 0);
	let init_snap = Snapshot::capture(&init_dir);
	let mut frontier: Vec<Node<M::Op>> = vec![Node {
		snap: init_snap.clone(),
		path: vec![],
	}];
	// (history, hash of the state it reaches) of every distinct state within the same-instance bound
	let mut si_cases: Vec<(Vec<M::Op>, u64)> = vec![];
	let _ = std::fs::remove_dir_all(&init_dir);
	res.states = 1;
	res.states_per_depth.push(1);

	for depth in 1..=caps.max_depth {
		if frontier.is_empty() {
			break;
		}
		let deadline_hit = std::sync::atomic::AtomicBool::new(false);
		let idxs: Vec<usize> = (0..frontier.len()).collect();
		let fr = &frontier;
		let per_parent: Vec<Vec<Succ<M::Op>>> = par_map(&idxs, nworkers, |_, pi| {
			let mut succs = vec![];
			if depth > caps.min_depth && start.elapsed() > caps.wall {
				deadline_hit.store(true, std::sync::atomic::Ordering::SeqCst);
				return succs;
			}
			let parent = &fr[*pi];
			let dir = format!("{}/{}-w{:?}", root, tag, std::thread::current().id()).replace("ThreadId(", "").replace(")", "");
			// ops offered in this state
			parent.snap.restore(&dir);
			let ops = {
				let w = World::open(&dir);
				let o = m.ops(&w);
				drop(w);
				o
			};
			let mut dirty = false;
			for (oi, op) in ops.iter().enumerate() {
				if dirty {
					parent.snap.restore(&dir);
				}
				dirty = true;
				let mut w = World::open(&dir);
				let mut out = StepOut::default();
				let r = catch(|| {
					m.step(&mut w, op, &mut out);
					m.check(&w, &mut out);
				});
				match r {
					Err(p) => {
						let site = take_last_panic().map(|x| panic_site(&x.1)).unwrap_or_default();
						out.problem(format!("panic/{}", site), format!("operation {:?} panicked: {}", op, p));
						drop(w);
						succs.push(Succ {
							parent: *pi,
							op_idx: oi,
							op: op.clone(),
							label: "panic".to_owned(),
							problems: out.problems,
							hash: None,
							snap: None,
						});
					}
					Ok(()) => {
						let h = hash_value(&m.project(&w));
						w.close();
						succs.push(Succ {
							parent: *pi,
							op_idx: oi,
							op: op.clone(),
							label: out.label,
							problems: out.problems,
							hash: Some(h),
							snap: Some(Snapshot::capture(&dir)),
						});
					}
				}
			}
			let _ = std::fs::remove_dir_all(&dir);
			succs
		});
		if deadline_hit.load(std::sync::atomic::Ordering::SeqCst) {
			res.cap_hit = Some(format!("wall-time cap {:?} hit while expanding depth {}", caps.wall, depth));
			break;
		}
		// merge deterministically
		let mut next: Vec<Node<M::Op>> = vec![];
		for succs in per_parent {
			for s in succs {
				res.transitions += 1;
				*res.labels.entry(format!("{}:{}", op_name(&s.op), s.label)).or_insert(0) += 1;
				let mut path = frontier[s.parent].path.clone();
				path.push(s.op.clone());
				for (k, what) in s.problems {
					if !res.findings.iter().any(|f| f.key == k) {
						res.findings.push(PathFinding { key: k, what, path: path.clone() });
					}
				}
				let _ = s.op_idx;
				if let (Some(h), Some(snap)) = (s.hash, s.snap) {
					if !visited.contains_key(&h) {
						visited.insert(h, depth);
						if res.sample_paths.len() < 5 && path.len() >= 2 {
							res.sample_paths.push(path.clone());
						}
						if path.len() <= res.same_instance_len {
							si_cases.push((path.clone(), h));
						}
						next.push(Node { snap, path });
					}
				}
			}
		}
		res.states += next.len();
		res.states_per_depth.push(next.len());
		res.completed_depth = depth;
		frontier = next;
		if res.states > caps.max_states {
			res.cap_hit = Some(format!("state cap {} hit after completing depth {}", caps.max_states, depth));
			break;
		}
	}
	// same-instance pass: the BFS reopens every wallet handle between two operations, so state that an
	// instance keeps in memory never survives a step there. Every history up to the bound that reached a
	// new state is run again on one world kept open; the per-step checks apply, and the final state must
	// be the one the reopened run reached.
	let si_findings: Vec<PathFinding<M::Op>> = {
		let si_start = Instant::now();
		let si_wall = if tier() == Tier::Thorough { Duration::from_secs(240) } else { Duration::from_secs(25) };
		let cut = std::sync::atomic::AtomicBool::new(false);
		let done = std::sync::atomic::AtomicUsize::new(0);
		let outs = par_map(&si_cases, nworkers, |i, (path, h)| {
			if si_start.elapsed() > si_wall {
				cut.store(true, std::sync::atomic::Ordering::SeqCst);
				return Ok(vec![]);
			}
			done.fetch_add(1, std::sync::atomic::Ordering::SeqCst);
			same_instance_verdict(m, &init_snap, &format!("{}/{}-si{}", root, tag, i), path, Some(*h))
		});
		res.same_instance_paths = done.load(std::sync::atomic::Ordering::SeqCst);
		res.same_instance_cap_hit = cut.load(std::sync::atomic::Ordering::SeqCst);
		let mut v: Vec<PathFinding<M::Op>> = vec![];
		for ((path, _), o) in si_cases.iter().zip(outs.into_iter()) {
			match o {
				Err(e) => res.machinery_error = Some(format!("same-instance pass: {} (path {:?})", e, path)),
				Ok(problems) => {
					for (k, what) in problems {
						if !v.iter().any(|f| f.key == k) && !res.findings.iter().any(|f| format!("same-instance/{}", f.key) == k) {
							v.push(PathFinding { key: k, what, path: path.clone() });
						}
					}
				}
			}
		}
		// replay twice, in the same mode
		for f in v.iter() {
			for r in 0..2 {
				let dir = format!("{}/{}-sireplay{}", root, tag, r);
				match same_instance_verdict(m, &init_snap, &dir, &f.path, None) {
					Ok(problems) if problems.iter().any(|p| p.0 == f.key) => {}
					_ => res.machinery_error = Some(format!("same-instance finding {} did not reproduce when its path {:?} was replayed", f.key, f.path)),
				}
			}
		}
		v
	};
	// replay-twice rule for every finding
	let mut confirmed = vec![];
	for f in res.findings.drain(..) {
		let mut ok = true;
		for r in 0..2 {
			let dir = format!("{}/{}-replay{}", root, tag, r);
			match run_path(m, &dir, &f.path) {
				Ok(problems) => {
					if !problems.iter().any(|p| p.0 == f.key) {
						ok = false;
					}
				}
				Err(_) => ok = false,
			}
			let _ = std::fs::remove_dir_all(&dir);
		}
		if !ok {
			res.machinery_error = Some(format!("finding {} did not reproduce when its path {:?} was replayed", f.key, f.path));
		}
		confirmed.push(f);
	}
	res.findings = confirmed;
	res.findings.extend(si_findings);
	res
}

fn op_name<Op: std::fmt::Debug>(op: &Op) -> String {
	let s = format!("{:?}", op);
	s.split(|c: char| c == '(' || c == '{' || c == ' ').next().unwrap_or("").to_owned()
}

/// copy the exploration result into a report
pub fn report_explored<Op: serde::Serialize + std::fmt::Debug>(rep: &mut Report, prop: &str, tag: &str, e: &Explored<Op>) {
	rep.cov(&format!("{}_states", tag), json!(e.states));
	rep.cov(&format!("{}_transitions", tag), json!(e.transitions));
	rep.cov(&format!("{}_completed_depth", tag), json!(e.completed_depth));
	rep.cov(&format!("{}_states_per_depth", tag), json!(e.states_per_depth));
	rep.cov(&format!("{}_cap_hit", tag), json!(e.cap_hit));
	rep.cov(&format!("{}_outcomes", tag), json!(e.labels));
	rep.cov(&format!("{}_same_instance", tag), json!({"histories_rerun_on_one_open_instance": e.same_instance_paths, "history_length_bound": e.same_instance_len, "wall_cap_hit": e.same_instance_cap_hit}));
	for f in e.findings.iter() {
		let same = f.key.starts_with("same-instance/");
		rep.add_finding(Finding {
			key: format!("{}/{}", prop, f.key),
			what: format!("{} — after {:?}", f.what, f.path),
			replay: if same { json!({"kind": tag, "path": f.path, "same_instance": true}) } else { json!({"kind": tag, "path": f.path}) },
		});
	}
}
