//! E2 — explicit-state exploration of histories on real worlds.
//! Level-synchronous BFS: a state is a world snapshot (chain dir + wallet dirs + meta),
//! a transition applies one operation by calling the real API, states are deduplicated
//! by the hash of a canonical projection. Deterministic: successors are merged in
//! (parent index, op index) order, so counts are identical from run to run.

use crate::common::*;
use crate::world::*;
use serde_json::{json, Value};
use std::collections::{BTreeMap, HashMap};
use std::time::{Duration, Instant};

#[derive(Default)]
pub struct StepOut {
	/// outcome label of the transition, e.g. "ok", "err:NotEnoughFunds"
	pub label: String,
	/// violations detected (key, what)
	pub problems: Vec<(String, String)>,
}

impl StepOut {
	pub fn problem(&mut self, key: impl Into<String>, what: impl Into<String>) {
		self.problems.push((key.into(), what.into()));
	}
}

pub trait Model: Sync {
	type Op: Clone + Send + Sync + serde::Serialize + serde::de::DeserializeOwned + std::fmt::Debug;
	/// build the initial world at `dir` and close it
	fn init(&self, dir: &str);
	/// operations offered in a state (simplest first)
	fn ops(&self, w: &World) -> Vec<Self::Op>;
	/// apply one operation through the real API; check transition postconditions
	fn step(&self, w: &mut World, op: &Self::Op, out: &mut StepOut);
	/// state invariants, evaluated in every reached state
	fn check(&self, w: &World, out: &mut StepOut);
	/// canonical projection used for deduplication
	fn project(&self, w: &World) -> Value;
}

pub struct Caps {
	pub max_depth: usize,
	pub wall: Duration,
	pub max_states: usize,
}

pub struct PathFinding<Op> {
	pub key: String,
	pub what: String,
	pub path: Vec<Op>,
}

pub struct Explored<Op> {
	pub states: usize,
	pub transitions: usize,
	pub completed_depth: usize,
	pub cap_hit: Option<String>,
	pub labels: BTreeMap<String, u64>,
	pub states_per_depth: Vec<usize>,
	pub findings: Vec<PathFinding<Op>>,
	pub sample_paths: Vec<Vec<Op>>,
	pub machinery_error: Option<String>,
}

struct Node<Op> {
	snap: Snapshot,
	path: Vec<Op>,
}

struct Succ<Op> {
	parent: usize,
	op_idx: usize,
	op: Op,
	label: String,
	problems: Vec<(String, String)>,
	hash: Option<u64>,
	snap: Option<Snapshot>,
}

/// run init + path in a fresh directory; returns problems seen at the LAST step (and state)
pub fn run_path<M: Model>(m: &M, dir: &str, path: &[M::Op]) -> Result<Vec<(String, String)>, String> {
	let _ = std::fs::remove_dir_all(dir);
	m.init(dir);
	let mut last = vec![];
	for (i, op) in path.iter().enumerate() {
		let mut w = World::open(dir);
		let mut out = StepOut::default();
		let r = catch(|| {
			m.step(&mut w, op, &mut out);
			m.check(&w, &mut out);
		});
		if let Err(p) = r {
			let site = take_last_panic().map(|x| panic_site(&x.1)).unwrap_or_default();
			out.problem(format!("panic/{}", site), format!("operation {:?} panicked: {}", op, p));
			drop(w);
			if i + 1 == path.len() {
				return Ok(out.problems);
			}
			return Err(format!("panic in the middle of a replayed path at step {}", i));
		}
		w.close();
		if i + 1 == path.len() {
			last = out.problems;
		}
	}
	Ok(last)
}

pub fn explore<M: Model>(m: &M, tag: &str, caps: &Caps) -> Explored<M::Op> {
	let start = Instant::now();
	let root = scratch_root();
	let nworkers = workers();
	let mut res = Explored {
		states: 0,
		transitions: 0,
		completed_depth: 0,
		cap_hit: None,
		labels: BTreeMap::new(),
		states_per_depth: vec![],
		findings: vec![],
		sample_paths: vec![],
		machinery_error: None,
	};
	// initial state
	let init_dir = format!("{}/{}-init", root, tag);
	m.init(&init_dir);
	let (h0, problems0) = {
		let w = World::open(&init_dir);
		let mut out = StepOut::default();
		m.check(&w, &mut out);
		let h = hash_value(&m.project(&w));
		w.close();
		(h, out.problems)
	};
	for (k, what) in problems0 {
		res.findings.push(PathFinding { key: k, what, path: vec![] });
	}
	let mut visited: HashMap<u64, usize> = HashMap::new();
	visited.insert(h0, 0);
	let mut frontier: Vec<Node<M::Op>> = vec![Node {
		snap: Snapshot::capture(&init_dir),
		path: vec![],
	}];
	let _ = std::fs::remove_dir_all(&init_dir);
	res.states = 1;
	res.states_per_depth.push(1);

	for depth in 1..=caps.max_depth {
		if frontier.is_empty() {
			break;
		}
		let deadline_hit = std::sync::atomic::AtomicBool::new(false);
		let idxs: Vec<usize> = (0..frontier.len()).collect();
		let fr = &frontier;
		let per_parent: Vec<Vec<Succ<M::Op>>> = par_map(&idxs, nworkers, |_, pi| {
			let mut succs = vec![];
			if start.elapsed() > caps.wall {
				deadline_hit.store(true, std::sync::atomic::Ordering::SeqCst);
				return succs;
			}
			let parent = &fr[*pi];
			let dir = format!("{}/{}-w{:?}", root, tag, std::thread::current().id()).replace("ThreadId(", "").replace(")", "");
			// ops offered in this state
			parent.snap.restore(&dir);
			let ops = {
				let w = World::open(&dir);
				let o = m.ops(&w);
				drop(w);
				o
			};
			let mut dirty = false;
			for (oi, op) in ops.iter().enumerate() {
				if dirty {
					parent.snap.restore(&dir);
				}
				dirty = true;
				let mut w = World::open(&dir);
				let mut out = StepOut::default();
				let r = catch(|| {
					m.step(&mut w, op, &mut out);
					m.check(&w, &mut out);
				});
				match r {
					Err(p) => {
						let site = take_last_panic().map(|x| panic_site(&x.1)).unwrap_or_default();
						out.problem(format!("panic/{}", site), format!("operation {:?} panicked: {}", op, p));
						drop(w);
						succs.push(Succ {
							parent: *pi,
							op_idx: oi,
							op: op.clone(),
							label: "panic".to_owned(),
							problems: out.problems,
							hash: None,
							snap: None,
						});
					}
					Ok(()) => {
						let h = hash_value(&m.project(&w));
						w.close();
						succs.push(Succ {
							parent: *pi,
							op_idx: oi,
							op: op.clone(),
							label: out.label,
							problems: out.problems,
							hash: Some(h),
							snap: Some(Snapshot::capture(&dir)),
						});
					}
				}
			}
			let _ = std::fs::remove_dir_all(&dir);
			succs
		});
		if deadline_hit.load(std::sync::atomic::Ordering::SeqCst) {
			res.cap_hit = Some(format!("wall-time cap {:?} hit while expanding depth {}", caps.wall, depth));
			break;
		}
		// merge deterministically
		let mut next: Vec<Node<M::Op>> = vec![];
		for succs in per_parent {
			for s in succs {
				res.transitions += 1;
				*res.labels.entry(format!("{}:{}", op_name(&s.op), s.label)).or_insert(0) += 1;
				let mut path = frontier[s.parent].path.clone();
				path.push(s.op.clone());
				for (k, what) in s.problems {
					if !res.findings.iter().any(|f| f.key == k) {
						res.findings.push(PathFinding { key: k, what, path: path.clone() });
					}
				}
				let _ = s.op_idx;
				if let (Some(h), Some(snap)) = (s.hash, s.snap) {
					if !visited.contains_key(&h) {
						visited.insert(h, depth);
						if res.sample_paths.len() < 5 && path.len() >= 2 {
							res.sample_paths.push(path.clone());
						}
						next.push(Node { snap, path });
					}
				}
			}
		}
		res.states += next.len();
		res.states_per_depth.push(next.len());
		res.completed_depth = depth;
		frontier = next;
		if res.states > caps.max_states {
			res.cap_hit = Some(format!("state cap {} hit after completing depth {}", caps.max_states, depth));
			break;
		}
	}
	// replay-twice rule for every finding
	let mut confirmed = vec![];
	for f in res.findings.drain(..) {
		let mut ok = true;
		for r in 0..2 {
			let dir = format!("{}/{}-replay{}", root, tag, r);
			match run_path(m, &dir, &f.path) {
				Ok(problems) => {
					if !problems.iter().any(|p| p.0 == f.key) {
						ok = false;
					}
				}
				Err(_) => ok = false,
			}
			let _ = std::fs::remove_dir_all(&dir);
		}
		if !ok {
			res.machinery_error = Some(format!("finding {} did not reproduce when its path {:?} was replayed", f.key, f.path));
		}
		confirmed.push(f);
	}
	res.findings = confirmed;
	res
}

fn op_name<Op: std::fmt::Debug>(op: &Op) -> String {
	let s = format!("{:?}", op);
	s.split(|c: char| c == '(' || c == '{' || c == ' ').next().unwrap_or("").to_owned()
}

/// copy the exploration result into a report
pub fn report_explored<Op: serde::Serialize + std::fmt::Debug>(rep: &mut Report, prop: &str, tag: &str, e: &Explored<Op>) {
	rep.cov(&format!("{}_states", tag), json!(e.states));
	rep.cov(&format!("{}_transitions", tag), json!(e.transitions));
	rep.cov(&format!("{}_completed_depth", tag), json!(e.completed_depth));
	rep.cov(&format!("{}_states_per_depth", tag), json!(e.states_per_depth));
	rep.cov(&format!("{}_cap_hit", tag), json!(e.cap_hit));
	rep.cov(&format!("{}_outcomes", tag), json!(e.labels));
	for f in e.findings.iter() {
		rep.add_finding(Finding {
			key: format!("{}/{}", prop, f.key),
			what: format!("{} — after {:?}", f.what, f.path),
			replay: json!({"kind": tag, "path": f.path}),
		});
	}
}
