//! The "node": a real grin_chain::Chain owned by the harness, plus a synchronous
//! NodeClient (`DirectClient`) over it with fault plans, paging and a yield hook.
//! Mirrors impls::test_framework (WalletProxy handlers / create_block_with_reward)
//! but without the proxy thread, and without mining a block on post_tx.

use crate::core::core::hash::Hashed;
use crate::core::core::Committed;
use crate::core::core::{Block, BlockHeader, Output, OutputFeatures, Transaction, TxKernel};
use crate::core::global::{self, ChainTypes};
use crate::core::{consensus, pow};
use crate::libwallet::{self, NodeClient, NodeVersionInfo};
use crate::util::secp::pedersen;
use crate::util::ToHex;
use chrono::Duration;
use grin_chain::types::NoopAdapter;
use grin_chain::{self as chain, Chain};
use std::collections::HashMap;
use std::sync::atomic::{AtomicU64, Ordering};
use std::sync::{Arc, Mutex};

/// Per-thread global setup (chain type is thread local in grin_core)
pub fn thread_init() {
	global::set_local_chain_type(ChainTypes::AutomatedTesting);
}

/// What a node call does when the fault plan fires
#[derive(Clone, Debug, Default)]
pub struct FaultPlan {
	/// fail the k-th call (0-based, counted from when the plan was set); None = never
	pub fail_at: Option<u64>,
	/// fail every call from the k-th on (node down)
	pub fail_from: Option<u64>,
}

pub type YieldHook = Arc<dyn Fn(&'static str) + Send + Sync>;

pub struct Node {
	pub dir: String,
	pub chain: Arc<Chain>,
	pub mempool: Mutex<Vec<Transaction>>,
	pub calls: AtomicU64,
	pub plan_base: AtomicU64,
	pub fault: Mutex<FaultPlan>,
	/// page size for get_outputs_by_pmmr_index (0 = as requested)
	pub page: AtomicU64,
	pub yield_hook: Mutex<Option<YieldHook>>,
	/// log of call names since last reset (for diagnostics / enumeration)
	pub call_log: Mutex<Vec<&'static str>>,
	/// when set, tip / output / kernel queries are answered from this table instead of
	/// the chain (C01: wallets whose outputs are written directly)
	pub stub: Mutex<Option<Stub>>,
}

#[derive(Clone, Default)]
pub struct Stub {
	pub height: u64,
	/// None = every queried output is reported unspent at height 1
	pub unspent: Option<HashMap<pedersen::Commitment, (u64, u64)>>,
}

impl Node {
	pub fn open(dir: &str) -> Arc<Node> {
		thread_init();
		let genesis = global::get_genesis_block();
		let c = Chain::init(
			format!("{}/.grin", dir),
			Arc::new(NoopAdapter {}),
			genesis,
			pow::verify_size,
			false,
		)
		.expect("chain init");
		Arc::new(Node {
			dir: dir.to_owned(),
			chain: Arc::new(c),
			mempool: Mutex::new(vec![]),
			calls: AtomicU64::new(0),
			plan_base: AtomicU64::new(0),
			fault: Mutex::new(FaultPlan::default()),
			page: AtomicU64::new(0),
			yield_hook: Mutex::new(None),
			call_log: Mutex::new(vec![]),
			stub: Mutex::new(None),
		})
	}

	pub fn set_fault(&self, plan: FaultPlan) {
		self.plan_base
			.store(self.calls.load(Ordering::SeqCst), Ordering::SeqCst);
		*self.fault.lock().unwrap() = plan;
		self.call_log.lock().unwrap().clear();
	}

	pub fn clear_fault(&self) {
		self.set_fault(FaultPlan::default());
	}

	/// calls made since the last set_fault
	pub fn calls_since_plan(&self) -> u64 {
		self.calls.load(Ordering::SeqCst) - self.plan_base.load(Ordering::SeqCst)
	}

	fn enter(&self, name: &'static str) -> Result<(), libwallet::Error> {
		let hook = self.yield_hook.lock().unwrap().clone();
		if let Some(h) = hook {
			h(name);
		}
		let n = self.calls.fetch_add(1, Ordering::SeqCst) - self.plan_base.load(Ordering::SeqCst);
		self.call_log.lock().unwrap().push(name);
		let f = self.fault.lock().unwrap().clone();
		if f.fail_at == Some(n) || f.fail_from.map(|k| n >= k).unwrap_or(false) {
			return Err(libwallet::Error::ClientCallback(format!(
				"injected node fault at call {} ({})",
				n, name
			)));
		}
		Ok(())
	}

	pub fn height(&self) -> u64 {
		self.chain.head().unwrap().height
	}

	pub fn head_header(&self) -> BlockHeader {
		self.chain.head_header().unwrap()
	}

	/// is the commitment in the current UTXO set
	pub fn is_unspent(&self, commit: &pedersen::Commitment) -> bool {
		self.chain.get_unspent(*commit).unwrap().is_some()
	}

	/// (height, is_coinbase) of an unspent output
	pub fn unspent_info(&self, commit: &pedersen::Commitment) -> Option<(u64, bool, u64)> {
		match self.chain.get_unspent(*commit).unwrap() {
			Some((oid, pos)) => Some((
				pos.height,
				oid.features == OutputFeatures::Coinbase,
				pos.pos,
			)),
			None => None,
		}
	}

	pub fn kernel_on_chain(&self, excess: &pedersen::Commitment) -> Option<u64> {
		self.chain
			.get_kernel_height(excess, None, None)
			.unwrap()
			.map(|k| k.1)
	}

	/// Build a block on `prev` (must be the current head, or any known header when
	/// `fork` is true) with the given reward and transactions.
	pub fn build_block(
		&self,
		prev: &BlockHeader,
		txs: &[Transaction],
		reward: (Output, TxKernel),
	) -> Block {
		let head = self.chain.head_header().unwrap();
		let is_fork = head.hash() != prev.hash();
		let next_header_info = if is_fork {
			let iter = chain::store::DifficultyIter::from(prev.hash(), self.chain.store());
			consensus::next_difficulty(prev.height + 1, iter)
		} else {
			consensus::next_difficulty(prev.height + 1, self.chain.difficulty_iter().unwrap())
		};
		let mut b = Block::new(prev, txs, next_header_info.clone().difficulty, reward).unwrap();
		b.header.timestamp = prev.timestamp + Duration::seconds(60);
		b.header.pow.secondary_scaling = next_header_info.secondary_scaling;
		// handles side branches itself (rewind_and_apply_fork to the previous header)
		self.chain.set_txhashset_roots(&mut b).unwrap();
		pow::pow_size(
			&mut b.header,
			next_header_info.difficulty,
			global::proofsize(),
			global::min_edge_bits(),
		)
		.unwrap();
		b
	}

	/// Process a block; returns true if it became the new head
	pub fn process(&self, b: Block) -> Result<bool, chain::Error> {
		let r = self.chain.process_block(b, chain::Options::MINE)?;
		Ok(r.is_some())
	}

	/// Take mempool txs that are still valid against the current chain state and
	/// mutually compatible; the rest stay behind (dropped from mempool).
	pub fn take_mempool(&self) -> Vec<Transaction> {
		let mut mp = self.mempool.lock().unwrap();
		let mut taken: Vec<Transaction> = vec![];
		let mut used: Vec<pedersen::Commitment> = vec![];
		for tx in mp.drain(..) {
			if self.chain.validate_tx(&tx).is_err() {
				continue;
			}
			let ins: Vec<pedersen::Commitment> =
				tx.inputs_committed();
			if ins.iter().any(|c| used.contains(c)) {
				continue;
			}
			used.extend(ins);
			taken.push(tx);
		}
		taken
	}

	pub fn mempool_len(&self) -> usize {
		self.mempool.lock().unwrap().len()
	}
}

/// Synchronous NodeClient over the harness-owned chain
#[derive(Clone)]
pub struct DirectClient {
	pub node: Arc<Node>,
}

impl DirectClient {
	pub fn new(node: Arc<Node>) -> Self {
		DirectClient { node }
	}
}

impl NodeClient for DirectClient {
	fn node_url(&self) -> &str {
		"node"
	}
	fn node_api_secret(&self) -> Option<String> {
		None
	}
	fn set_node_url(&mut self, _node_url: &str) {}
	fn set_node_api_secret(&mut self, _node_api_secret: Option<String>) {}
	fn get_version_info(&mut self) -> Option<NodeVersionInfo> {
		None
	}

	fn post_tx(&self, tx: &Transaction, _fluff: bool) -> Result<(), libwallet::Error> {
		self.node.enter("post_tx")?;
		self.node
			.chain
			.validate_tx(tx)
			.map_err(|e| libwallet::Error::ClientCallback(format!("post_tx rejected: {}", e)))?;
		tx.validate(crate::core::core::Weighting::AsTransaction)
			.map_err(|e| libwallet::Error::ClientCallback(format!("post_tx invalid: {}", e)))?;
		let mut mp = self.node.mempool.lock().unwrap();
		let ins = tx.inputs_committed();
		for other in mp.iter() {
			if other.kernels() == tx.kernels() {
				// same tx reposted: accepted idempotently by a real pool as duplicate error;
				// we accept silently
				return Ok(());
			}
			let oins = other.inputs_committed();
			if ins.iter().any(|c| oins.contains(c)) {
				return Err(libwallet::Error::ClientCallback(
					"post_tx rejected: double spend in pool".to_owned(),
				));
			}
		}
		mp.push(tx.clone());
		Ok(())
	}

	fn get_chain_tip(&self) -> Result<(u64, String), libwallet::Error> {
		self.node.enter("get_chain_tip")?;
		if let Some(st) = self.node.stub.lock().unwrap().as_ref() {
			return Ok((st.height, format!("{:064x}", st.height)));
		}
		let head = self.node.chain.head().unwrap();
		Ok((head.height, head.last_block_h.to_hex()))
	}

	fn get_outputs_from_node(
		&self,
		wallet_outputs: Vec<pedersen::Commitment>,
	) -> Result<HashMap<pedersen::Commitment, (String, u64, u64)>, libwallet::Error> {
		self.node.enter("get_outputs_from_node")?;
		if let Some(st) = self.node.stub.lock().unwrap().as_ref() {
			let mut res = HashMap::new();
			for commit in wallet_outputs {
				match &st.unspent {
					None => {
						res.insert(commit, (commit.as_ref().to_hex(), 1, 1));
					}
					Some(m) => {
						if let Some((h, i)) = m.get(&commit) {
							res.insert(commit, (commit.as_ref().to_hex(), *h, *i));
						}
					}
				}
			}
			return Ok(res);
		}
		let chain = &self.node.chain;
		let mut res = HashMap::new();
		for commit in wallet_outputs {
			if chain.get_unspent(commit).unwrap().is_some() {
				let height = chain.get_header_for_output(commit).unwrap().height;
				let pos = chain.get_output_pos(&commit).unwrap_or(0);
				res.insert(commit, (commit.as_ref().to_hex(), height, pos));
			}
		}
		Ok(res)
	}

	fn get_kernel(
		&mut self,
		excess: &pedersen::Commitment,
		min_height: Option<u64>,
		max_height: Option<u64>,
	) -> Result<Option<(TxKernel, u64, u64)>, libwallet::Error> {
		self.node.enter("get_kernel")?;
		if self.node.stub.lock().unwrap().is_some() {
			return Ok(None);
		}
		// the wire format of the test proxy (and the HTTP API) maps 0 to "no bound"
		let min = match min_height {
			Some(0) | None => None,
			m => m,
		};
		let max = match max_height {
			Some(0) | None => None,
			m => m,
		};
		self.node
			.chain
			.get_kernel_height(excess, min, max)
			.map_err(|e| libwallet::Error::ClientCallback(format!("get_kernel: {}", e)))
	}

	fn get_outputs_by_pmmr_index(
		&self,
		start_index: u64,
		end_index: Option<u64>,
		max_outputs: u64,
	) -> Result<
		(
			u64,
			u64,
			Vec<(pedersen::Commitment, pedersen::RangeProof, bool, u64, u64)>,
		),
		libwallet::Error,
	> {
		self.node.enter("get_outputs_by_pmmr_index")?;
		let start_index = std::cmp::max(start_index, 1);
		let end_index = match end_index {
			Some(0) | None => None,
			e => e,
		};
		let page = self.node.page.load(Ordering::SeqCst);
		let max = if page > 0 {
			std::cmp::min(page, max_outputs)
		} else {
			max_outputs
		};
		let chain = &self.node.chain;
		let outputs = chain
			.unspent_outputs_by_pmmr_index(start_index, max, end_index)
			.map_err(|e| libwallet::Error::ClientCallback(format!("pmmr: {}", e)))?;
		let mut api_outputs = vec![];
		for x in outputs.2.iter() {
			let printable =
				grin_api::OutputPrintable::from_output(x, chain, None, true, false).unwrap();
			let is_coinbase = match printable.output_type {
				grin_api::OutputType::Coinbase => true,
				grin_api::OutputType::Transaction => false,
			};
			api_outputs.push((
				printable.commit,
				printable.range_proof().unwrap(),
				is_coinbase,
				printable.block_height.unwrap(),
				printable.mmr_index,
			));
		}
		// (highest_index, last_retrieved_index, outputs)
		Ok((outputs.1, outputs.0, api_outputs))
	}

	fn height_range_to_pmmr_indices(
		&self,
		start_height: u64,
		end_height: Option<u64>,
	) -> Result<(u64, u64), libwallet::Error> {
		self.node.enter("height_range_to_pmmr_indices")?;
		let end_height = match end_height {
			Some(0) | None => None,
			e => e,
		};
		self.node
			.chain
			.block_height_range_to_pmmr_indices(start_height, end_height)
			.map_err(|e| libwallet::Error::ClientCallback(format!("height range: {}", e)))
	}
}
