//! The world: real chain directory + real LMDB wallet directories + harness meta
//! (mempool, slates in flight). Snapshots, projections, and thin operation helpers
//! that call the real libwallet api_impl functions.

use crate::core::core::Transaction;
use crate::core::ser;
use crate::impls::LMDBBackend;
use crate::inject::{Inj, InjectState, Injecting};
use crate::keychain::{ExtKeychain, Identifier, Keychain};
use crate::libwallet::api_impl::{foreign, owner};
use crate::libwallet::{
	self, BlockFees, Error, InitTxArgs, IssueInvoiceTxArgs, OutputData, OutputStatus,
	Slate, SlateVersion, TxLogEntry, TxLogEntryType, VersionedSlate, WalletBackend, WalletInfo,
	WalletInst, WalletLCProvider,
};
use crate::node::{DirectClient, Node};
use crate::util::secp::key::SecretKey;
use crate::util::secp::pedersen;
use crate::util::{self, Mutex, ToHex, ZeroingString};
use grin_wallet_config::{TorConfig, WalletConfig};
use serde_json::{json, Value};
use std::collections::BTreeMap;
use std::fs;
use std::path::{Path, PathBuf};
use std::sync::Arc;
use uuid::Uuid;

pub type Backend = dyn WalletBackend<'static, DirectClient, ExtKeychain>;
pub type WInst = Arc<Mutex<Box<dyn WalletInst<'static, HLC, DirectClient, ExtKeychain>>>>;

/// Harness lifecycle provider: holds an already-opened backend.
pub struct HLC {
	pub dir: String,
	pub backend: Option<Box<Backend>>,
}

fn unsupported<T>() -> Result<T, Error> {
	Err(Error::Lifecycle("not supported by harness provider".into()))
}

impl WalletLCProvider<'static, DirectClient, ExtKeychain> for HLC {
	fn set_top_level_directory(&mut self, dir: &str) -> Result<(), Error> {
		self.dir = dir.to_owned();
		Ok(())
	}
	fn get_top_level_directory(&self) -> Result<String, Error> {
		Ok(self.dir.clone())
	}
	fn create_config(
		&self,
		_chain_type: &grin_core::global::ChainTypes,
		_file_name: &str,
		_wallet_config: Option<WalletConfig>,
		_logging_config: Option<grin_util::logger::LoggingConfig>,
		_tor_config: Option<TorConfig>,
	) -> Result<(), Error> {
		unsupported()
	}
	fn create_wallet(
		&mut self,
		_name: Option<&str>,
		_mnemonic: Option<ZeroingString>,
		_mnemonic_length: usize,
		_password: ZeroingString,
		_test_mode: bool,
	) -> Result<(), Error> {
		unsupported()
	}
	fn open_wallet(
		&mut self,
		_name: Option<&str>,
		_password: ZeroingString,
		_create_mask: bool,
		_use_test_rng: bool,
	) -> Result<Option<SecretKey>, Error> {
		unsupported()
	}
	fn close_wallet(&mut self, _name: Option<&str>) -> Result<(), Error> {
		if let Some(b) = self.backend.as_mut() {
			b.close()?
		}
		self.backend = None;
		Ok(())
	}
	fn wallet_exists(&self, _name: Option<&str>) -> Result<bool, Error> {
		Ok(true)
	}
	fn get_mnemonic(
		&self,
		_name: Option<&str>,
		_password: ZeroingString,
	) -> Result<ZeroingString, Error> {
		unsupported()
	}
	fn validate_mnemonic(&self, _mnemonic: ZeroingString) -> Result<(), Error> {
		unsupported()
	}
	fn recover_from_mnemonic(
		&self,
		_mnemonic: ZeroingString,
		_password: ZeroingString,
	) -> Result<(), Error> {
		unsupported()
	}
	fn change_password(
		&self,
		_name: Option<&str>,
		_old: ZeroingString,
		_new: ZeroingString,
	) -> Result<(), Error> {
		unsupported()
	}
	fn delete_wallet(&self, _name: Option<&str>) -> Result<(), Error> {
		unsupported()
	}
	fn wallet_inst(&mut self) -> Result<&mut Box<Backend>, Error> {
		match self.backend.as_mut() {
			None => Err(Error::Lifecycle("Wallet has not been opened".into())),
			Some(b) => Ok(b),
		}
	}
}

pub struct HInst {
	pub lc: HLC,
}

impl WalletInst<'static, HLC, DirectClient, ExtKeychain> for HInst {
	fn lc_provider(
		&mut self,
	) -> Result<&mut (dyn WalletLCProvider<'static, DirectClient, ExtKeychain> + 'static), Error> {
		Ok(&mut self.lc)
	}
}

/// deterministic 32-byte seed per wallet name
pub fn seed_for(name: &str) -> Vec<u8> {
	let h = blake2_rfc::blake2b::blake2b(32, b"gwverif-seed", name.as_bytes());
	h.as_bytes().to_vec()
}

pub fn mnemonic_for(name: &str) -> String {
	grin_keychain::mnemonic::from_entropy(&seed_for(name)).unwrap()
}

pub fn keychain_for(name: &str) -> ExtKeychain {
	ExtKeychain::from_seed(&seed_for(name), grin_core::global::is_testnet()).unwrap()
}

/// Handle on one opened wallet
pub struct WalletH {
	pub name: String,
	/// seed identity (several wallet dirs may share a seed: restore tests)
	pub seed_name: String,
	pub dir: String,
	pub inst: WInst,
	pub mask: Option<SecretKey>,
	pub inj: Inj,
}

impl WalletH {
	/// data dir of wallet `name` inside world dir
	pub fn data_dir(world_dir: &str, name: &str) -> String {
		format!("{}/w_{}/wallet_data", world_dir, name)
	}

	pub fn open(world_dir: &str, name: &str, seed_name: &str, node: &Arc<Node>) -> WalletH {
		Self::open_masked(world_dir, name, seed_name, node, false)
	}

	pub fn open_masked(
		world_dir: &str,
		name: &str,
		seed_name: &str,
		node: &Arc<Node>,
		mask: bool,
	) -> WalletH {
		let dir = Self::data_dir(world_dir, name);
		fs::create_dir_all(&dir).unwrap();
		let client = DirectClient::new(node.clone());
		let mut be: LMDBBackend<'static, DirectClient, ExtKeychain> =
			LMDBBackend::new(&dir, client).expect("open lmdb backend");
		let mask = be
			.set_keychain(Box::new(keychain_for(seed_name)), mask, false)
			.unwrap();
		let inj: Inj = Arc::new(std::sync::Mutex::new(InjectState::default()));
		let dec = Injecting::new(be, inj.clone(), &dir);
		let inst = HInst {
			lc: HLC {
				dir: dir.clone(),
				backend: Some(Box::new(dec)),
			},
		};
		let b: Box<dyn WalletInst<'static, HLC, DirectClient, ExtKeychain>> = Box::new(inst);
		WalletH {
			name: name.to_owned(),
			seed_name: seed_name.to_owned(),
			dir,
			inst: Arc::new(Mutex::new(b)),
			mask,
			inj,
		}
	}

	pub fn mask(&self) -> Option<&SecretKey> {
		self.mask.as_ref()
	}

	/// run f on the backend under the wallet lock
	pub fn with<R>(&self, f: impl FnOnce(&mut Backend) -> R) -> R {
		let mut l = self.inst.lock();
		let lc = l.lc_provider().unwrap();
		let w = lc.wallet_inst().unwrap();
		f(&mut **w)
	}

	pub fn keychain(&self) -> ExtKeychain {
		self.with(|w| w.keychain(self.mask.as_ref()).unwrap())
	}

	pub fn set_account(&self, label: &str) -> Result<(), Error> {
		self.with(|w| w.set_parent_key_id_by_name(label))
	}

	pub fn create_account(&self, label: &str) -> Result<Identifier, Error> {
		self.with(|w| owner::create_account_path(w, self.mask(), label))
	}

	pub fn refresh(&self) -> Result<bool, Error> {
		owner::update_wallet_state(self.inst.clone(), self.mask(), &None, false)
	}

	pub fn info(&self, refresh: bool, min_conf: u64) -> Result<(bool, WalletInfo), Error> {
		owner::retrieve_summary_info(self.inst.clone(), self.mask(), &None, refresh, min_conf)
	}

	pub fn scan(&self, start: Option<u64>, delete_unconfirmed: bool) -> Result<(), Error> {
		owner::scan(self.inst.clone(), self.mask(), start, delete_unconfirmed, &None)
	}

	pub fn outputs(&self) -> Vec<OutputData> {
		self.with(|w| w.iter().collect())
	}

	pub fn txs(&self) -> Vec<TxLogEntry> {
		self.with(|w| w.tx_log_iter().collect())
	}

	pub fn commit_of(&self, o: &OutputData) -> pedersen::Commitment {
		match &o.commit {
			Some(c) => pedersen::Commitment::from_vec(util::from_hex(c).unwrap()),
			None => self
				.keychain()
				.commit(
					o.value,
					&o.key_id,
					grin_keychain::SwitchCommitmentType::Regular,
				)
				.unwrap(),
		}
	}

	pub fn init_send(&self, args: InitTxArgs) -> Result<Slate, Error> {
		self.with(|w| owner::init_send_tx(w, self.mask(), args, false))
	}
	pub fn lock(&self, slate: &Slate) -> Result<(), Error> {
		self.with(|w| owner::tx_lock_outputs(w, self.mask(), slate))
	}
	pub fn receive(&self, slate: &Slate, dest: Option<&str>) -> Result<Slate, Error> {
		self.with(|w| foreign::receive_tx(w, self.mask(), slate, dest, false))
	}
	pub fn finalize(&self, slate: &Slate) -> Result<Slate, Error> {
		self.with(|w| owner::finalize_tx(w, self.mask(), slate))
	}
	pub fn foreign_finalize(&self, slate: &Slate, post: bool) -> Result<Slate, Error> {
		self.with(|w| foreign::finalize_tx(w, self.mask(), slate, post))
	}
	pub fn issue_invoice(&self, args: IssueInvoiceTxArgs) -> Result<Slate, Error> {
		self.with(|w| owner::issue_invoice_tx(w, self.mask(), args, false))
	}
	pub fn process_invoice(&self, slate: &Slate, args: InitTxArgs) -> Result<Slate, Error> {
		self.with(|w| owner::process_invoice_tx(w, self.mask(), slate, args, false))
	}
	pub fn cancel(&self, tx_id: Option<u32>, slate_id: Option<Uuid>) -> Result<(), Error> {
		owner::cancel_tx(self.inst.clone(), self.mask(), &None, tx_id, slate_id)
	}
	pub fn post(&self, tx: &Transaction) -> Result<(), Error> {
		let client = self.with(|w| w.w2n_client().clone());
		owner::post_tx(&client, tx, false)
	}
	pub fn get_context(&self, slate_id: &Uuid) -> Result<libwallet::Context, Error> {
		self.with(|w| w.get_private_context(self.mask(), slate_id.as_bytes()))
	}
	pub fn stored_tx(&self, slate_id: &Uuid) -> Result<Option<Transaction>, Error> {
		self.with(|w| w.get_stored_tx(&format!("{}", slate_id)))
	}
}

pub fn default_args(amount: u64) -> InitTxArgs {
	InitTxArgs {
		src_acct_name: None,
		amount,
		minimum_confirmations: 1,
		max_outputs: 500,
		num_change_outputs: 1,
		selection_strategy_is_use_all: false,
		..Default::default()
	}
}

pub fn slate_to_json(s: &Slate) -> String {
	let v = VersionedSlate::into_version(s.clone(), SlateVersion::V4).unwrap();
	serde_json::to_string(&v).unwrap()
}

pub fn slate_from_json(s: &str) -> Slate {
	Slate::deserialize_upgrade(s).unwrap()
}

pub fn tx_to_hex(tx: &Transaction) -> String {
	ser::ser_vec(tx, ser::ProtocolVersion(1)).unwrap().to_hex()
}

pub fn tx_from_hex(h: &str) -> Transaction {
	let b = util::from_hex(h).unwrap();
	ser::deserialize(
		&mut &b[..],
		ser::ProtocolVersion(1),
		ser::DeserializationMode::default(),
	)
	.unwrap()
}

/// Harness-side persistent data of a world (everything not in chain/wallet dirs)
#[derive(Serialize, Deserialize, Clone, Default, Debug)]
pub struct Meta {
	/// wallet name -> seed name
	pub wallets: BTreeMap<String, String>,
	/// mempool (hex txs)
	pub mempool: Vec<String>,
	/// free-form per-property data (slates in flight etc.)
	pub extra: Value,
}

pub struct World {
	pub dir: String,
	pub node: Arc<Node>,
	pub wallets: Vec<WalletH>,
	pub meta: Meta,
}

impl World {
	/// create a fresh world with the given wallets (name, seed_name)
	pub fn create(dir: &str, wallets: &[(&str, &str)]) -> World {
		let _ = fs::remove_dir_all(dir);
		fs::create_dir_all(dir).unwrap();
		let mut meta = Meta::default();
		for (n, s) in wallets {
			meta.wallets.insert((*n).to_owned(), (*s).to_owned());
		}
		meta.extra = json!({});
		fs::write(format!("{}/meta.json", dir), serde_json::to_vec(&meta).unwrap()).unwrap();
		World::open(dir)
	}

	pub fn open(dir: &str) -> World {
		let meta: Meta =
			serde_json::from_slice(&fs::read(format!("{}/meta.json", dir)).unwrap()).unwrap();
		let node = Node::open(dir);
		{
			let mut mp = node.mempool.lock().unwrap();
			for h in &meta.mempool {
				mp.push(tx_from_hex(h));
			}
		}
		let wallets = meta
			.wallets
			.iter()
			.map(|(n, s)| WalletH::open(dir, n, s, &node))
			.collect();
		World {
			dir: dir.to_owned(),
			node,
			wallets,
			meta,
		}
	}

	pub fn add_wallet(&mut self, name: &str, seed_name: &str) -> usize {
		self.meta
			.wallets
			.insert(name.to_owned(), seed_name.to_owned());
		self.wallets
			.push(WalletH::open(&self.dir, name, seed_name, &self.node));
		self.wallets.len() - 1
	}

	pub fn w(&self, name: &str) -> &WalletH {
		self.wallets
			.iter()
			.find(|w| w.name == name)
			.unwrap_or_else(|| panic!("no wallet {}", name))
	}

	/// drop the handle of one wallet and reopen it from disk (restart)
	pub fn reopen_wallet(&mut self, name: &str) {
		let idx = self.wallets.iter().position(|w| w.name == name).unwrap();
		let seed = self.wallets[idx].seed_name.clone();
		let old = self.wallets.remove(idx);
		drop(old);
		self.wallets
			.insert(idx, WalletH::open(&self.dir, name, &seed, &self.node));
	}

	pub fn save_meta(&mut self) {
		self.meta.mempool = self
			.node
			.mempool
			.lock()
			.unwrap()
			.iter()
			.map(tx_to_hex)
			.collect();
		fs::write(
			format!("{}/meta.json", self.dir),
			serde_json::to_vec(&self.meta).unwrap(),
		)
		.unwrap();
	}

	/// Persist meta and close everything (LMDB environments are released)
	pub fn close(mut self) {
		self.save_meta();
		let World { node, wallets, .. } = self;
		drop(wallets);
		drop(node);
	}

	/// Mine one block whose reward goes to `wallet` (in that wallet's active account),
	/// including the valid part of the mempool.
	pub fn mine(&self, wallet: &str) -> Result<(), Error> {
		self.mine_opts(wallet, true)
	}

	pub fn mine_opts(&self, wallet: &str, include_mempool: bool) -> Result<(), Error> {
		let txs = if include_mempool {
			self.node.take_mempool()
		} else {
			vec![]
		};
		let prev = self.node.head_header();
		let w = self.w(wallet);
		let fees = txs.iter().map(|t| t.fee()).sum();
		let bf = BlockFees {
			fees,
			key_id: None,
			height: prev.height + 1,
		};
		let cb = w.with(|b| foreign::build_coinbase(b, w.mask(), &bf, false))?;
		let block = self.node.build_block(&prev, &txs, (cb.output, cb.kernel));
		self.node
			.process(block)
			.map_err(|e| Error::GenericError(format!("process_block: {}", e)))?;
		Ok(())
	}

	/// Build and process one block on top of `prev` (any known header: the head, or an
	/// ancestor to start / extend a side branch) with the reward going to `wallet`.
	/// Returns the new block's header and whether it became the chain head.
	pub fn mine_on(
		&self,
		prev: &grin_core::core::BlockHeader,
		wallet: &str,
		txs: &[Transaction],
	) -> Result<(grin_core::core::BlockHeader, bool), Error> {
		let w = self.w(wallet);
		let fees = txs.iter().map(|t| t.fee()).sum();
		let bf = BlockFees {
			fees,
			key_id: None,
			height: prev.height + 1,
		};
		let cb = w.with(|b| foreign::build_coinbase(b, w.mask(), &bf, false))?;
		let block = self.node.build_block(prev, txs, (cb.output, cb.kernel));
		let header = block.header.clone();
		let head = self
			.node
			.process(block)
			.map_err(|e| Error::GenericError(format!("process_block: {}", e)))?;
		Ok((header, head))
	}

	/// header of the current chain at a height
	pub fn header_at(&self, height: u64) -> grin_core::core::BlockHeader {
		self.node.chain.get_header_by_height(height).unwrap()
	}

	/// Replace the blocks above `fork_height` by a longer side branch of `len` blocks mined to
	/// `wallet` (first fork block carries `txs`). Returns true if the branch became the main chain.
	pub fn fork(&self, fork_height: u64, len: usize, wallet: &str, txs: &[Transaction]) -> bool {
		let mut prev = self.header_at(fork_height);
		let mut head = false;
		for i in 0..len {
			let t: &[Transaction] = if i == 0 { txs } else { &[] };
			let (h, is_head) = self.mine_on(&prev, wallet, t).unwrap();
			prev = h;
			head = is_head;
		}
		head
	}

	/// mine n empty-reward blocks to a wallet
	pub fn mine_n(&self, wallet: &str, n: usize) {
		for _ in 0..n {
			self.mine(wallet).unwrap();
		}
	}
}

// ---------------------------------------------------------------------------------------------
// snapshots

/// In-memory copy of a world directory (LMDB lock files excluded)
#[derive(Clone)]
pub struct Snapshot {
	pub files: Arc<Vec<(String, Vec<u8>)>>,
}

fn walk(base: &Path, rel: &Path, out: &mut Vec<(String, Vec<u8>)>) {
	let d = base.join(rel);
	let mut entries: Vec<_> = fs::read_dir(&d).unwrap().map(|e| e.unwrap()).collect();
	entries.sort_by_key(|e| e.file_name());
	for e in entries {
		let name = e.file_name();
		let r = rel.join(&name);
		let ft = e.file_type().unwrap();
		if ft.is_dir() {
			out.push((format!("{}/", r.to_str().unwrap()), vec![]));
			walk(base, &r, out);
		} else {
			if name == "lock.mdb" {
				continue;
			}
			out.push((r.to_str().unwrap().to_owned(), fs::read(e.path()).unwrap()));
		}
	}
}

impl Snapshot {
	pub fn capture(dir: &str) -> Snapshot {
		let mut files = vec![];
		walk(Path::new(dir), Path::new(""), &mut files);
		Snapshot {
			files: Arc::new(files),
		}
	}

	pub fn restore(&self, dir: &str) {
		let _ = fs::remove_dir_all(dir);
		fs::create_dir_all(dir).unwrap();
		for (p, data) in self.files.iter() {
			let full = PathBuf::from(dir).join(p);
			if p.ends_with('/') {
				fs::create_dir_all(&full).unwrap();
			} else {
				fs::write(&full, data).unwrap();
			}
		}
	}

	pub fn bytes(&self) -> usize {
		self.files.iter().map(|f| f.1.len()).sum()
	}
}

/// scratch root: /dev/shm if present, else $TMPDIR
pub fn scratch_root() -> String {
	let base = if Path::new("/dev/shm").is_dir() {
		"/dev/shm".to_owned()
	} else {
		std::env::temp_dir().to_str().unwrap().to_owned()
	};
	let d = format!("{}/gwverif-{}", base, std::process::id());
	static SWEEP: std::sync::Once = std::sync::Once::new();
	SWEEP.call_once(|| {
		// remove scratch directories left behind by runs that were killed
		if let Ok(rd) = fs::read_dir(&base) {
			for e in rd.flatten() {
				let name = e.file_name().to_string_lossy().to_string();
				if let Some(pid) = name.strip_prefix("gwverif-") {
					if !Path::new(&format!("/proc/{}", pid)).exists() {
						let _ = fs::remove_dir_all(e.path());
					}
				}
			}
		}
	});
	fs::create_dir_all(&d).unwrap();
	d
}

pub fn cleanup_scratch() {
	let _ = fs::remove_dir_all(scratch_root());
}

// ---------------------------------------------------------------------------------------------
// projection

pub fn status_str(s: &OutputStatus) -> &'static str {
	match s {
		OutputStatus::Unconfirmed => "Unconfirmed",
		OutputStatus::Unspent => "Unspent",
		OutputStatus::Locked => "Locked",
		OutputStatus::Spent => "Spent",
		OutputStatus::Reverted => "Reverted",
	}
}

pub fn txtype_str(t: &TxLogEntryType) -> &'static str {
	match t {
		TxLogEntryType::ConfirmedCoinbase => "ConfirmedCoinbase",
		TxLogEntryType::TxReceived => "TxReceived",
		TxLogEntryType::TxSent => "TxSent",
		TxLogEntryType::TxReceivedCancelled => "TxReceivedCancelled",
		TxLogEntryType::TxSentCancelled => "TxSentCancelled",
		TxLogEntryType::TxReverted => "TxReverted",
	}
}

/// Options for a projection
#[derive(Clone, Default)]
pub struct ProjOpts {
	/// slate ids known to the harness, in slot order (uuid -> slot number)
	pub slots: Vec<Uuid>,
	/// include heights of outputs
	pub heights: bool,
	/// replace numeric log ids by a description of the entry they refer to and sort entries by
	/// content: several coinbase outputs confirmed by one refresh get their log ids in
	/// HashMap iteration order, which is not a function of the history
	pub canon_ids: bool,
}

fn slot_of(opts: &ProjOpts, id: &Option<Uuid>) -> Value {
	match id {
		None => Value::Null,
		Some(u) => match opts.slots.iter().position(|s| s == u) {
			Some(i) => json!(i),
			None => json!("other"),
		},
	}
}

pub fn project_output(o: &OutputData, opts: &ProjOpts) -> Value {
	let mut v = json!({
		"key": o.key_id.to_bip_32_string(),
		"mmr": o.mmr_index.is_some(),
		"value": o.value,
		"status": status_str(&o.status),
		"cb": o.is_coinbase,
		"log": o.tx_log_entry,
	});
	if opts.heights {
		v["height"] = json!(o.height);
		v["lock_height"] = json!(o.lock_height);
	}
	v
}

pub fn project_tx(t: &TxLogEntry, opts: &ProjOpts, stored: Option<bool>) -> Value {
	json!({
		"parent": t.parent_key_id.to_bip_32_string(),
		"id": t.id,
		"slate": slot_of(opts, &t.tx_slate_id),
		"type": txtype_str(&t.tx_type),
		"confirmed": t.confirmed,
		"credited": t.amount_credited,
		"debited": t.amount_debited,
		"fee": t.fee.map(|f| f.fee()),
		"n_in": t.num_inputs,
		"n_out": t.num_outputs,
		"ttl": t.ttl_cutoff_height,
		"excess": t.kernel_excess.is_some(),
		"stored_tx": t.stored_tx.is_some(),
		"stored_file": stored,
		"proof": t.payment_proof.as_ref().map(|p| json!({
			"rsig": p.receiver_signature.is_some(),
			"ssig": p.sender_signature.is_some(),
		})),
	})
}

pub fn project_context(c: &libwallet::Context) -> Value {
	json!({
		"parent": c.parent_key_id.to_bip_32_string(),
		"inputs": c.input_ids.iter().map(|(id, m, v)| json!([id.to_bip_32_string(), m, v])).collect::<Vec<_>>(),
		"outputs": c.output_ids.iter().map(|(id, m, v)| json!([id.to_bip_32_string(), m, v])).collect::<Vec<_>>(),
		"amount": c.amount,
		"fee": c.fee.map(|f| f.fee()),
		"late": c.late_lock_args.is_some(),
		"proof_idx": c.payment_proof_derivation_index,
		"calc_excess": c.calculated_excess.is_some(),
	})
}

/// Canonical, random-free projection of one wallet's stored state
pub fn project_wallet(w: &WalletH, opts: &ProjOpts) -> Value {
	let mut outs = w.outputs();
	outs.sort_by_key(|o| (o.key_id.to_bip_32_string(), o.mmr_index));
	let mut txs = w.txs();
	txs.sort_by_key(|t| (t.parent_key_id.to_bip_32_string(), t.id));
	let accts: Vec<(String, Identifier)> =
		w.with(|b| b.acct_path_iter().map(|m| (m.label, m.path)).collect());
	let mut acct_v = vec![];
	for (label, path) in accts.iter() {
		let (idx, logid, lch) = w.with(|b| {
			let idx = b.current_child_index(path).unwrap();
			let saved = b.parent_key_id();
			b.set_parent_key_id(path.clone());
			let lch = b.last_confirmed_height().unwrap();
			b.set_parent_key_id(saved);
			let logid = {
				let mut batch = b.batch_no_mask().unwrap();
				batch.next_tx_log_id(path).unwrap()
				// batch dropped without commit: the increment is discarded
			};
			(idx, logid, lch)
		});
		let mut a = json!({"label": label, "path": path.to_bip_32_string(), "child_index": idx, "next_log_id": logid});
		if opts.heights {
			a["last_confirmed_height"] = json!(lch);
		}
		acct_v.push(a);
	}
	let mut ctxs = vec![];
	for (i, id) in opts.slots.iter().enumerate() {
		if let Ok(c) = w.get_context(id) {
			ctxs.push(json!({"slot": i, "ctx": project_context(&c)}));
		}
	}
	let mut tx_v: Vec<Value> = txs
		.iter()
		.map(|t| {
			let stored = t.stored_tx.as_ref().map(|f| {
				Path::new(&w.dir).join("saved_txs").join(f).exists()
			});
			let mut v = project_tx(t, opts, stored);
			// the excess itself is random per execution; whether the recorded excess is that of the
			// stored transaction's kernel is not (final vs. lock-time value)
			if let (Some(e), Some(id), Some(true)) = (t.kernel_excess, t.tx_slate_id, stored) {
				v["excess_is_stored_kernel"] = match catch(|| w.stored_tx(&id)) {
					Ok(Ok(Some(tx))) => json!(tx.kernels().first().map(|k| k.excess == e)),
					_ => json!("unreadable"),
				};
			}
			v
		})
		.collect();
	let mut out_v: Vec<Value> = outs.iter().map(|o| project_output(o, opts)).collect();
	if opts.canon_ids {
		for (o, ov) in outs.iter().zip(out_v.iter_mut()) {
			let e = txs
				.iter()
				.find(|t| Some(t.id) == o.tx_log_entry && t.parent_key_id == o.root_key_id);
			ov["log"] = match e {
				Some(t) => json!([txtype_str(&t.tx_type), slot_of(opts, &t.tx_slate_id), t.confirmed]),
				None => json!(o.tx_log_entry.is_some()),
			};
		}
		for t in tx_v.iter_mut() {
			t.as_object_mut().unwrap().remove("id");
		}
		tx_v.sort_by_key(|t| serde_json::to_string(t).unwrap());
	}
	let (init, scanned) = w.with(|b| {
		(
			format!("{:?}", b.init_status().unwrap()),
			b.last_scanned_block().unwrap().height,
		)
	});
	let mut v = json!({
		"outputs": out_v,
		"txs": tx_v,
		"accounts": acct_v,
		"contexts": ctxs,
		"init": init,
	});
	if opts.heights {
		v["scanned"] = json!(scanned);
	}
	v
}

pub fn hash_value(v: &Value) -> u64 {
	use std::hash::{Hash, Hasher};
	let s = serde_json::to_string(v).unwrap();
	let mut h = std::collections::hash_map::DefaultHasher::new();
	s.hash(&mut h);
	h.finish()
}

/// Raw dump of a *closed* wallet's LMDB store: every key/value pair, plus stored tx files.
pub fn raw_dump(wallet_data_dir: &str) -> Vec<(Vec<u8>, Vec<u8>)> {
	let db_path = Path::new(wallet_data_dir).join("db");
	let store =
		grin_store::Store::new(db_path.to_str().unwrap(), None, Some("db"), None).unwrap();
	// an empty prefix cannot be used as an LMDB seek key: go through every first byte
	let mut res: Vec<(Vec<u8>, Vec<u8>)> = vec![];
	for b in 0u8..=255 {
		res.extend(
			store
				.iter(&[b], |k, v| Ok((k.to_vec(), v.to_vec())))
				.unwrap(),
		);
	}
	let txdir = Path::new(wallet_data_dir).join("saved_txs");
	if let Ok(rd) = fs::read_dir(&txdir) {
		let mut files: Vec<_> = rd.map(|e| e.unwrap()).collect();
		files.sort_by_key(|e| e.file_name());
		for f in files {
			let mut k = b"file:".to_vec();
			k.extend(f.file_name().to_str().unwrap().as_bytes());
			res.push((k, fs::read(f.path()).unwrap()));
		}
	}
	res
}

/// helper: run a closure catching unwinds, returning Err(message) on panic
pub fn catch<R>(f: impl FnOnce() -> R) -> Result<R, String> {
	match std::panic::catch_unwind(std::panic::AssertUnwindSafe(f)) {
		Ok(r) => Ok(r),
		Err(e) => {
			if e.downcast_ref::<crate::inject::CrashSentinel>().is_some() {
				Err("__crash_sentinel__".to_owned())
			} else if let Some(s) = e.downcast_ref::<&str>() {
				Err((*s).to_owned())
			} else if let Some(s) = e.downcast_ref::<String>() {
				Err(s.clone())
			} else {
				Err("panic (non-string payload)".to_owned())
			}
		}
	}
}


// ---------------------------------------------------------------------------------------------
// chain truth

/// One output of the chain's UTXO set that belongs to a seed (found by rewinding its range
/// proof with the seed's keychain — independent of any wallet record)
#[derive(Clone, Debug)]
pub struct Owned {
	pub commit: pedersen::Commitment,
	pub value: u64,
	pub key_id: Identifier,
	pub height: u64,
	pub is_coinbase: bool,
	pub mmr_index: u64,
}

/// every unspent output on the current chain that rewinds with the keychain of `seed_name`
pub fn chain_owned(node: &Node, seed_name: &str) -> Vec<Owned> {
	use grin_core::libtx::proof;
	let kc = keychain_for(seed_name);
	let builder = proof::ProofBuilder::new(&kc);
	let (_, _, outs) = node
		.chain
		.unspent_outputs_by_pmmr_index(1, 100_000, None)
		.unwrap();
	let mut res = vec![];
	for o in outs.iter() {
		let commit = o.commitment();
		if let Ok(Some((value, key_id, _))) = proof::rewind(kc.secp(), &builder, commit, None, o.proof) {
			let (height, is_coinbase, mmr_index) = node.unspent_info(&commit).unwrap();
			res.push(Owned {
				commit,
				value,
				key_id,
				height,
				is_coinbase,
				mmr_index,
			});
		}
	}
	res
}
