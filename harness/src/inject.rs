//! Crash / fault injecting decorator around the real LMDBBackend.
//! Every *persistent effect* the wallet library performs goes through the
//! WalletBackend trait seam: batch().commit(), next_child() (commits internally)
//! and store_tx(). The decorator counts them, can crash (unwind with a sentinel)
//! or fail (return Err) at the k-th, and records what was saved (C15 monitor).

use crate::impls::LMDBBackend;
use crate::keychain::{ExtKeychain, Identifier};
use crate::libwallet::{
	AcctPathMapping, Context, Error, NodeClient, OutputData, ScannedBlockInfo, TxLogEntry,
	WalletBackend, WalletInitStatus, WalletOutputBatch,
};
use crate::node::DirectClient;
use crate::util::secp::key::SecretKey;
use grin_core::core::Transaction;
use std::cell::RefCell;
use std::sync::{Arc, Mutex};
use uuid::Uuid;

/// Panic payload used for injected crashes
pub struct CrashSentinel;

#[derive(Clone, Debug, PartialEq)]
pub enum Fault {
	/// unwind before the effect is performed (process death)
	Crash,
	/// return an error instead of performing the effect
	Error,
	/// only for store_tx: write the first n bytes of the file, then crash
	Torn(usize),
	/// perform the effect, then crash right after it
	CrashAfter,
}

#[derive(Clone, Debug, PartialEq)]
pub enum EffectKind {
	Commit,
	NextChild,
	StoreTx,
}

#[derive(Clone, Debug)]
pub enum Event {
	/// an output record written by a committed batch
	Save(OutputData),
	/// an output record deleted by a committed batch
	Delete(Identifier, Option<u64>),
	/// a key path handed out by next_child (parent, child id)
	NextChild(Identifier, Identifier),
	/// a log entry written by a committed batch
	SaveTx(TxLogEntry),
}

#[derive(Default)]
pub struct InjectState {
	pub effects: u64,
	pub plan: Option<(u64, Fault)>,
	pub kinds: Vec<EffectKind>,
	pub events: Vec<Event>,
	pub fired: bool,
	/// length of last stored tx file (for torn-write enumeration)
	pub last_store_len: usize,
	/// livelock guard: remaining backend calls (iter/batch/next_child) before the
	/// decorator unwinds; None = unlimited
	pub budget: Option<i64>,
}

/// message of the livelock-guard panic
pub const BUDGET_MSG: &str = "gwv: backend call budget exhausted (livelock guard)";

fn spend(st: &Inj) {
	let mut s = st.lock().unwrap();
	if let Some(b) = s.budget.as_mut() {
		*b -= 1;
		if *b < 0 {
			s.budget = None;
			drop(s);
			panic!("{}", BUDGET_MSG);
		}
	}
}

impl InjectState {
	pub fn reset(&mut self, plan: Option<(u64, Fault)>) {
		self.effects = 0;
		self.plan = plan;
		self.kinds.clear();
		self.fired = false;
	}
}

pub type Inj = Arc<Mutex<InjectState>>;

fn effect(st: &Inj, kind: EffectKind) -> Result<Option<Fault>, Error> {
	let mut s = st.lock().unwrap();
	let n = s.effects;
	s.effects += 1;
	s.kinds.push(kind);
	if let Some((k, f)) = s.plan.clone() {
		if k == n {
			s.fired = true;
			match f {
				Fault::Crash => {
					drop(s);
					std::panic::panic_any(CrashSentinel);
				}
				Fault::Error => {
					return Err(Error::Backend("injected write failure".to_owned()));
				}
				other => return Ok(Some(other)),
			}
		}
	}
	Ok(None)
}

pub struct Injecting {
	pub inner: LMDBBackend<'static, DirectClient, ExtKeychain>,
	pub st: Inj,
	pub dir: String,
}

impl Injecting {
	pub fn new(inner: LMDBBackend<'static, DirectClient, ExtKeychain>, st: Inj, dir: &str) -> Self {
		Injecting {
			inner,
			st,
			dir: dir.to_owned(),
		}
	}
}

impl WalletBackend<'static, DirectClient, ExtKeychain> for Injecting {
	fn set_keychain(
		&mut self,
		k: Box<ExtKeychain>,
		mask: bool,
		use_test_rng: bool,
	) -> Result<Option<SecretKey>, Error> {
		self.inner.set_keychain(k, mask, use_test_rng)
	}
	fn close(&mut self) -> Result<(), Error> {
		self.inner.close()
	}
	fn keychain(&self, mask: Option<&SecretKey>) -> Result<ExtKeychain, Error> {
		self.inner.keychain(mask)
	}
	fn w2n_client(&mut self) -> &mut DirectClient {
		self.inner.w2n_client()
	}
	fn calc_commit_for_cache(
		&mut self,
		keychain_mask: Option<&SecretKey>,
		amount: u64,
		id: &Identifier,
	) -> Result<Option<String>, Error> {
		self.inner.calc_commit_for_cache(keychain_mask, amount, id)
	}
	fn set_parent_key_id_by_name(&mut self, label: &str) -> Result<(), Error> {
		self.inner.set_parent_key_id_by_name(label)
	}
	fn set_parent_key_id(&mut self, id: Identifier) {
		self.inner.set_parent_key_id(id)
	}
	fn parent_key_id(&mut self) -> Identifier {
		self.inner.parent_key_id()
	}
	fn iter<'a>(&'a self) -> Box<dyn Iterator<Item = OutputData> + 'a> {
		spend(&self.st);
		self.inner.iter()
	}
	fn get(&self, id: &Identifier, mmr_index: &Option<u64>) -> Result<OutputData, Error> {
		self.inner.get(id, mmr_index)
	}
	fn get_tx_log_entry(&self, uuid: &Uuid) -> Result<Option<TxLogEntry>, Error> {
		self.inner.get_tx_log_entry(uuid)
	}
	fn get_private_context(
		&mut self,
		keychain_mask: Option<&SecretKey>,
		slate_id: &[u8],
	) -> Result<Context, Error> {
		self.inner.get_private_context(keychain_mask, slate_id)
	}
	fn tx_log_iter<'a>(&'a self) -> Box<dyn Iterator<Item = TxLogEntry> + 'a> {
		self.inner.tx_log_iter()
	}
	fn acct_path_iter<'a>(&'a self) -> Box<dyn Iterator<Item = AcctPathMapping> + 'a> {
		self.inner.acct_path_iter()
	}
	fn get_acct_path(&self, label: String) -> Result<Option<AcctPathMapping>, Error> {
		self.inner.get_acct_path(label)
	}
	fn store_tx(&self, uuid: &str, tx: &Transaction) -> Result<(), Error> {
		match effect(&self.st, EffectKind::StoreTx)? {
			Some(Fault::Torn(n)) => {
				// reproduce LMDBBackend::store_tx's file format, truncated
				use crate::util::ToHex;
				use std::io::Write;
				let tx_hex = grin_core::ser::ser_vec(tx, grin_core::ser::ProtocolVersion(1))
					.unwrap()
					.to_hex();
				let path = std::path::Path::new(&self.dir)
					.join("saved_txs")
					.join(format!("{}.grintx", uuid));
				let mut f = std::fs::File::create(path).unwrap();
				let n = std::cmp::min(n, tx_hex.len());
				f.write_all(&tx_hex.as_bytes()[..n]).unwrap();
				drop(f);
				std::panic::panic_any(CrashSentinel);
			}
			Some(Fault::CrashAfter) => {
				self.inner.store_tx(uuid, tx)?;
				std::panic::panic_any(CrashSentinel);
			}
			_ => {}
		}
		let r = self.inner.store_tx(uuid, tx);
		if r.is_ok() {
			use crate::util::ToHex;
			let l = grin_core::ser::ser_vec(tx, grin_core::ser::ProtocolVersion(1))
				.unwrap()
				.to_hex()
				.len();
			self.st.lock().unwrap().last_store_len = l;
		}
		r
	}
	fn get_stored_tx(&self, uuid: &str) -> Result<Option<Transaction>, Error> {
		self.inner.get_stored_tx(uuid)
	}
	fn batch<'a>(
		&'a mut self,
		keychain_mask: Option<&SecretKey>,
	) -> Result<Box<dyn WalletOutputBatch<ExtKeychain> + 'a>, Error> {
		spend(&self.st);
		let st = self.st.clone();
		let inner = self.inner.batch(keychain_mask)?;
		Ok(Box::new(IBatch {
			inner,
			st,
			pending: RefCell::new(vec![]),
		}))
	}
	fn batch_no_mask<'a>(
		&'a mut self,
	) -> Result<Box<dyn WalletOutputBatch<ExtKeychain> + 'a>, Error> {
		let st = self.st.clone();
		let inner = self.inner.batch_no_mask()?;
		Ok(Box::new(IBatch {
			inner,
			st,
			pending: RefCell::new(vec![]),
		}))
	}
	fn current_child_index(&mut self, parent_key_id: &Identifier) -> Result<u32, Error> {
		self.inner.current_child_index(parent_key_id)
	}
	fn next_child(&mut self, keychain_mask: Option<&SecretKey>) -> Result<Identifier, Error> {
		spend(&self.st);
		let f = effect(&self.st, EffectKind::NextChild)?;
		let parent = self.inner.parent_key_id();
		let r = self.inner.next_child(keychain_mask)?;
		self.st
			.lock()
			.unwrap()
			.events
			.push(Event::NextChild(parent, r.clone()));
		if let Some(Fault::CrashAfter) = f {
			std::panic::panic_any(CrashSentinel);
		}
		Ok(r)
	}
	fn last_confirmed_height(&mut self) -> Result<u64, Error> {
		self.inner.last_confirmed_height()
	}
	fn last_scanned_block(&mut self) -> Result<ScannedBlockInfo, Error> {
		self.inner.last_scanned_block()
	}
	fn init_status(&mut self) -> Result<WalletInitStatus, Error> {
		self.inner.init_status()
	}
}

struct IBatch<'a> {
	inner: Box<dyn WalletOutputBatch<ExtKeychain> + 'a>,
	st: Inj,
	pending: RefCell<Vec<Event>>,
}

impl<'a> WalletOutputBatch<ExtKeychain> for IBatch<'a> {
	fn keychain(&mut self) -> &mut ExtKeychain {
		self.inner.keychain()
	}
	fn save(&mut self, out: OutputData) -> Result<(), Error> {
		self.pending.borrow_mut().push(Event::Save(out.clone()));
		self.inner.save(out)
	}
	fn get(&self, id: &Identifier, mmr_index: &Option<u64>) -> Result<OutputData, Error> {
		self.inner.get(id, mmr_index)
	}
	fn iter(&self) -> Box<dyn Iterator<Item = OutputData>> {
		self.inner.iter()
	}
	fn delete(&mut self, id: &Identifier, mmr_index: &Option<u64>) -> Result<(), Error> {
		self.pending
			.borrow_mut()
			.push(Event::Delete(id.clone(), *mmr_index));
		self.inner.delete(id, mmr_index)
	}
	fn save_child_index(&mut self, parent_key_id: &Identifier, child_n: u32) -> Result<(), Error> {
		self.inner.save_child_index(parent_key_id, child_n)
	}
	fn save_last_confirmed_height(
		&mut self,
		parent_key_id: &Identifier,
		height: u64,
	) -> Result<(), Error> {
		self.inner.save_last_confirmed_height(parent_key_id, height)
	}
	fn save_last_scanned_block(&mut self, block: ScannedBlockInfo) -> Result<(), Error> {
		self.inner.save_last_scanned_block(block)
	}
	fn save_init_status(&mut self, value: WalletInitStatus) -> Result<(), Error> {
		self.inner.save_init_status(value)
	}
	fn next_tx_log_id(&mut self, parent_key_id: &Identifier) -> Result<u32, Error> {
		self.inner.next_tx_log_id(parent_key_id)
	}
	fn tx_log_iter(&self) -> Box<dyn Iterator<Item = TxLogEntry>> {
		self.inner.tx_log_iter()
	}
	fn save_tx_log_entry(&mut self, t: TxLogEntry, parent_id: &Identifier) -> Result<(), Error> {
		self.pending.borrow_mut().push(Event::SaveTx(t.clone()));
		self.inner.save_tx_log_entry(t, parent_id)
	}
	fn save_acct_path(&mut self, mapping: AcctPathMapping) -> Result<(), Error> {
		self.inner.save_acct_path(mapping)
	}
	fn acct_path_iter(&self) -> Box<dyn Iterator<Item = AcctPathMapping>> {
		self.inner.acct_path_iter()
	}
	fn lock_output(&mut self, out: &mut OutputData) -> Result<(), Error> {
		self.inner.lock_output(out)?;
		self.pending.borrow_mut().push(Event::Save(out.clone()));
		Ok(())
	}
	fn save_private_context(&mut self, slate_id: &[u8], ctx: &Context) -> Result<(), Error> {
		self.inner.save_private_context(slate_id, ctx)
	}
	fn delete_private_context(&mut self, slate_id: &[u8]) -> Result<(), Error> {
		self.inner.delete_private_context(slate_id)
	}
	fn commit(&self) -> Result<(), Error> {
		let f = effect(&self.st, EffectKind::Commit)?;
		self.inner.commit()?;
		let mut p = self.pending.borrow_mut();
		self.st.lock().unwrap().events.extend(p.drain(..));
		if let Some(Fault::CrashAfter) = f {
			std::panic::panic_any(CrashSentinel);
		}
		Ok(())
	}
}

/// so the client type is named somewhere (silences unused import when generic code moves)
#[allow(dead_code)]
fn _assert_client<C: NodeClient>() {}
