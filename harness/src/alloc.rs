//! Counting global allocator (DESIGN §2.4): per-thread live bytes, peak and largest single
//! request since the last `reset()`. Used by C09 to cap the memory one untrusted input may
//! claim. Cost: three thread-local additions per allocation; no locks, no allocation.

use std::alloc::{GlobalAlloc, Layout, System};
use std::cell::Cell;

pub struct Counting;

thread_local! {
	static LIVE: Cell<isize> = const { Cell::new(0) };
	static PEAK: Cell<isize> = const { Cell::new(0) };
	static MAXREQ: Cell<usize> = const { Cell::new(0) };
}

#[inline]
fn add(n: usize) {
	let _ = LIVE.try_with(|l| {
		let v = l.get() + n as isize;
		l.set(v);
		let _ = PEAK.try_with(|p| {
			if v > p.get() {
				p.set(v)
			}
		});
	});
	let _ = MAXREQ.try_with(|m| {
		if n > m.get() {
			m.set(n)
		}
	});
}

#[inline]
fn sub(n: usize) {
	let _ = LIVE.try_with(|l| l.set(l.get() - n as isize));
}

unsafe impl GlobalAlloc for Counting {
	unsafe fn alloc(&self, l: Layout) -> *mut u8 {
		add(l.size());
		System.alloc(l)
	}
	unsafe fn alloc_zeroed(&self, l: Layout) -> *mut u8 {
		add(l.size());
		System.alloc_zeroed(l)
	}
	unsafe fn dealloc(&self, p: *mut u8, l: Layout) {
		sub(l.size());
		System.dealloc(p, l)
	}
	unsafe fn realloc(&self, p: *mut u8, l: Layout, new_size: usize) -> *mut u8 {
		if new_size >= l.size() {
			add(new_size - l.size());
			let _ = MAXREQ.try_with(|m| {
				if new_size > m.get() {
					m.set(new_size)
				}
			});
		} else {
			sub(l.size() - new_size);
		}
		System.realloc(p, l, new_size)
	}
}

/// start a measurement window on this thread
pub fn reset() {
	LIVE.with(|l| l.set(0));
	PEAK.with(|p| p.set(0));
	MAXREQ.with(|m| m.set(0));
}

/// (peak of net bytes allocated on this thread since reset, largest single request)
pub fn peak() -> (usize, usize) {
	let p = PEAK.with(|p| p.get());
	(if p < 0 { 0 } else { p as usize }, MAXREQ.with(|m| m.get()))
}
