//! gwv — bounded exhaustive exploration of grin-wallet (see /verif/DESIGN.md)

#[macro_use]
extern crate serde_derive;

pub use grin_core as core;
pub use grin_keychain as keychain;
pub use grin_util as util;
pub use grin_wallet_api as api;
pub use grin_wallet_controller as controller;
pub use grin_wallet_impls as impls;
pub use grin_wallet_libwallet as libwallet;

pub mod alloc;
#[global_allocator]
static GLOBAL: alloc::Counting = alloc::Counting;

pub mod common;
pub mod dwallet;
pub mod explore;
pub mod inject;
pub mod node;
pub mod props;
pub mod sched;
pub mod world;

fn main() {
	let args: Vec<String> = std::env::args().collect();
	common::install_panic_hook();
	node::thread_init();
	let code = if args.len() < 2 {
		eprintln!("usage: gwv <property|selftest|replay> [args]");
		2
	} else {
		props::dispatch(&args[1], &args[2..])
	};
	world::cleanup_scratch();
	std::process::exit(code);
}
