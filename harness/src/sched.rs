//! E3 — cooperative scheduler for stateless schedule enumeration (C20).
//! Real OS threads, exactly one runnable at a time. Scheduling points: before every
//! acquisition of the wallet mutex (wallet_lock! hook in libwallet, and the harness's own
//! operation threads) and every NodeClient call (DirectClient yield hook). A thread parked
//! before a lock acquisition is enabled iff the wallet mutex is free.

use std::cell::RefCell;
use std::sync::{Arc, Condvar, Mutex};

#[derive(Clone, Copy, Debug, PartialEq)]
pub enum Point {
	Start,
	Lock,
	Node,
	Event,
}

#[derive(Clone, Copy, Debug, PartialEq)]
enum TState {
	NotStarted,
	Parked(Point),
	Running,
	Finished,
}

struct State {
	threads: Vec<TState>,
	running: Option<usize>,
	last: Option<usize>,
	aborted: bool,
}

pub struct Sched {
	st: Mutex<State>,
	cv: Condvar,
}

thread_local! {
	static CUR: RefCell<Option<(Arc<Sched>, usize)>> = RefCell::new(None);
}

/// called from the process-global hooks: a scheduling point of the calling thread, if it is managed
pub fn yield_point(p: Point) {
	let cur = CUR.with(|c| c.borrow().clone());
	if let Some((s, id)) = cur {
		s.park(id, p);
	}
}

/// install the process-global hooks once (they dispatch through the thread-local)
pub fn install_hooks() {
	crate::libwallet::verif_hooks::set_before_wallet_lock(Some(Arc::new(|_f, _l| yield_point(Point::Lock))));
}

pub fn node_hook() -> crate::node::YieldHook {
	Arc::new(|_name| yield_point(Point::Node))
}

pub struct Aborted;

#[derive(Debug, Clone)]
pub struct RunLog {
	/// choice taken at each decision point (index into the enabled list)
	pub choices: Vec<usize>,
	/// enabled threads (canonical order) at each decision point
	pub enabled: Vec<Vec<usize>>,
	/// preemptions so far before each decision point
	pub preemptions_before: Vec<usize>,
	/// whether the previously running thread was still enabled at each point
	pub running_enabled: Vec<bool>,
	pub deadlock: bool,
	pub error: Option<String>,
	/// (thread chosen, kind of point it was parked at) per decision
	pub trace: Vec<(usize, String)>,
}

impl Sched {
	pub fn new(n: usize) -> Arc<Sched> {
		Arc::new(Sched {
			st: Mutex::new(State {
				threads: vec![TState::NotStarted; n],
				running: None,
				last: None,
				aborted: false,
			}),
			cv: Condvar::new(),
		})
	}

	fn park(&self, id: usize, p: Point) {
		let mut st = self.st.lock().unwrap();
		st.threads[id] = TState::Parked(p);
		st.running = None;
		self.cv.notify_all();
		while st.running != Some(id) {
			if st.aborted {
				drop(st);
				std::panic::panic_any(Aborted);
			}
			st = self.cv.wait(st).unwrap();
		}
		st.threads[id] = TState::Running;
	}

	fn finish(&self, id: usize) {
		let mut st = self.st.lock().unwrap();
		st.threads[id] = TState::Finished;
		if st.running == Some(id) {
			st.running = None;
		}
		self.cv.notify_all();
	}

	/// spawn a managed thread; it parks at Start before running `body`
	pub fn spawn<F: FnOnce() + Send + 'static>(self: &Arc<Self>, id: usize, body: F) -> std::thread::JoinHandle<()> {
		let s = self.clone();
		std::thread::spawn(move || {
			crate::node::thread_init();
			CUR.with(|c| *c.borrow_mut() = Some((s.clone(), id)));
			let r = std::panic::catch_unwind(std::panic::AssertUnwindSafe(|| {
				s.park(id, Point::Start);
				body();
			}));
			CUR.with(|c| *c.borrow_mut() = None);
			let _ = r;
			s.finish(id);
		})
	}

	/// drive the threads to completion following `prefix`, then the default choice 0
	pub fn run(&self, prefix: &[usize], lock_free: &dyn Fn() -> bool) -> RunLog {
		let mut log = RunLog {
			choices: vec![],
			enabled: vec![],
			preemptions_before: vec![],
			running_enabled: vec![],
			deadlock: false,
			error: None,
			trace: vec![],
		};
		let mut preemptions = 0usize;
		loop {
			let mut st = self.st.lock().unwrap();
			while st.running.is_some() || st.threads.iter().any(|t| *t == TState::NotStarted) {
				st = self.cv.wait(st).unwrap();
			}
			if st.threads.iter().all(|t| *t == TState::Finished) {
				return log;
			}
			let free = lock_free();
			let mut enabled: Vec<usize> = vec![];
			let is_enabled = |t: &TState| match t {
				TState::Parked(Point::Lock) => free,
				TState::Parked(_) => true,
				_ => false,
			};
			let mut running_enabled = false;
			if let Some(l) = st.last {
				if is_enabled(&st.threads[l]) {
					enabled.push(l);
					running_enabled = true;
				}
			}
			for (i, t) in st.threads.iter().enumerate() {
				if Some(i) != st.last && is_enabled(t) {
					enabled.push(i);
				}
			}
			if enabled.is_empty() {
				log.deadlock = true;
				st.aborted = true;
				self.cv.notify_all();
				return log;
			}
			let step = log.choices.len();
			let c = if step < prefix.len() { prefix[step] } else { 0 };
			if c >= enabled.len() {
				log.error = Some(format!("prefix choice {} at step {} not enabled (enabled {:?}): uncontrolled nondeterminism", c, step, enabled));
				st.aborted = true;
				self.cv.notify_all();
				return log;
			}
			log.preemptions_before.push(preemptions);
			log.running_enabled.push(running_enabled);
			if running_enabled && c != 0 {
				preemptions += 1;
			}
			log.choices.push(c);
			log.enabled.push(enabled.clone());
			let t = enabled[c];
			log.trace.push((t, format!("{:?}", st.threads[t])));
			st.last = Some(t);
			st.running = Some(t);
			self.cv.notify_all();
		}
	}
}
