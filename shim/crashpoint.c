/*
 * crashpoint.c - LD_PRELOAD interposer used by the C12 check (gwv c12, part b).
 *
 * Counts the *mutating* file calls a process makes on paths under the directory named by
 * $GWV_CP_DIR and kills the process (_exit(77)) immediately BEFORE the k-th one
 * ($GWV_CP_K, 1-based; 0 or unset = never).  With $GWV_CP_SHORT=1 and a k-th call that is
 * a write()/pwrite()/writev(), the first half of the buffer is written first (short write),
 * then the process is killed.  Every counted call is appended to $GWV_CP_LOG (if set) as
 *     <n> <kind> <path-or-fd-path>
 * so the parent knows how many crash points a complete run has and which of them are writes.
 * With $GWV_CP_FAIL=once|from the process is NOT killed: the k-th counted call, if it is a write
 * call (once), or every write call from the k-th counted call on (from: the disk stays full),
 * returns -1 with errno = ENOSPC without writing anything, and the process carries on.
 *
 * Mutating calls: open/open64/openat/openat64/creat/creat64 when the flags can create,
 * truncate or write the file; write/pwrite/pwrite64/writev on a descriptor obtained that way;
 * rename/renameat/renameat2; unlink/unlinkat; mkdir/rmdir; fsync/fdatasync;
 * ftruncate/ftruncate64/truncate.
 *
 * Build:  cc -shared -fPIC -O1 -o crashpoint.so crashpoint.c -ldl
 */
#define _GNU_SOURCE
#include <dlfcn.h>
#include <errno.h>
#include <fcntl.h>
#include <limits.h>
#include <stdarg.h>
#include <stdio.h>
#include <stdlib.h>
#include <string.h>
#include <sys/stat.h>
#include <sys/types.h>
#include <sys/uio.h>
#include <sys/syscall.h>
#include <unistd.h>

#define MAXFD 4096
#define EXIT_CRASH 77

static char watch_dir[PATH_MAX];
static size_t watch_len = 0;
static long crash_k = 0;
static int short_write = 0;
static int fail_mode = 0; /* 0 = kill, 1 = fail once, 2 = fail from k on */
static int log_fd = -1;
static long counter = 0;
static int inited = 0;
static unsigned char watched_fd[MAXFD];
static char *fd_path[MAXFD];

static void cp_init(void) {
	if (inited) return;
	inited = 1;
	const char *d = getenv("GWV_CP_DIR");
	if (d && *d) {
		strncpy(watch_dir, d, sizeof(watch_dir) - 1);
		watch_len = strlen(watch_dir);
		while (watch_len > 1 && watch_dir[watch_len - 1] == '/') watch_dir[--watch_len] = 0;
	}
	const char *k = getenv("GWV_CP_K");
	if (k) crash_k = atol(k);
	const char *s = getenv("GWV_CP_SHORT");
	if (s && *s == '1') short_write = 1;
	const char *f = getenv("GWV_CP_FAIL");
	if (f && !strcmp(f, "once")) fail_mode = 1;
	if (f && !strcmp(f, "from")) fail_mode = 2;
	const char *l = getenv("GWV_CP_LOG");
	if (l && *l) {
		/* raw syscall: must not recurse into our own open() */
		log_fd = (int)syscall(SYS_openat, AT_FDCWD, l, O_WRONLY | O_CREAT | O_APPEND | O_CLOEXEC, 0644);
	}
}

static int is_watched_path(const char *p) {
	if (!watch_len || !p) return 0;
	char buf[PATH_MAX];
	const char *q = p;
	if (p[0] != '/') {
		/* relative path: resolve against cwd */
		if (!getcwd(buf, sizeof(buf))) return 0;
		size_t n = strlen(buf);
		if (n + 1 + strlen(p) + 1 > sizeof(buf)) return 0;
		buf[n] = '/';
		strcpy(buf + n + 1, p);
		q = buf;
	}
	if (strncmp(q, watch_dir, watch_len) != 0) return 0;
	return q[watch_len] == '/' || q[watch_len] == 0;
}

static void cp_log(const char *kind, const char *path) {
	if (log_fd < 0) return;
	char line[PATH_MAX + 64];
	int n = snprintf(line, sizeof(line), "%ld %s %s\n", counter, kind, path ? path : "?");
	if (n > 0) syscall(SYS_write, log_fd, line, (size_t)n);
}

/* called before every mutating call on a watched path; returns 1 when the caller must
 * perform a short write and then die (only for is_write), never returns when the process
 * has to die right here */
static int cp_point(const char *kind, const char *path, int is_write) {
	counter++;
	cp_log(kind, path);
	if (fail_mode) {
		if (is_write && crash_k > 0 && (counter == crash_k || (fail_mode == 2 && counter > crash_k))) return 2;
		return 0;
	}
	if (crash_k > 0 && counter == crash_k) {
		if (is_write && short_write) return 1;
		_exit(EXIT_CRASH);
	}
	return 0;
}

static int flags_mutate(int flags) {
	int acc = flags & O_ACCMODE;
	return acc == O_WRONLY || acc == O_RDWR || (flags & (O_CREAT | O_TRUNC | O_APPEND));
}

static void note_fd(int fd, const char *path) {
	if (fd >= 0 && fd < MAXFD) {
		watched_fd[fd] = 1;
		free(fd_path[fd]);
		fd_path[fd] = path ? strdup(path) : NULL;
	}
}

#define REAL(name, type) \
	static __typeof__(type) real_##name = NULL; \
	if (!real_##name) real_##name = (__typeof__(type))dlsym(RTLD_NEXT, #name)

typedef int (*open_t)(const char *, int, ...);
typedef int (*openat_t)(int, const char *, int, ...);
typedef int (*creat_t)(const char *, mode_t);

static int do_open(const char *name, open_t real, const char *path, int flags, mode_t mode) {
	cp_init();
	int w = flags_mutate(flags) && is_watched_path(path);
	if (w) cp_point(name, path, 0);
	int fd = real(path, flags, mode);
	if (w) note_fd(fd, path);
	return fd;
}

int open(const char *path, int flags, ...) {
	REAL(open, open_t);
	mode_t mode = 0;
	if (flags & (O_CREAT | O_TMPFILE)) { va_list ap; va_start(ap, flags); mode = va_arg(ap, mode_t); va_end(ap); }
	return do_open("open", real_open, path, flags, mode);
}

int open64(const char *path, int flags, ...) {
	REAL(open64, open_t);
	mode_t mode = 0;
	if (flags & (O_CREAT | O_TMPFILE)) { va_list ap; va_start(ap, flags); mode = va_arg(ap, mode_t); va_end(ap); }
	return do_open("open64", real_open64, path, flags, mode);
}

static int do_openat(const char *name, openat_t real, int dirfd, const char *path, int flags, mode_t mode) {
	cp_init();
	/* only absolute paths and AT_FDCWD-relative paths are classified; Rust std and LMDB use those */
	int w = flags_mutate(flags) && (path && (path[0] == '/' || dirfd == AT_FDCWD)) && is_watched_path(path);
	if (w) cp_point(name, path, 0);
	int fd = real(dirfd, path, flags, mode);
	if (w) note_fd(fd, path);
	return fd;
}

int openat(int dirfd, const char *path, int flags, ...) {
	REAL(openat, openat_t);
	mode_t mode = 0;
	if (flags & (O_CREAT | O_TMPFILE)) { va_list ap; va_start(ap, flags); mode = va_arg(ap, mode_t); va_end(ap); }
	return do_openat("openat", real_openat, dirfd, path, flags, mode);
}

int openat64(int dirfd, const char *path, int flags, ...) {
	REAL(openat64, openat_t);
	mode_t mode = 0;
	if (flags & (O_CREAT | O_TMPFILE)) { va_list ap; va_start(ap, flags); mode = va_arg(ap, mode_t); va_end(ap); }
	return do_openat("openat64", real_openat64, dirfd, path, flags, mode);
}

int creat(const char *path, mode_t mode) {
	REAL(creat, creat_t);
	cp_init();
	int w = is_watched_path(path);
	if (w) cp_point("creat", path, 0);
	int fd = real_creat(path, mode);
	if (w) note_fd(fd, path);
	return fd;
}

int creat64(const char *path, mode_t mode) {
	REAL(creat64, creat_t);
	cp_init();
	int w = is_watched_path(path);
	if (w) cp_point("creat64", path, 0);
	int fd = real_creat64(path, mode);
	if (w) note_fd(fd, path);
	return fd;
}

int close(int fd) {
	REAL(close, int (*)(int));
	if (fd >= 0 && fd < MAXFD && watched_fd[fd]) {
		watched_fd[fd] = 0;
		free(fd_path[fd]);
		fd_path[fd] = NULL;
	}
	return real_close(fd);
}

static int fd_is_watched(int fd) { return fd >= 0 && fd < MAXFD && watched_fd[fd]; }

ssize_t write(int fd, const void *buf, size_t n) {
	REAL(write, ssize_t (*)(int, const void *, size_t));
	if (fd_is_watched(fd)) {
		cp_init();
		int r = cp_point("write", fd_path[fd], 1);
		if (r == 2) { errno = ENOSPC; return -1; }
		if (r) {
			real_write(fd, buf, n / 2);
			_exit(EXIT_CRASH);
		}
	}
	return real_write(fd, buf, n);
}

ssize_t pwrite(int fd, const void *buf, size_t n, off_t off) {
	REAL(pwrite, ssize_t (*)(int, const void *, size_t, off_t));
	if (fd_is_watched(fd)) {
		cp_init();
		int r = cp_point("pwrite", fd_path[fd], 1);
		if (r == 2) { errno = ENOSPC; return -1; }
		if (r) {
			real_pwrite(fd, buf, n / 2, off);
			_exit(EXIT_CRASH);
		}
	}
	return real_pwrite(fd, buf, n, off);
}

ssize_t pwrite64(int fd, const void *buf, size_t n, off64_t off) {
	REAL(pwrite64, ssize_t (*)(int, const void *, size_t, off64_t));
	if (fd_is_watched(fd)) {
		cp_init();
		int r = cp_point("pwrite64", fd_path[fd], 1);
		if (r == 2) { errno = ENOSPC; return -1; }
		if (r) {
			real_pwrite64(fd, buf, n / 2, off);
			_exit(EXIT_CRASH);
		}
	}
	return real_pwrite64(fd, buf, n, off);
}

ssize_t writev(int fd, const struct iovec *iov, int cnt) {
	REAL(writev, ssize_t (*)(int, const struct iovec *, int));
	if (fd_is_watched(fd)) {
		cp_init();
		int r = cp_point("writev", fd_path[fd], 1);
		if (r == 2) { errno = ENOSPC; return -1; }
		if (r) {
			/* short write: first half of the first non-empty buffer */
			for (int i = 0; i < cnt; i++) {
				if (iov[i].iov_len) {
					syscall(SYS_write, fd, iov[i].iov_base, iov[i].iov_len / 2);
					break;
				}
			}
			_exit(EXIT_CRASH);
		}
	}
	return real_writev(fd, iov, cnt);
}

ssize_t pwritev(int fd, const struct iovec *iov, int cnt, off_t off) {
	REAL(pwritev, ssize_t (*)(int, const struct iovec *, int, off_t));
	if (fd_is_watched(fd)) {
		cp_init();
		int r = cp_point("pwritev", fd_path[fd], 1);
		if (r == 2) { errno = ENOSPC; return -1; }
		if (r) {
			for (int i = 0; i < cnt; i++) {
				if (iov[i].iov_len) {
					syscall(SYS_pwrite64, fd, iov[i].iov_base, iov[i].iov_len / 2, off);
					break;
				}
			}
			_exit(EXIT_CRASH);
		}
	}
	return real_pwritev(fd, iov, cnt, off);
}

ssize_t pwritev64(int fd, const struct iovec *iov, int cnt, off64_t off) {
	REAL(pwritev64, ssize_t (*)(int, const struct iovec *, int, off64_t));
	if (fd_is_watched(fd)) {
		cp_init();
		int r = cp_point("pwritev64", fd_path[fd], 1);
		if (r == 2) { errno = ENOSPC; return -1; }
		if (r) {
			for (int i = 0; i < cnt; i++) {
				if (iov[i].iov_len) {
					syscall(SYS_pwrite64, fd, iov[i].iov_base, iov[i].iov_len / 2, off);
					break;
				}
			}
			_exit(EXIT_CRASH);
		}
	}
	return real_pwritev64(fd, iov, cnt, off);
}

int rename(const char *a, const char *b) {
	REAL(rename, int (*)(const char *, const char *));
	cp_init();
	if (is_watched_path(a) || is_watched_path(b)) cp_point("rename", a, 0);
	return real_rename(a, b);
}

int renameat(int fa, const char *a, int fb, const char *b) {
	REAL(renameat, int (*)(int, const char *, int, const char *));
	cp_init();
	if (is_watched_path(a) || is_watched_path(b)) cp_point("renameat", a, 0);
	return real_renameat(fa, a, fb, b);
}

int renameat2(int fa, const char *a, int fb, const char *b, unsigned int fl) {
	REAL(renameat2, int (*)(int, const char *, int, const char *, unsigned int));
	cp_init();
	if (is_watched_path(a) || is_watched_path(b)) cp_point("renameat2", a, 0);
	return real_renameat2(fa, a, fb, b, fl);
}

int unlink(const char *p) {
	REAL(unlink, int (*)(const char *));
	cp_init();
	if (is_watched_path(p)) cp_point("unlink", p, 0);
	return real_unlink(p);
}

int unlinkat(int dfd, const char *p, int fl) {
	REAL(unlinkat, int (*)(int, const char *, int));
	cp_init();
	if ((p[0] == '/' || dfd == AT_FDCWD) && is_watched_path(p)) cp_point("unlinkat", p, 0);
	return real_unlinkat(dfd, p, fl);
}

int mkdir(const char *p, mode_t m) {
	REAL(mkdir, int (*)(const char *, mode_t));
	cp_init();
	if (is_watched_path(p)) {
		/* mkdir of an existing directory changes nothing: not a crash point */
		struct stat st;
		if (stat(p, &st) != 0) cp_point("mkdir", p, 0);
	}
	return real_mkdir(p, m);
}

int rmdir(const char *p) {
	REAL(rmdir, int (*)(const char *));
	cp_init();
	if (is_watched_path(p)) cp_point("rmdir", p, 0);
	return real_rmdir(p);
}

int fsync(int fd) {
	REAL(fsync, int (*)(int));
	if (fd_is_watched(fd)) { cp_init(); cp_point("fsync", fd_path[fd], 0); }
	return real_fsync(fd);
}

int fdatasync(int fd) {
	REAL(fdatasync, int (*)(int));
	if (fd_is_watched(fd)) { cp_init(); cp_point("fdatasync", fd_path[fd], 0); }
	return real_fdatasync(fd);
}

int ftruncate(int fd, off_t len) {
	REAL(ftruncate, int (*)(int, off_t));
	if (fd_is_watched(fd)) { cp_init(); cp_point("ftruncate", fd_path[fd], 0); }
	return real_ftruncate(fd, len);
}

int ftruncate64(int fd, off64_t len) {
	REAL(ftruncate64, int (*)(int, off64_t));
	if (fd_is_watched(fd)) { cp_init(); cp_point("ftruncate64", fd_path[fd], 0); }
	return real_ftruncate64(fd, len);
}

int truncate(const char *p, off_t len) {
	REAL(truncate, int (*)(const char *, off_t));
	cp_init();
	if (is_watched_path(p)) cp_point("truncate", p, 0);
	return real_truncate(p, len);
}
