#!/bin/bash
# tools/verify_seed.sh <mutant worktree>  — re-run the demonstration with and without the change
W="${1:?worktree}"; cd "$W" || exit 2
CMD="$(python3 -c "import json;print(json.load(open('OUT/meta.json'))['demo_command'])" | sed 's/^cd [^&]*&& //')"
git apply --check -R OUT/patch.diff 2>/dev/null || git apply OUT/patch.diff
echo "## with change: $CMD"
( eval "$CMD" ) > OUT/verify_with.log 2>&1; A=$?
git apply -R OUT/patch.diff || exit 2
echo "## without change"
( eval "$CMD" ) > OUT/verify_without.log 2>&1; B=$?
git apply OUT/patch.diff
echo "with_change_exit=$A without_change_exit=$B"
[ $A -ne 0 ] && [ $B -eq 0 ] && echo CONFIRMED || echo NOT-CONFIRMED
